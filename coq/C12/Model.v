(* C12 - executable model of nipy/algorithms/graph/forest.py (Forest) and of the
   morphology of nipy/algorithms/graph/field.py (Field) + _graph.pyx (dilation).

   Forest: a parent array is a [list nat] p, V = length p, par p i = p[i].
   Field : a graph is its edge list [list (nat*nat)] (directed pairs, as
           self.edges), a field column is a [list Z] (exact scaled values;
           max/min/compare only, so any order-preserving scaling is faithful).
   Definitions only; proofs are in Proofs*.v.                                  *)
From Coq Require Import ZArith List Bool Arith Lia QArith.
Import ListNotations.
Close Scope Q_scope.

(* ------------------------------------------------------------------ *)
(** * Forest                                                           *)

Definition par (p : list nat) (i : nat) : nat := nth i p 0.

Inductive verdict := Accept | RefuseValue | RefuseIndex.
Definition verdict_eqb (a b : verdict) : bool :=
  match a, b with
  | Accept, Accept | RefuseValue, RefuseValue | RefuseIndex, RefuseIndex => true
  | _, _ => false
  end.

(* Forest.check, inner while loop (forest.py:177-186):
     while parents[w] != w: w = parents[w]; if w == v: fail; q += 1; if q > V: fail
   [fuel] = V + 1 - q.  None = IndexError (parents[w] with w >= V).            *)
Fixpoint walk (p : list nat) (v w fuel : nat) : option bool :=
  match fuel with
  | 0 => Some false
  | S f =>
      match nth_error p w with
      | None => None
      | Some w' =>
          if w' =? w then Some true
          else if w' =? v then Some false
          else walk p v w' f
      end
  end.

Fixpoint check_from (p : list nat) (vs : list nat) : option bool :=
  match vs with
  | [] => Some true
  | v :: r =>
      match walk p v v (S (length p)) with
      | None => None
      | Some false => Some false
      | Some true => check_from p r
      end
  end.

(* Forest.check (forest.py:161-190), including the V == 1 shortcut *)
Definition check (p : list nat) : option bool :=
  if length p =? 1 then Some true else check_from p (seq 0 (length p)).

(* Forest.__init__ with an explicit parent array of non-negative entries
   (forest.py:52-85): V < 1, size mismatch, parents.max() > V - 1 -> ValueError
   (the `parents.min() < 0` half of the guard concerns negative entries, which
   [list nat] cannot express; the harness checks it directly on the implementation) *)
Definition ctor (V : nat) (p : list nat) : verdict :=
  if V <? 1 then RefuseValue
  else if negb (length p =? V) then RefuseValue
  else if V - 1 <? list_max p then RefuseValue
  else match check p with
       | Some true => Accept
       | Some false => RefuseValue
       | None => RefuseIndex
       end.

(* compute_children: rows of the lil matrix of the edges (parent -> child) *)
Definition children (p : list nat) (v : nat) : list nat :=
  filter (fun c => (par p c =? v) && negb (c =? v)) (seq 0 (length p)).
Definition all_children (p : list nat) : list (list nat) :=
  map (children p) (seq 0 (length p)).

(* isleaf: leaves[edges[weights > 0, 1]] = 0, the positive edges being (i, parents[i]) for non-roots i *)
Definition isleaf (p : list nat) (v : nat) : bool :=
  negb (existsb (fun i => negb (par p i =? i) && (par p i =? v)) (seq 0 (length p))).
Definition isroot (p : list nat) (v : nat) : bool := par p v =? v.

(* get_descendants: recursion over children; the result is sorted (desc.sort()).
   The sort is modelled by filtering 0..V-1 on membership (equal to sorting
   whenever the raw list has no repetition, which holds for accepted forests). *)
Fixpoint desc_raw (p : list nat) (fuel v : nat) : list nat :=
  v :: match fuel with
       | 0 => []
       | S f => flat_map (desc_raw p f) (children p v)
       end.
Definition memb (x : nat) (l : list nat) : bool := existsb (Nat.eqb x) l.
Definition descendants (p : list nat) (v : nat) : list nat :=
  filter (fun d => memb d (desc_raw p (length p) v)) (seq 0 (length p)).

(* get_descendants(v, exclude_self=True): v is removed from the final list only (not inside the
   recursion); a vertex without children returns [] (after commit b59d970) *)
Definition descendants_excl (p : list nat) (v : nat) : list nat :=
  filter (fun d => negb (d =? v)) (descendants p v).

(* depth_from_leaves (forest.py:289-305) exactly as written: at most V in-place
   sweeps in index order, stopping when a sweep changes nothing
   (`(dc == depth).all()`). *)
Fixpoint set_nth {A} (i : nat) (x : A) (l : list A) : list A :=
  match l, i with
  | [], _ => []
  | _ :: r, 0 => x :: r
  | a :: r, S k => a :: set_nth k x r
  end.
Definition zat (d : list Z) (i : nat) : Z := nth i d 0%Z.
Definition zmaxl (l : list Z) : Z :=
  match l with [] => 0%Z | a :: r => fold_left Z.max r a end.

Definition sweep_step (p : list nat) (d : list Z) (i : nat) : list Z :=
  if par p i =? i then d
  else set_nth (par p i) (Z.max (zat d i + 1) (zat d (par p i))) d.
Definition sweep (p : list nat) (d : list Z) : list Z :=
  fold_left (sweep_step p) (seq 0 (length p)) d.
Fixpoint zl_eqb (a b : list Z) : bool :=
  match a, b with
  | [], [] => true
  | x :: a', y :: b' => (x =? y)%Z && zl_eqb a' b'
  | _, _ => false
  end.
Fixpoint depth_loop (p : list nat) (d : list Z) (fuel : nat) : list Z :=
  match fuel with
  | 0 => d
  | S f => let d' := sweep p d in
           if zl_eqb d d' then d' else depth_loop p d' f
  end.
Definition depth_init (p : list nat) : list Z :=
  map (fun v => if isleaf p v then 0%Z else (-1)%Z) (seq 0 (length p)).
Definition depth_from_leaves (p : list nat) : list Z :=
  depth_loop p (depth_init p) (length p).
Definition tree_depth (p : list nat) : Z := (zmaxl (depth_from_leaves p) + 1)%Z.

(* the stopping rule before commit 762e2f3 (stop when the MAXIMUM is unchanged);
   kept to state what the repair changed *)
Fixpoint depth_loop_oldrule (p : list nat) (d : list Z) (fuel : nat) : list Z :=
  match fuel with
  | 0 => d
  | S f => let d' := sweep p d in
           if (zmaxl d =? zmaxl d')%Z then d' else depth_loop_oldrule p d' f
  end.
Definition depth_oldrule (p : list nat) : list Z :=
  depth_loop_oldrule p (depth_init p) (length p).

(* reorder_from_leaves_to_roots: order = argsort(depth) is an oracle value
   (NumPy's sort is not specified to be stable); iorder[order[i]] = i;
   new parents = iorder[parents[order]]. *)
Fixpoint index_of (x : nat) (l : list nat) : nat :=
  match l with
  | [] => 0
  | a :: r => if a =? x then 0 else S (index_of x r)
  end.
Definition reorder_parents (p order : list nat) : list nat :=
  map (fun i => index_of (par p (nth i order 0)) order) (seq 0 (length p)).
Definition is_perm_of_range (n : nat) (l : list nat) : bool :=
  (length l =? n) && forallb (fun x => memb x l) (seq 0 n).
Fixpoint sorted_by (d : list Z) (l : list nat) : bool :=
  match l with
  | [] => true
  | a :: r => match r with
              | [] => true
              | b :: _ => (zat d a <=? zat d b)%Z && sorted_by d r
              end
  end.
Definition argsort_ok (d : list Z) (order : list nat) : bool :=
  is_perm_of_range (length d) order && sorted_by d order.

(* subforest (forest.py:216-243) *)
Definition count_true (l : list bool) : nat := length (filter (fun b => b) l).
Definition renumb (valid : list bool) (x : nat) : nat := count_true (firstn x valid).
Definition orphaned (p : list nat) (valid : list bool) : list nat :=
  map (fun j => if nth (par p j) valid false then par p j else j) (seq 0 (length p)).
Definition keep {A} (valid : list bool) (l : list A) : list A :=
  map snd (filter (fun bx => fst bx) (combine valid l)).
Definition subforest_parents (p : list nat) (valid : list bool) : list nat :=
  map (renumb valid) (keep valid (orphaned p valid)).
Definition subforest (p : list nat) (valid : list bool) : option (list nat) :=
  if negb (length valid =? length p) then None
  else let q := subforest_parents p valid in
       match ctor (count_true valid) q with
       | Accept => Some q
       | _ => None
       end.
Definition simple_valid (p : list nat) : list bool :=
  map (fun k => negb (length (children p k) =? 1)) (seq 0 (length p)).
Definition merge_simple_branches (p : list nat) : option (list nat) :=
  subforest p (simple_valid p).

(* propagate_upward_and (forest.py:407-428) *)
Definition and_step (p : list nat) (pr : list bool) (i : nat) : list bool :=
  if nth i pr true then pr else set_nth (par p i) false pr.
Definition and_sweep (p : list nat) (pr : list bool) : list bool :=
  fold_left (and_step p) (seq 0 (length p)) pr.
Fixpoint iter_n {A} (n : nat) (f : A -> A) (x : A) : A :=
  match n with 0 => x | S k => iter_n k f (f x) end.
Definition propagate_upward_and (p : list nat) (prop : list bool) : list bool :=
  let pr0 := map (fun i => if isleaf p i then nth i prop false else true) (seq 0 (length p)) in
  iter_n (Z.to_nat (tree_depth p)) (and_sweep p) pr0.

(* propagate_upward (forest.py:430-454) *)
Definition up_step (p : list nat) (depth : list Z) (j : Z) (l : list Z) (i : nat) : list Z :=
  if (zat depth i =? j)%Z then
    match map (zat l) (children p i) with
    | [] => l
    | a :: r => if forallb (Z.eqb a) r then set_nth i a l else l
    end
  else l.
Definition propagate_upward (p : list nat) (label : list Z) : list Z :=
  let depth := depth_from_leaves p in
  fold_left (fun l j => fold_left (up_step p depth (Z.of_nat j)) (seq 0 (length p)) l)
            (seq 1 (Z.to_nat (zmaxl depth))) label.

(* ------------------------------------------------------------------ *)
(** * Field morphology                                                 *)

Definition edge := (nat * nat)%type.
Definition adjb (E : list edge) (i j : nat) : bool :=
  existsb (fun e => (fst e =? i) && (snd e =? j)) E.
(* rows of to_coo_matrix().tolil(): sorted distinct columns of row i *)
Definition row (E : list edge) (V i : nat) : list nat := filter (adjb E i) (seq 0 V).
(* rows of adj + identity *)
Definition row_self (E : list edge) (V i : nat) : list nat :=
  filter (fun j => (j =? i) || adjb E i j) (seq 0 V).
(* compact_neighb: the neighbours of i, one per edge (repetitions kept) *)
Definition nbr_list (E : list edge) (i : nat) : list nat :=
  map snd (filter (fun e => fst e =? i) E).

(* _graph.pyx dilation, one feature column: fmax = field[i]; for j: if field[nb] > fmax: fmax = field[nb] *)
Definition dil_fast_at (E : list edge) (f : list Z) (i : nat) : Z :=
  fold_left (fun m j => if (zat f j >? m)%Z then zat f j else m) (nbr_list E i) (zat f i).
Definition dilation_fast (E : list edge) (f : list Z) : list Z :=
  map (dil_fast_at E f) (seq 0 (length f)).
(* generic path: np.array([field[row].max(0) for row in rows]) over rows of adj + I *)
Definition dilation_generic (E : list edge) (f : list Z) : list Z :=
  map (fun i => zmaxl (map (zat f) (row_self E (length f) i))) (seq 0 (length f)).

Definition zminl (l : list Z) : option Z :=
  match l with [] => None | a :: r => Some (fold_left Z.min r a) end.
Fixpoint sequence {A} (l : list (option A)) : option (list A) :=
  match l with
  | [] => Some []
  | None :: _ => None
  | Some a :: r => match sequence r with Some r' => Some (a :: r') | None => None end
  end.
(* Field.erosion as written (after commit 9c91412): minimum over the rows of
   adj + identity, i.e. the vertex itself belongs to its neighbourhood. *)
Definition erosion (E : list edge) (f : list Z) : list Z :=
  map (fun i => match zminl (map (zat f) (row_self E (length f) i)) with Some m => m | None => zat f i end)
      (seq 0 (length f)).
(* the erosion before that commit: vertex excluded, an empty row raises (None) *)
Definition erosion_excl (E : list edge) (f : list Z) : option (list Z) :=
  sequence (map (fun i => zminl (map (zat f) (row E (length f) i))) (seq 0 (length f))).

(* opening = erosion^n then dilation^n; closing = dilation^n then erosion^n
   (dilation through the default, compiled path) *)
Definition opening (E : list edge) (n : nat) (f : list Z) : list Z :=
  iter_n n (dilation_fast E) (iter_n n (erosion E) f).
Definition closing (E : list edge) (n : nat) (f : list Z) : list Z :=
  iter_n n (erosion E) (iter_n n (dilation_fast E) f).

(* highest_neighbor(refdim): row[field[row, refdim].argmax()] over rows of adj + I (first maximum wins); f = column refdim *)
Fixpoint argmax_first (f : list Z) (l : list nat) (best : nat) : nat :=
  match l with
  | [] => best
  | j :: r => argmax_first f r (if (zat f j >? zat f best)%Z then j else best)
  end.
Definition highest_neighbor (E : list edge) (f : list Z) : list nat :=
  map (fun i => match row_self E (length f) i with
                | [] => i
                | j :: r => argmax_first f r j
                end) (seq 0 (length f)).

(* ------------------------------------------------------------------ *)
(** * custom_watershed (field.py:306-356), one feature column                *)

(* `th`: None = -inf.  The code thresholds through subfield(), which renumbers the
   retained vertices in increasing order; every step below (first maximum of a sorted
   row, components numbered by their smallest vertex, first masked argmax) only depends
   on the ORDER of the vertices, so the model works in the original numbering. *)
Definition aboveb (th : option Z) (x : Z) : bool :=
  match th with None => true | Some t => (t <=? x)%Z end.
(* row of adj + I in the thresholded sub-graph *)
Definition nbhd_th (E : list edge) (f : list Z) (th : option Z) (i : nat) : list nat :=
  filter (fun j => ((j =? i) || adjb E i j) && aboveb th (zat f j)) (seq 0 (length f)).
(* sf.highest_neighbor(refdim) *)
Definition hn_at (E : list edge) (f : list Z) (th : option Z) (i : nat) : nat :=
  match nbhd_th E f th i with [] => i | j :: r => argmax_first f r j end.
(* the auxiliary graph i <-> hneighb[i] as a parent array (vertices below the threshold: self) *)
Definition ws_parents (E : list edge) (f : list Z) (th : option Z) : list nat :=
  map (fun i => if aboveb th (zat f i) then hn_at E f th i else i) (seq 0 (length f)).
(* the fixed point reached by following the highest neighbour (V steps are enough) *)
Definition ws_root (E : list edge) (f : list Z) (th : option Z) (i : nat) : nat :=
  iter_n (length f) (par (ws_parents E f th)) i.
(* first occurrences, in order *)
Fixpoint uniq (l : list nat) : list nat :=
  match l with [] => [] | x :: r => x :: filter (fun y => negb (y =? x)) (uniq r) end.
Definition above_list (f : list Z) (th : option Z) : list nat :=
  filter (fun i => aboveb th (zat f i)) (seq 0 (length f)).
(* lil_cc numbers the components by their smallest vertex *)
Definition ws_roots (E : list edge) (f : list Z) (th : option Z) : list nat :=
  uniq (map (ws_root E f th) (above_list f th)).
Definition ws_label_nat (E : list edge) (f : list Z) (th : option Z) (i : nat) : nat :=
  index_of (ws_root E f th i) (ws_roots E f th).
Definition ws_label (E : list edge) (f : list Z) (th : option Z) (i : nat) : Z :=
  if aboveb th (zat f i) then Z.of_nat (ws_label_nat E f th i) else (-1)%Z.
Definition ws_members (E : list edge) (f : list Z) (th : option Z) (c : nat) : list nat :=
  filter (fun m => ws_label_nat E f th m =? c) (above_list f th).
(* ma.array(values, mask=(label != c)).argmax(): first maximum among the members *)
Definition ws_idx (E : list edge) (f : list Z) (th : option Z) (c : nat) : nat :=
  match ws_members E f th c with [] => 0 | m :: r => argmax_first f r m end.
Definition custom_watershed (E : list edge) (f : list Z) (th : option Z) : option (list nat * list Z) :=
  match above_list f th with
  | [] => None          (* subfield() returns None: the call raises *)
  | _ => Some (map (ws_idx E f th) (seq 0 (length (ws_roots E f th))),
               map (ws_label E f th) (seq 0 (length f)))
  end.

(* the same function with the shared tables (parents, roots, labels) computed once; this is what
   the correspondence evaluates (Proofs3.custom_watershed_fast_eq : equal to custom_watershed) *)
Definition custom_watershed_fast (E : list edge) (f : list Z) (th : option Z) : option (list nat * list Z) :=
  match above_list f th with
  | [] => None
  | _ =>
      let V := length f in
      let al := above_list f th in
      let p := ws_parents E f th in
      let rootl := map (fun i => iter_n V (par p) i) (seq 0 V) in
      let roots := uniq (map (fun i => nth i rootl 0) al) in
      let labn := map (fun i => index_of (nth i rootl 0) roots) (seq 0 V) in
      Some (map (fun c => match filter (fun m => nth m labn 0 =? c) al with [] => 0 | m :: r => argmax_first f r m end)
                (seq 0 (length roots)),
            map (fun i => if aboveb th (zat f i) then Z.of_nat (nth i labn 0) else (-1)%Z) (seq 0 V))
  end.

(* ------------------------------------------------------------------ *)
(** * threshold_bifurcations (field.py:358-436), one feature column          *)

(* As for the watershed, the model works in the original vertex numbering.  `order` =
   np.argsort(-initial_field) mapped back to original indices is an ORACLE value (the
   order of ties is unspecified); [bif_order_ok] states what is assumed of it. *)
Record bst := mk_bst { b_ll : list Z; b_par : list nat; b_root : list nat; b_q : nat }.
Definition set_all (idxs : list nat) (v : nat) (l : list nat) : list nat :=
  fold_left (fun acc c => set_nth c v acc) idxs l.
(* np.unique(root[np.unique(llabel[rows[i]]) without -1]) *)
Definition bif_nlabel (E : list edge) (V : nat) (st : bst) (i : nat) : list nat :=
  let nbl := filter (fun z => (0 <=? z)%Z) (map (zat (b_ll st)) (row E V i)) in
  let roots := map (fun z => nth (Z.to_nat z) (b_root st) 0) nbl in
  filter (fun c => memb c roots) (seq 0 (length (b_root st))).
Definition bif_step (E : list edge) (V : nat) (st : bst) (i : nat) : bst :=
  let q := b_q st in
  match bif_nlabel E V st i with
  | [] => mk_bst (set_nth i (Z.of_nat q) (b_ll st)) (b_par st) (b_root st) (S q)         (* new component *)
  | [c] => mk_bst (set_nth i (Z.of_nat c) (b_ll st)) (b_par st) (b_root st) q             (* regular point *)
  | labs =>                                                                              (* saddle point *)
      let root1 := set_all labs q (b_root st) in
      let root2 := fold_left (fun r j => map (fun x => if x =? j then q else x) r) labs root1 in
      mk_bst (set_nth i (Z.of_nat q) (b_ll st)) (set_all labs q (b_par st)) root2 (S q)
  end.
Definition bif_init (V : nat) : bst := mk_bst (repeat (-1)%Z V) (seq 0 (2 * V)) (seq 0 (2 * V)) 0.
Definition bif_run (E : list edge) (f : list Z) (order : list nat) : bst :=
  fold_left (bif_step E (length f)) order (bif_init (length f)).
Definition bif_idx (f : list Z) (ll : list Z) (c : nat) : nat :=
  match filter (fun m => (zat ll m =? Z.of_nat c)%Z) (seq 0 (length f)) with
  | [] => 0 | m :: r => argmax_first f r m end.
Definition threshold_bifurcations (E : list edge) (f : list Z) (th : option Z) (order : list nat)
  : option (list nat * list nat * list Z) :=
  match above_list f th with
  | [] => None
  | _ => let st := bif_run E f order in
         Some (map (bif_idx f (b_ll st)) (seq 0 (b_q st)), firstn (b_q st) (b_par st), b_ll st)
  end.
Fixpoint sorted_desc (f : list Z) (l : list nat) : bool :=
  match l with
  | [] => true
  | a :: r => match r with [] => true | b :: _ => (zat f b <=? zat f a)%Z && sorted_desc f r end
  end.
Definition bif_order_ok (f : list Z) (th : option Z) (order : list nat) : bool :=
  (length order =? length (above_list f th))
  && forallb (fun x => memb x order) (above_list f th)
  && forallb (fun x => memb x (above_list f th)) order
  && sorted_desc f order.

(* ------------------------------------------------------------------ *)
(** * diffusion (field.py:289-309), one feature column, exact rationals       *)

(* adj = to_coo_matrix(): entry (i, j) is the SUM of the weights of the edges (i, j)
   (scipy adds duplicate coordinates); each iteration rebinds field = adj * field,
   computed in float64 whatever the dtype of the stored field. *)
Definition wedge := (nat * nat * Q)%type.
Definition qat (f : list Q) (j : nat) : Q := nth j f 0%Q.
Definition row_dot (W : list wedge) (f : list Q) (i : nat) : Q :=
  fold_left (fun acc e => if fst (fst e) =? i then Qred (acc + snd e * qat f (snd (fst e)))%Q else acc) W 0%Q.
Definition diffuse1 (W : list wedge) (f : list Q) : list Q := map (row_dot W f) (seq 0 (length f)).
Definition diffusion (W : list wedge) (n : nat) (f : list Q) : list Q := iter_n n (diffuse1 W) f.

(* ------------------------------------------------------------------ *)
(** * comparison helpers for the correspondence                        *)
Fixpoint nl_eqb (a b : list nat) : bool :=
  match a, b with
  | [], [] => true
  | x :: a', y :: b' => (x =? y) && nl_eqb a' b'
  | _, _ => false
  end.
Fixpoint nll_eqb (a b : list (list nat)) : bool :=
  match a, b with
  | [], [] => true
  | x :: a', y :: b' => nl_eqb x y && nll_eqb a' b'
  | _, _ => false
  end.
Fixpoint bl_eqb (a b : list bool) : bool :=
  match a, b with
  | [], [] => true
  | x :: a', y :: b' => Bool.eqb x y && bl_eqb a' b'
  | _, _ => false
  end.
Definition onl_eqb (a b : option (list nat)) : bool :=
  match a, b with Some x, Some y => nl_eqb x y | None, None => true | _, _ => false end.
Definition ozl_eqb (a b : option (list Z)) : bool :=
  match a, b with Some x, Some y => zl_eqb x y | None, None => true | _, _ => false end.

(* all parameter-free queries of an accepted forest in one comparison *)
Definition forest_queries_eqb (p : list nat)
   (ch : list (list nat)) (leaf root : list bool) (depth : list Z) (td : Z)
   (desc : list (list nat)) (msb : option (list nat)) : bool :=
  verdict_eqb (ctor (length p) p) Accept
  && nll_eqb (all_children p) ch
  && bl_eqb (map (isleaf p) (seq 0 (length p))) leaf
  && bl_eqb (map (isroot p) (seq 0 (length p))) root
  && zl_eqb (depth_from_leaves p) depth
  && (tree_depth p =? td)%Z
  && nll_eqb (map (descendants p) (seq 0 (length p))) desc
  && onl_eqb (merge_simple_branches p) msb.

Definition reorder_eqb (p order newp : list nat) : bool :=
  argsort_ok (depth_from_leaves p) order && nl_eqb (reorder_parents p order) newp.

Definition ws_eqb (a : option (list nat * list Z)) (b : option (list nat * list Z)) : bool :=
  match a, b with
  | Some (i1, l1), Some (i2, l2) => nl_eqb i1 i2 && zl_eqb l1 l2
  | None, None => true
  | _, _ => false
  end.

Definition bif_eqb (a b : option (list nat * list nat * list Z)) : bool :=
  match a, b with
  | Some (i1, p1, l1), Some (i2, p2, l2) => nl_eqb i1 i2 && nl_eqb p1 p2 && zl_eqb l1 l2
  | None, None => true
  | _, _ => false
  end.
