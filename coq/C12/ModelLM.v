(* C12 - Field.local_maxima / get_local_maxima (field.py), one feature column.
   Executable definitions only.  Added in round 6.

   The code thresholds through subfield(), which keeps the edges whose two ends reach the
   threshold and renumbers the retained vertices monotonically; the loop below only uses
   neighbourhood maxima, so the model works in the original numbering: vertices under the
   threshold have no edge in [lm_edges], keep their value under dilation (they are never
   `non_max`) and get depth 0 at the end. *)
From Coq Require Import ZArith List Bool Arith Lia.
From NV.C12 Require Import Model.
Import ListNotations.

(* sf = self.subfield(field >= th): edges with both ends retained *)
Definition lm_edges (E : list edge) (f : list Z) (th : option Z) : list edge :=
  filter (fun e => aboveb th (zat f (fst e)) && aboveb th (zat f (snd e))) E.

Definition nat_at (l : list nat) (i : nat) : nat := nth i l 0.

(* non_max = sf.field > dilated_field_old *)
Definition lm_nonmax (g' g : list Z) (i : nat) : bool := (zat g' i >? zat g i)%Z.
(* ldepth[non_max] = np.minimum(k, ldepth[non_max]) *)
Definition lm_ld1 (g' g : list Z) (ld : list nat) (k : nat) : list nat :=
  map (fun i => if lm_nonmax g' g i then Nat.min k (nat_at ld i) else nat_at ld i) (seq 0 (length g)).
(* ldepth[sf.field == initial_field] = np.maximum(k, 1) *)
Definition lm_final (g' f0 : list Z) (ld1 : list nat) (k : nat) : list nat :=
  map (fun i => if (zat g' i =? zat f0 i)%Z then Nat.max k 1 else nat_at ld1 i) (seq 0 (length g')).

(* for k in range(sf.V): ... ; fuel = number of remaining values of k *)
Fixpoint lm_loop (E' : list edge) (f0 g : list Z) (ld : list nat) (k fuel : nat) : list nat :=
  match fuel with
  | 0 => ld
  | S fuel' =>
      let g' := dilation_fast E' g in                       (* sf.dilation(1): compiled path *)
      let ld1 := lm_ld1 g' g ld k in
      if forallb (fun i => negb (lm_nonmax g' g i)) (seq 0 (length g))
      then lm_final g' f0 ld1 k                              (* (non_max == False).all(): break *)
      else lm_loop E' f0 g' ld1 (S k) fuel'
  end.

(* depth array of local_maxima(refdim, th); None = the AttributeError raised when
   subfield() returns None (no vertex reaches the threshold; known finding) *)
Definition local_maxima (E : list edge) (f : list Z) (th : option Z) : option (list nat) :=
  let n := length (above_list f th) in
  if n =? 0 then None
  else
    let ld := lm_loop (lm_edges E f th) f f (repeat n (length f)) 0 n in
    Some (map (fun i => if aboveb th (zat f i) then nat_at ld i else 0) (seq 0 (length f))).

(* get_local_maxima: idx = np.where(depth_all), depth = depth_all[idx] *)
Definition get_local_maxima (E : list edge) (f : list Z) (th : option Z) : option (list nat * list nat) :=
  match local_maxima E f th with
  | None => None
  | Some d =>
      let idx := filter (fun i => negb (nat_at d i =? 0)) (seq 0 (length d)) in
      Some (idx, map (nat_at d) idx)
  end.

Definition lm_eqb (a b : option (list nat)) : bool := onl_eqb a b.
Definition glm_eqb (a b : option (list nat * list nat)) : bool :=
  match a, b with
  | None, None => true
  | Some (i1, d1), Some (i2, d2) => nl_eqb i1 i2 && nl_eqb d1 d2
  | _, _ => false
  end.
