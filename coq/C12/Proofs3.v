(* C12 - proofs about the custom_watershed model: following the highest neighbour
   always ends in a fixed point, each basin has exactly one, and it is the reported index. *)
From Coq Require Import ZArith List Bool Arith Lia Wf_nat.
From NV.C12 Require Import Model Proofs1 Proofs2.
Import ListNotations.

(* ------------------------------------------------------------------ *)
(** * increasing lists and the first maximum *)

Fixpoint incr (l : list nat) : Prop :=
  match l with [] => True | x :: r => (forall y, In y r -> x < y) /\ incr r end.

Lemma incr_seq n : forall a, incr (seq a n).
Proof.
  induction n as [|n IH]; intros a; simpl; [exact I|]. split; [|apply IH].
  intros y Hy. apply in_seq in Hy. lia.
Qed.

Lemma incr_filter g l : incr l -> incr (filter g l).
Proof.
  induction l as [|x r IH]; intros H; simpl; [exact I|]. destruct H as [H1 H2].
  destruct (g x); [|apply IH; exact H2]. split; [|apply IH; exact H2].
  intros y Hy. apply filter_In in Hy. apply H1. tauto.
Qed.

Lemma incr_app_right l1 : forall r l2, incr (l1 ++ r :: l2) -> forall x, In x l2 -> r < x.
Proof.
  induction l1 as [|a l1 IH]; intros r l2 H x Hx; simpl in H.
  - destruct H as [H _]. apply H. exact Hx.
  - destruct H as [_ H]. apply (IH r l2 H x Hx).
Qed.

Lemma argmax_first_spec f : forall l b,
  (argmax_first f l b = b /\ forall x, In x l -> (zat f x <= zat f b)%Z) \/
  (exists l1 l2, l = l1 ++ argmax_first f l b :: l2 /\ (zat f b < zat f (argmax_first f l b))%Z /\
     (forall x, In x l1 -> (zat f x < zat f (argmax_first f l b))%Z) /\
     (forall x, In x l2 -> (zat f x <= zat f (argmax_first f l b))%Z)).
Proof.
  induction l as [|j l IH]; intros b; cbn [argmax_first].
  - left. split; [reflexivity|intros x []].
  - destruct (Z.gtb_spec (zat f j) (zat f b)) as [G|G].
    + destruct (IH j) as [[Er Hl]|[l1 [l2 [El [Hb [H1 H2]]]]]].
      * right. exists [], l. rewrite Er. split; [reflexivity|]. split; [lia|]. split; [intros x []|exact Hl].
      * right. exists (j :: l1), l2. split; [simpl; f_equal; exact El|]. split; [lia|]. split; [|exact H2].
        intros x [<-|Hx]; [exact Hb|apply H1; exact Hx].
    + destruct (IH b) as [[Er Hl]|[l1 [l2 [El [Hb [H1 H2]]]]]].
      * left. split; [exact Er|]. intros x [<-|Hx]; [lia|apply Hl; exact Hx].
      * right. exists (j :: l1), l2. split; [simpl; f_equal; exact El|]. split; [exact Hb|]. split; [|exact H2].
        intros x [<-|Hx]; [lia|apply H1; exact Hx].
Qed.

(* on an increasing list b :: l the result is a member, a maximum, and the SMALLEST index among the maxima *)
Lemma argmax_first_props f b l : incr (b :: l) ->
  In (argmax_first f l b) (b :: l) /\
  (forall x, In x (b :: l) -> (zat f x <= zat f (argmax_first f l b))%Z) /\
  (forall x, In x (b :: l) -> zat f x = zat f (argmax_first f l b) -> argmax_first f l b <= x).
Proof.
  intros [Hb Hl]. destruct (argmax_first_spec f l b) as [[Er Hle]|[l1 [l2 [El [Hlt [H1 H2]]]]]].
  - rewrite Er. split; [left; reflexivity|]. split.
    + intros x [<-|Hx]; [lia|apply Hle; exact Hx].
    + intros x [<-|Hx] _; [lia|]. specialize (Hb x Hx). lia.
  - set (r := argmax_first f l b) in *. split; [right; rewrite El; apply in_or_app; right; left; reflexivity|]. split.
    + intros x [<-|Hx]; [lia|]. rewrite El in Hx. apply in_app_or in Hx. destruct Hx as [Hx|[<-|Hx]].
      * specialize (H1 x Hx). lia.
      * lia.
      * apply H2. exact Hx.
    + intros x [<-|Hx] Ex; [lia|]. rewrite El in Hx. apply in_app_or in Hx. destruct Hx as [Hx|[<-|Hx]].
      * specialize (H1 x Hx). lia.
      * lia.
      * rewrite El in Hl. pose proof (incr_app_right l1 r l2 Hl x Hx). lia.
Qed.

Lemma uniq_In l : forall x, In x (uniq l) <-> In x l.
Proof.
  induction l as [|a r IH]; intros x; simpl; [tauto|]. rewrite filter_In, IH, negb_true_iff, Nat.eqb_neq.
  destruct (Nat.eq_dec a x); [subst; tauto|]. split; [intros [H|[H _]]; tauto|intros [H|H]; [tauto|right; split; congruence]].
Qed.

Lemma iter_n_par_up p : forall k v, iter_n k (par p) v = up p k v.
Proof. induction k as [|k IH]; intros v; simpl; [reflexivity|apply IH]. Qed.

(* ------------------------------------------------------------------ *)
(** * the watershed of one field column *)

Section WS.
  Variable E : list edge.
  Variable f : list Z.
  Variable th : option Z.
  Let V := length f.
  Let p := ws_parents E f th.
  Definition above (i : nat) : Prop := aboveb th (zat f i) = true.

  Lemma p_length : length p = V.
  Proof. unfold p, ws_parents. rewrite map_length, seq_length. reflexivity. Qed.

  Lemma par_p i : i < V -> par p i = if aboveb th (zat f i) then hn_at E f th i else i.
  Proof. intros Hi. unfold par, p, ws_parents. rewrite nth_map_seq0 by exact Hi. reflexivity. Qed.

  Lemma nbhd_spec i j : In j (nbhd_th E f th i) <-> j < V /\ (j = i \/ adjb E i j = true) /\ above j.
  Proof.
    unfold nbhd_th, above. rewrite filter_In, in_seq, andb_true_iff, orb_true_iff, Nat.eqb_eq. fold V.
    split; [intros [H1 [H2 H3]]; repeat split; [lia|exact H2|exact H3]|intros [H1 [H2 H3]]; repeat split; [lia|lia|exact H2|exact H3]].
  Qed.

  Lemma nbhd_incr i : incr (nbhd_th E f th i).
  Proof. unfold nbhd_th. apply incr_filter, incr_seq. Qed.

  (* highest neighbour: in the closed thresholded neighbourhood, maximal, smallest index among the maxima *)
  Lemma hn_props i : i < V -> above i ->
    In (hn_at E f th i) (nbhd_th E f th i) /\
    (forall j, In j (nbhd_th E f th i) -> (zat f j <= zat f (hn_at E f th i))%Z) /\
    (forall j, In j (nbhd_th E f th i) -> zat f j = zat f (hn_at E f th i) -> hn_at E f th i <= j).
  Proof.
    intros Hi Ha. unfold hn_at. pose proof (nbhd_incr i) as HI.
    assert (Hin : In i (nbhd_th E f th i)) by (apply nbhd_spec; repeat split; [exact Hi|left; reflexivity|exact Ha]).
    destruct (nbhd_th E f th i) as [|b l]; [contradiction|]. apply argmax_first_props. exact HI.
  Qed.

  Lemma hn_ascent i : i < V -> above i ->
    hn_at E f th i < V /\ above (hn_at E f th i) /\ (zat f i <= zat f (hn_at E f th i))%Z /\
    (zat f (hn_at E f th i) = zat f i -> hn_at E f th i <= i).
  Proof.
    intros Hi Ha. destruct (hn_props i Hi Ha) as [H1 [H2 H3]].
    assert (Hin : In i (nbhd_th E f th i)) by (apply nbhd_spec; repeat split; [exact Hi|left; reflexivity|exact Ha]).
    apply nbhd_spec in H1. destruct H1 as [L [_ A]]. split; [exact L|]. split; [exact A|]. split; [apply H2; exact Hin|].
    intros Eq. apply H3; [exact Hin|symmetry; exact Eq].
  Qed.

  Lemma p_in_range : in_range p.
  Proof.
    unfold in_range. apply Forall_forall. intros x Hx. rewrite p_length.
    unfold p, ws_parents in Hx. apply in_map_iff in Hx. destruct Hx as [i [<- Hi]]. apply in_seq in Hi. fold V in Hi.
    destruct (aboveb th (zat f i)) eqn:Ea; [|lia]. apply hn_ascent; [lia|exact Ea].
  Qed.

  Lemma f_le_max i : i < V -> (zat f i <= zmaxl f)%Z.
  Proof.
    intros Hi. destruct (zmaxl_spec f) as [A _]; [intros ->; simpl in Hi; unfold V in Hi; simpl in Hi; lia|].
    apply A. unfold zat. apply nth_In. exact Hi.
  Qed.

  (* following the highest neighbour terminates: the value rises or, at equal value, the index falls *)
  Lemma ws_reaches : forall i, i < V -> reaches_root p i.
  Proof.
    assert (P : forall n i, i < V -> above i -> Z.to_nat (zmaxl f - zat f i) = n -> reaches_root p i).
    { induction n as [n IHn] using lt_wf_ind. induction i as [i IHi] using lt_wf_ind. intros Hi Ha En.
      destruct (hn_ascent i Hi Ha) as [Lh [Ah [Le Eq]]].
      assert (Pi : par p i = hn_at E f th i) by (rewrite par_p by exact Hi; unfold above in Ha; rewrite Ha; reflexivity).
      destruct (Nat.eq_dec (hn_at E f th i) i) as [Efix|Nfix].
      - exists 0. simpl. unfold is_root. congruence.
      - assert (R : reaches_root p (hn_at E f th i)).
        { destruct (Z.eq_dec (zat f (hn_at E f th i)) (zat f i)) as [Ev|Nv].
          - apply IHi; [specialize (Eq Ev); lia|exact Lh|exact Ah|rewrite Ev; exact En].
          - pose proof (f_le_max _ Lh) as M. apply (IHn (Z.to_nat (zmaxl f - zat f (hn_at E f th i)))); [lia|exact Lh|exact Ah|reflexivity]. }
        destruct R as [k Hk]. exists (S k). simpl. rewrite Pi. exact Hk. }
    intros i Hi. destruct (aboveb th (zat f i)) eqn:Ea.
    - apply (P _ i Hi Ea eq_refl).
    - exists 0. simpl. unfold is_root. rewrite par_p by exact Hi. rewrite Ea. reflexivity.
  Qed.

  Lemma ws_root_up i : ws_root E f th i = up p V i.
  Proof. unfold ws_root. apply iter_n_par_up. Qed.

  Lemma ws_root_is_root i : i < V -> is_root p (ws_root E f th i).
  Proof.
    intros Hi. rewrite ws_root_up. destruct (ws_reaches i Hi) as [k0 Hk0].
    destruct (least_root p k0 i Hk0) as [k [_ [Hroot Hnot]]].
    assert (Hi' : i < length p) by (rewrite p_length; exact Hi).
    pose proof (path_short p i k p_in_range Hi' Hroot Hnot) as PS. rewrite p_length in PS.
    replace V with (k + (V - k)) by lia. rewrite up_add. rewrite (root_up p _ (V - k) Hroot). exact Hroot.
  Qed.

  (* along the ascent: stays above the threshold, the value never falls, and at equal value the index never rises *)
  Lemma up_inv : forall k i, i < V -> above i ->
    up p k i < V /\ above (up p k i) /\ (zat f i <= zat f (up p k i))%Z /\ (zat f (up p k i) = zat f i -> up p k i <= i).
  Proof.
    induction k as [|k IH]; intros i Hi Ha; simpl.
    - repeat split; [exact Hi|exact Ha|lia|lia].
    - destruct (hn_ascent i Hi Ha) as [Lh [Ah [Le Eq]]].
      assert (Pi : par p i = hn_at E f th i) by (rewrite par_p by exact Hi; unfold above in Ha; rewrite Ha; reflexivity).
      rewrite Pi. destruct (IH _ Lh Ah) as [L [A [Le' Eq']]]. repeat split; [exact L|exact A|lia|].
      intros Ev. assert (E1 : zat f (hn_at E f th i) = zat f i) by lia.
      assert (E2 : zat f (up p k (hn_at E f th i)) = zat f (hn_at E f th i)) by lia.
      specialize (Eq E1). specialize (Eq' E2). lia.
  Qed.

  Lemma ws_root_props i : i < V -> above i ->
    ws_root E f th i < V /\ above (ws_root E f th i) /\ hn_at E f th (ws_root E f th i) = ws_root E f th i /\
    (zat f i <= zat f (ws_root E f th i))%Z /\ (zat f (ws_root E f th i) = zat f i -> ws_root E f th i <= i) /\
    ws_root E f th (ws_root E f th i) = ws_root E f th i.
  Proof.
    intros Hi Ha. pose proof (ws_root_is_root i Hi) as HR. rewrite ws_root_up in *.
    destruct (up_inv V i Hi Ha) as [L [A [Le Eq]]]. split; [exact L|]. split; [exact A|]. split.
    - unfold is_root in HR. rewrite par_p in HR by exact L. unfold above in A. rewrite A in HR. exact HR.
    - split; [exact Le|]. split; [exact Eq|]. rewrite ws_root_up. apply root_up. exact HR.
  Qed.

  Lemma fixed_is_own_root r : r < V -> above r -> hn_at E f th r = r -> ws_root E f th r = r.
  Proof.
    intros Hr Ha Hfix. rewrite ws_root_up. apply root_up. unfold is_root. rewrite par_p by exact Hr.
    unfold above in Ha. rewrite Ha. exact Hfix.
  Qed.

  Lemma above_list_spec i : In i (above_list f th) <-> i < V /\ above i.
  Proof. unfold above_list, above. rewrite filter_In, in_seq. fold V. split; [intros [H1 H2]; split; [lia|exact H2]|intros [H1 H2]; split; [lia|exact H2]]. Qed.

  Lemma root_in_roots i : i < V -> above i -> In (ws_root E f th i) (ws_roots E f th).
  Proof. intros Hi Ha. unfold ws_roots. apply uniq_In. apply in_map. apply above_list_spec. split; assumption. Qed.

  (* two thresholded vertices get the same label iff they ascend to the same fixed point *)
  Lemma same_label_iff i j : i < V -> above i -> j < V -> above j ->
    (ws_label_nat E f th i = ws_label_nat E f th j <-> ws_root E f th i = ws_root E f th j).
  Proof.
    intros Hi Hai Hj Haj. unfold ws_label_nat. split; [|intros ->; reflexivity].
    intros Eq. destruct (index_of_in _ _ (root_in_roots i Hi Hai)) as [_ N1].
    destruct (index_of_in _ _ (root_in_roots j Hj Haj)) as [_ N2]. rewrite Eq in N1. congruence.
  Qed.

  Lemma label_lt i : i < V -> above i -> ws_label_nat E f th i < length (ws_roots E f th).
  Proof. intros Hi Ha. unfold ws_label_nat. apply index_of_in. apply root_in_roots; assumption. Qed.

  Lemma members_spec c m : In m (ws_members E f th c) <-> m < V /\ above m /\ ws_label_nat E f th m = c.
  Proof. unfold ws_members. rewrite filter_In, above_list_spec, Nat.eqb_eq. tauto. Qed.

  Lemma members_incr c : incr (ws_members E f th c).
  Proof. unfold ws_members, above_list. apply incr_filter, incr_filter, incr_seq. Qed.

  (* the reported index of a basin is the fixed point its members ascend to *)
  Lemma ws_idx_is_root i : i < V -> above i -> ws_idx E f th (ws_label_nat E f th i) = ws_root E f th i.
  Proof.
    intros Hi Ha. set (c := ws_label_nat E f th i). set (R := ws_root E f th i).
    destruct (ws_root_props i Hi Ha) as [LR [AR [FR [_ [_ RR]]]]]. fold R in LR, AR, FR, RR.
    assert (MR : In R (ws_members E f th c)).
    { apply members_spec. split; [exact LR|]. split; [exact AR|]. unfold c. apply same_label_iff; try assumption. }
    unfold ws_idx. pose proof (members_incr c) as HI.
    destruct (ws_members E f th c) as [|b l] eqn:EM; [contradiction|].
    destruct (argmax_first_props f b l HI) as [P1 [P2 P3]]. set (r' := argmax_first f l b) in *.
    rewrite <- EM in P1, P2, P3, MR.
    apply members_spec in P1. destruct P1 as [Lr [Ar Cr]].
    assert (Rr : ws_root E f th r' = R) by (apply (same_label_iff r' i); assumption).
    destruct (ws_root_props r' Lr Ar) as [_ [_ [_ [Le [Eq _]]]]]. rewrite Rr in Le, Eq.
    pose proof (P2 R MR) as Q. assert (Ev : zat f R = zat f r') by lia.
    pose proof (P3 R MR Ev). specialize (Eq Ev). lia.
  Qed.
End WS.

(* ------------------------------------------------------------------ *)
(** * threshold_bifurcations: every thresholded vertex is labelled, no other *)

Lemma bif_step_ll E V st i : exists c, b_ll (bif_step E V st i) = set_nth i (Z.of_nat c) (b_ll st).
Proof. unfold bif_step. destruct (bif_nlabel E V st i) as [|c [|c2 r]]; simpl; eexists; reflexivity. Qed.

Lemma bif_fold_ll E V : forall l st, length (b_ll st) = V -> (forall i, In i l -> i < V) ->
  length (b_ll (fold_left (bif_step E V) l st)) = V /\
  forall j, j < V -> ((0 <= zat (b_ll (fold_left (bif_step E V) l st)) j)%Z <-> ((0 <= zat (b_ll st) j)%Z \/ In j l)).
Proof.
  induction l as [|a l IH]; intros st HL Hl; simpl.
  - split; [exact HL|]. intros j Hj. tauto.
  - destruct (bif_step_ll E V st a) as [c Hc].
    assert (Ha : a < V) by (apply Hl; left; reflexivity).
    assert (Hl' : forall i, In i l -> i < V) by (intros i Hi; apply Hl; right; exact Hi).
    assert (HL' : length (b_ll (bif_step E V st a)) = V) by (rewrite Hc, set_nth_length; exact HL).
    destruct (IH (bif_step E V st a) HL' Hl') as [L H]. split; [exact L|].
    intros j Hj. rewrite (H j Hj). rewrite Hc. rewrite zat_set_nth by lia. destruct (j =? a) eqn:Ej.
    + apply Nat.eqb_eq in Ej. subst. split; intros _; [right; left; reflexivity|left; lia].
    + apply Nat.eqb_neq in Ej. split.
      * intros [H1|H1]; [left; exact H1|right; right; exact H1].
      * intros [H1|[H1|H1]]; [left; exact H1|congruence|right; exact H1].
Qed.

Lemma zat_repeat x V : forall j, j < V -> zat (repeat x V) j = x.
Proof. induction V as [|V IH]; intros j Hj; [lia|]. destruct j as [|j]; simpl; [reflexivity|]. apply IH. lia. Qed.

Lemma bif_labels_total E f th order idx par lab :
  bif_order_ok f th order = true ->
  threshold_bifurcations E f th order = Some (idx, par, lab) ->
  length lab = length f /\
  forall i, i < length f -> ((0 <= zat lab i)%Z <-> aboveb th (zat f i) = true).
Proof.
  intros HO H. unfold bif_order_ok in HO.
  apply andb_true_iff in HO. destruct HO as [HO _].
  apply andb_true_iff in HO. destruct HO as [HO Hback].
  apply andb_true_iff in HO. destruct HO as [_ Hfwd].
  rewrite forallb_forall in Hback, Hfwd.
  unfold threshold_bifurcations in H. destruct (above_list f th) eqn:EA; [discriminate|]. rewrite <- EA in *.
  inversion H; subst; clear H. unfold bif_run.
  assert (Hl : forall i, In i order -> i < length f).
  { intros i Hi. specialize (Hback i Hi). apply memb_in in Hback. apply above_list_spec in Hback. tauto. }
  destruct (bif_fold_ll E (length f) order (bif_init (length f))) as [L Hiff]; [simpl; apply repeat_length|exact Hl|].
  split; [exact L|]. intros i Hi. rewrite (Hiff i Hi). cbn [bif_init b_ll]. rewrite zat_repeat by exact Hi. split.
  - intros [Hneg|Hin]; [lia|]. specialize (Hback i Hin). apply memb_in in Hback. apply above_list_spec in Hback.
    destruct Hback as [_ A]. exact A.
  - intros A. right. apply memb_in. apply Hfwd. apply above_list_spec. split; [exact Hi|exact A].
Qed.

(* ------------------------------------------------------------------ *)
(** * the table-driven evaluation of custom_watershed is the same function *)

Lemma filter_ext_in_local {A} (g h : A -> bool) l : (forall x, In x l -> g x = h x) -> filter g l = filter h l.
Proof.
  induction l as [|a l IH]; intros H; simpl; [reflexivity|].
  rewrite (H a (or_introl eq_refl)). rewrite IH; [reflexivity|]. intros x Hx. apply H. right. exact Hx.
Qed.

Lemma custom_watershed_fast_eq E f th : custom_watershed_fast E f th = custom_watershed E f th.
Proof.
  unfold custom_watershed_fast, custom_watershed. destruct (above_list f th) as [|a0 l0] eqn:EA; [reflexivity|].
  rewrite <- EA. cbv zeta.
  assert (AL : forall i, In i (above_list f th) -> i < length f) by (intros i Hi; apply above_list_spec in Hi; tauto).
  assert (RT : forall i, i < length f ->
            nth i (map (fun i0 => iter_n (length f) (par (ws_parents E f th)) i0) (seq 0 (length f))) 0 = ws_root E f th i).
  { intros i Hi. rewrite nth_map_seq0 by exact Hi. reflexivity. }
  assert (RS : uniq (map (fun i => nth i (map (fun i0 => iter_n (length f) (par (ws_parents E f th)) i0) (seq 0 (length f))) 0) (above_list f th))
               = ws_roots E f th).
  { unfold ws_roots. f_equal. apply map_ext_in. intros i Hi. apply RT, AL, Hi. }
  rewrite RS.
  assert (LB : forall i, i < length f ->
            nth i (map (fun i0 => index_of (nth i0 (map (fun i1 => iter_n (length f) (par (ws_parents E f th)) i1) (seq 0 (length f))) 0)
                                           (ws_roots E f th)) (seq 0 (length f))) 0 = ws_label_nat E f th i).
  { intros i Hi. rewrite nth_map_seq0 by exact Hi. rewrite RT by exact Hi. reflexivity. }
  f_equal. f_equal.
  - apply map_ext_in. intros c _. unfold ws_idx, ws_members.
    rewrite (filter_ext_in_local _ (fun m => ws_label_nat E f th m =? c) (above_list f th)); [reflexivity|].
    intros m Hm. rewrite LB by (apply AL, Hm). reflexivity.
  - apply map_ext_in. intros i Hi. apply in_seq in Hi. unfold ws_label. rewrite LB by lia. reflexivity.
Qed.
