(* C12 - proofs about Field.local_maxima (ModelLM.v).  Round 6. *)
From Coq Require Import ZArith List Bool Arith Lia.
From NV.C12 Require Import Model Proofs1 Proofs2 ModelLM.
Import ListNotations.

(* the strict-update loop of the compiled dilation: extensive, and it grows exactly when
   some listed neighbour is strictly higher *)
Lemma strict_update_ge f l : forall m,
  (m <= fold_left (fun m j => if (zat f j >? m)%Z then zat f j else m) l m)%Z.
Proof.
  induction l as [|j l IH]; intros m; simpl; [lia|].
  destruct (Z.gtb_spec (zat f j) m) as [H|H].
  - specialize (IH (zat f j)). lia.
  - apply IH.
Qed.

Lemma strict_update_gt f l : forall m,
  (m < fold_left (fun m j => if (zat f j >? m)%Z then zat f j else m) l m)%Z <->
  exists j, In j l /\ (m < zat f j)%Z.
Proof.
  induction l as [|j l IH]; intros m; simpl.
  - split; [lia|intros [j [[] _]]].
  - destruct (Z.gtb_spec (zat f j) m) as [H|H].
    + split; [intros _; exists j; split; [left; reflexivity|lia]|].
      intros _. pose proof (strict_update_ge f l (zat f j)). lia.
    + rewrite IH. split.
      * intros [j' [Hin Hlt]]. exists j'. split; [right; exact Hin|exact Hlt].
      * intros [j' [[Heq|Hin] Hlt]]; [subst j'; lia|exists j'; split; assumption].
Qed.

Lemma zat_dilation_fast E g i : i < length g -> zat (dilation_fast E g) i = dil_fast_at E g i.
Proof. intros Hi. unfold dilation_fast, zat. apply nth_map_seq0. exact Hi. Qed.

Lemma dil_fast_at_ge E g i : (zat g i <= dil_fast_at E g i)%Z.
Proof. unfold dil_fast_at. apply strict_update_ge. Qed.

(* "vertex i has a strictly higher neighbour in the thresholded sub-graph" *)
Definition higher_nb (E : list edge) (f : list Z) (th : option Z) (i : nat) : Prop :=
  exists j, adjb E i j = true /\ aboveb th (zat f i) = true /\ aboveb th (zat f j) = true /\
            (zat f i < zat f j)%Z.

Lemma lm_edges_spec E f th i j :
  In (i, j) (lm_edges E f th) <->
  In (i, j) E /\ aboveb th (zat f i) = true /\ aboveb th (zat f j) = true.
Proof.
  unfold lm_edges. rewrite filter_In. cbn [fst snd]. rewrite andb_true_iff. tauto.
Qed.

Lemma grows_iff_higher_nb E f th i :
  (zat f i < dil_fast_at (lm_edges E f th) f i)%Z <-> higher_nb E f th i.
Proof.
  unfold dil_fast_at. rewrite strict_update_gt. unfold higher_nb. split.
  - intros [j [Hin Hlt]]. apply nbr_list_spec in Hin. apply adjb_spec in Hin.
    apply lm_edges_spec in Hin. destruct Hin as [HE [Hi Hj]].
    exists j. rewrite adjb_spec. tauto.
  - intros [j [Ha [Hi [Hj Hlt]]]]. exists j. split; [|exact Hlt].
    apply nbr_list_spec. apply adjb_spec. apply lm_edges_spec. apply adjb_spec in Ha. tauto.
Qed.

Section Loop.
  Variables (E' : list edge) (f : list Z).
  Let V := length f.
  Let H (i : nat) : Prop := (zat f i < dil_fast_at E' f i)%Z.

  (* state after at least one pass of the loop body *)
  Definition lm_inv (g : list Z) (ld : list nat) : Prop :=
    length g = V /\
    forall i, i < V -> (zat f i <= zat g i)%Z /\ (nat_at ld i = 0 <-> H i) /\ (H i -> (zat f i < zat g i)%Z).

  Lemma nat_at_ld1 g' g ld k i : i < length g ->
    nat_at (lm_ld1 g' g ld k) i = if lm_nonmax g' g i then Nat.min k (nat_at ld i) else nat_at ld i.
  Proof. intros Hi. unfold lm_ld1, nat_at at 1. rewrite nth_map_seq0 by exact Hi. reflexivity. Qed.

  Lemma nat_at_final g' ld1 k i : i < length g' ->
    nat_at (lm_final g' f ld1 k) i = if (zat g' i =? zat f i)%Z then Nat.max k 1 else nat_at ld1 i.
  Proof. intros Hi. unfold lm_final, nat_at at 1. rewrite nth_map_seq0 by exact Hi. reflexivity. Qed.

  (* first pass: g = f, k = 0, every ldepth entry still non-zero *)
  Lemma lm_inv_first ld : (forall i, i < V -> nat_at ld i <> 0) ->
    lm_inv (dilation_fast E' f) (lm_ld1 (dilation_fast E' f) f ld 0).
  Proof.
    intros Hld. split; [apply dilation_fast_length|].
    intros i Hi. fold V in Hi.
    rewrite nat_at_ld1 by exact Hi. unfold lm_nonmax.
    rewrite zat_dilation_fast by exact Hi.
    pose proof (dil_fast_at_ge E' f i) as Hge. subst H. cbn beta.
    destruct (Z.gtb_spec (dil_fast_at E' f i) (zat f i)) as [Hgt|Hle].
    - rewrite Nat.min_0_l. split; [lia|]. split; [split; [lia|reflexivity]|lia].
    - split; [lia|]. specialize (Hld i Hi). split; [split; [tauto|lia]|lia].
  Qed.

  (* later passes (k >= 1) keep the invariant *)
  Lemma lm_inv_step g ld k : 1 <= k -> lm_inv g ld ->
    lm_inv (dilation_fast E' g) (lm_ld1 (dilation_fast E' g) g ld k).
  Proof.
    intros Hk [Hlen Hinv]. split; [rewrite dilation_fast_length; exact Hlen|].
    intros i Hi. destruct (Hinv i Hi) as [Hge [Hz Hgt]].
    assert (Hig : i < length g) by (rewrite Hlen; exact Hi).
    rewrite nat_at_ld1 by exact Hig. unfold lm_nonmax.
    rewrite zat_dilation_fast by exact Hig.
    pose proof (dil_fast_at_ge E' g i) as Hd.
    split; [lia|]. split.
    - destruct (Z.gtb_spec (dil_fast_at E' g i) (zat g i)) as [Hg|Hg]; [|exact Hz].
      rewrite <- Hz. lia.
    - intros Hh. specialize (Hgt Hh). lia.
  Qed.

  (* the break branch: entries that grew in the first pass are never overwritten *)
  Lemma lm_final_spec g' ld1 k : lm_inv g' ld1 ->
    forall i, i < V -> nat_at (lm_final g' f ld1 k) i = 0 <-> H i.
  Proof.
    intros [Hlen Hinv] i Hi. destruct (Hinv i Hi) as [Hge [Hz Hgt]].
    rewrite nat_at_final by (rewrite Hlen; exact Hi).
    destruct (Z.eqb_spec (zat g' i) (zat f i)) as [He|Hn]; [|exact Hz].
    split; [lia|]. intros Hh. specialize (Hgt Hh). lia.
  Qed.

  Lemma lm_loop_spec : forall fuel g ld k, 1 <= k -> lm_inv g ld ->
    forall i, i < V -> nat_at (lm_loop E' f g ld k fuel) i = 0 <-> H i.
  Proof.
    induction fuel as [|fuel IH]; intros g ld k Hk Hinv i Hi.
    - cbn [lm_loop]. destruct Hinv as [_ Hinv]. apply (Hinv i Hi).
    - cbn [lm_loop]. pose proof (lm_inv_step g ld k Hk Hinv) as Hnext.
      destruct (forallb _ _).
      + apply lm_final_spec; assumption.
      + apply IH; [lia|exact Hnext|exact Hi].
  Qed.

  Lemma lm_loop_from_start n ld : (forall i, i < V -> nat_at ld i <> 0) ->
    forall i, i < V -> nat_at (lm_loop E' f f ld 0 (S n)) i = 0 <-> H i.
  Proof.
    intros Hld i Hi. cbn [lm_loop]. pose proof (lm_inv_first ld Hld) as Hnext.
    destruct (forallb _ _).
    - apply lm_final_spec; assumption.
    - apply lm_loop_spec; [lia|exact Hnext|exact Hi].
  Qed.
End Loop.

Lemma above_list_nil_iff f th :
  length (above_list f th) = 0 <-> forall i, i < length f -> aboveb th (zat f i) = false.
Proof.
  unfold above_list. split.
  - intros Hl i Hi. destruct (aboveb th (zat f i)) eqn:Ha; [|reflexivity].
    assert (Hin : In i (filter (fun i => aboveb th (zat f i)) (seq 0 (length f)))).
    { apply filter_In. split; [apply in_seq; lia|exact Ha]. }
    destruct (filter _ _); [destruct Hin|discriminate].
  - intros Hall. destruct (filter _ _) as [|x r] eqn:Hf; [reflexivity|].
    assert (Hin : In x (filter (fun i => aboveb th (zat f i)) (seq 0 (length f)))) by (rewrite Hf; left; reflexivity).
    apply filter_In in Hin. destruct Hin as [Hs Ha]. apply in_seq in Hs.
    rewrite Hall in Ha by lia. discriminate.
Qed.

(* local_maxima raises (model: None) exactly when no vertex reaches the threshold;
   otherwise the depth array has one entry per vertex *)
Lemma local_maxima_raises_iff_none_above E f th :
  (local_maxima E f th = None <-> forall i, i < length f -> aboveb th (zat f i) = false) /\
  (forall d, local_maxima E f th = Some d -> length d = length f).
Proof.
  unfold local_maxima. split.
  - rewrite <- above_list_nil_iff.
    destruct (Nat.eqb_spec (length (above_list f th)) 0) as [He|Hn]; split; intros Hx;
      try reflexivity; try assumption; try discriminate. contradiction.
  - intros d. destruct (length (above_list f th) =? 0); [discriminate|].
    intros Hd. injection Hd as <-. rewrite map_length, seq_length. reflexivity.
Qed.

Lemma nat_at_repeat n V i : i < V -> nat_at (repeat n V) i = n.
Proof.
  unfold nat_at. revert i. induction V as [|V IH]; intros i Hi; [lia|].
  destruct i as [|i]; cbn [repeat nth]; [reflexivity|apply IH; lia].
Qed.

(* depth[v] = 0 iff v is under the threshold or has a strictly higher neighbour that reaches
   the threshold: local_maxima marks (depth > 0) exactly the local maxima of the direct definition *)
Lemma local_maxima_zero_iff E f th d : local_maxima E f th = Some d ->
  forall i, i < length f ->
  (nat_at d i = 0 <-> aboveb th (zat f i) = false \/ higher_nb E f th i).
Proof.
  unfold local_maxima.
  destruct (Nat.eqb_spec (length (above_list f th)) 0) as [He|Hn]; [discriminate|].
  intros Hd i Hi. injection Hd as <-.
  unfold nat_at at 1. rewrite nth_map_seq0 by exact Hi.
  destruct (aboveb th (zat f i)) eqn:Ha.
  - destruct (length (above_list f th)) as [|n] eqn:Hlen; [contradiction|].
    rewrite (lm_loop_from_start (lm_edges E f th) f n (repeat (S n) (length f))).
    + rewrite grows_iff_higher_nb. split; [intros Hh; right; exact Hh|intros [Hx|Hx]; [discriminate|exact Hx]].
    + intros i' Hi'. rewrite nat_at_repeat by exact Hi'. lia.
    + exact Hi.
  - split; [intros _; left; reflexivity|reflexivity].
Qed.

(* get_local_maxima lists exactly the vertices of positive depth, in increasing order, with their depths *)
Lemma get_local_maxima_spec E f th idx dep : get_local_maxima E f th = Some (idx, dep) ->
  exists d, local_maxima E f th = Some d /\
    (forall i, In i idx <-> i < length f /\ nat_at d i <> 0) /\ dep = map (nat_at d) idx.
Proof.
  unfold get_local_maxima. destruct (local_maxima E f th) as [d|] eqn:Hd; [|discriminate].
  intros Hg. injection Hg as <- <-. exists d. split; [reflexivity|]. split; [|reflexivity].
  destruct (local_maxima_raises_iff_none_above E f th) as [_ Hlen]. rewrite (Hlen d Hd).
  intros i. rewrite filter_In, in_seq, negb_true_iff, Nat.eqb_neq. lia.
Qed.
