(* C11 - lemmas, part 3: adjacency-matrix meaning of the structural operations. *)
From Coq Require Import QArith Lqa List Bool Arith Lia.
From NV.C11 Require Import ModelQ.
Import ListNotations.
Close Scope Q_scope.

Lemma qadj_app E1 E2 u v : (qadj (E1 ++ E2) u v == qadj E1 u v + qadj E2 u v)%Q.
Proof.
  induction E1 as [|e t IH]; simpl.
  - lra.
  - destruct (Nat.eqb (qsrc e) u && Nat.eqb (qdst e) v); rewrite IH; lra.
Qed.

Lemma qadj_cons e t u v :
  qadj (e :: t) u v = if Nat.eqb (qsrc e) u && Nat.eqb (qdst e) v then (qw e + qadj t u v)%Q else qadj t u v.
Proof. reflexivity. Qed.

(* ---- matrices -> edge lists ---- *)
Lemma qadj_row_other V keep M u' u v : u' <> u -> (qadj (pmat_row V keep M u') u v == 0)%Q.
Proof.
  intros Hne. unfold pmat_row. generalize (seq 0 V) as l.
  induction l as [|x l IH]; simpl; [lra|].
  destruct (keep u' x); simpl; auto.
  unfold qsrc at 1; simpl. destruct (Nat.eqb_spec u' u) as [E|_]; [contradiction|]. simpl. exact IH.
Qed.

Lemma qadj_row_seq (keep : nat -> nat -> bool) (M : nat -> nat -> Q) u v a n :
  Qeq (qadj (flat_map (fun x => if keep u x then [(u, x, M u x)] else []) (seq a n)) u v)
      (if (a <=? v) && (v <? a + n) && keep u v then M u v else 0%Q).
Proof.
  revert a; induction n as [|n IH]; intros a; simpl.
  - destruct (a <=? v) eqn:H1; destruct (v <? a + 0) eqn:H2; simpl; try lra.
    apply Nat.leb_le in H1. apply Nat.ltb_lt in H2. lia.
  - rewrite qadj_app. rewrite IH.
    assert (Hhead : (qadj (if keep u a then [(u, a, M u a)] else []) u v
                     == if Nat.eqb a v && keep u a then M u a else 0)%Q).
    { destruct (keep u a) eqn:Hz; simpl.
      - unfold qsrc, qdst, qw; simpl. rewrite Nat.eqb_refl. simpl. destruct (Nat.eqb a v); simpl; lra.
      - rewrite andb_false_r. lra. }
    rewrite Hhead.
    destruct (Nat.eqb_spec a v) as [Hav|Hne].
    + subst a. replace (S v <=? v) with false by (symmetry; apply Nat.leb_gt; lia).
      replace (v <=? v) with true by (symmetry; apply Nat.leb_le; lia).
      replace (v <? v + S n) with true by (symmetry; apply Nat.ltb_lt; lia). simpl.
      destruct (keep u v); lra.
    + destruct (a <=? v) eqn:H1; destruct (S a <=? v) eqn:H2;
        destruct (v <? S a + n) eqn:H3; destruct (v <? a + S n) eqn:H4; simpl; try lra;
        try (destruct (keep u v); lra);
        repeat match goal with
               | H : (_ <=? _) = true |- _ => apply Nat.leb_le in H
               | H : (_ <=? _) = false |- _ => apply Nat.leb_gt in H
               | H : (_ <? _) = true |- _ => apply Nat.ltb_lt in H
               | H : (_ <? _) = false |- _ => apply Nat.ltb_ge in H
               end; lia.
Qed.

Lemma qadj_mat_rows V keep M u v l :
  NoDup l -> (qadj (flat_map (pmat_row V keep M) l) u v == if existsb (Nat.eqb u) l then qadj (pmat_row V keep M u) u v else 0)%Q.
Proof.
  induction l as [|x l IH]; intros Hnd; simpl; [lra|].
  inversion Hnd as [|x' l' Hnotin Hnd']; subst.
  rewrite qadj_app, (IH Hnd').
  destruct (Nat.eqb_spec u x) as [->|Hne]; simpl.
  - assert (Hf : existsb (Nat.eqb x) l = false).
    { destruct (existsb (Nat.eqb x) l) eqn:Hx; auto.
      apply existsb_exists in Hx. destruct Hx as [y [Hy Hxy]]. apply Nat.eqb_eq in Hxy. subst y. contradiction. }
    rewrite Hf. lra.
  - rewrite (qadj_row_other V keep M x u v) by auto. lra.
Qed.

Lemma qadj_pmat_edges V keep M u v : u < V -> v < V ->
  (qadj (pmat_edges V keep M) u v == if keep u v then M u v else 0)%Q.
Proof.
  intros Hu Hv. unfold pmat_edges. rewrite qadj_mat_rows by apply seq_NoDup.
  assert (Hin : existsb (Nat.eqb u) (seq 0 V) = true).
  { apply existsb_exists. exists u. split; [apply in_seq; lia|apply Nat.eqb_refl]. }
  rewrite Hin. unfold pmat_row. rewrite qadj_row_seq.
  replace (0 <=? v) with true by (symmetry; apply Nat.leb_le; lia).
  replace (v <? 0 + V) with true by (symmetry; apply Nat.ltb_lt; lia). simpl. destruct (keep u v); lra.
Qed.

Lemma qadj_mat_edges V M u v : u < V -> v < V -> (qadj (mat_edges V M) u v == M u v)%Q.
Proof.
  intros Hu Hv. unfold mat_edges. rewrite qadj_pmat_edges by assumption.
  destruct (Qeq_bool (M u v) 0) eqn:Hz; simpl; [|lra].
  apply Qeq_bool_iff in Hz. lra.
Qed.

(* every stored entry is in range, is kept, and carries the matrix entry *)
Lemma pmat_edges_entries V keep M e :
  In e (pmat_edges V keep M) -> qsrc e < V /\ qdst e < V /\ qw e = M (qsrc e) (qdst e) /\ keep (qsrc e) (qdst e) = true.
Proof.
  unfold pmat_edges, pmat_row. intros H.
  apply in_flat_map in H. destruct H as [u [Hu H]].
  apply in_flat_map in H. destruct H as [v [Hv H]].
  apply in_seq in Hu. apply in_seq in Hv.
  destruct (keep u v) eqn:Hz; [|destruct H].
  destruct H as [<-|[]]. unfold qsrc, qdst, qw; simpl. repeat split; try lia. exact Hz.
Qed.

Lemma mat_edges_entries V M e :
  In e (mat_edges V M) -> qsrc e < V /\ qdst e < V /\ qw e = M (qsrc e) (qdst e) /\ ~ (qw e == 0)%Q.
Proof.
  intros H. apply pmat_edges_entries in H. destruct H as [H1 [H2 [H3 H4]]]. repeat split; auto.
  intros Hq. rewrite H3 in Hq. apply Qeq_bool_iff in Hq. rewrite Hq in H4. discriminate.
Qed.

(* a vertex pair that does not occur in the edge list has adjacency 0 *)
Lemma qadj_no_edge E u v : has_edge E u v = false -> (qadj E u v == 0)%Q.
Proof.
  unfold has_edge. induction E as [|e t IH]; simpl; intros H; [lra|].
  apply orb_false_iff in H. destruct H as [H1 H2]. rewrite H1. auto.
Qed.

Lemma qadj_cut_redundancies V E u v : u < V -> v < V -> (qadj (cut_redundancies_model V E) u v == qadj E u v)%Q.
Proof.
  intros Hu Hv. unfold cut_redundancies_model. rewrite qadj_pmat_edges by assumption.
  destruct (has_edge E u v) eqn:Hh; [apply Qred_correct|]. rewrite (qadj_no_edge E u v Hh). lra.
Qed.

(* ---- normalize(0), normalize(1) ---- *)
Lemma qadj_scale_src (f : nat -> Q) E u v :
  (qadj (map (fun e => (qsrc e, qdst e, Qred (qw e / f (qsrc e))%Q)) E) u v == qadj E u v / f u)%Q.
Proof.
  induction E as [|e t IH]; [simpl; unfold Qdiv; lra|].
  cbn [map]. rewrite !qadj_cons.
  change (qsrc (qsrc e, qdst e, Qred (qw e / f (qsrc e)))) with (qsrc e).
  change (qdst (qsrc e, qdst e, Qred (qw e / f (qsrc e)))) with (qdst e).
  change (qw (qsrc e, qdst e, Qred (qw e / f (qsrc e)))) with (Qred (qw e / f (qsrc e))).
  destruct (Nat.eqb_spec (qsrc e) u) as [E1|_]; cbn [andb]; [|exact IH].
  destruct (Nat.eqb (qdst e) v); [|exact IH].
  rewrite IH, Qred_correct, E1. unfold Qdiv. lra.
Qed.

Lemma qadj_scale_dst (f : nat -> Q) E u v :
  (qadj (map (fun e => (qsrc e, qdst e, Qred (qw e / f (qdst e))%Q)) E) u v == qadj E u v / f v)%Q.
Proof.
  induction E as [|e t IH]; [simpl; unfold Qdiv; lra|].
  cbn [map]. rewrite !qadj_cons.
  change (qsrc (qsrc e, qdst e, Qred (qw e / f (qdst e)))) with (qsrc e).
  change (qdst (qsrc e, qdst e, Qred (qw e / f (qdst e)))) with (qdst e).
  change (qw (qsrc e, qdst e, Qred (qw e / f (qdst e)))) with (Qred (qw e / f (qdst e))).
  destruct (Nat.eqb (qsrc e) u); cbn [andb]; [|exact IH].
  destruct (Nat.eqb_spec (qdst e) v) as [E1|_]; [|exact IH].
  rewrite IH, Qred_correct, E1. unfold Qdiv. lra.
Qed.

(* ---- remove_trivial_edges ---- *)
Lemma qadj_remove_trivial E u v :
  (qadj (remove_trivial_model E) u v == if Nat.eqb u v then 0 else qadj E u v)%Q.
Proof.
  unfold remove_trivial_model. induction E as [|e t IH]; simpl.
  - destruct (Nat.eqb u v); lra.
  - destruct (Nat.eqb_spec (qsrc e) (qdst e)) as [Heq|Hne]; simpl.
    + rewrite IH. destruct (Nat.eqb_spec u v) as [->|Huv]; [lra|].
      destruct (Nat.eqb_spec (qsrc e) u) as [E1|_]; simpl; [|lra].
      destruct (Nat.eqb_spec (qdst e) v) as [E2|_]; simpl; [|lra]. congruence.
    + destruct (Nat.eqb (qsrc e) u && Nat.eqb (qdst e) v) eqn:Hc.
      * apply andb_true_iff in Hc. destruct Hc as [H1 H2].
        apply Nat.eqb_eq in H1. apply Nat.eqb_eq in H2.
        rewrite IH. destruct (Nat.eqb_spec u v) as [Huv|_]; [congruence|lra].
      * exact IH.
Qed.

(* ---- concatenate_graphs ---- *)
Lemma qadj_shift V1 E u v :
  Qeq (qadj (map (fun e => (V1 + qsrc e, V1 + qdst e, qw e)) E) u v)
      (if (V1 <=? u) && (V1 <=? v) then qadj E (u - V1) (v - V1) else 0%Q).
Proof.
  induction E as [|e t IH].
  - simpl. destruct ((V1 <=? u) && (V1 <=? v)); lra.
  - cbn [map]. rewrite !qadj_cons. cbn [qsrc qdst qw fst snd] in *.
    destruct (V1 <=? u) eqn:Hu; destruct (V1 <=? v) eqn:Hv; cbn [andb] in *.
    + apply Nat.leb_le in Hu. apply Nat.leb_le in Hv.
      replace (Nat.eqb (V1 + qsrc e) u) with (Nat.eqb (qsrc e) (u - V1))
        by (destruct (Nat.eqb_spec (qsrc e) (u - V1)); destruct (Nat.eqb_spec (V1 + qsrc e) u); auto; lia).
      replace (Nat.eqb (V1 + qdst e) v) with (Nat.eqb (qdst e) (v - V1))
        by (destruct (Nat.eqb_spec (qdst e) (v - V1)); destruct (Nat.eqb_spec (V1 + qdst e) v); auto; lia).
      destruct (Nat.eqb (qsrc e) (u - V1) && Nat.eqb (qdst e) (v - V1)); rewrite IH; lra.
    + apply Nat.leb_gt in Hv.
      replace (Nat.eqb (V1 + qdst e) v) with false by (symmetry; apply Nat.eqb_neq; lia).
      rewrite andb_false_r. exact IH.
    + apply Nat.leb_gt in Hu.
      replace (Nat.eqb (V1 + qsrc e) u) with false by (symmetry; apply Nat.eqb_neq; lia).
      cbn [andb]. exact IH.
    + apply Nat.leb_gt in Hu.
      replace (Nat.eqb (V1 + qsrc e) u) with false by (symmetry; apply Nat.eqb_neq; lia).
      cbn [andb]. exact IH.
Qed.

Lemma qadj_small V1 E u v :
  (forall e, In e E -> qsrc e < V1 /\ qdst e < V1) -> (V1 <= u \/ V1 <= v) -> (qadj E u v == 0)%Q.
Proof.
  intros Hwf Huv. induction E as [|e t IH]; simpl; [lra|].
  assert (He : qsrc e < V1 /\ qdst e < V1) by (apply Hwf; now left).
  destruct (Nat.eqb_spec (qsrc e) u) as [E1|_]; destruct (Nat.eqb_spec (qdst e) v) as [E2|_]; simpl;
    try (apply IH; intros e' He'; apply Hwf; now right).
  lia.
Qed.

Lemma qadj_concatenate V1 E1 E2 u v :
  (forall e, In e E1 -> qsrc e < V1 /\ qdst e < V1) ->
  Qeq (qadj (concatenate_model V1 E1 E2) u v)
      (if (u <? V1) && (v <? V1) then qadj E1 u v
       else if (V1 <=? u) && (V1 <=? v) then qadj E2 (u - V1) (v - V1) else 0%Q).
Proof.
  intros Hwf. unfold concatenate_model. rewrite qadj_app, qadj_shift.
  destruct (u <? V1) eqn:Hu; destruct (v <? V1) eqn:Hv; simpl.
  - apply Nat.ltb_lt in Hu. apply Nat.ltb_lt in Hv.
    replace (V1 <=? u) with false by (symmetry; apply Nat.leb_gt; lia). simpl. lra.
  - apply Nat.ltb_lt in Hu. apply Nat.ltb_ge in Hv.
    replace (V1 <=? u) with false by (symmetry; apply Nat.leb_gt; lia). simpl.
    rewrite (qadj_small V1 E1 u v Hwf) by lia. lra.
  - apply Nat.ltb_ge in Hu. apply Nat.ltb_lt in Hv.
    replace (V1 <=? v) with false by (symmetry; apply Nat.leb_gt; lia). rewrite andb_false_r.
    rewrite (qadj_small V1 E1 u v Hwf) by lia. lra.
  - apply Nat.ltb_ge in Hu. apply Nat.ltb_ge in Hv.
    rewrite (qadj_small V1 E1 u v Hwf) by lia. lra.
Qed.

(* ---- subgraph ---- *)
Lemma rank_lt valid u v : u < v -> isvalid valid u = true -> rank valid u < rank valid v.
Proof.
  revert u v; induction valid as [|b t IH]; intros u v Huv Hval.
  - unfold isvalid in Hval. destruct u; discriminate.
  - destruct v as [|v]; [lia|]. destruct u as [|u].
    + unfold isvalid in Hval. simpl in Hval. subst b. simpl. lia.
    + unfold isvalid in *. simpl in *. specialize (IH u v). assert (rank t u < rank t v) by (apply IH; auto; lia). lia.
Qed.

Lemma rank_inj valid u v :
  isvalid valid u = true -> isvalid valid v = true -> rank valid u = rank valid v -> u = v.
Proof.
  intros Hu Hv Heq. destruct (Nat.lt_trichotomy u v) as [H|[H|H]]; auto.
  - pose proof (rank_lt valid u v H Hu). lia.
  - pose proof (rank_lt valid v u H Hv). lia.
Qed.

Lemma qadj_subgraph valid E u v :
  isvalid valid u = true -> isvalid valid v = true ->
  (qadj (subgraph_model valid E) (rank valid u) (rank valid v) == qadj E u v)%Q.
Proof.
  intros Hu Hv. unfold subgraph_model. induction E as [|e t IH]; [simpl; lra|].
  cbn [filter]. rewrite (qadj_cons e t u v).
  destruct (isvalid valid (qsrc e) && isvalid valid (qdst e)) eqn:Hc.
  - apply andb_true_iff in Hc. destruct Hc as [Hs Hd].
    cbn [map]. rewrite qadj_cons.
    change (qsrc (rank valid (qsrc e), rank valid (qdst e), qw e)) with (rank valid (qsrc e)).
    change (qdst (rank valid (qsrc e), rank valid (qdst e), qw e)) with (rank valid (qdst e)).
    change (qw (rank valid (qsrc e), rank valid (qdst e), qw e)) with (qw e).
    replace (Nat.eqb (rank valid (qsrc e)) (rank valid u)) with (Nat.eqb (qsrc e) u).
    2:{ destruct (Nat.eqb_spec (qsrc e) u) as [->|Hne]; [now rewrite Nat.eqb_refl|].
        symmetry. apply Nat.eqb_neq. intros Hr. apply Hne. eapply rank_inj; eauto. }
    replace (Nat.eqb (rank valid (qdst e)) (rank valid v)) with (Nat.eqb (qdst e) v).
    2:{ destruct (Nat.eqb_spec (qdst e) v) as [->|Hne]; [now rewrite Nat.eqb_refl|].
        symmetry. apply Nat.eqb_neq. intros Hr. apply Hne. eapply rank_inj; eauto. }
    destruct (Nat.eqb (qsrc e) u && Nat.eqb (qdst e) v); rewrite IH; lra.
  - destruct (Nat.eqb_spec (qsrc e) u) as [E1|_]; destruct (Nat.eqb_spec (qdst e) v) as [E2|_]; cbn [andb]; auto.
    subst. rewrite Hu, Hv in Hc. discriminate.
Qed.

(* the renumbered vertices are exactly 0 .. (number of valid vertices) - 1 *)
Lemma rank_bound valid v : rank valid v <= length (filter (fun b => b) valid).
Proof.
  revert v; induction valid as [|b t IH]; intros [|v]; simpl; try lia.
  specialize (IH v). destruct b; simpl; lia.
Qed.
