(* C11 - floyd(): rows follow the caller's seed order; certified rows are distance maps *)
From Coq Require Import ZArith List Bool Lia ZifyBool Arith.
From NV.C11 Require Import Model Proofs Proofs5.
Import ListNotations.
Open Scope Z_scope.

(* accumulator invariant of the `dg = None ... np.vstack` loop *)
Lemma floyd_fold_some V E order seeds rows :
  fold_left (floyd_step V E order) seeds (Some rows) =
  Some (rows ++ map (fun s => dijkstra_model V E order [s]) seeds).
Proof.
  revert rows; induction seeds as [|s ss IH]; intros rows; simpl.
  - now rewrite app_nil_r.
  - rewrite IH. now rewrite <- app_assoc.
Qed.

Lemma floyd_code_eq V E order seed :
  floyd_code V E order seed =
  match floyd_seeds V seed with
  | [] => None
  | _ :: _ => Some (floyd_model V E order (floyd_seeds V seed))
  end.
Proof.
  unfold floyd_code, floyd_model. destruct (floyd_seeds V seed) as [|s ss]; simpl; auto.
  now rewrite floyd_fold_some.
Qed.

Lemma nth_map_lt {A B} (f : A -> B) (l : list A) (i : nat) (da : A) (db : B) :
  (i < length l)%nat -> nth i (map f l) db = f (nth i l da).
Proof.
  revert i; induction l as [|a l IH]; intros [|i] Hi; simpl in *; try lia; auto.
  apply IH; lia.
Qed.

(* row i belongs to seed[i], whatever the order / repetitions of the seeds *)
Lemma floyd_rows_follow_seed_order_lemma V E order seed rows :
  floyd_code V E order seed = Some rows ->
  length rows = length (floyd_seeds V seed) /\
  forall i, (i < length (floyd_seeds V seed))%nat ->
    nth i rows [] = dijkstra_model V E order [nth i (floyd_seeds V seed) O].
Proof.
  rewrite floyd_code_eq. destruct (floyd_seeds V seed) as [|s ss] eqn:HS; [discriminate|].
  remember (s :: ss) as S eqn:ES. intros H; injection H as <-. unfold floyd_model. split.
  - now rewrite map_length.
  - intros i Hi. now rewrite (nth_map_lt (fun s0 => dijkstra_model V E order [s0]) S i O []).
Qed.

(* floyd returns a matrix exactly when there is at least one seed *)
Lemma floyd_some_iff_seeds V E order seed :
  floyd_seeds V seed <> [] -> exists rows, floyd_code V E order seed = Some rows.
Proof.
  intros H. rewrite floyd_code_eq. destruct (floyd_seeds V seed); [contradiction|eauto].
Qed.

(* seed=None: all-pairs matrix, V rows, row v = distances from v *)
Lemma floyd_none_all_pairs_lemma V E order rows :
  floyd_code V E order None = Some rows ->
  length rows = V /\ forall v, (v < V)%nat -> nth v rows [] = dijkstra_model V E order [v].
Proof.
  intros H. apply floyd_rows_follow_seed_order_lemma in H. cbn [floyd_seeds] in H.
  rewrite seq_length in H. destruct H as [HL HR]. split; auto.
  intros v Hv. rewrite (HR v Hv). now rewrite seq_nth.
Qed.

(* certified rows: every row accepted by the sound-and-complete sp_check against ITS OWN seed
   is the distance function of that seed *)
Lemma floyd_rows_check_sound V E seeds rows :
  floyd_rows_check V E seeds rows = true ->
  length rows = length seeds /\
  forall i, (i < length seeds)%nat -> is_sp_dist E [nth i seeds O] (getd (nth i rows [])).
Proof.
  revert rows; induction seeds as [|s ss IH]; intros [|r rs] H; simpl in H; try discriminate.
  - split; auto. intros i Hi; simpl in Hi; lia.
  - apply andb_true_iff in H. destruct H as [H1 H2]. apply IH in H2. destruct H2 as [HL HR].
    split; [simpl; now rewrite HL|].
    intros [|i] Hi; simpl in *.
    + now apply (sp_check_sound V).
    + apply HR; lia.
Qed.

Lemma floyd_checked_lemma V E order seed rows :
  floyd_code V E order seed = Some rows ->
  floyd_rows_check V E (floyd_seeds V seed) rows = true ->
  forall i, (i < length (floyd_seeds V seed))%nat ->
    is_sp_dist E [nth i (floyd_seeds V seed) O] (getd (dijkstra_model V E order [nth i (floyd_seeds V seed) O])).
Proof.
  intros Hc Hk i Hi. apply floyd_rows_follow_seed_order_lemma in Hc. destruct Hc as [_ HR].
  rewrite <- (HR i Hi). now apply (floyd_rows_check_sound V E).
Qed.

(* outright on edgeless graphs: for EVERY V and every seed array (any order, repeats) below V *)
Lemma floyd_no_edges_lemma V seed rows :
  (forall s, In s (floyd_seeds V seed) -> (s < V)%nat) ->
  floyd_code V [] [] seed = Some rows ->
  length rows = length (floyd_seeds V seed) /\
  forall i, (i < length (floyd_seeds V seed))%nat ->
    is_sp_dist [] [nth i (floyd_seeds V seed) O] (getd (nth i rows [])).
Proof.
  intros Hs Hc. apply floyd_rows_follow_seed_order_lemma in Hc. destruct Hc as [HL HR].
  split; auto. intros i Hi. rewrite (HR i Hi). apply dijkstra_no_edges_lemma.
  intros s [<-|[]]. apply Hs. now apply nth_In.
Qed.
