(* C11 - lemmas, part 6: soundness of the forest certificate check. *)
From Coq Require Import ZArith List Bool Lia ZifyBool Arith.
From NV.C11 Require Import Model Proofs.
Import ListNotations.
Open Scope Z_scope.

Lemma connected_mono B e u v : connected B u v -> connected (B ++ [e]) u v.
Proof.
  intros H. induction H as [w|w y z e0 H IH He Hs Hd|w y z e0 H IH He Hs Hd].
  - constructor.
  - apply (cn_fwd _ w y z e0); auto. apply in_or_app; now left.
  - apply (cn_bwd _ w y z e0); auto. apply in_or_app; now left.
Qed.

Lemma connected_nil u v : connected [] u v -> u = v.
Proof. intros H. induction H as [w|w y z e0 H IH He|w y z e0 H IH He]; auto; destruct He. Qed.

Lemma getl_map f lab x : (x < length lab)%nat -> getl (map f lab) x = f (getl lab x).
Proof.
  intros Hx. unfold getl. rewrite (nth_indep _ (-1) (f (-1))) by (now rewrite map_length).
  apply map_nth.
Qed.

Section ForestStep.
  Variables (V : nat) (B : list edge) (lab : list Z) (e : edge).
  Hypothesis Hlen : length lab = V.
  Hypothesis HB : forall x, In x B -> (esrc x < V)%nat /\ (edst x < V)%nat.
  Hypothesis He : (esrc e < V)%nat /\ (edst e < V)%nat.
  Hypothesis Hinv : forall u v, (u < V)%nat -> (v < V)%nat -> (getl lab u = getl lab v <-> connected B u v).
  Hypothesis Hne : getl lab (esrc e) <> getl lab (edst e).

  Let la := getl lab (esrc e).
  Let lb := getl lab (edst e).
  Let f := fun x => if x =? lb then la else x.

  Lemma reach_in_range u v : (u < V)%nat -> connected (B ++ [e]) u v -> (v < V)%nat.
  Proof.
    intros Hu H. induction H as [w|w y z e0 H IH Hin Hs Hd|w y z e0 H IH Hin Hs Hd]; auto.
    - apply in_app_or in Hin. destruct Hin as [Hin|[<-|[]]]; subst; [apply HB; auto|apply He].
    - apply in_app_or in Hin. destruct Hin as [Hin|[<-|[]]]; subst; [apply HB; auto|apply He].
  Qed.

  Lemma step_not_connected : ~ connected B (esrc e) (edst e).
  Proof. intros H. apply Hne. apply Hinv; auto; apply He. Qed.

  Lemma step_inv u v : (u < V)%nat -> (v < V)%nat ->
    (getl (map f lab) u = getl (map f lab) v <-> connected (B ++ [e]) u v).
  Proof.
    intros Hu Hv. rewrite !getl_map by lia. destruct He as [Hs Hd]. split.
    - intros Heq. unfold f in Heq.
      destruct (getl lab u =? lb) eqn:E1; destruct (getl lab v =? lb) eqn:E2.
      + apply connected_mono. apply Hinv; auto. lia.
      + (* u with the target side, v with the source side *)
        assert (C1 : connected B u (edst e)) by (apply Hinv; auto; fold lb; lia).
        assert (C2 : connected B (esrc e) v) by (apply Hinv; auto; fold la; lia).
        eapply connected_trans; [apply connected_mono; exact C1|].
        eapply connected_trans; [|apply connected_mono; exact C2].
        apply (cn_bwd _ (edst e) (edst e) (esrc e) e); auto; [constructor|apply in_or_app; right; now left].
      + assert (C1 : connected B u (esrc e)) by (apply Hinv; auto; fold la; lia).
        assert (C2 : connected B (edst e) v) by (apply Hinv; auto; fold lb; lia).
        eapply connected_trans; [apply connected_mono; exact C1|].
        eapply connected_trans; [|apply connected_mono; exact C2].
        apply (cn_fwd _ (esrc e) (esrc e) (edst e) e); auto; [constructor|apply in_or_app; right; now left].
      + apply connected_mono. apply Hinv; auto.
    - intros H. induction H as [w|w y z e0 H IH Hin Hs0 Hd0|w y z e0 H IH Hin Hs0 Hd0]; auto.
      + assert (Hy : (y < V)%nat) by (exact (reach_in_range w y Hu H)).
        rewrite (IH Hu Hy). apply in_app_or in Hin. destruct Hin as [Hin|[<-|[]]].
        * assert (getl lab y = getl lab z).
          { apply Hinv; auto. apply (cn_fwd B y y z e0); auto. constructor. }
          congruence.
        * subst y z. fold la lb. unfold f. replace (la =? lb) with false by lia.
          replace (lb =? lb) with true by lia. reflexivity.
      + assert (Hy : (y < V)%nat) by (exact (reach_in_range w y Hu H)).
        rewrite (IH Hu Hy). apply in_app_or in Hin. destruct Hin as [Hin|[<-|[]]].
        * assert (getl lab y = getl lab z).
          { apply Hinv; auto. apply (cn_bwd B y y z e0); auto. constructor. }
          congruence.
        * subst y z. fold la lb. unfold f. replace (la =? lb) with false by lia.
          replace (lb =? lb) with true by lia. reflexivity.
  Qed.
End ForestStep.

Lemma forest_loop_sound V T : forall B lab,
  length lab = V ->
  (forall x, In x B -> (esrc x < V)%nat /\ (edst x < V)%nat) ->
  (forall x, In x T -> (esrc x < V)%nat /\ (edst x < V)%nat) ->
  (forall u v, (u < V)%nat -> (v < V)%nat -> (getl lab u = getl lab v <-> connected B u v)) ->
  forest_loop T lab = true -> forest_from B T.
Proof.
  induction T as [|e t IH]; intros B lab Hlen HB HT Hinv H; [constructor|].
  simpl in H. destruct (getl lab (esrc e) =? getl lab (edst e)) eqn:Heq; [discriminate|].
  assert (Hne : getl lab (esrc e) <> getl lab (edst e)) by lia.
  assert (He : (esrc e < V)%nat /\ (edst e < V)%nat) by (apply HT; now left).
  constructor.
  - eapply step_not_connected; eauto.
  - eapply (IH (B ++ [e])); [| | | |exact H].
    + now rewrite map_length.
    + intros x Hx. apply in_app_or in Hx. destruct Hx as [Hx|[<-|[]]]; auto.
    + intros x Hx. apply HT. now right.
    + intros u v Hu Hv. eapply step_inv; eauto.
Qed.

Lemma forest_check_sound V T : forest_check V T = true -> is_forest T.
Proof.
  unfold forest_check, is_forest. intros H. apply andb_true_iff in H. destruct H as [Hwf Hloop].
  rewrite forallb_forall in Hwf.
  apply (forest_loop_sound V T [] (map Z.of_nat (seq 0 V))); auto.
  - now rewrite map_length, seq_length.
  - intros x [].
  - intros x Hx. specialize (Hwf _ Hx). apply andb_true_iff in Hwf. destruct Hwf. split; lia.
  - intros u v Hu Hv.
    split.
    + intros Heq. assert (u = v); [|subst; constructor].
      unfold getl in Heq.
      rewrite (nth_indep _ (-1) (Z.of_nat O)) in Heq by (now rewrite map_length, seq_length).
      rewrite (nth_indep (map Z.of_nat (seq 0 V)) (-1) (Z.of_nat O)) in Heq by (now rewrite map_length, seq_length).
      rewrite !(map_nth Z.of_nat) in Heq. rewrite !seq_nth in Heq by lia. lia.
    + intros Hc. apply connected_nil in Hc. now subst.
Qed.
