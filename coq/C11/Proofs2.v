(* C11 - lemmas, part 2: the base-m hashing of graph_3d_grid. *)
From Coq Require Import ZArith List Bool Lia ZifyBool Arith.
From NV.C11 Require Import Model.
Import ListNotations.
Open Scope Z_scope.

(* a number a + m b + m^2 c with |a - k| < m and |b| < m equals k only when a = k, b = c = 0 *)
Lemma base_m_digits m a b c k :
  0 < m -> Z.abs (a - k) < m -> Z.abs b < m -> a + m * b + m * m * c = k -> a = k /\ b = 0 /\ c = 0.
Proof.
  intros Hm Ha Hb H.
  assert (E1 : a - k = m * (- (b + m * c))) by lia.
  assert (Z1 : b + m * c = 0) by nia.
  assert (Z2 : c = 0) by nia.
  subst c. lia.
Qed.

Lemma ghash_zero m r : ghash m r (0, 0, 0) = 0.
Proof. destruct r as [[[[a1 a2] a3] [[b1 b2] b3]] [[c1 c2] c3]]. unfold ghash, dot3. ring. Qed.

Lemma grid_hash_correct :
  forall r l dir, In (r, l, dir) grid_rows ->
  forall Mx My Mz dx dy dz,
    Z.abs dx <= Mx -> Z.abs dy <= My -> Z.abs dz <= Mz ->
    let m := 3 * (Mx + My + Mz) + 2 in
    (ghash m r (dx, dy, dz) = l <-> (dx, dy, dz) = dir) /\
    ~ (0 < ghash m r (dx, dy, dz) < l) /\
    (ghash m r (dx, dy, dz) = 0 <-> (dx, dy, dz) = (0, 0, 0)).
Proof.
  intros r l dir Hin Mx My Mz dx dy dz Hx Hy Hz m.
  assert (Hm : 0 < m) by (unfold m; lia).
  assert (HS : Mx + My + Mz = 0 \/ 1 <= Mx + My + Mz) by lia.
  destruct HS as [HS|HS].
  - assert (dx = 0) by lia. assert (dy = 0) by lia. assert (dz = 0) by lia. subst dx dy dz.
    rewrite ghash_zero. unfold grid_rows in Hin.
    repeat (destruct Hin as [Hin|Hin]; [inversion Hin; subst r l dir; clear Hin|]); try contradiction;
      (split; [split; [lia|intros E; inversion E]|split; [lia|split; auto]]).
  - assert (Hb : forall t, Z.abs t <= Mx + My + Mz + 3 -> Z.abs t < m) by (intros t Ht; unfold m; lia).
    unfold grid_rows in Hin.
    repeat (destruct Hin as [Hin|Hin]; [inversion Hin; subst r l dir; clear Hin|]); try contradiction;
    unfold ghash, dot3;
    (split; [split; [intros H; match type of H with ?a + m * ?b + m * m * ?c = ?k =>
                                 destruct (base_m_digits m a b c k Hm) as [E1 [E2 E3]]; [apply Hb; lia|apply Hb; lia|exact H|] end;
                                f_equal; [f_equal|]; lia
                    | intros E; inversion E; subst; ring]
           | split; [intros [L U];
                     match type of L with 0 < ?a + m * ?b + m * m * ?c =>
                       assert (C : a + m * b + m * m * c = 1 \/ a + m * b + m * m * c = 2) by lia;
                       destruct C as [C|C];
                       [destruct (base_m_digits m a b c 1 Hm) as [E1 [E2 E3]]; [apply Hb; lia|apply Hb; lia|exact C|lia]
                       |destruct (base_m_digits m a b c 2 Hm) as [E1 [E2 E3]]; [apply Hb; lia|apply Hb; lia|exact C|lia]] end
                    | split; [intros H; match type of H with ?a + m * ?b + m * m * ?c = 0 =>
                                 destruct (base_m_digits m a b c 0 Hm) as [E1 [E2 E3]]; [apply Hb; lia|apply Hb; lia|exact H|] end;
                                f_equal; [f_equal|]; lia
                             | intros E; inversion E; subst; ring]]]).
Qed.
