(* C11 - graph algorithms: executable definitions only.
   Edge-list graphs (V, list (src, dst, weight)) with integer weights, as in
   nipy/algorithms/graph/graph.py (edges (E,2), weights (E,)).
   Part A: abstract specs (paths, distances, components, voronoi).
   Part B: certificate checkers (proved sound in Proofs.v).
   Part C: models of the code as written: compact_neighb, dijkstra, floyd,
           voronoi_labelling, cc (canonical labels), kruskal.
   Part D: adjacency-matrix semantics of the structural operations (over Q),
           builders (knn threshold rule, eps_nn, 3-d grid hashing). *)
From Coq Require Import ZArith List Bool Lia ZifyBool Arith.
Import ListNotations.
Open Scope Z_scope.

Definition edge := (nat * nat * Z)%type.
Definition esrc (e : edge) : nat := fst (fst e).
Definition edst (e : edge) : nat := snd (fst e).
Definition ew (e : edge) : Z := snd e.

Definition dist_t := list (option Z).           (* None = +inf *)
Definition getd (d : dist_t) (v : nat) : option Z := nth v d None.

Fixpoint set_nth {A} (l : list A) (n : nat) (x : A) : list A :=
  match l, n with
  | [], _ => []
  | _ :: t, O => x :: t
  | y :: t, S k => y :: set_nth t k x
  end.

(* ------------------------------------------------------------------ *)
(* Part A: specifications                                              *)

(* a directed walk u -> ... -> x of total length l using edges of E *)
Inductive path_len (E : list edge) : nat -> nat -> Z -> Prop :=
| pl_refl : forall u, path_len E u u 0
| pl_step : forall u v x e l, path_len E u v l -> In e E -> esrc e = v -> edst e = x ->
                              path_len E u x (l + ew e).

(* d is the shortest-path distance function from the seed set:
   finite entries are attained by a walk from a seed and are lower bounds of
   every walk from every seed; infinite entries have no walk at all. *)
Definition is_sp_dist (E : list edge) (seeds : list nat) (d : nat -> option Z) : Prop :=
  forall v, match d v with
            | Some x => (exists s, In s seeds /\ path_len E s v x) /\
                        (forall s l, In s seeds -> path_len E s v l -> x <= l)
            | None => forall s l, In s seeds -> ~ path_len E s v l
            end.

(* undirected connectivity: equivalence closure of the edge relation *)
Inductive connected (E : list edge) : nat -> nat -> Prop :=
| cn_refl : forall u, connected E u u
| cn_fwd : forall u v x e, connected E u v -> In e E -> esrc e = v -> edst e = x -> connected E u x
| cn_bwd : forall u v x e, connected E u v -> In e E -> edst e = v -> esrc e = x -> connected E u x.

(* labels partition the vertices 0..V-1 exactly by connectivity *)
Definition is_cc_labelling (V : nat) (E : list edge) (lab : nat -> Z) : Prop :=
  forall u v, (u < V)%nat -> (v < V)%nat -> (lab u = lab v <-> connected E u v).

(* voronoi labelling: a vertex reachable from the seeds carries the index of a
   seed that is at minimum graph distance; unreachable vertices carry -1 *)
Definition is_voronoi (E : list edge) (seeds : list nat) (lab : nat -> Z) : Prop :=
  forall v,
    (lab v = -1 /\ forall s l, In s seeds -> ~ path_len E s v l) \/
    (exists i x, lab v = Z.of_nat i /\ (i < length seeds)%nat /\
                 path_len E (nth i seeds O) v x /\
                 forall s l, In s seeds -> path_len E s v l -> x <= l).

(* ------------------------------------------------------------------ *)
(* Part B: checkers                                                    *)

Definition bget (R : list bool) (v : nat) : bool := nth v R false.

(* closure of a vertex set under the edges accepted by ok; n rounds *)
Definition grow1 (ok : edge -> bool) (R : list bool) (e : edge) : list bool :=
  if ok e && bget R (esrc e) then set_nth R (edst e) true else R.
Definition grow (ok : edge -> bool) (E : list edge) (R : list bool) : list bool :=
  fold_left (grow1 ok) E R.
Fixpoint closure (n : nat) (ok : edge -> bool) (E : list edge) (R : list bool) : list bool :=
  match n with O => R | S k => closure k ok E (grow ok E R) end.

Definition mark (V : nat) (l : list nat) : list bool :=
  fold_left (fun R s => set_nth R s true) l (repeat false V).

Definition tight (d : dist_t) (e : edge) : bool :=
  match getd d (esrc e), getd d (edst e) with
  | Some a, Some b => a + ew e =? b
  | _, _ => false
  end.

Definition edge_ok (V : nat) (d : dist_t) (e : edge) : bool :=
  (0 <=? ew e) && (esrc e <? V)%nat && (edst e <? V)%nat &&
  match getd d (esrc e) with
  | Some a => match getd d (edst e) with Some b => b <=? a + ew e | None => false end
  | None => true
  end.

Definition seed_ok (V : nat) (d : dist_t) (s : nat) : bool :=
  (s <? V)%nat && match getd d s with Some x => x =? 0 | None => false end.

(* shortest-path certificate check: d itself is the certificate.
   (1) seeds at 0; (2) every edge: valid endpoints, weight >= 0, triangle
   inequality, finite source => finite target ("inf closed"); (3) every finite
   vertex is reached from the seeds along tight edges (chain of tight
   predecessors, found by V rounds of closure - well-founded by construction,
   so zero-weight cycles cannot certify themselves). *)
Definition sp_check (V : nat) (E : list edge) (seeds : list nat) (d : dist_t) : bool :=
  (length d =? V)%nat && forallb (seed_ok V d) seeds && forallb (edge_ok V d) E &&
  (let R := closure V (tight d) E (mark V seeds) in
   forallb (fun v => match getd d v with Some _ => bget R v | None => true end) (seq 0 V)).

(* connected-components certificate check for labels 0..k-1:
   every edge joins equal labels; every vertex is reached (undirected closure
   over all edges, both orientations present is NOT assumed: closure uses the
   edge list and its reversal) from the first vertex carrying its label. *)
Definition erev (e : edge) : edge := (edst e, esrc e, ew e).
Definition getl (lab : list Z) (v : nat) : Z := nth v lab (-1).
Fixpoint first_with (lab : list Z) (k : Z) (i : nat) : nat :=
  match lab with
  | [] => i
  | x :: t => if x =? k then i else first_with t k (S i)
  end.
Definition cc_check (V : nat) (E : list edge) (lab : list Z) : bool :=
  (length lab =? V)%nat &&
  forallb (fun e => (esrc e <? V)%nat && (edst e <? V)%nat && (getl lab (esrc e) =? getl lab (edst e))) E &&
  (let E2 := E ++ map erev E in
   forallb (fun v =>
              let r := first_with lab (getl lab v) O in
              bget (closure V (fun _ => true) E2 (mark V [r])) v) (seq 0 V)).
(* cheaper variant used on larger graphs: one closure per distinct label *)
Definition cc_check_fast (V : nat) (E : list edge) (lab : list Z) (nlab : nat) : bool :=
  (length lab =? V)%nat &&
  forallb (fun e => (esrc e <? V)%nat && (edst e <? V)%nat && (getl lab (esrc e) =? getl lab (edst e))) E &&
  (let E2 := E ++ map erev E in
   let roots := map (fun k => first_with lab (Z.of_nat k) O) (seq 0 nlab) in
   let Rs := map (fun r => closure V (fun _ => true) E2 (mark V [r])) roots in
   forallb (fun v => match getl lab v with
                     | Zneg _ => false
                     | k => bget (nth (Z.to_nat k) Rs []) v &&
                            (getl lab (nth (Z.to_nat k) roots O) =? k)
                     end) (seq 0 V)).

(* labels are numbered in order of first appearance (lil_cc: BFS from the
   lowest unvisited vertex, k incremented per component) *)
Fixpoint canonical_from (lab : list Z) (next : Z) : bool :=
  match lab with
  | [] => true
  | x :: t => if x =? next then canonical_from t (next + 1)
              else (0 <=? x) && (x <? next) && canonical_from t next
  end.

(* voronoi certificate check: d must pass sp_check for the seed set (so d is
   the distance to the nearest seed); a finite vertex carries a label i that
   indexes a seed from which it is reached along tight edges (so seed i is at
   distance d v: a nearest seed); infinite vertices carry -1. *)
Definition vor_check (V : nat) (E : list edge) (seeds : list nat) (d : dist_t) (lab : list Z) : bool :=
  sp_check V E seeds d && (length lab =? V)%nat &&
  forallb (fun v =>
             match getd d v with
             | None => getl lab v =? -1
             | Some _ =>
                 (0 <=? getl lab v) &&
                 (let i := Z.to_nat (getl lab v) in
                  (i <? length seeds)%nat &&
                  bget (closure V (tight d) E (mark V [nth i seeds O])) v)
             end) (seq 0 V).

(* forest: the undirected edge list can be built by adding its edges one at a
   time, each joining two vertices that the edges before it do not connect
   (so no edge ever closes a cycle) *)
Inductive forest_from (B : list edge) : list edge -> Prop :=
| ff_nil : forest_from B []
| ff_cons : forall e t, ~ connected B (esrc e) (edst e) -> forest_from (B ++ [e]) t -> forest_from B (e :: t).
Definition is_forest (T : list edge) : Prop := forest_from [] T.

(* forest certificate check: label merging as in kruskal; an edge whose end
   points already carry the same label is refused *)
Fixpoint forest_loop (T : list edge) (lab : list Z) : bool :=
  match T with
  | [] => true
  | e :: t =>
      let la := getl lab (esrc e) in
      let lb := getl lab (edst e) in
      if la =? lb then false
      else forest_loop t (map (fun x => if x =? lb then la else x) lab)
  end.
Definition forest_check (V : nat) (T : list edge) : bool :=
  forallb (fun e => (esrc e <? V)%nat && (edst e <? V)%nat) T &&
  forest_loop T (map Z.of_nat (seq 0 V)).

(* ------------------------------------------------------------------ *)
(* Part C: models of the code as written                               *)

(* compact_neighb (graph.py:714-730).  `order` is the value returned by
   np.argsort(edges[:,0]*float(V) + edges[:,1]) (oracle: any permutation that
   sorts the keys; ties in unspecified order).  idx = [0, cumsum(out-degree)],
   out-degrees counted with multiplicity (Graph.degrees on the coo matrix). *)
Definition ekey (V : nat) (e : edge) : Z := Z.of_nat (esrc e) * Z.of_nat V + Z.of_nat (edst e).
Definition out_degree (E : list edge) (u : nat) : nat :=
  length (filter (fun e => Nat.eqb (esrc e) u) E).
Fixpoint cumsum (acc : nat) (l : list nat) : list nat :=
  match l with [] => [] | x :: t => (acc + x)%nat :: cumsum (acc + x)%nat t end.
Definition compact_idx (V : nat) (E : list edge) : list nat :=
  O :: cumsum O (map (out_degree E) (seq 0 V)).
Definition compact_sorted (E : list edge) (order : list nat) : list edge :=
  map (fun i => nth i E (O, O, 0)) order.
Definition slice {A} (l : list A) (a b : nat) : list A := firstn (b - a) (skipn a l).
Definition compact_rows (V : nat) (E : list edge) (order : list nat) : list (list (nat * Z)) :=
  let idx := compact_idx V E in
  let nw := map (fun e => (edst e, ew e)) (compact_sorted E order) in
  map (fun u => slice nw (nth u idx O) (nth (S u) idx O)) (seq 0 V).

Fixpoint sorted_keys (l : list Z) : bool :=
  match l with
  | x :: ((y :: _) as t) => (x <=? y) && sorted_keys t
  | _ => true
  end.
Fixpoint count_nat (x : nat) (l : list nat) : nat :=
  match l with [] => O | y :: t => ((if Nat.eqb x y then 1 else 0) + count_nat x t)%nat end.
Definition is_perm_of_range (n : nat) (order : list nat) : bool :=
  (length order =? n)%nat && forallb (fun i => (count_nat i order =? 1)%nat) (seq 0 n).
Definition order_ok (V : nat) (E : list edge) (order : list nat) : bool :=
  is_perm_of_range (length E) order && sorted_keys (map (ekey V) (compact_sorted E order)).

(* heap of (dist, vertex) tuples; heapq pops a lexicographic minimum *)
Definition hitem := (Z * nat)%type.
Definition hlt (a b : hitem) : bool :=
  (fst a <? fst b) || ((fst a =? fst b) && (snd a <? snd b)%nat).
Fixpoint hmin (x : hitem) (h : list hitem) : hitem :=
  match h with [] => x | y :: t => hmin (if hlt y x then y else x) t end.
Fixpoint hremove (x : hitem) (h : list hitem) : list hitem :=
  match h with
  | [] => []
  | y :: t => if (fst y =? fst x) && (snd y =? snd x)%nat then t else y :: hremove x t
  end.
Definition pop_min (h : list hitem) : option (hitem * list hitem) :=
  match h with [] => None | y :: t => let m := hmin y t in Some (m, hremove m h) end.

(* lazy deletion: pop until an active vertex comes out (graph.py:694-700) *)
Fixpoint pop_active (fuel : nat) (active : list bool) (h : list hitem) : option (hitem * list hitem) :=
  match fuel with
  | O => None
  | S f => match pop_min h with
           | None => None
           | Some (m, h') => if bget active (snd m) then Some (m, h') else pop_active f active h'
           end
  end.

Definition lt_opt (nd : Z) (o : option Z) : bool :=
  match o with None => true | Some x => nd <? x end.

(* vectorised relaxation (graph.py, dijkstra): `who` is computed against the
   distances before any update of this round; all selected entries are pushed;
   np.minimum.at(dist, l[who], newdist[who]) lowers each target to the smallest
   selected candidate (unbuffered: a repeated index - parallel edges - is
   handled entry by entry). *)
Definition min_opt (nd : Z) (o : option Z) : Z :=
  match o with None => nd | Some x => Z.min x nd end.
Definition relax (dist : dist_t) (dwin : Z) (row : list (nat * Z)) : dist_t * list hitem :=
  let cand := map (fun p => (fst p, dwin + snd p)) row in
  let sel := filter (fun p => lt_opt (snd p) (getd dist (fst p))) cand in
  (fold_left (fun D p => set_nth D (fst p) (Some (min_opt (snd p) (getd D (fst p))))) sel dist,
   map (fun p => (snd p, fst p)) sel).

Fixpoint dij_loop (fuel : nat) (adj : list (list (nat * Z))) (dist : dist_t)
         (active : list bool) (heap : list hitem) : dist_t :=
  match fuel with
  | O => dist
  | S f =>
      match pop_active (length heap) active heap with
      | None => dist
      | Some (m, h') =>
          let win := snd m in
          let r := relax dist (fst m) (nth win adj []) in
          dij_loop f adj (fst r) (set_nth active win false) (snd r ++ h')
      end
  end.

Definition dijkstra_rows (V : nat) (adj : list (list (nat * Z))) (seeds : list nat) : dist_t :=
  let dist0 := fold_left (fun D s => set_nth D s (Some 0)) seeds (repeat None V) in
  dij_loop V adj dist0 (repeat true V) (map (fun s => (0, s)) seeds).

Definition dijkstra_model (V : nat) (E : list edge) (order : list nat) (seeds : list nat) : dist_t :=
  dijkstra_rows V (compact_rows V E order) seeds.

Definition floyd_model (V : nat) (E : list edge) (order : list nat) (seeds : list nat) : list dist_t :=
  map (fun s => dijkstra_model V E order [s]) seeds.

(* floyd(seed=None) as written (graph.py, floyd): `if seed is None: seed = np.arange(self.V)`;
   `dg = None`; for every entry s of seed IN THE ORDER GIVEN: the first dijkstra(s) becomes dg,
   every later one is appended below by np.vstack((dg, self.dijkstra(s))).  So the result is None
   for an empty seed array, and otherwise row i is the distance map of seed[i] (repeated seeds give
   repeated rows, unsorted seeds give rows in the caller's order). *)
Definition floyd_seeds (V : nat) (seed : option (list nat)) : list nat :=
  match seed with None => seq 0 V | Some s => s end.
Definition floyd_step (V : nat) (E : list edge) (order : list nat)
           (dg : option (list dist_t)) (s : nat) : option (list dist_t) :=
  match dg with
  | None => Some [dijkstra_model V E order [s]]
  | Some rows => Some (rows ++ [dijkstra_model V E order [s]])
  end.
Definition floyd_code (V : nat) (E : list edge) (order : list nat) (seed : option (list nat))
  : option (list dist_t) :=
  fold_left (floyd_step V E order) (floyd_seeds V seed) None.
(* every row of a floyd result certified against its own seed *)
Fixpoint floyd_rows_check (V : nat) (E : list edge) (seeds : list nat) (rows : list dist_t) : bool :=
  match seeds, rows with
  | [], [] => true
  | s :: ss, r :: rs => sp_check V E [s] r && floyd_rows_check V E ss rs
  | _, _ => false
  end.

(* voronoi_labelling (graph.py:882-929): same loop, scalar relaxation in CSR
   order (each update sees the previous ones), label copied from the winner *)
Definition vrelax1 (dwin : Z) (lwin : Z) (st : dist_t * list Z * list hitem) (p : nat * Z)
  : dist_t * list Z * list hitem :=
  let '(dist, lab, pushed) := st in
  let nd := dwin + snd p in
  if lt_opt nd (getd dist (fst p))
  then (set_nth dist (fst p) (Some nd), set_nth lab (fst p) lwin, (nd, fst p) :: pushed)
  else st.

Fixpoint vor_loop (fuel : nat) (adj : list (list (nat * Z))) (dist : dist_t) (lab : list Z)
         (active : list bool) (heap : list hitem) : dist_t * list Z :=
  match fuel with
  | O => (dist, lab)
  | S f =>
      match pop_active (length heap) active heap with
      | None => (dist, lab)
      | Some (m, h') =>
          let win := snd m in
          let '(dist', lab', pushed) :=
            fold_left (vrelax1 (fst m) (getl lab win)) (nth win adj []) (dist, lab, []) in
          vor_loop f adj dist' lab' (set_nth active win false) (pushed ++ h')
      end
  end.

Fixpoint set_seed_labels (lab : list Z) (seeds : list nat) (i : Z) : list Z :=
  match seeds with [] => lab | s :: t => set_seed_labels (set_nth lab s i) t (i + 1) end.

Definition voronoi_model (V : nat) (E : list edge) (order : list nat) (seeds : list nat) : dist_t * list Z :=
  let dist0 := fold_left (fun D s => set_nth D s (Some 0)) seeds (repeat None V) in
  vor_loop V (compact_rows V E order) dist0 (set_seed_labels (repeat (-1) V) seeds 0)
           (repeat true V) (map (fun s => (0, s)) seeds).

(* cc: labels in order of the lowest vertex of each component.  (lil_cc walks
   out-neighbour lists breadth-first; on a symmetric graph the set it labels
   from vertex r is the component of r.  The model labels the directed closure
   from the lowest unlabelled vertex - the same set as the BFS visits.) *)
Fixpoint label_set (lab : list Z) (R : list bool) (k : Z) : list Z :=
  match lab, R with
  | x :: t, b :: r => (if b && (x =? -1) then k else x) :: label_set t r k
  | l, _ => l
  end.
Fixpoint cc_loop (vs : list nat) (V : nat) (E : list edge) (lab : list Z) (k : Z) : list Z :=
  match vs with
  | [] => lab
  | v :: t => if getl lab v =? -1
              then cc_loop t V E (label_set lab (closure V (fun _ => true) E (mark V [v])) k) (k + 1)
              else cc_loop t V E lab k
  end.
Definition cc_model (V : nat) (E : list edge) : list Z := cc_loop (seq 0 V) V E (repeat (-1) V) 0.

(* kruskal (graph.py) as written: `iw` = np.argsort(weights) (oracle), label
   merging, V-k rounds, 2(V-k) rows (each accepted edge in both orientations). *)
Fixpoint kr_advance (fuel : nat) (E : list edge) (iw : list nat) (lab : list Z) (j : nat) : nat :=
  match fuel with
  | O => j
  | S f => let e := nth (nth j iw O) E (O, O, 0) in
           if getl lab (esrc e) =? getl lab (edst e) then kr_advance f E iw lab (S j) else j
  end.
Fixpoint kr_loop (rounds : nat) (E : list edge) (iw : list nat) (lab : list Z) (j : nat)
         (acc : list edge) : list edge :=
  match rounds with
  | O => acc
  | S r =>
      let j' := kr_advance (length iw) E iw lab j in
      let e := nth (nth j' iw O) E (O, O, 0) in
      let la := getl lab (esrc e) in
      let lb := getl lab (edst e) in
      let lab' := map (fun x => if x =? lb then la else x) lab in
      kr_loop r E iw lab' j' (acc ++ [e; erev e])
  end.
Definition kruskal_model (V : nat) (E : list edge) (iw : list nat) (k : nat) : list edge :=
  kr_loop (V - k) E iw (map Z.of_nat (seq 0 V)) O [].

(* ------------------------------------------------------------------ *)
(* Part E: helpers for the correspondence terms written by the harness  *)
Definition mkE (l : list (Z * Z * Z)) : list edge :=
  map (fun t => (Z.to_nat (fst (fst t)), Z.to_nat (snd (fst t)), snd t)) l.
Definition nats (l : list Z) : list nat := map Z.to_nat l.
Definition mkd (l : list Z) : dist_t := map (fun x => if x <? 0 then None else Some x) l.
Definition und (d : dist_t) : list Z := map (fun o => match o with Some x => x | None => -1 end) d.
(* harness view: None -> [], rows as integer lists (-1 = inf) *)
Definition floyd_flat (V : nat) (E : list edge) (order : list nat) (seed : option (list nat)) : list (list Z) :=
  match floyd_code V E order seed with None => [] | Some rows => map und rows end.
Fixpoint zl_eqb (a b : list Z) : bool :=
  match a, b with
  | [], [] => true
  | x :: a', y :: b' => (x =? y) && zl_eqb a' b'
  | _, _ => false
  end.
Fixpoint zll_eqb (a b : list (list Z)) : bool :=
  match a, b with
  | [], [] => true
  | x :: a', y :: b' => zl_eqb x y && zll_eqb a' b'
  | _, _ => false
  end.
Definition edge_eqb (a b : edge) : bool :=
  Nat.eqb (esrc a) (esrc b) && Nat.eqb (edst a) (edst b) && (ew a =? ew b).
Fixpoint el_eqb (a b : list edge) : bool :=
  match a, b with
  | [], [] => true
  | x :: a', y :: b' => edge_eqb x y && el_eqb a' b'
  | _, _ => false
  end.
(* compact_neighb output as three integer lists *)
Definition compact_flat (V : nat) (E : list edge) (order : list nat) : list (list Z) :=
  [map Z.of_nat (compact_idx V E);
   map (fun e => Z.of_nat (edst e)) (compact_sorted E order);
   map ew (compact_sorted E order)].

(* ------------------------------------------------------------------ *)
(* Part D: builders                                                     *)

(* knn (graph.py) on the matrix D of squared distances (integers; the code
   compares sqrt of the same values, sqrt is monotone).  dist = max(dist, 1e-16)
   is modelled by kfloor x = max (2x, 1): order preserving, zero becomes the
   smallest positive value.  Neighbour rule: dist <= sorted_dist[k] (row 0 of
   the column-sorted matrix is the sample itself), everything when k >= n-1;
   symmetrised; diagonal removed.  Output: 0/1 pattern of the adjacency matrix. *)
Fixpoint zinsert (x : Z) (l : list Z) : list Z :=
  match l with [] => [x] | y :: t => if x <=? y then x :: l else y :: zinsert x t end.
Definition zsort (l : list Z) : list Z := fold_right zinsert [] l.
Definition mget (D : list (list Z)) (i j : nat) : Z := nth j (nth i D []) 0.
Definition col (D : list (list Z)) (j : nat) : list Z := map (fun r => nth j r 0) D.
Definition kfloor (x : Z) : Z := Z.max (2 * x) 1.
Definition knn_bool (D : list (list Z)) (k i j : nat) : bool :=
  let n := length D in
  let k' := Nat.min k (n - 1) in
  if (k' + 1 <? n)%nat
  then kfloor (mget D i j) <=? nth k' (zsort (map kfloor (col D j))) 0
  else true.
Definition knn_model (D : list (list Z)) (k : nat) : list (list Z) :=
  let n := length D in
  map (fun i => map (fun j =>
     if negb (Nat.eqb i j) && (knn_bool D k i j || knn_bool D k j i) then 1 else 0) (seq 0 n)) (seq 0 n).
Definition row_degree (r : list Z) : nat := length (filter (fun x => negb (x =? 0)) r).

(* graph_3d_grid (graph.py:449-512): the 13 hashing directions.  A row
   np.array([cx, cy, cz]) with entries polynomial in m is stored by its base-m
   digits: cx = x0 + x1*m + x2*m^2 etc.; ((x0,y0,z0),(x1,y1,z1),(x2,y2,z2)),
   the l1dist it is used with, and the lattice step it is meant to detect. *)
Definition z3 := (Z * Z * Z)%type.
Definition dot3 (a b : z3) : Z :=
  let '(a1, a2, a3) := a in let '(b1, b2, b3) := b in a1 * b1 + a2 * b2 + a3 * b3.
Definition grid_rows : list ((z3 * z3 * z3) * Z * z3) :=
  [ (* n6: [1, m, m^2], [m^2, 1, m], [m, m^2, 1] *)
    (((1,0,0),(0,1,0),(0,0,1)), 1, (1,0,0));
    (((0,1,0),(0,0,1),(1,0,0)), 1, (0,1,0));
    (((0,0,1),(1,0,0),(0,1,0)), 1, (0,0,1));
    (* n18 *)
    (((1,1,0),(1,-1,0),(0,0,1)), 2, (1,1,0));       (* [1+m, 1-m, m^2] *)
    (((1,-1,0),(1,1,0),(0,0,1)), 2, (1,-1,0));      (* [1+m, m-1, m^2] *)
    (((0,1,1),(0,1,-1),(1,0,0)), 2, (0,1,1));       (* [m^2, 1+m, 1-m] *)
    (((0,1,-1),(0,1,1),(1,0,0)), 2, (0,1,-1));      (* [m^2, 1+m, m-1] *)
    (((1,0,1),(-1,0,1),(0,1,0)), 2, (1,0,1));       (* [1-m, m^2, 1+m] *)
    (((-1,0,1),(1,0,1),(0,1,0)), 2, (-1,0,1));      (* [m-1, m^2, 1+m] *)
    (* n26 *)
    (((1,1,1),(1,-1,0),(1,0,-1)), 3, (1,1,1));      (* [1+m+m^2, 1-m, 1-m^2] *)
    (((1,-1,1),(1,1,0),(1,0,-1)), 3, (1,-1,1));     (* [1+m+m^2, m-1, 1-m^2] *)
    (((1,1,-1),(1,-1,0),(1,0,1)), 3, (1,1,-1));     (* [1+m+m^2, 1-m, m^2-1] *)
    (((1,-1,-1),(1,1,0),(1,0,1)), 3, (1,-1,-1)) ].  (* [1+m+m^2, m-1, m^2-1] *)
Definition ghash (m : Z) (r : z3 * z3 * z3) (d : z3) : Z :=
  let '(r0, r1, r2) := r in dot3 r0 d + m * dot3 r1 d + m * m * dot3 r2 d.
Definition zsub3 (a b : z3) : z3 :=
  let '(a1, a2, a3) := a in let '(b1, b2, b3) := b in (a1 - b1, a2 - b2, a3 - b3).
Definition z3_eqb (a b : z3) : bool :=
  let '(a1, a2, a3) := a in let '(b1, b2, b3) := b in (a1 =? b1) && (a2 =? b2) && (a3 =? b3).
Definition to3 (l : list Z) : z3 := (nth 0 l 0, nth 1 l 0, nth 2 l 0).
(* per-case sanity of the hashing on a concrete coordinate list (harness) *)
Definition grid_hash_ok (m : Z) (pts : list (list Z)) : bool :=
  forallb (fun p => forallb (fun q =>
    let d := zsub3 (to3 q) (to3 p) in
    forallb (fun t => let '(r, l, dir) := t in
                      Bool.eqb (ghash m r d =? l) (z3_eqb d dir) &&
                      negb ((0 <? ghash m r d) && (ghash m r d <? l)) &&
                      Bool.eqb (ghash m r d =? 0) (z3_eqb d (0,0,0))) grid_rows) pts) pts.
