(* C11 - structural operations as functions on edge multisets with rational
   weights, and the weighted adjacency matrix they denote (executable
   definitions only).  adjacency = to_coo_matrix(): parallel edges add up. *)
From Coq Require Import QArith Qabs List Bool Arith.
Import ListNotations.
Close Scope Q_scope.

Definition qedge := (nat * nat * Q)%type.
Definition qsrc (e : qedge) : nat := fst (fst e).
Definition qdst (e : qedge) : nat := snd (fst e).
Definition qw (e : qedge) : Q := snd e.

(* entry (u, v) of to_coo_matrix().toarray() *)
Fixpoint qadj (E : list qedge) (u v : nat) : Q :=
  match E with
  | [] => 0%Q
  | e :: t => if Nat.eqb (qsrc e) u && Nat.eqb (qdst e) v then (qw e + qadj t u v)%Q else qadj t u v
  end.

(* edge list of the stored entries of a V x V sparse matrix, row-major: entry
   (u, v) is stored iff keep u v *)
Definition pmat_row (V : nat) (keep : nat -> nat -> bool) (M : nat -> nat -> Q) (u : nat) : list qedge :=
  flat_map (fun v => if keep u v then [(u, v, M u v)] else []) (seq 0 V).
Definition pmat_edges (V : nat) (keep : nat -> nat -> bool) (M : nat -> nat -> Q) : list qedge :=
  flat_map (pmat_row V keep M) (seq 0 V).
(* wgraph_from_adjacency / wgraph_from_coo_matrix of a dense or arithmetic
   result: one edge per non-zero entry *)
Definition mat_edges (V : nat) (M : nat -> nat -> Q) : list qedge :=
  pmat_edges V (fun u v => negb (Qeq_bool (M u v) 0)) M.

(* symmeterize (graph.py:858-868): wgraph_from_adjacency((A + A.T) / 2) *)
Definition symmeterize_model (V : nat) (E : list qedge) : list qedge :=
  mat_edges V (fun u v => Qred ((qadj E u v + qadj E v u) / 2)%Q).
(* anti_symmeterize (870-880): wgraph_from_adjacency((A - A.T) / 2) *)
Definition anti_symmeterize_model (V : nat) (E : list qedge) : list qedge :=
  mat_edges V (fun u v => Qred ((qadj E u v - qadj E v u) / 2)%Q).
(* cut_redundancies: coo -> csr -> coo keeps one stored entry per vertex pair
   that occurs in the edge list (zero sums included), weights added *)
Definition has_edge (E : list qedge) (u v : nat) : bool :=
  existsb (fun e => Nat.eqb (qsrc e) u && Nat.eqb (qdst e) v) E.
Definition cut_redundancies_model (V : nat) (E : list qedge) : list qedge :=
  pmat_edges V (has_edge E) (fun u v => Qred (qadj E u v)).

(* normalize(c), c = 0 / 1: every edge weight divided by the sum of the weights
   leaving its source (c = 0) / entering its target (c = 1); edge list unchanged *)
Fixpoint out_sum (E : list qedge) (u : nat) : Q :=
  match E with [] => 0%Q | e :: t => if Nat.eqb (qsrc e) u then (qw e + out_sum t u)%Q else out_sum t u end.
Fixpoint in_sum (E : list qedge) (v : nat) : Q :=
  match E with [] => 0%Q | e :: t => if Nat.eqb (qdst e) v then (qw e + in_sum t v)%Q else in_sum t v end.
Definition normalize0_model (E : list qedge) : list qedge :=
  map (fun e => (qsrc e, qdst e, Qred (qw e / out_sum E (qsrc e))%Q)) E.
Definition normalize1_model (E : list qedge) : list qedge :=
  map (fun e => (qsrc e, qdst e, Qred (qw e / in_sum E (qdst e))%Q)) E.

(* remove_trivial_edges (975-988) *)
Definition remove_trivial_model (E : list qedge) : list qedge :=
  filter (fun e => negb (Nat.eqb (qsrc e) (qdst e))) E.

(* concatenate_graphs (539-560): vertices of G2 shifted by G1.V *)
Definition concatenate_model (V1 : nat) (E1 E2 : list qedge) : list qedge :=
  E1 ++ map (fun e => (V1 + qsrc e, V1 + qdst e, qw e)) E2.

(* subgraph (990-1023): keep edges with both endpoints valid, renumber by
   renumb = [0, cumsum(valid > 0)], i.e. rank v = number of valid vertices below v *)
Fixpoint rank (valid : list bool) (v : nat) : nat :=
  match valid, v with
  | _, O => O
  | [], _ => O
  | b :: t, S k => (if b then 1 else 0) + rank t k
  end.
Definition isvalid (valid : list bool) (v : nat) : bool := nth v valid false.
Definition subgraph_model (valid : list bool) (E : list qedge) : list qedge :=
  map (fun e => (rank valid (qsrc e), rank valid (qdst e), qw e))
      (filter (fun e => isvalid valid (qsrc e) && isvalid valid (qdst e)) E).

(* helpers for the correspondence terms *)
Definition qedge_eqb (a b : qedge) : bool :=
  Nat.eqb (qsrc a) (qsrc b) && Nat.eqb (qdst a) (qdst b) && Qeq_bool (qw a) (qw b).
Fixpoint qel_eqb (a b : list qedge) : bool :=
  match a, b with
  | [], [] => true
  | x :: a', y :: b' => qedge_eqb x y && qel_eqb a' b'
  | _, _ => false
  end.

(* an IEEE double f is the correctly rounded value of the rational r only if
   |f - r| <= 2^-53 |r| (normal range); used to compare normalize() with its
   exact model *)
Definition close53 (f r : Q) : bool :=
  Qle_bool (Qabs (f - r)) (Qabs r * (1 # 9007199254740992))%Q.
Fixpoint qel_close (a b : list qedge) : bool :=
  match a, b with
  | [], [] => true
  | x :: a', y :: b' => Nat.eqb (qsrc x) (qsrc y) && Nat.eqb (qdst x) (qdst y) && close53 (qw x) (qw y) && qel_close a' b'
  | _, _ => false
  end.

(* normalize(2): edge (a, b) is divided by sqrt(in_sum a) * sqrt(out_sum b) (entry (a,b) of
   diag(1/sqrt(column sums)) * A * diag(1/sqrt(row sums))).  Square roots are not rational: the model
   gives the SQUARE of every new weight; the harness compares it with the exact square of the returned
   float up to 2^-49 relative (three correctly rounded operations and two square roots). *)
Definition normalize2_sq_model (E : list qedge) : list qedge :=
  map (fun e => (qsrc e, qdst e, Qred (qw e * qw e / (in_sum E (qsrc e) * out_sum E (qdst e)))%Q)) E.
Definition close49 (f r : Q) : bool :=
  Qle_bool (Qabs (f - r)) (Qabs r * (1 # 562949953421312))%Q.
Fixpoint qel_close49 (a b : list qedge) : bool :=
  match a, b with
  | [], [] => true
  | x :: a', y :: b' => Nat.eqb (qsrc x) (qsrc y) && Nat.eqb (qdst x) (qdst y) && close49 (qw x) (qw y) && qel_close49 a' b'
  | _, _ => false
  end.
