(* C11 - structural operations as functions on edge multisets with rational
   weights, and the weighted adjacency matrix they denote (executable
   definitions only).  adjacency = to_coo_matrix(): parallel edges add up. *)
From Coq Require Import QArith List Bool Arith.
Import ListNotations.
Close Scope Q_scope.

Definition qedge := (nat * nat * Q)%type.
Definition qsrc (e : qedge) : nat := fst (fst e).
Definition qdst (e : qedge) : nat := snd (fst e).
Definition qw (e : qedge) : Q := snd e.

(* entry (u, v) of to_coo_matrix().toarray() *)
Fixpoint qadj (E : list qedge) (u v : nat) : Q :=
  match E with
  | [] => 0%Q
  | e :: t => if Nat.eqb (qsrc e) u && Nat.eqb (qdst e) v then (qw e + qadj t u v)%Q else qadj t u v
  end.

(* wgraph_from_adjacency / wgraph_from_coo_matrix of a V x V matrix: one edge
   per non-zero entry, row-major *)
Definition mat_row (V : nat) (M : nat -> nat -> Q) (u : nat) : list qedge :=
  flat_map (fun v => if Qeq_bool (M u v) 0 then [] else [(u, v, M u v)]) (seq 0 V).
Definition mat_edges (V : nat) (M : nat -> nat -> Q) : list qedge :=
  flat_map (mat_row V M) (seq 0 V).

(* symmeterize (graph.py:858-868): wgraph_from_adjacency((A + A.T) / 2) *)
Definition symmeterize_model (V : nat) (E : list qedge) : list qedge :=
  mat_edges V (fun u v => Qred ((qadj E u v + qadj E v u) / 2)%Q).
(* anti_symmeterize (870-880): wgraph_from_adjacency((A - A.T) / 2) *)
Definition anti_symmeterize_model (V : nat) (E : list qedge) : list qedge :=
  mat_edges V (fun u v => Qred ((qadj E u v - qadj E v u) / 2)%Q).
(* cut_redundancies (650-660) on its non-raising domain: coo -> csr -> coo *)
Definition cut_redundancies_model (V : nat) (E : list qedge) : list qedge :=
  mat_edges V (fun u v => Qred (qadj E u v)).

(* remove_trivial_edges (975-988) *)
Definition remove_trivial_model (E : list qedge) : list qedge :=
  filter (fun e => negb (Nat.eqb (qsrc e) (qdst e))) E.

(* concatenate_graphs (539-560): vertices of G2 shifted by G1.V *)
Definition concatenate_model (V1 : nat) (E1 E2 : list qedge) : list qedge :=
  E1 ++ map (fun e => (V1 + qsrc e, V1 + qdst e, qw e)) E2.

(* subgraph (990-1023): keep edges with both endpoints valid, renumber by
   renumb = [0, cumsum(valid > 0)], i.e. rank v = number of valid vertices below v *)
Fixpoint rank (valid : list bool) (v : nat) : nat :=
  match valid, v with
  | _, O => O
  | [], _ => O
  | b :: t, S k => (if b then 1 else 0) + rank t k
  end.
Definition isvalid (valid : list bool) (v : nat) : bool := nth v valid false.
Definition subgraph_model (valid : list bool) (E : list qedge) : list qedge :=
  map (fun e => (rank valid (qsrc e), rank valid (qdst e), qw e))
      (filter (fun e => isvalid valid (qsrc e) && isvalid valid (qdst e)) E).

(* helpers for the correspondence terms *)
Definition qedge_eqb (a b : qedge) : bool :=
  Nat.eqb (qsrc a) (qsrc b) && Nat.eqb (qdst a) (qdst b) && Qeq_bool (qw a) (qw b).
Fixpoint qel_eqb (a b : list qedge) : bool :=
  match a, b with
  | [], [] => true
  | x :: a', y :: b' => qedge_eqb x y && qel_eqb a' b'
  | _, _ => false
  end.
