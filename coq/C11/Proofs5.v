(* C11 - lemmas, part 5: positive results about the models of the repaired code
   (kruskal row count, dijkstra on edgeless graphs, knn degree bound). *)
From Coq Require Import ZArith List Bool Lia ZifyBool Arith Sorted.
From NV.C11 Require Import Model Proofs.
Import ListNotations.
Open Scope Z_scope.

(* ---------------------------------------------------------------- kruskal *)
Lemma kr_loop_length r E iw lab j acc :
  length (kr_loop r E iw lab j acc) = (length acc + 2 * r)%nat.
Proof.
  revert lab j acc; induction r as [|r IH]; intros lab j acc; simpl; [lia|].
  rewrite IH, app_length. simpl. lia.
Qed.

Lemma kruskal_length V E iw k : length (kruskal_model V E iw k) = (2 * (V - k))%nat.
Proof. unfold kruskal_model. rewrite kr_loop_length. simpl. lia. Qed.

Lemma kr_loop_edges r E iw lab j acc x :
  In x (kr_loop r E iw lab j acc) ->
  In x acc \/ x = (O, O, 0) \/ x = erev (O, O, 0) \/ exists e, In e E /\ (x = e \/ x = erev e).
Proof.
  revert lab j acc; induction r as [|r IH]; intros lab j acc H; simpl in H; [now left|].
  apply IH in H. destruct H as [H|H]; [|now right].
  apply in_app_or in H. destruct H as [H|H]; [now left|right].
  set (n := nth (kr_advance (length iw) E iw lab j) iw O) in *.
  destruct (nth_in_or_default n E (O, O, 0)) as [Hin|Hd].
  - right. right. exists (nth n E (O, O, 0)). split; auto.
    destruct H as [<-|[<-|[]]]; auto.
  - rewrite Hd in H. destruct H as [<-|[<-|[]]]; auto.
Qed.

(* ---------------------------------------------------------------- dijkstra, E = [] *)
Lemma nth_all_nil {A} (l : list (list A)) n : (forall x, In x l -> x = []) -> nth n l [] = [].
Proof.
  intros H. destruct (nth_in_or_default n l []) as [Hin|Hd]; auto.
Qed.

Lemma compact_rows_nil V n : nth n (compact_rows V [] []) [] = [].
Proof.
  apply nth_all_nil. intros x Hx. unfold compact_rows in Hx. apply in_map_iff in Hx.
  destruct Hx as [u [<- _]]. unfold slice, compact_sorted. cbn [map].
  rewrite skipn_nil. apply firstn_nil.
Qed.

Lemma dij_loop_no_rows fuel adj dist active heap :
  (forall n, nth n adj [] = []) -> dij_loop fuel adj dist active heap = dist.
Proof.
  intros Hadj. revert dist active heap; induction fuel as [|f IH]; intros dist active heap; simpl; auto.
  destruct (pop_active (length heap) active heap) as [[m h']|]; auto.
  rewrite Hadj. unfold relax. simpl. apply IH.
Qed.

Lemma getd_seed_in seeds D v :
  In v seeds -> (v < length D)%nat -> getd (fold_left (fun D s => set_nth D s (Some 0)) seeds D) v = Some 0.
Proof.
  revert D; induction seeds as [|s t IH]; intros D Hin Hv; [destruct Hin|]. simpl.
  destruct (in_dec Nat.eq_dec v t) as [Ht|Hnt].
  - apply IH; auto. now rewrite set_nth_length.
  - destruct Hin as [->|Hin]; [|contradiction].
    assert (G : forall l D', ~ In v l -> getd (fold_left (fun D s => set_nth D s (Some 0)) l D') v = getd D' v).
    { induction l as [|x l IHl]; intros D' Hn; simpl; auto.
      rewrite IHl by (intros H; apply Hn; now right).
      unfold getd. apply nth_set_nth_neq. intros ->. apply Hn. now left. }
    rewrite G by exact Hnt. unfold getd. apply nth_set_nth_eq. exact Hv.
Qed.

Lemma getd_seed_notin seeds D v :
  ~ In v seeds -> getd (fold_left (fun D s => set_nth D s (Some 0)) seeds D) v = getd D v.
Proof.
  revert D; induction seeds as [|x l IHl]; intros D' Hn; simpl; auto.
  rewrite IHl by (intros H; apply Hn; now right).
  unfold getd. apply nth_set_nth_neq. intros ->. apply Hn. now left.
Qed.

Lemma path_no_edges s v l : path_len [] s v l -> v = s /\ l = 0.
Proof. intros H. inversion H as [u|u w x e l' Hp He]; subst; auto. destruct He. Qed.

Lemma getd_repeat_none V v : getd (repeat None V) v = None.
Proof. unfold getd. revert v; induction V as [|V IH]; intros [|v]; simpl; auto. Qed.

Lemma dijkstra_no_edges_lemma V seeds :
  (forall s, In s seeds -> (s < V)%nat) ->
  is_sp_dist [] seeds (getd (dijkstra_model V [] [] seeds)).
Proof.
  intros Hs. unfold dijkstra_model, dijkstra_rows.
  rewrite dij_loop_no_rows by (intros n; apply compact_rows_nil).
  intros v. destruct (in_dec Nat.eq_dec v seeds) as [Hin|Hnin].
  - rewrite getd_seed_in by (auto; rewrite repeat_length; auto). split.
    + exists v. split; auto. constructor.
    + intros s l _ Hp. apply path_no_edges in Hp. lia.
  - rewrite getd_seed_notin by exact Hnin. rewrite getd_repeat_none.
    intros s l Hsin Hp. apply path_no_edges in Hp. destruct Hp as [-> _]. contradiction.
Qed.

(* ---------------------------------------------------------------- knn: at least k neighbours *)
Definition count_le (x : Z) (l : list Z) : nat := length (filter (fun y => y <=? x) l).

Lemma count_le_insert x y l : count_le x (zinsert y l) = count_le x (y :: l).
Proof.
  unfold count_le. induction l as [|a l IH]; simpl; auto.
  destruct (y <=? a); simpl; auto.
  destruct (a <=? x); destruct (y <=? x) eqn:Hy; simpl in *; rewrite IH; simpl; rewrite ?Hy; auto.
Qed.

Lemma count_le_sort x l : count_le x (zsort l) = count_le x l.
Proof.
  induction l as [|a l IH]; simpl; auto.
  rewrite count_le_insert. unfold count_le in *. simpl. destruct (a <=? x); simpl; rewrite IH; reflexivity.
Qed.

Lemma zinsert_length y l : length (zinsert y l) = S (length l).
Proof. induction l as [|a l IH]; simpl; auto. destruct (y <=? a); simpl; auto. Qed.

Lemma zsort_length l : length (zsort l) = length l.
Proof. induction l as [|a l IH]; simpl; auto. rewrite zinsert_length. auto. Qed.

Lemma zinsert_sorted y l : StronglySorted Z.le l -> StronglySorted Z.le (zinsert y l).
Proof.
  induction 1 as [|a l Hs IH Hall]; simpl; [constructor; constructor|].
  destruct (y <=? a) eqn:Hya.
  - constructor; [constructor; auto|]. constructor; [lia|].
    eapply Forall_impl; [|exact Hall]. intros z Hz. lia.
  - constructor; auto.
    assert (G : forall l', Forall (Z.le a) l' -> Forall (Z.le a) (zinsert y l')).
    { induction l' as [|b l' IHl']; intros Hf; simpl; [constructor; [lia|constructor]|].
      inversion Hf; subst. destruct (y <=? b); constructor; auto; try lia. }
    apply G. exact Hall.
Qed.

Lemma zsort_sorted l : StronglySorted Z.le (zsort l).
Proof. induction l as [|a l IH]; simpl; [constructor|]. apply zinsert_sorted. exact IH. Qed.

Lemma sorted_count s k : StronglySorted Z.le s -> (k < length s)%nat -> (k + 1 <= count_le (nth k s 0%Z) s)%nat.
Proof.
  intros Hs; revert k; induction Hs as [|a t Hs IH Hall]; intros k Hk; simpl in Hk; [lia|].
  unfold count_le in *. destruct k as [|k]; simpl.
  - replace (a <=? a) with true by lia. simpl. lia.
  - assert (Hle : a <= nth k t 0).
    { rewrite Forall_forall in Hall. apply Hall. apply nth_In. lia. }
    replace (a <=? nth k t 0) with true by lia. simpl. specialize (IH k). lia.
Qed.

Lemma kth_smallest_count l k : (k < length l)%nat -> (k + 1 <= count_le (nth k (zsort l) 0%Z) l)%nat.
Proof.
  intros Hk. rewrite <- (count_le_sort (nth k (zsort l) 0) l).
  apply sorted_count; [apply zsort_sorted|now rewrite zsort_length].
Qed.

Lemma filter_length_mono {A} (p q : A -> bool) l :
  (forall x, In x l -> p x = true -> q x = true) -> (length (filter p l) <= length (filter q l))%nat.
Proof.
  induction l as [|a l IH]; intros H; simpl; [lia|].
  assert (IH' : (length (filter p l) <= length (filter q l))%nat) by (apply IH; intros x Hx; apply H; now right).
  destruct (p a) eqn:Hp.
  - rewrite (H a (or_introl eq_refl) Hp). simpl. lia.
  - destruct (q a); simpl; lia.
Qed.

Lemma filter_remove_one (p : nat -> bool) r l : NoDup l ->
  (length (filter p l) <= length (filter (fun c => negb (Nat.eqb r c) && p c) l) + 1)%nat.
Proof.
  induction 1 as [|a l Hnotin Hnd IH]; simpl; [lia|].
  destruct (Nat.eqb_spec r a) as [->|Hne]; simpl.
  - (* a = r: it does not occur in l, so the two filters agree on l *)
    assert (E : filter (fun c => negb (Nat.eqb a c) && p c) l = filter p l).
    { apply filter_ext_in. intros c Hc. destruct (Nat.eqb_spec a c) as [->|_]; [contradiction|reflexivity]. }
    rewrite E. destruct (p a); simpl; lia.
  - destruct (p a); simpl; lia.
Qed.

Lemma map_as_seq {A B} (f : A -> B) (l : list A) (d : A) :
  map f l = map (fun c => f (nth c l d)) (seq 0 (length l)).
Proof.
  apply (nth_ext _ _ (f d) (f d)).
  - now rewrite !map_length, seq_length.
  - intros n Hn. rewrite map_length in Hn.
    rewrite (map_nth f l d n).
    rewrite (nth_indep _ (f d) ((fun c => f (nth c l d)) O)) by (now rewrite map_length, seq_length).
    rewrite (map_nth (fun c => f (nth c l d)) (seq 0 (length l)) O n). rewrite seq_nth by exact Hn. reflexivity.
Qed.

Lemma knn_degree D k r : (r < length D)%nat ->
  (Nat.min k (length D - 1) <= row_degree (nth r (knn_model D k) []))%nat.
Proof.
  intros Hr. set (n := length D) in *. set (k' := Nat.min k (n - 1)).
  unfold knn_model. fold n.
  rewrite (nth_indep _ [] ((fun i => map (fun j => if negb (Nat.eqb i j) && (knn_bool D k i j || knn_bool D k j i) then 1 else 0) (seq 0 n)) O))
    by (now rewrite map_length, seq_length).
  rewrite (map_nth (fun i => map (fun j => if negb (Nat.eqb i j) && (knn_bool D k i j || knn_bool D k j i) then 1 else 0) (seq 0 n)) (seq 0 n) O r).
  rewrite seq_nth by exact Hr. simpl (0 + r)%nat.
  unfold row_degree.
  assert (Hdeg : forall l, length (filter (fun x => negb (x =? 0))
             (map (fun j => if negb (Nat.eqb r j) && (knn_bool D k r j || knn_bool D k j r) then 1 else 0) l))
           = length (filter (fun j => negb (Nat.eqb r j) && (knn_bool D k r j || knn_bool D k j r)) l)).
  { induction l as [|a l IH]; simpl; auto.
    destruct (negb (Nat.eqb r a) && (knn_bool D k r a || knn_bool D k a r)); simpl; rewrite IH; reflexivity. }
  rewrite Hdeg.
  (* lower bound: the c with kfloor D[c][r] <= t, c <> r *)
  destruct (k' + 1 <? n)%nat eqn:Hlt.
  - set (t := nth k' (zsort (map kfloor (col D r))) 0).
    set (g := fun c => kfloor (mget D c r)).
    assert (Hcol : map kfloor (col D r) = map g (seq 0 n)).
    { unfold col. rewrite map_map. rewrite (map_as_seq (fun x => kfloor (nth r x 0)) D []). reflexivity. }
    assert (Hcnt : (k' + 1 <= length (filter (fun c => (g c <=? t)%Z) (seq 0 n)))%nat).
    { pose proof (kth_smallest_count (map kfloor (col D r)) k') as Hk.
      rewrite map_length in Hk. unfold col in Hk at 1. rewrite map_length in Hk. fold n in Hk.
      apply Nat.ltb_lt in Hlt. specialize (Hk ltac:(lia)). fold t in Hk.
      rewrite Hcol in Hk. unfold count_le in Hk.
      assert (Hf : forall l, length (filter (fun y => y <=? t) (map g l)) = length (filter (fun c => g c <=? t) l)).
      { induction l as [|a l IH]; simpl; auto. destruct (g a <=? t); simpl; rewrite IH; reflexivity. }
      rewrite Hf in Hk. exact Hk. }
    pose proof (filter_remove_one (fun c => g c <=? t) r (seq 0 n) (seq_NoDup n 0)) as Hrm.
    assert (Hmono : (length (filter (fun c => negb (Nat.eqb r c) && (g c <=? t)%Z) (seq 0 n))
                     <= length (filter (fun j => negb (Nat.eqb r j) && (knn_bool D k r j || knn_bool D k j r)) (seq 0 n)))%nat).
    { apply filter_length_mono. intros c _ Hc. apply andb_true_iff in Hc. destruct Hc as [H1 H2].
      rewrite H1. simpl. apply orb_true_iff. right.
      unfold knn_bool. fold n. fold k'. rewrite Hlt. exact H2. }
    lia.
  - (* k' + 1 >= n: every other sample is a neighbour *)
    assert (Hall : forall i j, knn_bool D k i j = true) by (intros i j; unfold knn_bool; fold n; fold k'; now rewrite Hlt).
    pose proof (filter_remove_one (fun _ => true) r (seq 0 n) (seq_NoDup n 0)) as Hrm.
    assert (Hfull : length (filter (fun _ : nat => true) (seq 0 n)) = n).
    { rewrite <- (seq_length n 0) at 2. f_equal. generalize (seq 0 n). induction l as [|a l IH]; simpl; [auto|now rewrite IH]. }
    assert (Hmono : (length (filter (fun c => negb (Nat.eqb r c) && true) (seq 0 n))
                     <= length (filter (fun j => negb (Nat.eqb r j) && (knn_bool D k r j || knn_bool D k j r)) (seq 0 n)))%nat).
    { apply filter_length_mono. intros c _ Hc. rewrite andb_true_r in Hc. rewrite Hc, Hall. reflexivity. }
    unfold k'. lia.
Qed.
