(* C11 - lemmas, part 4: completeness of sp_check (V closure rounds suffice). *)
From Coq Require Import ZArith List Bool Lia ZifyBool Arith.
From NV.C11 Require Import Model Proofs.
Import ListNotations.
Open Scope Z_scope.

Definition ble (R R' : list bool) : Prop := Forall2 (fun a b => a = true -> b = true) R R'.
Definition count_true (R : list bool) : nat := length (filter (fun b => b) R).

Lemma ble_refl R : ble R R.
Proof. induction R; constructor; auto. Qed.

Lemma ble_trans A B C : ble A B -> ble B C -> ble A C.
Proof.
  intros H; revert C; induction H as [|a b A B Hab H IH]; intros C HC; inversion HC; subst; constructor; auto.
  apply IH; auto.
Qed.

Lemma ble_set R n : ble R (set_nth R n true).
Proof.
  revert n; induction R as [|a R IH]; intros n.
  - destruct n; simpl; constructor.
  - destruct n as [|n]; simpl.
    + constructor; [auto|apply ble_refl].
    + constructor; [auto|apply IH].
Qed.

Lemma ble_length A B : ble A B -> length A = length B.
Proof. induction 1; simpl; auto. Qed.

Lemma ble_count A B : ble A B -> (count_true A <= count_true B)%nat /\ (count_true A = count_true B -> A = B).
Proof.
  unfold count_true. induction 1 as [|a b A B Hab H [IH1 IH2]]; simpl; [split; auto|].
  destruct a; destruct b; simpl; try (specialize (Hab eq_refl); discriminate).
  - split; [lia|intros E; f_equal; apply IH2; lia].
  - split; [lia|intros E; exfalso; lia].
  - split; [lia|intros E; f_equal; apply IH2; lia].
Qed.

Lemma ble_bget A B v : ble A B -> bget A v = true -> bget B v = true.
Proof.
  unfold bget. intros H; revert v; induction H as [|a b A B Hab H IH]; intros [|v]; simpl; auto.
Qed.

Lemma filter_len_le {A} (f : A -> bool) l : (length (filter f l) <= length l)%nat.
Proof. induction l as [|x l IH]; simpl; [lia|]. destruct (f x); simpl; lia. Qed.

Lemma count_full R : count_true R = length R -> forall v, (v < length R)%nat -> bget R v = true.
Proof.
  unfold count_true, bget. induction R as [|a R IH]; simpl; intros Hc v Hv; [lia|].
  pose proof (filter_len_le (fun b => b) R) as Hle.
  destruct a; simpl in Hc.
  - destruct v; auto. apply IH; lia.
  - exfalso. lia.
Qed.

Lemma count_le_length R : (count_true R <= length R)%nat.
Proof. unfold count_true. apply filter_len_le. Qed.

Section Closure.
  Variable ok : edge -> bool.
  Variable E : list edge.

  Lemma ble_grow1 R e : ble R (grow1 ok R e).
  Proof. unfold grow1. destruct (ok e && bget R (esrc e)); [apply ble_set|apply ble_refl]. Qed.

  Lemma ble_fold E' R : ble R (fold_left (grow1 ok) E' R).
  Proof.
    revert R; induction E' as [|e t IH]; intros R; simpl; [apply ble_refl|].
    eapply ble_trans; [apply ble_grow1|apply IH].
  Qed.

  Lemma ble_grow R : ble R (grow ok E R).
  Proof. apply ble_fold. Qed.

  Lemma ble_closure n R : ble R (closure n ok E R).
  Proof.
    revert R; induction n as [|n IH]; intros R; simpl; [apply ble_refl|].
    eapply ble_trans; [apply ble_grow|apply IH].
  Qed.

  (* a fixed point of one round is closed under the accepted edges *)
  Lemma fold_fix E' R : fold_left (grow1 ok) E' R = R ->
    forall e, In e E' -> ok e = true -> bget R (esrc e) = true -> (edst e < length R)%nat -> bget R (edst e) = true.
  Proof.
    revert R; induction E' as [|e0 t IH]; intros R Hfix e He Hok Hsrc Hlt; [destruct He|].
    simpl in Hfix.
    assert (H1 : grow1 ok R e0 = R).
    { pose proof (ble_grow1 R e0) as B1. pose proof (ble_fold t (grow1 ok R e0)) as B2. rewrite Hfix in B2.
      destruct (ble_count _ _ B1) as [C1 D1]. destruct (ble_count _ _ B2) as [C2 _].
      symmetry. apply D1. lia. }
    destruct He as [->|He].
    - unfold grow1 in H1. rewrite Hok, Hsrc in H1. simpl in H1.
      rewrite <- H1. unfold bget. apply nth_set_nth_eq. exact Hlt.
    - rewrite H1 in Hfix. apply (IH R Hfix e He Hok Hsrc Hlt).
  Qed.

  Lemma closure_fix n R : grow ok E R = R -> closure n ok E R = R.
  Proof. intros H. induction n as [|n IH]; simpl; auto. rewrite H. exact IH. Qed.

  Lemma closure_stable_or_big n R :
    grow ok E (closure n ok E R) = closure n ok E R \/
    (count_true (closure n ok E R) >= count_true R + n)%nat.
  Proof.
    revert R; induction n as [|n IH]; intros R; simpl.
    - right. lia.
    - destruct (list_eq_dec bool_dec (grow ok E R) R) as [Heq|Hne].
      + left. rewrite Heq. rewrite (closure_fix n R Heq). exact Heq.
      + destruct (IH (grow ok E R)) as [Hs|Hb]; [left; exact Hs|right].
        destruct (ble_count _ _ (ble_grow R)) as [C D].
        assert (count_true R <> count_true (grow ok E R)) by (intros Hc; apply Hne; symmetry; apply D; exact Hc).
        lia.
  Qed.
End Closure.

Lemma mark_length V l : length (mark V l) = V.
Proof.
  unfold mark. assert (G : forall R, length (fold_left (fun R s => set_nth R s true) l R) = length R).
  { induction l as [|s t IH]; intros R; simpl; auto. rewrite IH. apply set_nth_length. }
  rewrite G. apply repeat_length.
Qed.

Lemma mark_has V l s : In s l -> (s < V)%nat -> bget (mark V l) s = true.
Proof.
  unfold mark. intros Hin Hs. revert Hin.
  assert (G : forall R, length R = V -> (In s l \/ bget R s = true) ->
                        bget (fold_left (fun R s => set_nth R s true) l R) s = true).
  { induction l as [|x t IH]; intros R HR [Hi|Hb]; simpl; auto; try destruct Hi.
    - subst x. apply IH; [now rewrite set_nth_length|right]. unfold bget. apply nth_set_nth_eq. lia.
    - apply IH; [now rewrite set_nth_length|now left].
    - apply IH; [now rewrite set_nth_length|right]. eapply ble_bget; [apply ble_set|exact Hb]. }
  intros Hin. apply G; [apply repeat_length|now left].
Qed.

Section Complete.
  Variables (V : nat) (E : list edge) (seeds : list nat) (d : dist_t).
  Hypothesis Hlen : length d = V.
  Hypothesis Hwf : forall e, In e E -> 0 <= ew e /\ (esrc e < V)%nat /\ (edst e < V)%nat.
  Hypothesis Hsv : forall s, In s seeds -> (s < V)%nat.
  Hypothesis Hsp : is_sp_dist E seeds (getd d).

  Let R := closure V (tight d) E (mark V seeds).

  Lemma R_length : length R = V.
  Proof. unfold R. rewrite <- (ble_length _ _ (ble_closure (tight d) E V (mark V seeds))). apply mark_length. Qed.

  Lemma dist_le_path s v l : In s seeds -> path_len E s v l -> exists x, getd d v = Some x /\ x <= l.
  Proof.
    intros Hs Hp. pose proof (Hsp v) as Q. destruct (getd d v) as [x|].
    - exists x. split; auto. destruct Q as [_ Hmin]. eapply Hmin; eauto.
    - exfalso. eapply Q; eauto.
  Qed.

  (* along a walk whose length is the distance of its end point, every vertex is in R *)
  Lemma exact_walk_in_R s v l : In s seeds -> path_len E s v l -> getd d v = Some l -> bget R v = true.
  Proof.
    intros Hs Hp. induction Hp as [u|u v x e l Hp IH He Hsrc Hdst]; intros Hd.
    - eapply ble_bget; [apply ble_closure|]. apply mark_has; auto.
    - destruct (dist_le_path u v l Hs Hp) as [a [Ha Hal]].
      destruct (sp_local_complete V E seeds d Hlen Hwf Hsv Hsp) as [_ Hedges].
      rewrite forallb_forall in Hedges. pose proof (Hedges _ He) as Hk. unfold edge_ok in Hk.
      apply andb_true_iff in Hk. destruct Hk as [_ Htri]. rewrite Hsrc, Hdst, Ha, Hd in Htri.
      assert (a = l) by lia. subst a.
      specialize (IH Hs Ha).
      destruct (closure_stable_or_big (tight d) E V (mark V seeds)) as [Hfix|Hbig]; [fold R in Hfix|fold R in Hbig].
      + unfold grow in Hfix. rewrite <- Hdst.
        apply (fold_fix (tight d) E R Hfix e He).
        * unfold tight. rewrite Hsrc, Hdst, Ha, Hd. lia.
        * rewrite Hsrc. exact IH.
        * rewrite R_length. apply Hwf. exact He.
      + apply count_full.
        * pose proof (count_le_length R). rewrite R_length in *. lia.
        * rewrite R_length. rewrite <- Hdst. apply Hwf. exact He.
  Qed.

  Lemma sp_check_complete_lemma : sp_check V E seeds d = true.
  Proof.
    unfold sp_check. destruct (sp_local_complete V E seeds d Hlen Hwf Hsv Hsp) as [H1 H2].
    rewrite H1, H2. replace (length d =? V)%nat with true by (symmetry; apply Nat.eqb_eq; exact Hlen).
    simpl. fold R. apply forallb_forall. intros v Hv.
    pose proof (Hsp v) as Q. destruct (getd d v) as [x|] eqn:Hd; auto.
    destruct Q as [[s [Hs Hp]] _]. eapply exact_walk_in_R; eauto.
  Qed.
End Complete.

(* ---------------------------------------------------------------- cc_check completeness *)
Lemma first_with_spec lab k i v :
  (v < length lab)%nat -> nth v lab (-1) = k ->
  exists j, first_with lab k i = (i + j)%nat /\ (j <= v)%nat /\ nth j lab (-1) = k.
Proof.
  revert i v; induction lab as [|x t IH]; intros i v Hv Hk; simpl in *; [lia|].
  destruct (x =? k) eqn:Hx.
  - exists O. split; [lia|]. split; [lia|]. simpl. lia.
  - destruct v as [|v]; [simpl in Hk; lia|].
    destruct (IH (S i) v) as [j [H1 [H2 H3]]]; [lia|exact Hk|].
    exists (S j). split; [lia|]. split; [lia|exact H3].
Qed.

Section CcComplete.
  Variables (V : nat) (E : list edge) (lab : list Z).
  Hypothesis Hlen : length lab = V.
  Hypothesis Hwf : forall e, In e E -> (esrc e < V)%nat /\ (edst e < V)%nat.
  Hypothesis Hcc : is_cc_labelling V E (getl lab).

  Let E2 := E ++ map erev E.

  Lemma reach_all r x : (r < V)%nat -> connected E r x ->
    bget (closure V (fun _ => true) E2 (mark V [r])) x = true.
  Proof.
    intros Hr Hc. set (R := closure V (fun _ => true) E2 (mark V [r])).
    assert (RL : length R = V).
    { unfold R. rewrite <- (ble_length _ _ (ble_closure (fun _ => true) E2 V (mark V [r]))). apply mark_length. }
    assert (Step : forall e', In e' E2 -> (edst e' < V)%nat -> bget R (esrc e') = true -> bget R (edst e') = true).
    { intros e' He' Hlt Hsrc.
      destruct (closure_stable_or_big (fun _ => true) E2 V (mark V [r])) as [Hfix|Hbig]; [fold R in Hfix|fold R in Hbig].
      - unfold grow in Hfix. apply (fold_fix (fun _ => true) E2 R Hfix e' He'); auto. rewrite RL. exact Hlt.
      - apply count_full; [pose proof (count_le_length R); rewrite RL in *; lia|rewrite RL; exact Hlt]. }
    induction Hc as [u|u v x e Hc IH He Hs Hd|u v x e Hc IH He Hs Hd].
    - unfold R. eapply ble_bget; [apply ble_closure|]. apply mark_has; [now left|exact Hr].
    - specialize (IH Hr RL Step). destruct (Hwf _ He) as [_ Hlt].
      rewrite <- Hd. apply (Step e); [unfold E2; apply in_or_app; now left|exact Hlt|rewrite Hs; exact IH].
    - specialize (IH Hr RL Step). destruct (Hwf _ He) as [Hlt _].
      rewrite <- Hd. change (esrc e) with (edst (erev e)).
      apply (Step (erev e)); [unfold E2; apply in_or_app; right; now apply in_map|exact Hlt|].
      change (esrc (erev e)) with (edst e). rewrite Hs. exact IH.
  Qed.

  Lemma cc_check_complete_lemma : cc_check V E lab = true.
  Proof.
    unfold cc_check. replace (length lab =? V)%nat with true by (symmetry; apply Nat.eqb_eq; exact Hlen).
    simpl. apply andb_true_iff. split.
    - apply forallb_forall. intros e He. destruct (Hwf _ He) as [Hu Hv].
      assert (Hl : getl lab (esrc e) = getl lab (edst e)).
      { apply (Hcc (esrc e) (edst e) Hu Hv). apply (cn_fwd E (esrc e) (esrc e) (edst e) e); auto. constructor. }
      repeat (apply andb_true_iff; split); lia.
    - apply forallb_forall. intros v Hv. apply in_seq in Hv. cbv zeta.
      destruct (first_with_spec lab (getl lab v) O v) as [j [H1 [H2 H3]]]; [lia|reflexivity|].
      rewrite H1. simpl.
      apply reach_all; [lia|].
      apply (Hcc j v); [lia|lia|]. exact H3.
  Qed.
End CcComplete.
