(* C11 - property theorems only. *)
From Coq Require Import ZArith List Bool Lia ZifyBool Arith.
From Coq Require Import QArith.
From NV.Generated Require Import GridHash.
From NV.C11 Require Import Model Proofs Proofs2 ModelQ Proofs3 Proofs4 Proofs5 Proofs6 Proofs7.
Close Scope Q_scope.
Import ListNotations.
Open Scope Z_scope.

(* ---- shortest paths ------------------------------------------------ *)
(* For EVERY graph, seed set and candidate distance vector: if the certificate
   check accepts, the vector is exactly the shortest-path distance function
   (attained minimum over all walks from the seeds; None iff no walk).
   No assumption on the graph: zero weights, self-loops, parallel edges,
   several components are all covered; negative weights and out-of-range
   endpoints are rejected by the check itself. *)
Theorem sp_certificate_sound :
  forall V E seeds d, sp_check V E seeds d = true -> is_sp_dist E seeds (getd d).
Proof. exact sp_check_sound. Qed.
Print Assumptions sp_certificate_sound.

(* Completeness, for ALL well-formed non-negative graphs: the true distance
   vector always passes the check (so the check accepts exactly the distance
   function: V closure rounds over tight edges reach every finite vertex -
   either a round adds nothing, and the set is closed, or V rounds have added V
   vertices). *)
Theorem sp_certificate_complete :
  forall V E seeds d, length d = V ->
  (forall e, In e E -> 0 <= ew e /\ (esrc e < V)%nat /\ (edst e < V)%nat) ->
  (forall s, In s seeds -> (s < V)%nat) ->
  is_sp_dist E seeds (getd d) ->
  sp_check V E seeds d = true.
Proof. exact sp_check_complete_lemma. Qed.
Print Assumptions sp_certificate_complete.

(* The dijkstra model (code as written, after commit 34ff1fe: relaxation by
   np.minimum.at) is not proved correct outright for all graphs (that needs the
   full settled/frontier invariant of lazy-deletion Dijkstra; not done).  What
   holds for every input: when the model's output passes the proved sound AND
   complete check (evaluated per case by the harness), it is the shortest-path
   distance function - and by completeness a correct output is never rejected. *)
Theorem dijkstra_checked_partial :
  forall V E order seeds,
  sp_check V E seeds (dijkstra_model V E order seeds) = true ->
  is_sp_dist E seeds (getd (dijkstra_model V E order seeds)).
Proof. intros V E order seeds. apply sp_check_sound. Qed.
Print Assumptions dijkstra_checked_partial.

(* Former finding dijkstra/parallel-edges (fixed in 34ff1fe): on the old
   witness - edges 0->1 (w=1), 0->1 (w=2) in either order - the model now
   returns the true distances. *)
Theorem dijkstra_parallel_edges_witness_correct :
  forall E, E = [(0%nat, 1%nat, 1); (0%nat, 1%nat, 2)] \/ E = [(0%nat, 1%nat, 2); (0%nat, 1%nat, 1)] ->
  dijkstra_model 2 E [0%nat; 1%nat] [0%nat] = [Some 0; Some 1] /\
  is_sp_dist E [0%nat] (getd (dijkstra_model 2 E [0%nat; 1%nat] [0%nat])).
Proof.
  intros E [->| ->]; (split; [vm_compute; reflexivity|apply (sp_check_sound 2); vm_compute; reflexivity]).
Qed.
Print Assumptions dijkstra_parallel_edges_witness_correct.

(* Former finding dijkstra/no-edges-raises (fixed in 37d1d2d), now proved
   outright: on EVERY edgeless graph and every seed set the model returns the
   distance function (0 at the seeds, inf elsewhere). *)
Theorem dijkstra_no_edges_correct :
  forall V seeds, (forall s, In s seeds -> (s < V)%nat) ->
  is_sp_dist [] seeds (getd (dijkstra_model V [] [] seeds)).
Proof. exact dijkstra_no_edges_lemma. Qed.
Print Assumptions dijkstra_no_edges_correct.

(* ---- connected components ------------------------------------------ *)
Theorem cc_certificate_sound :
  forall V E lab, cc_check V E lab = true -> is_cc_labelling V E (getl lab).
Proof. exact cc_check_sound. Qed.
Print Assumptions cc_certificate_sound.

Theorem cc_certificate_complete :
  forall V E lab, length lab = V ->
  (forall e, In e E -> (esrc e < V)%nat /\ (edst e < V)%nat) ->
  is_cc_labelling V E (getl lab) -> cc_check V E lab = true.
Proof. exact cc_check_complete_lemma. Qed.
Print Assumptions cc_certificate_complete.

Theorem cc_certificate_fast_sound :
  forall V E lab n, cc_check_fast V E lab n = true -> is_cc_labelling V E (getl lab).
Proof. exact cc_check_fast_sound. Qed.
Print Assumptions cc_certificate_fast_sound.

Theorem cc_checked_partial :
  forall V E, cc_check V E (cc_model V E) = true -> is_cc_labelling V E (getl (cc_model V E)).
Proof. intros V E. apply cc_check_sound. Qed.
Print Assumptions cc_checked_partial.

(* ---- voronoi labelling --------------------------------------------- *)
Theorem voronoi_certificate_sound :
  forall V E seeds d lab, vor_check V E seeds d lab = true -> is_voronoi E seeds (getl lab).
Proof. exact vor_check_sound. Qed.
Print Assumptions voronoi_certificate_sound.

Theorem voronoi_checked_partial :
  forall V E order seeds,
  vor_check V E seeds (fst (voronoi_model V E order seeds)) (snd (voronoi_model V E order seeds)) = true ->
  is_voronoi E seeds (getl (snd (voronoi_model V E order seeds))).
Proof. intros V E order seeds. apply vor_check_sound. Qed.
Print Assumptions voronoi_checked_partial.

(* ---- kruskal --------------------------------------------------------- *)
(* Former finding kruskal/disconnected-padding-edges (fixed in d82df40), now for
   ALL inputs: the result has exactly 2(V-k) rows, and every row is an edge of
   the graph or its reversal (or the out-of-range default when the argsort
   oracle `iw` is not a permutation of the edge indices). *)
Theorem kruskal_returns_two_rows_per_tree_edge :
  forall V E iw k, length (kruskal_model V E iw k) = (2 * (V - k))%nat.
Proof. exact kruskal_length. Qed.
Print Assumptions kruskal_returns_two_rows_per_tree_edge.

Theorem kruskal_rows_are_graph_edges :
  forall V E iw k x, In x (kruskal_model V E iw k) ->
  x = (0%nat, 0%nat, 0) \/ x = erev (0%nat, 0%nat, 0) \/ exists e, In e E /\ (x = e \/ x = erev e).
Proof.
  intros V E iw k x H. unfold kruskal_model in H. apply kr_loop_edges in H.
  destruct H as [[]|H]; exact H.
Qed.
Print Assumptions kruskal_rows_are_graph_edges.

(* ---- spanning forests (mst, kruskal): acyclic + spanning certificate ---- *)
(* is_forest T: T can be built edge by edge, each edge joining two vertices not
   connected by the edges before it (no edge closes a cycle).  For ALL V, T:
   the label-merging check accepts only such edge lists. *)
Theorem forest_certificate_sound :
  forall V T, forest_check V T = true -> is_forest T.
Proof. exact forest_check_sound. Qed.
Print Assumptions forest_certificate_sound.

(* T (undirected tree edges as returned, one orientation) is a spanning forest
   of the graph E: acyclic, and it connects exactly the vertex pairs that E
   connects.  For mst(X), E is the complete graph and lab = all zeros. *)
Theorem spanning_forest_certificate_sound :
  forall V E T lab,
  forest_check V T = true -> cc_check V T lab = true -> cc_check V E lab = true ->
  is_forest T /\ forall u v, (u < V)%nat -> (v < V)%nat -> (connected T u v <-> connected E u v).
Proof.
  intros V E T lab HF HT HE. split; [now apply (forest_check_sound V)|].
  intros u v Hu Hv. pose proof (cc_check_sound V T lab HT u v Hu Hv) as A.
  pose proof (cc_check_sound V E lab HE u v Hu Hv) as B. tauto.
Qed.
Print Assumptions spanning_forest_certificate_sound.

(* non-vacuity: a path is accepted; the 8-cycle through the border of the 3x3
   lattice (the shape a wrong Boruvka merge returns) is rejected; so is a doubled edge *)
Example forest_check_examples :
  forest_check 4 (mkE [(0,1,1); (2,1,1); (3,2,5)]) = true /\
  forest_check 8 (mkE [(0,2,1); (2,7,1); (7,1,1); (1,5,1); (5,4,1); (4,3,1); (3,6,1); (6,0,1)]) = false /\
  forest_check 2 (mkE [(0,1,1); (1,0,1)]) = false.
Proof. vm_compute. repeat split; reflexivity. Qed.

(* ---- builders --------------------------------------------------------- *)
(* Former finding knn/ties-fewer-than-k (fixed in fd0cf56), now for ALL distance
   matrices (no symmetry or zero-diagonal assumption), all k and every vertex
   r: the returned graph gives r at least min(k, n-1) neighbours - under ties
   at the k-th neighbour and with coincident points. *)
Theorem knn_every_vertex_has_k_neighbours :
  forall D k r, (r < length D)%nat ->
  (Nat.min k (length D - 1) <= row_degree (nth r (knn_model D k) []))%nat.
Proof. exact knn_degree. Qed.
Print Assumptions knn_every_vertex_has_k_neighbours.

(* the old witnesses: unit-square corners with k = 1 (all four ties kept), three
   coincident points and one far point *)
Example knn_former_witnesses :
  knn_model [[0;1;1;2]; [1;0;2;1]; [1;2;0;1]; [2;1;1;0]] 1 = [[0;1;1;0]; [1;0;0;1]; [1;0;0;1]; [0;1;1;0]] /\
  knn_model [[0;0;0;25]; [0;0;0;25]; [0;0;0;25]; [25;25;25;0]] 1 = [[0;1;1;1]; [1;0;1;1]; [1;1;0;1]; [1;1;1;0]].
Proof. vm_compute. split; reflexivity. Qed.

(* graph_3d_grid hashing, for ALL coordinate sets.  The multiplier m and the 13
   hashing rows with their l1dist are TRANSLATED from the current graph.py
   (Generated/GridHash.v: src_grid_m, src_grid_rows).  For every source row
   there is a lattice step `dir` (L-inf norm 1, L1 norm l1dist) such that, with
   m = src_grid_m (sum of the per-axis maxima) and differences bounded by the
   maxima: the hash difference equals l1dist exactly on that step, no
   difference hashes strictly between 0 and l1dist (so the two points are
   consecutive in the sorted hash order), and the hash is injective. *)
Theorem grid_source_is_model :
  src_grid_rows = map (fun t => (fst (fst t), snd (fst t))) grid_rows /\
  forall S, src_grid_m S = 3 * S + 2.
Proof. split; [vm_compute; reflexivity|intros S; unfold src_grid_m; ring]. Qed.
Print Assumptions grid_source_is_model.

Theorem grid_hash_detects_exactly_the_neighbour_steps :
  forall r l, In (r, l) src_grid_rows ->
  exists dir : z3,
    (let '(a, b, c) := dir in Z.max (Z.abs a) (Z.max (Z.abs b) (Z.abs c)) = 1 /\ Z.abs a + Z.abs b + Z.abs c = l) /\
    forall Mx My Mz dx dy dz,
      Z.abs dx <= Mx -> Z.abs dy <= My -> Z.abs dz <= Mz ->
      let m := src_grid_m (Mx + My + Mz) in
      (ghash m r (dx, dy, dz) = l <-> (dx, dy, dz) = dir) /\
      ~ (0 < ghash m r (dx, dy, dz) < l) /\
      (ghash m r (dx, dy, dz) = 0 <-> (dx, dy, dz) = (0, 0, 0)).
Proof.
  intros r l Hin. destruct grid_source_is_model as [Hrows Hm]. rewrite Hrows in Hin.
  apply in_map_iff in Hin. destruct Hin as [[[r0 l0] dir] [Heq Hin]]. simpl in Heq. inversion Heq; subst r0 l0.
  exists dir. split.
  - assert (G : forallb (fun t => let '(_, l, (a, b, c)) := t in
             (Z.max (Z.abs a) (Z.max (Z.abs b) (Z.abs c)) =? 1) && (Z.abs a + Z.abs b + Z.abs c =? l)) grid_rows = true)
      by (vm_compute; reflexivity).
    rewrite forallb_forall in G. specialize (G _ Hin). cbv beta iota in G.
    destruct dir as [[a b] c]. apply andb_true_iff in G. destruct G as [G1 G2]. split; lia.
  - intros Mx My Mz dx dy dz Hx Hy Hz. cbv zeta. rewrite Hm.
    exact (grid_hash_correct r l dir Hin Mx My Mz dx dy dz Hx Hy Hz).
Qed.
Print Assumptions grid_hash_detects_exactly_the_neighbour_steps.

(* with both orientations the 13 steps are exactly the 26 non-zero offsets of {-1,0,1}^3,
   6 of L1 norm 1, 12 of norm 2, 8 of norm 3 *)
Example grid_steps_are_the_26_offsets :
  let dirs := map (fun t => snd t) grid_rows in
  let both := dirs ++ map (fun d => let '(a, b, c) := d in (- a, - b, - c)) dirs in
  length both = 26%nat /\
  forallb (fun a => forallb (fun b => forallb (fun c =>
     Bool.eqb (existsb (z3_eqb (a, b, c)) both) (negb ((a =? 0) && (b =? 0) && (c =? 0))))
     [-1; 0; 1]) [-1; 0; 1]) [-1; 0; 1] = true.
Proof. vm_compute. split; reflexivity. Qed.

(* the 13 steps are, up to sign, all 26 neighbour offsets: 3 + 6 + 4, L-inf norm 1, L1 norm = l1dist *)
Example grid_rows_cover_half_of_26 :
  length grid_rows = 13%nat /\
  forallb (fun t => let '(_, l, (a, b, c)) := t in
             (Z.max (Z.abs a) (Z.max (Z.abs b) (Z.abs c)) =? 1) && (Z.abs a + Z.abs b + Z.abs c =? l)) grid_rows = true.
Proof. vm_compute. split; reflexivity. Qed.

(* ---- structural operations: weighted-adjacency-matrix semantics -------- *)
(* qadj E u v is entry (u,v) of to_coo_matrix().toarray() (parallel edges add
   up); weights are rationals; all statements are for ALL edge lists. *)
Theorem symmeterize_adjacency :
  forall V E u v, (u < V)%nat -> (v < V)%nat ->
  (qadj (symmeterize_model V E) u v == (qadj E u v + qadj E v u) / 2)%Q.
Proof. intros V E u v Hu Hv. unfold symmeterize_model. rewrite qadj_mat_edges by assumption. apply Qred_correct. Qed.
Print Assumptions symmeterize_adjacency.

Theorem anti_symmeterize_adjacency :
  forall V E u v, (u < V)%nat -> (v < V)%nat ->
  (qadj (anti_symmeterize_model V E) u v == (qadj E u v - qadj E v u) / 2)%Q.
Proof. intros V E u v Hu Hv. unfold anti_symmeterize_model. rewrite qadj_mat_edges by assumption. apply Qred_correct. Qed.
Print Assumptions anti_symmeterize_adjacency.

Theorem cut_redundancies_adjacency :
  forall V E u v, (u < V)%nat -> (v < V)%nat ->
  (qadj (cut_redundancies_model V E) u v == qadj E u v)%Q.
Proof. exact qadj_cut_redundancies. Qed.
Print Assumptions cut_redundancies_adjacency.

(* after 4b482bf: one stored entry per vertex pair occurring in E (zero sums
   included), in range, carrying the summed weight *)
Theorem cut_redundancies_entries :
  forall V E e, In e (cut_redundancies_model V E) ->
  (qsrc e < V)%nat /\ (qdst e < V)%nat /\ qw e = Qred (qadj E (qsrc e) (qdst e)) /\ has_edge E (qsrc e) (qdst e) = true.
Proof. intros V E e H. apply (pmat_edges_entries V (has_edge E) (fun u v => Qred (qadj E u v)) e H). Qed.
Print Assumptions cut_redundancies_entries.

(* normalize(0) / normalize(1) after 3e5463e, for ALL edge lists: entry (u,v) of
   the adjacency is divided by the weight leaving u / entering v; the edge list
   itself (order, endpoints) is unchanged *)
Theorem normalize0_adjacency :
  forall E u v, (qadj (normalize0_model E) u v == qadj E u v / out_sum E u)%Q.
Proof. intros E u v. unfold normalize0_model. apply (qadj_scale_src (out_sum E)). Qed.
Print Assumptions normalize0_adjacency.

Theorem normalize1_adjacency :
  forall E u v, (qadj (normalize1_model E) u v == qadj E u v / in_sum E v)%Q.
Proof. intros E u v. unfold normalize1_model. apply (qadj_scale_dst (in_sum E)). Qed.
Print Assumptions normalize1_adjacency.

Theorem normalize_keeps_edge_list :
  forall E, map (fun e => (qsrc e, qdst e)) (normalize0_model E) = map (fun e => (qsrc e, qdst e)) E /\
            map (fun e => (qsrc e, qdst e)) (normalize1_model E) = map (fun e => (qsrc e, qdst e)) E.
Proof. intros E. unfold normalize0_model, normalize1_model. rewrite !map_map. split; reflexivity. Qed.
Print Assumptions normalize_keeps_edge_list.

(* edge lists rebuilt from a matrix hold each vertex pair at most once, in
   range, with the matrix entry as weight and no stored zero *)
Theorem matrix_edge_list_entries :
  forall V M e, In e (mat_edges V M) ->
  (qsrc e < V)%nat /\ (qdst e < V)%nat /\ qw e = M (qsrc e) (qdst e) /\ ~ (qw e == 0)%Q.
Proof. exact mat_edges_entries. Qed.
Print Assumptions matrix_edge_list_entries.

Theorem remove_trivial_edges_adjacency :
  forall E u v, (qadj (remove_trivial_model E) u v == if Nat.eqb u v then 0 else qadj E u v)%Q.
Proof. exact qadj_remove_trivial. Qed.
Print Assumptions remove_trivial_edges_adjacency.

Theorem concatenate_graphs_adjacency :
  forall V1 E1 E2 u v, (forall e, In e E1 -> (qsrc e < V1)%nat /\ (qdst e < V1)%nat) ->
  Qeq (qadj (concatenate_model V1 E1 E2) u v)
      (if (u <? V1)%nat && (v <? V1)%nat then qadj E1 u v
       else if (V1 <=? u)%nat && (V1 <=? v)%nat then qadj E2 (u - V1) (v - V1) else 0%Q).
Proof. exact qadj_concatenate. Qed.
Print Assumptions concatenate_graphs_adjacency.

(* subgraph: the retained vertices are renumbered by rank (strictly increasing,
   hence injective, onto 0..p-1) and the adjacency is the induced sub-matrix *)
Theorem subgraph_adjacency :
  forall valid E u v, isvalid valid u = true -> isvalid valid v = true ->
  (qadj (subgraph_model valid E) (rank valid u) (rank valid v) == qadj E u v)%Q.
Proof. exact qadj_subgraph. Qed.
Print Assumptions subgraph_adjacency.

Theorem subgraph_renumbering_increasing :
  forall valid u v, (u < v)%nat -> isvalid valid u = true -> (rank valid u < rank valid v)%nat.
Proof. exact rank_lt. Qed.
Print Assumptions subgraph_renumbering_increasing.

Example symmeterize_example :
  symmeterize_model 3 [(0%nat, 1%nat, 1%Q); (1%nat, 2%nat, 0%Q); (2%nat, 0%nat, 2%Q); (0%nat, 0%nat, 1%Q)]
  = [(0%nat, 0%nat, 1%Q); (0%nat, 1%nat, (1 # 2)%Q); (0%nat, 2%nat, 1%Q); (1%nat, 0%nat, (1 # 2)%Q); (2%nat, 0%nat, 1%Q)].
Proof. vm_compute. reflexivity. Qed.

(* ---- non-vacuity ---------------------------------------------------- *)
Example sp_check_accepts_example :
  sp_check 4 (mkE [(0,1,2); (1,2,0); (2,1,0); (0,2,5); (2,2,1)]) [0%nat]
           (dijkstra_model 4 (mkE [(0,1,2); (1,2,0); (2,1,0); (0,2,5); (2,2,1)]) (nats [0;3;1;2;4]) [0%nat]) = true
  /\ dijkstra_model 4 (mkE [(0,1,2); (1,2,0); (2,1,0); (0,2,5); (2,2,1)]) (nats [0;3;1;2;4]) [0%nat]
     = [Some 0; Some 2; Some 2; None].
Proof. vm_compute. split; reflexivity. Qed.

(* a zero-weight cycle cannot certify itself: d = [0; 0; 0] on 0 | 1<->2 (w=0) is rejected *)
Example sp_check_rejects_self_supporting_cycle :
  sp_check 3 (mkE [(1,2,0); (2,1,0)]) [0%nat] (mkd [0; 0; 0]) = false.
Proof. vm_compute. reflexivity. Qed.

Example cc_check_example :
  cc_model 5 (mkE [(0,1,1); (1,0,1); (3,4,0); (4,3,0)]) = [0; 0; 1; 2; 2] /\
  cc_check 5 (mkE [(0,1,1); (1,0,1); (3,4,0); (4,3,0)]) [0; 0; 1; 2; 2] = true /\
  cc_check 5 (mkE [(0,1,1); (1,0,1); (3,4,0); (4,3,0)]) [0; 0; 0; 1; 1] = false.
Proof. vm_compute. repeat split; reflexivity. Qed.

(* ---- floyd(): one dijkstra per entry of the seed array, in the caller's order ---------- *)
(* `floyd_code` is the loop as written (`seed = arange(V)` when None; `dg = None`; first row, then
   np.vstack).  For ALL V, E, argsort oracle and seed arguments (None / any list: unsorted,
   repeated, out of range): when a matrix is returned it has one row per seed and row i is the
   model's dijkstra from seed[i] alone - never from another entry of the seed array. *)
Theorem floyd_rows_follow_seed_order :
  forall V E order seed rows,
  floyd_code V E order seed = Some rows ->
  length rows = length (floyd_seeds V seed) /\
  forall i, (i < length (floyd_seeds V seed))%nat ->
    nth i rows [] = dijkstra_model V E order [nth i (floyd_seeds V seed) O].
Proof. exact floyd_rows_follow_seed_order_lemma. Qed.
Print Assumptions floyd_rows_follow_seed_order.

(* the quirk of the accumulator: None exactly for an empty seed array (a graph without vertices
   and seed=None included); a matrix otherwise *)
Theorem floyd_returns_matrix_iff_some_seed :
  forall V E order seed,
  floyd_code V E order seed =
  match floyd_seeds V seed with
  | [] => None
  | _ :: _ => Some (floyd_model V E order (floyd_seeds V seed))
  end.
Proof. exact floyd_code_eq. Qed.
Print Assumptions floyd_returns_matrix_iff_some_seed.

(* seed=None is the all-pairs matrix: V rows, row v = distances from v *)
Theorem floyd_none_is_all_pairs :
  forall V E order rows,
  floyd_code V E order None = Some rows ->
  length rows = V /\ forall v, (v < V)%nat -> nth v rows [] = dijkstra_model V E order [v].
Proof. exact floyd_none_all_pairs_lemma. Qed.
Print Assumptions floyd_none_is_all_pairs.

(* certificate for a whole floyd matrix: every row accepted by sp_check against ITS OWN seed
   (rows and seeds of equal number) => row i is exactly the shortest-path distance function of
   seed[i], for ALL graphs, seed arrays and candidate matrices *)
Theorem floyd_certificate_sound :
  forall V E seeds rows,
  floyd_rows_check V E seeds rows = true ->
  length rows = length seeds /\
  forall i, (i < length seeds)%nat -> is_sp_dist E [nth i seeds O] (getd (nth i rows [])).
Proof. exact floyd_rows_check_sound. Qed.
Print Assumptions floyd_certificate_sound.

(* model result that passes the certificate (evaluated per case by the harness): partial, for the
   same reason as dijkstra_checked_partial *)
Theorem floyd_checked_partial :
  forall V E order seed rows,
  floyd_code V E order seed = Some rows ->
  floyd_rows_check V E (floyd_seeds V seed) rows = true ->
  forall i, (i < length (floyd_seeds V seed))%nat ->
    is_sp_dist E [nth i (floyd_seeds V seed) O]
               (getd (dijkstra_model V E order [nth i (floyd_seeds V seed) O])).
Proof. exact floyd_checked_lemma. Qed.
Print Assumptions floyd_checked_partial.

(* outright: on the edgeless graph, for EVERY V and every seed argument below V (any order,
   repeats, None), row i of the model's floyd matrix is the distance function of seed[i] *)
Theorem floyd_no_edges_correct :
  forall V seed rows,
  (forall s, In s (floyd_seeds V seed) -> (s < V)%nat) ->
  floyd_code V [] [] seed = Some rows ->
  length rows = length (floyd_seeds V seed) /\
  forall i, (i < length (floyd_seeds V seed))%nat ->
    is_sp_dist [] [nth i (floyd_seeds V seed) O] (getd (nth i rows [])).
Proof. exact floyd_no_edges_lemma. Qed.
Print Assumptions floyd_no_edges_correct.

(* non-vacuity: path 0 -1- 1 -2- 2 with seeds [2; 0; 2] (unsorted, repeated): three rows in the
   caller's order, accepted by the certificate; the same rows against the SORTED seeds [0; 2; 2]
   are rejected; an empty seed array gives None *)
Example floyd_unsorted_seeds_example :
  let E := [(0%nat, 1%nat, 1); (1%nat, 0%nat, 1); (1%nat, 2%nat, 2); (2%nat, 1%nat, 2)] in
  let order := [0%nat; 1%nat; 2%nat; 3%nat] in
  floyd_code 3 E order (Some [2%nat; 0%nat; 2%nat]) =
    Some [[Some 3; Some 2; Some 0]; [Some 0; Some 1; Some 3]; [Some 3; Some 2; Some 0]] /\
  floyd_rows_check 3 E [2%nat; 0%nat; 2%nat]
    [[Some 3; Some 2; Some 0]; [Some 0; Some 1; Some 3]; [Some 3; Some 2; Some 0]] = true /\
  floyd_rows_check 3 E [0%nat; 2%nat; 2%nat]
    [[Some 3; Some 2; Some 0]; [Some 0; Some 1; Some 3]; [Some 3; Some 2; Some 0]] = false /\
  floyd_code 3 E order (Some []) = None.
Proof. vm_compute. repeat split. Qed.
