(* C11 - property theorems only. *)
From Coq Require Import ZArith List Bool Lia ZifyBool Arith.
From NV.C11 Require Import Model Proofs Proofs2.
Import ListNotations.
Open Scope Z_scope.

(* ---- shortest paths ------------------------------------------------ *)
(* For EVERY graph, seed set and candidate distance vector: if the certificate
   check accepts, the vector is exactly the shortest-path distance function
   (attained minimum over all walks from the seeds; None iff no walk).
   No assumption on the graph: zero weights, self-loops, parallel edges,
   several components are all covered; negative weights and out-of-range
   endpoints are rejected by the check itself. *)
Theorem sp_certificate_sound :
  forall V E seeds d, sp_check V E seeds d = true -> is_sp_dist E seeds (getd d).
Proof. exact sp_check_sound. Qed.
Print Assumptions sp_certificate_sound.

(* Partial completeness: on a well-formed non-negative graph the true distance
   vector always passes the seed and edge (triangle / inf-closed) conditions.
   MISSING for full completeness: that V closure rounds over tight edges reach
   every finite vertex (needs a pigeonhole argument on simple paths); the
   harness measures it instead (checker verdict = brute-force verdict on every
   case). *)
Theorem sp_certificate_local_complete_partial :
  forall V E seeds d, length d = V ->
  (forall e, In e E -> 0 <= ew e /\ (esrc e < V)%nat /\ (edst e < V)%nat) ->
  (forall s, In s seeds -> (s < V)%nat) ->
  is_sp_dist E seeds (getd d) ->
  forallb (seed_ok V d) seeds = true /\ forallb (edge_ok V d) E = true.
Proof. exact sp_local_complete. Qed.
Print Assumptions sp_certificate_local_complete_partial.

(* The dijkstra model (code as written) is NOT proved correct outright - it is
   in fact wrong on parallel edges (below).  What holds for every input: when
   the model's output passes the proved-sound check (evaluated per case by the
   harness), it is the shortest-path distance function. *)
Theorem dijkstra_checked_partial :
  forall V E order seeds,
  sp_check V E seeds (dijkstra_model V E order seeds) = true ->
  is_sp_dist E seeds (getd (dijkstra_model V E order seeds)).
Proof. intros V E order seeds. apply sp_check_sound. Qed.
Print Assumptions dijkstra_checked_partial.

(* FINDING: vectorised relaxation `dist[l[who]] = newdist[who]` keeps the LAST
   of several parallel edges u->v, not the lightest.  Witness: V=2, edges
   0->1 (w=1), 0->1 (w=2), seed 0: the code returns dist[1] = 2. *)
Theorem dijkstra_parallel_edges_refuted :
  exists V E order seeds,
    order_ok V E order = true /\ (forall e, In e E -> 0 <= ew e) /\
    ~ is_sp_dist E seeds (getd (dijkstra_model V E order seeds)).
Proof.
  exists 2%nat, [(0%nat, 1%nat, 1); (0%nat, 1%nat, 2)], [0%nat; 1%nat], [0%nat].
  split; [vm_compute; reflexivity|]. split.
  - intros e [<-|[<-|[]]]; cbn; lia.
  - intros H.
    assert (M : dijkstra_model 2 [(0%nat, 1%nat, 1); (0%nat, 1%nat, 2)] [0%nat; 1%nat] [0%nat]
                = [Some 0; Some 2]) by (vm_compute; reflexivity).
    rewrite M in H. specialize (H 1%nat). cbn [getd nth] in H. destruct H as [_ H].
    assert (P : path_len [(0%nat, 1%nat, 1); (0%nat, 1%nat, 2)] 0 1 (0 + 1)).
    { eapply pl_step with (e := (0%nat, 1%nat, 1)); [constructor|left; reflexivity| |]; reflexivity. }
    specialize (H 0%nat _ (or_introl eq_refl) P). lia.
Qed.
Print Assumptions dijkstra_parallel_edges_refuted.

(* ---- connected components ------------------------------------------ *)
Theorem cc_certificate_sound :
  forall V E lab, cc_check V E lab = true -> is_cc_labelling V E (getl lab).
Proof. exact cc_check_sound. Qed.
Print Assumptions cc_certificate_sound.

Theorem cc_certificate_fast_sound :
  forall V E lab n, cc_check_fast V E lab n = true -> is_cc_labelling V E (getl lab).
Proof. exact cc_check_fast_sound. Qed.
Print Assumptions cc_certificate_fast_sound.

Theorem cc_checked_partial :
  forall V E, cc_check V E (cc_model V E) = true -> is_cc_labelling V E (getl (cc_model V E)).
Proof. intros V E. apply cc_check_sound. Qed.
Print Assumptions cc_checked_partial.

(* ---- voronoi labelling --------------------------------------------- *)
Theorem voronoi_certificate_sound :
  forall V E seeds d lab, vor_check V E seeds d lab = true -> is_voronoi E seeds (getl lab).
Proof. exact vor_check_sound. Qed.
Print Assumptions voronoi_certificate_sound.

Theorem voronoi_checked_partial :
  forall V E order seeds,
  vor_check V E seeds (fst (voronoi_model V E order seeds)) (snd (voronoi_model V E order seeds)) = true ->
  is_voronoi E seeds (getl (snd (voronoi_model V E order seeds))).
Proof. intros V E order seeds. apply vor_check_sound. Qed.
Print Assumptions voronoi_checked_partial.

(* FINDING: a graph without edges has a perfectly good distance function
   (0 at the seeds, inf elsewhere) but the code raises (None). *)
Theorem dijkstra_no_edges_refuted :
  exists V seeds d, dijkstra_code V [] [] seeds = None /\ is_sp_dist [] seeds (getd d).
Proof.
  exists 2%nat, [0%nat], [Some 0; None]. split; [reflexivity|].
  apply (sp_check_sound 2 [] [0%nat]). vm_compute. reflexivity.
Qed.
Print Assumptions dijkstra_no_edges_refuted.

(* ---- kruskal --------------------------------------------------------- *)
(* FINDING: on a graph with k > 1 components the 2V-2 preallocated rows are
   only filled up to 2(V-k); the result contains (0,0) rows of weight 0 that
   are not edges of the graph (a self-loop: not a forest, not a subgraph). *)
Theorem kruskal_padding_refuted :
  exists V E iw k, cc_model V E = map Z.of_nat (seq 0 k) /\
    In (0%nat, 0%nat, 0) (kruskal_model V E iw k) /\ ~ In (0%nat, 0%nat, 0) E.
Proof.
  exists 2%nat, [], [], 2%nat. split; [vm_compute; reflexivity|]. split; [vm_compute; auto|intros []].
Qed.
Print Assumptions kruskal_padding_refuted.

(* ---- builders --------------------------------------------------------- *)
(* FINDING: `dist < sorted_dist[k+1]` drops every candidate tied with the
   (k+1)-th nearest.  D = squared distances of the unit-square corners
   (0,0),(1,0),(0,1),(1,1); k = 1 < n-1: every vertex ends with 0 < k neighbours. *)
Theorem knn_ties_fewer_than_k_refuted :
  exists D k, (k < length D - 1)%nat /\
    forall i, (i < length D)%nat -> (row_degree (nth i (knn_model D k) []) < k)%nat.
Proof.
  exists [[0;1;1;2]; [1;0;2;1]; [1;2;0;1]; [2;1;1;0]], 1%nat. split; [cbn; lia|].
  intros i Hi. cbn in Hi.
  destruct i as [|[|[|[|i]]]]; try lia; vm_compute; lia.
Qed.
Print Assumptions knn_ties_fewer_than_k_refuted.

(* graph_3d_grid hashing, for ALL coordinate sets: with m = 3*sum(max)+2 and
   lattice differences bounded by the per-axis maxima, each of the 13 hashing
   rows (6/18/26 systems) hits its l1dist exactly on its own lattice step, no
   difference hashes strictly between 0 and l1dist (so the two points are
   consecutive in the sorted hash order), and the hash is injective. *)
Theorem grid_hash_detects_exactly_the_neighbour_steps :
  forall r l dir, In (r, l, dir) grid_rows ->
  forall Mx My Mz dx dy dz,
    Z.abs dx <= Mx -> Z.abs dy <= My -> Z.abs dz <= Mz ->
    let m := 3 * (Mx + My + Mz) + 2 in
    (ghash m r (dx, dy, dz) = l <-> (dx, dy, dz) = dir) /\
    ~ (0 < ghash m r (dx, dy, dz) < l) /\
    (ghash m r (dx, dy, dz) = 0 <-> (dx, dy, dz) = (0, 0, 0)).
Proof. exact grid_hash_correct. Qed.
Print Assumptions grid_hash_detects_exactly_the_neighbour_steps.

(* the 13 steps are, up to sign, all 26 neighbour offsets: 3 + 6 + 4, L-inf norm 1, L1 norm = l1dist *)
Example grid_rows_cover_half_of_26 :
  length grid_rows = 13%nat /\
  forallb (fun t => let '(_, l, (a, b, c)) := t in
             (Z.max (Z.abs a) (Z.max (Z.abs b) (Z.abs c)) =? 1) && (Z.abs a + Z.abs b + Z.abs c =? l)) grid_rows = true.
Proof. vm_compute. split; reflexivity. Qed.

(* ---- non-vacuity ---------------------------------------------------- *)
Example sp_check_accepts_example :
  sp_check 4 (mkE [(0,1,2); (1,2,0); (2,1,0); (0,2,5); (2,2,1)]) [0%nat]
           (dijkstra_model 4 (mkE [(0,1,2); (1,2,0); (2,1,0); (0,2,5); (2,2,1)]) (nats [0;3;1;2;4]) [0%nat]) = true
  /\ dijkstra_model 4 (mkE [(0,1,2); (1,2,0); (2,1,0); (0,2,5); (2,2,1)]) (nats [0;3;1;2;4]) [0%nat]
     = [Some 0; Some 2; Some 2; None].
Proof. vm_compute. split; reflexivity. Qed.

(* a zero-weight cycle cannot certify itself: d = [0; 0; 0] on 0 | 1<->2 (w=0) is rejected *)
Example sp_check_rejects_self_supporting_cycle :
  sp_check 3 (mkE [(1,2,0); (2,1,0)]) [0%nat] (mkd [0; 0; 0]) = false.
Proof. vm_compute. reflexivity. Qed.

Example cc_check_example :
  cc_model 5 (mkE [(0,1,1); (1,0,1); (3,4,0); (4,3,0)]) = [0; 0; 1; 2; 2] /\
  cc_check 5 (mkE [(0,1,1); (1,0,1); (3,4,0); (4,3,0)]) [0; 0; 1; 2; 2] = true /\
  cc_check 5 (mkE [(0,1,1); (1,0,1); (3,4,0); (4,3,0)]) [0; 0; 0; 1; 1] = false.
Proof. vm_compute. repeat split; reflexivity. Qed.
