(* C11 - lemmas, part 1: list updates, closure invariant, soundness of the
   shortest-path / connected-components / voronoi certificate checkers. *)
From Coq Require Import ZArith List Bool Lia ZifyBool Arith.
From NV.C11 Require Import Model.
Import ListNotations.
Open Scope Z_scope.

(* ---------------------------------------------------------------- set_nth *)
Lemma set_nth_length {A} (l : list A) n x : length (set_nth l n x) = length l.
Proof.
  revert n; induction l as [|y t IH]; intros [|n]; simpl; auto.
Qed.

Lemma nth_set_nth_eq {A} (l : list A) n x d : (n < length l)%nat -> nth n (set_nth l n x) d = x.
Proof.
  revert n; induction l as [|y t IH]; intros [|n] H; simpl in *; try lia; auto.
  apply IH; lia.
Qed.

Lemma nth_set_nth_neq {A} (l : list A) n m x d : n <> m -> nth m (set_nth l n x) d = nth m l d.
Proof.
  revert n m; induction l as [|y t IH]; intros [|n] [|m] H; simpl; auto; try congruence.
Qed.

Lemma nth_set_nth_cases {A} (l : list A) n m x d :
  nth m (set_nth l n x) d = x /\ m = n \/ nth m (set_nth l n x) d = nth m l d.
Proof.
  destruct (Nat.eq_dec n m) as [->|Hne].
  - destruct (Nat.lt_ge_cases m (length l)) as [Hlt|Hge].
    + left; split; auto. now apply nth_set_nth_eq.
    + right. rewrite !nth_overflow; auto. now rewrite set_nth_length.
  - right. now apply nth_set_nth_neq.
Qed.

Lemma bget_set_true R n v : bget (set_nth R n true) v = true -> v = n \/ bget R v = true.
Proof.
  unfold bget. intros H. destruct (nth_set_nth_cases R n v true false) as [[_ Hm]|Hm].
  - left; exact Hm.
  - right. rewrite <- Hm. exact H.
Qed.

Lemma bget_repeat_false V v : bget (repeat false V) v = false.
Proof.
  unfold bget. revert v; induction V as [|V IH]; intros [|v]; simpl; auto.
Qed.

Lemma mark_in V l v : bget (mark V l) v = true -> In v l.
Proof.
  unfold mark.
  assert (G : forall R, bget (fold_left (fun R s => set_nth R s true) l R) v = true ->
                        In v l \/ bget R v = true).
  { induction l as [|s t IH]; intros R H; simpl in *; auto.
    destruct (IH _ H) as [Hin|Hb]; auto.
    destruct (bget_set_true _ _ _ Hb) as [->|Hb']; auto. }
  intros H. destruct (G _ H) as [Hin|Hb]; auto.
  rewrite bget_repeat_false in Hb. discriminate.
Qed.

(* ---------------------------------------------------------------- closure *)
Section ClosureInv.
  Variable P : nat -> Prop.
  Variable ok : edge -> bool.
  Variable E : list edge.
  Hypothesis step : forall e, In e E -> ok e = true -> P (esrc e) -> P (edst e).

  Lemma grow1_inv R e : In e E -> (forall v, bget R v = true -> P v) ->
                        forall v, bget (grow1 ok R e) v = true -> P v.
  Proof.
    intros He HR v Hv. unfold grow1 in Hv.
    destruct (ok e && bget R (esrc e)) eqn:Hc; auto.
    apply andb_true_iff in Hc. destruct Hc as [Hok Hsrc].
    destruct (bget_set_true _ _ _ Hv) as [->|Hb]; auto.
  Qed.

  Lemma grow_inv_gen E' R : incl E' E -> (forall v, bget R v = true -> P v) ->
                            forall v, bget (fold_left (grow1 ok) E' R) v = true -> P v.
  Proof.
    revert R; induction E' as [|e t IH]; intros R Hi HR v Hv; simpl in *; auto.
    apply (IH (grow1 ok R e)); auto.
    - intros x Hx; apply Hi; now right.
    - apply grow1_inv; auto. apply Hi; now left.
  Qed.

  Lemma closure_inv n R : (forall v, bget R v = true -> P v) ->
                          forall v, bget (closure n ok E R) v = true -> P v.
  Proof.
    revert R; induction n as [|n IH]; intros R HR v Hv; simpl in *; auto.
    apply (IH (grow ok E R)); auto.
    unfold grow. apply grow_inv_gen; auto. apply incl_refl.
  Qed.
End ClosureInv.

(* ---------------------------------------------------------------- sp_check *)
Lemma forallb_seq_lt (f : nat -> bool) V v :
  forallb f (seq 0 V) = true -> (v < V)%nat -> f v = true.
Proof.
  intros H Hv. rewrite forallb_forall in H. apply H. apply in_seq. lia.
Qed.

Section SpSound.
  Variables (V : nat) (E : list edge) (seeds : list nat) (d : dist_t).
  Hypothesis Hlen : length d = V.
  Hypothesis Hseeds : forall s, In s seeds -> seed_ok V d s = true.
  Hypothesis Hedges : forall e, In e E -> edge_ok V d e = true.

  (* every walk from a seed ends at a finite entry that is a lower bound *)
  Lemma sp_lower s v l : In s seeds -> path_len E s v l -> exists b, getd d v = Some b /\ b <= l.
  Proof.
    intros Hs Hp. induction Hp as [u|u v x e l Hp IH He Hsrc Hdst].
    - pose proof (Hseeds _ Hs) as Hk. unfold seed_ok in Hk.
      apply andb_true_iff in Hk. destruct Hk as [_ H0].
      destruct (getd d u) as [x|]; try discriminate. exists x; split; auto. lia.
    - destruct (IH Hs) as [a [Ha Hal]].
      pose proof (Hedges _ He) as Hk. unfold edge_ok in Hk.
      apply andb_true_iff in Hk. destruct Hk as [Hk Htri].
      apply andb_true_iff in Hk. destruct Hk as [Hk _].
      apply andb_true_iff in Hk. destruct Hk as [Hw _].
      rewrite Hsrc, Hdst, Ha in Htri.
      destruct (getd d x) as [b|]; try discriminate.
      exists b; split; auto. lia.
  Qed.

  Definition attained (v : nat) : Prop :=
    exists s l, In s seeds /\ path_len E s v l /\ getd d v = Some l.

  Lemma tight_step e : In e E -> tight d e = true -> attained (esrc e) -> attained (edst e).
  Proof.
    intros He Ht [s [l [Hs [Hp Hd]]]]. unfold tight in Ht. rewrite Hd in Ht.
    destruct (getd d (edst e)) as [b|] eqn:Hb; try discriminate.
    exists s, (l + ew e). split; auto. split.
    - eapply pl_step; eauto.
    - rewrite Hb. f_equal. lia.
  Qed.

  Lemma mark_attained v : bget (mark V seeds) v = true -> attained v.
  Proof.
    intros H. apply mark_in in H. exists v, 0. split; auto. split; [constructor|].
    pose proof (Hseeds _ H) as Hk. unfold seed_ok in Hk.
    apply andb_true_iff in Hk. destruct Hk as [_ H0].
    destruct (getd d v) as [x|]; try discriminate. f_equal. lia.
  Qed.
End SpSound.

Lemma sp_check_sound V E seeds d :
  sp_check V E seeds d = true -> is_sp_dist E seeds (getd d).
Proof.
  unfold sp_check. intros H.
  apply andb_true_iff in H. destruct H as [H Hreach].
  apply andb_true_iff in H. destruct H as [H Hedges].
  apply andb_true_iff in H. destruct H as [Hlen Hseeds].
  apply Nat.eqb_eq in Hlen.
  rewrite forallb_forall in Hseeds, Hedges.
  intros v. destruct (getd d v) as [x|] eqn:Hv.
  - assert (Hlt : (v < V)%nat).
    { destruct (Nat.lt_ge_cases v V) as [Hl|Hg]; auto.
      unfold getd in Hv. rewrite nth_overflow in Hv by lia. discriminate. }
    pose proof (forallb_seq_lt _ V v Hreach Hlt) as Hr. cbv beta in Hr. rewrite Hv in Hr.
    split.
    + assert (Ha : attained E seeds d v).
      { eapply (closure_inv (attained E seeds d) (tight d) E); [| |exact Hr].
        - intros e He Ht Hsrc. eapply tight_step; eauto.
        - intros u Hu. eapply mark_attained; eauto. }
      destruct Ha as [s [l [Hs [Hp Hd]]]]. rewrite Hv in Hd. inversion Hd; subst.
      exists s; auto.
    + intros s l Hs Hp.
      destruct (sp_lower V E seeds d Hlen Hseeds Hedges s v l Hs Hp) as [b [Hb Hbl]].
      rewrite Hv in Hb. inversion Hb; subst. auto.
  - intros s l Hs Hp.
    destruct (sp_lower V E seeds d Hlen Hseeds Hedges s v l Hs Hp) as [b [Hb _]].
    rewrite Hv in Hb. discriminate.
Qed.

(* completeness of the local conditions: true distances always satisfy the
   seed and edge conditions (on a well-formed non-negative graph) *)
Lemma path_nonneg E s v l : (forall e, In e E -> 0 <= ew e) -> path_len E s v l -> 0 <= l.
Proof.
  intros Hw Hp. induction Hp as [u|u v x e l Hp IH He Hsrc Hdst]; try lia.
  specialize (Hw _ He). lia.
Qed.

Lemma sp_local_complete V E seeds d :
  length d = V ->
  (forall e, In e E -> 0 <= ew e /\ (esrc e < V)%nat /\ (edst e < V)%nat) ->
  (forall s, In s seeds -> (s < V)%nat) ->
  is_sp_dist E seeds (getd d) ->
  forallb (seed_ok V d) seeds = true /\ forallb (edge_ok V d) E = true.
Proof.
  intros Hlen Hwf Hsv Hsp. split; apply forallb_forall.
  - intros s Hs. unfold seed_ok. specialize (Hsv _ Hs).
    pose proof (Hsp s) as Hs'. destruct (getd d s) as [x|].
    + destruct Hs' as [[s0 [Hs0 Hp0]] Hmin].
      specialize (Hmin s 0 Hs (pl_refl E s)).
      assert (0 <= x) by (eapply path_nonneg; eauto; intros e He; apply Hwf; auto).
      apply andb_true_iff; split; lia.
    + exfalso. apply (Hs' s 0 Hs). constructor.
  - intros e He. unfold edge_ok. destruct (Hwf _ He) as [Hw [Hu Hv]].
    pose proof (Hsp (esrc e)) as Hsu. pose proof (Hsp (edst e)) as Hsv'.
    destruct (getd d (esrc e)) as [a|].
    + destruct Hsu as [[s [Hs Hp]] _].
      assert (Hp' : path_len E s (edst e) (a + ew e)) by (eapply pl_step; eauto).
      destruct (getd d (edst e)) as [b|].
      * destruct Hsv' as [_ Hmin]. specialize (Hmin _ _ Hs Hp').
        repeat (apply andb_true_iff; split); lia.
      * exfalso. eapply Hsv'; eauto.
    + repeat (apply andb_true_iff; split); auto; lia.
Qed.

(* ---------------------------------------------------------------- cc_check *)
Lemma connected_trans E u v x : connected E u v -> connected E v x -> connected E u x.
Proof.
  intros H1 H2. induction H2 as [w|w y z e H2 IH He Hs Hd|w y z e H2 IH He Hs Hd]; auto.
  - apply (cn_fwd E u y z e); auto.
  - apply (cn_bwd E u y z e); auto.
Qed.

Lemma connected_sym E u v : connected E u v -> connected E v u.
Proof.
  intros H. induction H as [w|w y z e H IH He Hs Hd|w y z e H IH He Hs Hd].
  - constructor.
  - eapply connected_trans; [|exact IH]. apply (cn_bwd E z z y e); auto. constructor.
  - eapply connected_trans; [|exact IH]. apply (cn_fwd E z z y e); auto. constructor.
Qed.

Lemma in_E2 E e : In e (E ++ map erev E) ->
  exists e0, In e0 E /\ ((esrc e = esrc e0 /\ edst e = edst e0) \/ (esrc e = edst e0 /\ edst e = esrc e0)).
Proof.
  intros H. apply in_app_or in H. destruct H as [H|H].
  - exists e; auto.
  - apply in_map_iff in H. destruct H as [e0 [<- H0]]. exists e0. split; auto.
Qed.

Lemma closure_connected V E r v :
  bget (closure V (fun _ => true) (E ++ map erev E) (mark V [r])) v = true -> connected E r v.
Proof.
  apply (closure_inv (connected E r) (fun _ => true) (E ++ map erev E)).
  - intros e He _ Hc. destruct (in_E2 _ _ He) as [e0 [H0 [[Hs Hd]|[Hs Hd]]]].
    + apply (cn_fwd E r (esrc e) (edst e) e0); auto.
    + apply (cn_bwd E r (esrc e) (edst e) e0); auto.
  - intros u Hu. apply mark_in in Hu. destruct Hu as [<-|[]]. constructor.
Qed.

Lemma labels_along E lab u v :
  (forall e, In e E -> getl lab (esrc e) = getl lab (edst e)) ->
  connected E u v -> getl lab u = getl lab v.
Proof.
  intros HE H. induction H as [w|w y z e H IH He Hs Hd|w y z e H IH He Hs Hd]; auto.
  - rewrite IH, <- Hs, <- Hd. auto.
  - rewrite IH, <- Hs, <- Hd. symmetry; auto.
Qed.

Lemma cc_check_sound V E lab :
  cc_check V E lab = true -> is_cc_labelling V E (getl lab).
Proof.
  unfold cc_check. intros H.
  apply andb_true_iff in H. destruct H as [H Hreach].
  apply andb_true_iff in H. destruct H as [_ Hedges].
  rewrite forallb_forall in Hedges.
  assert (HE : forall e, In e E -> getl lab (esrc e) = getl lab (edst e)).
  { intros e He. specialize (Hedges _ He).
    repeat (apply andb_true_iff in Hedges; destruct Hedges as [Hedges ?]). lia. }
  intros u v Hu Hv. split.
  - intros Heq.
    pose proof (forallb_seq_lt _ V u Hreach Hu) as Ru.
    pose proof (forallb_seq_lt _ V v Hreach Hv) as Rv.
    cbv beta zeta in Ru, Rv. rewrite <- Heq in Rv.
    apply closure_connected in Ru. apply closure_connected in Rv.
    eapply connected_trans; [apply connected_sym; exact Ru|exact Rv].
  - apply labels_along; auto.
Qed.

Lemma cc_check_fast_sound V E lab n :
  cc_check_fast V E lab n = true -> is_cc_labelling V E (getl lab).
Proof.
  unfold cc_check_fast. intros H.
  apply andb_true_iff in H. destruct H as [H Hreach].
  apply andb_true_iff in H. destruct H as [_ Hedges].
  rewrite forallb_forall in Hedges.
  assert (HE : forall e, In e E -> getl lab (esrc e) = getl lab (edst e)).
  { intros e He. specialize (Hedges _ He).
    repeat (apply andb_true_iff in Hedges; destruct Hedges as [Hedges ?]). lia. }
  set (E2 := E ++ map erev E) in *.
  set (roots := map (fun k => first_with lab (Z.of_nat k) O) (seq 0 n)) in *.
  set (Rs := map (fun r => closure V (fun _ => true) E2 (mark V [r])) roots) in *.
  assert (Hroot : forall u, (u < V)%nat ->
            connected E (nth (Z.to_nat (getl lab u)) roots O) u).
  { intros u Hu. pose proof (forallb_seq_lt _ V u Hreach Hu) as Ru. cbv beta in Ru.
    destruct (getl lab u) as [|p|p] eqn:Hl; try discriminate;
      apply andb_true_iff in Ru; destruct Ru as [Ru _].
    - destruct (Nat.lt_ge_cases (Z.to_nat 0) (length roots)) as [Hk|Hk].
      + unfold Rs in Ru. rewrite (nth_indep _ [] (closure V (fun _ => true) E2 (mark V [O]))) in Ru
          by (now rewrite map_length).
        rewrite (map_nth (fun r => closure V (fun _ => true) E2 (mark V [r]))) in Ru.
        now apply closure_connected in Ru.
      + unfold Rs in Ru. rewrite nth_overflow in Ru by (now rewrite map_length).
        unfold bget in Ru. destruct u; discriminate.
    - destruct (Nat.lt_ge_cases (Z.to_nat (Z.pos p)) (length roots)) as [Hk|Hk].
      + unfold Rs in Ru. rewrite (nth_indep _ [] (closure V (fun _ => true) E2 (mark V [O]))) in Ru
          by (now rewrite map_length).
        rewrite (map_nth (fun r => closure V (fun _ => true) E2 (mark V [r]))) in Ru.
        now apply closure_connected in Ru.
      + unfold Rs in Ru. rewrite nth_overflow in Ru by (now rewrite map_length).
        unfold bget in Ru. destruct u; discriminate. }
  intros u v Hu Hv. split.
  - intros Heq. pose proof (Hroot u Hu) as Cu. pose proof (Hroot v Hv) as Cv.
    rewrite <- Heq in Cv.
    eapply connected_trans; [apply connected_sym; exact Cu|exact Cv].
  - apply labels_along; auto.
Qed.

(* ---------------------------------------------------------------- vor_check *)
Lemma vor_check_sound V E seeds d lab :
  vor_check V E seeds d lab = true -> is_voronoi E seeds (getl lab).
Proof.
  unfold vor_check. intros H.
  apply andb_true_iff in H. destruct H as [H Hall].
  apply andb_true_iff in H. destruct H as [Hsp Hlen].
  pose proof (sp_check_sound _ _ _ _ Hsp) as SP.
  assert (Hseeds : forall s, In s seeds -> seed_ok V d s = true).
  { unfold sp_check in Hsp. repeat (apply andb_true_iff in Hsp; destruct Hsp as [Hsp ?]).
    now rewrite forallb_forall in H1. }
  intros v. pose proof (SP v) as SPv.
  destruct (Nat.lt_ge_cases v V) as [Hv|Hv].
  - pose proof (forallb_seq_lt _ V v Hall Hv) as Hc. cbv beta in Hc.
    destruct (getd d v) as [x|] eqn:Hd.
    + right.
      apply andb_true_iff in Hc. destruct Hc as [Hnn Hc]. cbv zeta in Hc.
      apply andb_true_iff in Hc. destruct Hc as [Hi Hr].
      set (i := Z.to_nat (getl lab v)) in *. set (s0 := nth i seeds O) in *.
      assert (Hin : In s0 seeds) by (apply nth_In; lia).
      exists i, x. split; [unfold i; lia|]. split; [lia|]. split; [|apply SPv].
      assert (G : exists l, path_len E s0 v l /\ getd d v = Some l).
      { apply (closure_inv (fun w => exists l, path_len E s0 w l /\ getd d w = Some l)
                           (tight d) E) with (n := V) (R := mark V [s0]); [| |exact Hr].
        - intros e He Ht [l [Hp Hdl]]. unfold tight in Ht. rewrite Hdl in Ht.
          destruct (getd d (edst e)) as [b|] eqn:Hb; try discriminate.
          exists (l + ew e). split.
          + eapply pl_step; eauto.
          + try rewrite Hb. f_equal. lia.
        - intros u Hu. apply mark_in in Hu. destruct Hu as [<-|[]].
          exists 0. split; [constructor|].
          specialize (Hseeds _ Hin). unfold seed_ok in Hseeds.
          apply andb_true_iff in Hseeds. destruct Hseeds as [_ H0].
          destruct (getd d s0) as [z|]; try discriminate. f_equal. lia. }
      destruct G as [l [Hp Hdl]]. rewrite Hd in Hdl. inversion Hdl; subst. exact Hp.
    + left. split; [lia|exact SPv].
  - left. split.
    + unfold getl. rewrite nth_overflow; [reflexivity|]. apply Nat.eqb_eq in Hlen. lia.
    + unfold getd in SPv. rewrite nth_overflow in SPv; [exact SPv|].
      unfold sp_check in Hsp. repeat (apply andb_true_iff in Hsp; destruct Hsp as [Hsp ?]).
      apply Nat.eqb_eq in Hsp. lia.
Qed.
