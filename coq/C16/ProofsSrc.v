(* C16 - the macro bodies translated from quantile.c (Generated/QuantileMacros.v)
   denote the functions used by the hand-written model. *)
From Coq Require Import ZArith List Bool QArith Qround Lqa.
From NV.C16 Require Import Model Proofs3.
From NV.Generated Require Import QuantileMacros.
Close Scope Q_scope.

Lemma src_floor_eq : forall a, src_unsigned_floor a = unsigned_floor a.
Proof. intros a. reflexivity. Qed.

Lemma src_ceil_eq : forall a, src_unsigned_ceil a = unsigned_ceil a.
Proof.
  intros a. unfold src_unsigned_ceil, unsigned_ceil.
  change (inject_Z 0) with 0%Q. change (inject_Z 1) with 1%Q.
  destruct (Qeq_bool (inject_Z (ctrunc a) - a) 0); reflexivity.
Qed.

Lemma src_ceil_spec : forall a : Q, (0 <= a)%Q ->
  (inject_Z (src_unsigned_ceil a) - 1 < a)%Q /\ (a <= inject_Z (src_unsigned_ceil a))%Q.
Proof. intros a H. rewrite src_ceil_eq. apply unsigned_ceil_spec. exact H. Qed.

Lemma src_floor_spec : forall a : Q, (0 <= a)%Q -> src_unsigned_floor a = Qfloor a.
Proof. intros a H. rewrite src_floor_eq. apply ctrunc_floor. exact H. Qed.
