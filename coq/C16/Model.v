(* C16 - model of nipy/algorithms/statistics/quantile.c (executable definitions only).

   The buffer is a list of integers addressed by the *logical* index k of the
   C code (memory address = x + stride*k; the stride mapping is exercised by
   the correspondence on strided views).  Every read/write is checked: an
   access outside [0, length) yields [Fault]; every C loop has explicit fuel
   and yields [Timeout] when it runs out.  Control flow follows the C text
   statement by statement (line numbers refer to quantile.c). *)
From Coq Require Import ZArith List Bool Arith Lia QArith Qabs.
Import ListNotations.
Close Scope Q_scope.

Inductive res (A : Type) : Type :=
| Ok (v : A)
| Fault      (* out-of-bounds access *)
| Timeout.   (* fuel exhausted *)
Arguments Ok {A} v.
Arguments Fault {A}.
Arguments Timeout {A}.

Definition bind {A B} (r : res A) (f : A -> res B) : res B :=
  match r with Ok v => f v | Fault => Fault | Timeout => Timeout end.
Notation "x <- e ;; k" := (bind e (fun x => k))
  (at level 61, e at next level, right associativity).

(* ---- checked memory access *)
Definition rd (x : list Z) (k : nat) : res Z :=
  if k <? length x then Ok (nth k x 0%Z) else Fault.

Fixpoint upd (k : nat) (v : Z) (x : list Z) {struct x} : list Z :=
  match x with
  | [] => []
  | h :: t => match k with O => v :: t | S k' => h :: upd k' v t end
  end.

Definition wr (x : list Z) (k : nat) (v : Z) : res (list Z) :=
  if k <? length x then Ok (upd k v x) else Fault.

(* #define SWAP(a, b)  {tmp=(a); (a)=(b); (b)=tmp;} *)
Definition swap (x : list Z) (i j : nat) : res (list Z) :=
  vi <- rd x i ;; vj <- rd x j ;; x1 <- wr x i vj ;; wr x1 j vi.

(* while ( *bufl < a) { i++; bufl += stride; }        (lines 122-125, 213-216) *)
Fixpoint scan_up (fuel : nat) (x : list Z) (a : Z) (i : nat) : res nat :=
  match fuel with
  | O => Timeout
  | S f => v <- rd x i ;; if (v <? a)%Z then scan_up f x a (S i) else Ok i
  end.

(* while ( *bufr > a) { j--; bufr -= stride; }        (lines 126-129, 217-220)
   j-- from 0 would make the next read address x[-stride]: Fault. *)
Fixpoint scan_down (fuel : nat) (x : list Z) (a : Z) (j : nat) : res nat :=
  match fuel with
  | O => Timeout
  | S f => v <- rd x j ;;
           if (a <? v)%Z then match j with O => Fault | S j' => scan_down f x a j' end
           else Ok j
  end.

(* the `while (stop2 == 0) { ... }` loop (lines 121-146 and 211-237; the two
   copies in _pth_element and _pth_interval are textually identical). *)
Fixpoint inner (fuel F : nat) (x : list Z) (il jr : nat) (same : bool) (a : Z) (i j : nat)
  : res (list Z * nat * nat) :=
  match fuel with
  | O => Timeout
  | S f =>
    i1 <- scan_up F x a i ;;
    j1 <- scan_down F x a j ;;
    st <- (if j1 <=? i1 then Ok (x, i1, j1, true)                   (* if (j <= i) stop2 = 1; *)
           else x1 <- swap x i1 j1 ;;                               (* else { SWAP( *bufl, *bufr) *)
                match j1 with O => Fault                            (*        j --; i ++; } *)
                | S j2 => Ok (x1, S i1, j2, false) end) ;;
    let '(x1, i2, j2, stop) := st in
    if same && (j2 =? jr) then                                      (* if ((same_extremities) && (j==jr)) *)
      match j2 with
      | O => Fault
      | S j3 => x2 <- swap x1 il j3 ;; Ok (x2, i2, j3)               (* j--; SWAP(x[il*stride], *bufr); stop2 = 1 *)
      end
    else if stop then Ok (x1, i2, j2)
    else inner f F x1 il jr same a i2 j2
  end.

(* one pass of the outer loop body up to the end of the inner loop
   (lines 105-146 / 191-237). *)
Inductive pass_out : Type :=
| Single (x : list Z) (a : Z)               (* il == jr *)
| Split (x : list Z) (a : Z) (i j : nat).

Definition pass (F : nat) (x : list Z) (il jr : nat) : res pass_out :=
  vl <- rd x il ;;
  vr <- rd x jr ;;
  xs <- (if (vr <? vl)%Z then x1 <- swap x il jr ;; Ok (x1, false)   (* if ( *bufl > *bufr) SWAP *)
         else Ok (x, (vl =? vr)%Z)) ;;                              (* else if (==) same_extremities = 1 *)
  let '(x1, same) := xs in
  a <- rd x1 il ;;                                                  (* a = *bufl *)
  if il =? jr then Ok (Single x1 a)
  else r <- inner F F x1 il jr same a (S il) jr ;;
       let '(x2, i, j) := r in Ok (Split x2 a i j).

(* _pth_element (lines 90-166) *)
Fixpoint pth_loop (fuel F : nat) (x : list Z) (p il jr : nat) : res (list Z * Z) :=
  match fuel with
  | O => Timeout
  | S f =>
    o <- pass F x il jr ;;
    match o with
    | Single x1 a => Ok (x1, a)
    | Split x2 a i j =>
      if p <? j then pth_loop f F x2 p il j          (* if (j > p) jr = j; *)
      else if j <? p then pth_loop f F x2 p i jr     (* else if (j < p) il = i; *)
      else Ok (x2, a)                                (* else stop1 = 1 *)
    end
  end.

Definition pth_element (F : nat) (x : list Z) (p : nat) : res (list Z * Z) :=
  pth_loop F F x p 0 (length x - 1).

(* _pth_interval (lines 170-261) *)
Fixpoint pint_loop (fuel F : nat) (x : list Z) (p il jr : nat) (am aM : Z) (s1 s2 : bool)
  : res (list Z * Z * Z) :=
  match fuel with
  | O => Timeout
  | S f =>
    if s1 && s2 then Ok (x, am, aM)                  (* while ((stop1 == 0) || (stop2 == 0)) *)
    else
      o <- pass F x il jr ;;
      match o with
      | Single x1 a =>                               (* if (il == jr) { if (stop1 == 0) *am=a; *)
          Ok (x1, (if s1 then am else a),            (*                 if (stop2 == 0) *aM=a; return; } *)
                  (if s2 then aM else a))
      | Split x2 a i j =>
        if S p <? j then pint_loop f F x2 p il j am aM s1 s2          (* j > pp *)
        else if j <? p then pint_loop f F x2 p i jr am aM s1 s2       (* j < p *)
        else if j =? p then pint_loop f F x2 p i jr a aM true s2      (* j == p *)
        else pint_loop f F x2 p il j am a s1 true                     (* j == p+1 *)
      end
  end.

Definition pth_interval (F : nat) (x : list Z) (p : nat) : res (list Z * Z * Z) :=
  pint_loop F F x p 0 (length x - 1) 0%Z 0%Z false false.

(* ---- quantile (lines 36-77) on exact rationals *)
(* (int)(a): truncation toward zero *)
Definition ctrunc (a : Q) : Z := Z.quot (Qnum a) (Zpos (Qden a)).
Definition unsigned_floor (a : Q) : Z := ctrunc a.
(* #define UNSIGNED_CEIL(a) ( ( (int)(a)-a )!=0.0 ? (int)(a+1) : (int)(a) ) *)
Definition unsigned_ceil (a : Q) : Z :=
  if Qeq_bool (inject_Z (ctrunc a) - a) 0 then ctrunc a else ctrunc (a + 1).

Inductive qval : Type := QInf | QVal (q : Q).

(* the part of quantile() after pp has been computed; pp = r*size (interp=0)
   or r*(size-1) (interp=1) *)
Definition quantile_pp (F : nat) (x : list Z) (pp : Q) (interp : bool) : res (list Z * qval) :=
  let size := length x in
  if size =? 1 then v <- rd x 0 ;; Ok (x, QVal (inject_Z v))
  else if negb interp then
    let p := unsigned_ceil pp in
    if (p =? Z.of_nat size)%Z then Ok (x, QInf)
    else r <- pth_element F x (Z.to_nat p) ;; let '(x1, m) := r in Ok (x1, QVal (inject_Z m))
  else
    let p := unsigned_floor pp in
    let wM := (pp - inject_Z p)%Q in
    let wm := (1 - wM)%Q in
    if Qle_bool wM 0 then
      r <- pth_element F x (Z.to_nat p) ;; let '(x1, m) := r in Ok (x1, QVal (inject_Z m))
    else
      r <- pth_interval F x (Z.to_nat p) ;;
      let '(x1, am, aM) := r in
      Ok (x1, QVal (Qred (wm * inject_Z am + wM * inject_Z aM)%Q)).

Definition quantile (F : nat) (x : list Z) (r : Q) (interp : bool) : res (list Z * qval) :=
  if Qlt_le_dec r 0 then Ok (x, QVal 0)
  else if Qlt_le_dec 1 r then Ok (x, QVal 0)          (* "Ratio must be in [0,1], returning zero" *)
  else
    let size := Z.of_nat (length x) in
    quantile_pp F x (if interp then r * inject_Z (size - 1) else r * inject_Z size)%Q interp.

(* ---- specification vocabulary *)
Definition count_lt (a : Z) (x : list Z) : nat := length (filter (fun v => (v <? a)%Z) x).
Definition count_le (a : Z) (x : list Z) : nat := length (filter (fun v => (v <=? a)%Z) x).
(* a is the k-th order statistic (0-based) of x *)
Definition is_kth (x : list Z) (k : nat) (a : Z) : Prop := count_lt a x <= k /\ k < count_le a x.
Definition is_kthb (x : list Z) (k : nat) (a : Z) : bool := (count_lt a x <=? k) && (k <? count_le a x).

(* ---- harness helpers *)
Definition fuel_of (x : list Z) : nat := length x.

Definition qval_eqb (a b : qval) : bool :=
  match a, b with QInf, QInf => true | QVal p, QVal q => Qeq_bool p q | _, _ => false end.

Definition res_val_eqb (r : res (list Z * qval)) (v : qval) : bool :=
  match r with Ok (_, q) => qval_eqb q v | _ => false end.

Definition res_val_close (r : res (list Z * qval)) (v tol : Q) : bool :=
  match r with
  | Ok (_, QVal q) => Qle_bool (Qabs (q - v)) tol
  | _ => false
  end.

Fixpoint zl_eqb (a b : list Z) : bool :=
  match a, b with
  | [], [] => true
  | u :: a', v :: b' => (u =? v)%Z && zl_eqb a' b'
  | _, _ => false
  end.

(* value and final buffer state both agree *)
Definition res_full_eqb (r : res (list Z * qval)) (buf : list Z) (v : qval) : bool :=
  match r with Ok (x, q) => qval_eqb q v && zl_eqb x buf | _ => false end.

(* ---- strided layout: logical index k of the sample lives at address
   base + stride*k (in units of sizeof(double)); `bufl = x + stride*il`,
   `bufl += stride`, `bufr -= stride` keep pointer = x + stride*index. *)
Definition addr (base stride : Z) (k : nat) : Z := (base + stride * Z.of_nat k)%Z.
