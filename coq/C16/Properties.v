(* C16 - property theorems only.  Each is closed by a short script over the
   lemmas of Proofs*.v; `Print Assumptions` follows each.
   Vocabulary (Model.v): the buffer is a list of integers indexed by the C code's
   logical index; `Ok` results mean: no out-of-bounds access (Fault) and no fuel
   exhaustion (Timeout) happened.  F is the fuel handed to every loop. *)
From Coq Require Import ZArith List Bool Arith Lia ZifyBool Permutation QArith Qround Lqa.
From NV.C16 Require Import Model Proofs1 Proofs2 Proofs3.
Import ListNotations.
Close Scope Q_scope.

(* ================================================================ quantile.c *)

(* (1) _pth_element, for EVERY array (ties, constant arrays included) and every
   0 <= p < n: with fuel F >= n for each loop it terminates without touching an
   index outside [0,n), leaves a permutation of the input in the buffer and
   returns the p-th order statistic:  #{x < a} <= p < #{x <= a}. *)
Theorem pth_element_spec :
  forall (F : nat) (x : list Z) (p : nat), p < length x -> length x <= F ->
  exists x' a, pth_element F x p = Ok (x', a) /\ Permutation x' x /\
               count_lt a x <= p /\ p < count_le a x.
Proof. exact pth_element_ok. Qed.
Print Assumptions pth_element_spec.

(* (2) _pth_interval for p + 2 < n: terminates in bounds, permutation, returns the
   p-th and (p+1)-th order statistics. *)
Theorem pth_interval_spec :
  forall (F : nat) (x : list Z) (p : nat), S (S p) < length x -> length x <= F ->
  exists x' am aM, pth_interval F x p = Ok (x', am, aM) /\ Permutation x' x /\
                   is_kth x p am /\ is_kth x (S p) aM.
Proof. exact pth_interval_ok. Qed.
Print Assumptions pth_interval_spec.

(* (3) _pth_interval for every p + 1 < n (including the last pair p = n-2): always
   terminates in bounds with a permutation and the right UPPER value; the lower
   value is right OR (only when p = n-2) was overwritten with the upper one by
   the `il == jr` exit.  _partial: the full statement (am is the p-th order
   statistic) is false for p = n-2, see (4). *)
Theorem pth_interval_last_pair_partial :
  forall (F : nat) (x : list Z) (p : nat), S p < length x -> length x <= F ->
  exists x' am aM, pth_interval F x p = Ok (x', am, aM) /\ Permutation x' x /\
    is_kth x (S p) aM /\ (is_kth x p am \/ (S (S p) = length x /\ am = aM)).
Proof. exact pth_interval_gen. Qed.
Print Assumptions pth_interval_last_pair_partial.

(* (4) FINDING: for p = n-2 the code returns am = aM = the maximum. *)
Theorem pth_interval_last_pair_refuted :
  exists (x : list Z) (p : nat), S p < length x /\
  exists x' am aM, pth_interval (length x) x p = Ok (x', am, aM) /\ ~ is_kth x p am.
Proof.
  exists [1; 2]%Z, 0. split; [simpl; lia|].
  exists [1; 2]%Z, 2%Z, 2%Z. split; [vm_compute; reflexivity|].
  intros K. apply is_kthb_spec in K. vm_compute in K. discriminate.
Qed.
Print Assumptions pth_interval_last_pair_refuted.

(* (5) order statistics defined by counting are unique and are members. *)
Theorem order_statistic_unique :
  forall x k a b, is_kth x k a -> is_kth x k b -> a = b.
Proof. exact is_kth_unique. Qed.
Print Assumptions order_statistic_unique.

Theorem order_statistic_member : forall x k a, is_kth x k a -> In a x.
Proof. exact is_kth_in. Qed.
Print Assumptions order_statistic_member.

(* (6) UNSIGNED_CEIL / UNSIGNED_FLOOR on non-negative rationals. *)
Theorem unsigned_ceil_is_ceiling :
  forall a : Q, (0 <= a)%Q ->
  (inject_Z (unsigned_ceil a) - 1 < a)%Q /\ (a <= inject_Z (unsigned_ceil a))%Q.
Proof. exact unsigned_ceil_spec. Qed.
Print Assumptions unsigned_ceil_is_ceiling.

Theorem unsigned_floor_is_floor :
  forall a : Q, (0 <= a)%Q -> unsigned_floor a = Qfloor a.
Proof. exact ctrunc_floor. Qed.
Print Assumptions unsigned_floor_is_floor.

(* (7) quantile(), interp = 0, every rational ratio r in [0,1], n >= 2:
   with p = ceil(r n): returns +inf when p = n, otherwise the p-th order statistic
   (the smallest order statistic whose rank is >= r n). *)
Theorem quantile_noninterp_spec :
  forall (F : nat) (x : list Z) (r : Q),
  2 <= length x -> length x <= F -> (0 <= r)%Q -> (r <= 1)%Q ->
  let n := Z.of_nat (length x) in
  let p := unsigned_ceil (r * inject_Z n) in
  (inject_Z p - 1 < r * inject_Z n)%Q /\ (r * inject_Z n <= inject_Z p)%Q /\
  ((p = n /\ quantile F x r false = Ok (x, QInf)) \/
   ((0 <= p < n)%Z /\
    exists x' a, quantile F x r false = Ok (x', QVal (inject_Z a)) /\
                 Permutation x' x /\ is_kth x (Z.to_nat p) a)).
Proof.
  intros F x r Hn HF H0 H1 n p.
  destruct (ratio_scale r n H0 H1 ltac:(unfold n; lia)) as [A B].
  destruct (unsigned_ceil_spec _ A) as [C D].
  split; [exact C|]. split; [exact D|].
  rewrite quantile_in_range by assumption.
  exact (quantile_pp_noninterp F x _ Hn HF A B).
Qed.
Print Assumptions quantile_noninterp_spec.

(* (8) quantile(), interp = 1, every rational r in [0,1], n >= 2: with
   pp = r (n-1), p = floor(pp), w = pp - p: returns the p-th order statistic when
   w = 0 and otherwise (1-w) a_p + w a_{p+1} - EXCEPT that for p = n-2 the value
   a_p may have been replaced by a_{p+1} (see (4), (9)). *)
Theorem quantile_interp_spec_partial :
  forall (F : nat) (x : list Z) (r : Q),
  2 <= length x -> length x <= F -> (0 <= r)%Q -> (r <= 1)%Q ->
  let pp := (r * inject_Z (Z.of_nat (length x) - 1))%Q in
  let p := Qfloor pp in
  let w := (pp - inject_Z p)%Q in
  (0 <= p <= Z.of_nat (length x) - 1)%Z /\ (0 <= w)%Q /\ (w < 1)%Q /\
  (((w == 0)%Q /\
    exists x' a, quantile F x r true = Ok (x', QVal (inject_Z a)) /\
                 Permutation x' x /\ is_kth x (Z.to_nat p) a) \/
   ((0 < w)%Q /\ (p + 1 <= Z.of_nat (length x) - 1)%Z /\
    exists x' am aM q, quantile F x r true = Ok (x', QVal q) /\ Permutation x' x /\
      (q == (1 - w) * inject_Z am + w * inject_Z aM)%Q /\
      is_kth x (S (Z.to_nat p)) aM /\
      (is_kth x (Z.to_nat p) am \/ (p + 2 = Z.of_nat (length x))%Z /\ am = aM))).
Proof.
  intros F x r Hn HF H0 H1 pp p w.
  destruct (ratio_scale r (Z.of_nat (length x) - 1) H0 H1 ltac:(lia)) as [A B].
  rewrite quantile_in_range by assumption.
  exact (quantile_pp_interp F x _ Hn HF A B).
Qed.
Print Assumptions quantile_interp_spec_partial.

(* the same for ranks below the last pair: the fully correct interpolation *)
Theorem quantile_interp_spec :
  forall (F : nat) (x : list Z) (r : Q),
  2 <= length x -> length x <= F -> (0 <= r)%Q -> (r <= 1)%Q ->
  let pp := (r * inject_Z (Z.of_nat (length x) - 1))%Q in
  let p := Qfloor pp in
  let w := (pp - inject_Z p)%Q in
  (0 < w)%Q -> (p + 2 < Z.of_nat (length x))%Z ->
  exists x' am aM q, quantile F x r true = Ok (x', QVal q) /\ Permutation x' x /\
      (q == (1 - w) * inject_Z am + w * inject_Z aM)%Q /\
      is_kth x (Z.to_nat p) am /\ is_kth x (S (Z.to_nat p)) aM.
Proof.
  intros F x r Hn HF H0 H1 pp p w Hw Hp.
  destruct (quantile_interp_spec_partial F x r Hn HF H0 H1) as (_ & _ & _ & [[E _]|(_ & _ & R)]).
  - fold pp p w in E. lra.
  - fold pp p w in R. destruct R as (x' & am & aM & q & R1 & R2 & R3 & R4 & R5).
    exists x', am, aM, q. repeat split; try assumption; try apply R4.
    + destruct R5 as [K|[K _] ]; [apply K|lia].
    + destruct R5 as [K|[K _] ]; [apply K|lia].
Qed.
Print Assumptions quantile_interp_spec.

(* (9) FINDING: median of [1;2] is 2, not 3/2 (and 0.75-quantile of [1;2;4;8] is 8, not 5). *)
Theorem median_last_pair_refuted :
  quantile 2 [1; 2]%Z (1 # 2) true = Ok ([1; 2]%Z, QVal 2) /\
  is_kth [1; 2]%Z 0 1%Z /\ is_kth [1; 2]%Z 1 2%Z /\
  quantile 4 [1; 2; 4; 8]%Z (3 # 4) true = Ok ([1; 2; 4; 8]%Z, QVal 8) /\
  is_kth [1; 2; 4; 8]%Z 2 4%Z /\ is_kth [1; 2; 4; 8]%Z 3 8%Z.
Proof.
  repeat split; try (vm_compute; reflexivity); try (apply Nat.leb_le; vm_compute; reflexivity).
Qed.
Print Assumptions median_last_pair_refuted.

(* (10) size == 1 returns the single element for every ratio in range. *)
Theorem quantile_single :
  forall F v r b, (0 <= r)%Q -> (r <= 1)%Q -> quantile F [v] r b = Ok ([v], QVal (inject_Z v)).
Proof. exact quantile_single_ok. Qed.
Print Assumptions quantile_single.

(* (11) strided layout: for every non-zero stride (negative included) distinct
   logical indices live at distinct addresses inside the block spanned by the
   first and last element, and the pointer updates `+= stride` / `-= stride`
   track index +1 / -1.  (In-bounds logical indices, theorem (1), therefore mean
   in-bounds addresses; the correspondence checks guard cells around and between
   the strided sample.) *)
Theorem strided_layout :
  forall base stride n k1 k2, stride <> 0%Z -> k1 < n -> k2 < n ->
  (addr base stride k1 = addr base stride k2 -> k1 = k2) /\
  (Z.min base (addr base stride (n - 1)) <= addr base stride k1 <= Z.max base (addr base stride (n - 1)))%Z /\
  (addr base stride (S k1) = addr base stride k1 + stride)%Z.
Proof.
  intros base stride n k1 k2 Hs H1 H2. split; [apply addr_inj; exact Hs|].
  split; [apply addr_block; exact H1|apply addr_step].
Qed.
Print Assumptions strided_layout.

(* non-vacuity: ties and constant arrays run through the same_extremities escape *)
Example pth_element_ties :
  pth_element 6 [5; 1; 5; 2; 5; 5]%Z 1 = Ok ([2; 1; 5; 5; 5; 5]%Z, 2%Z) /\
  pth_element 4 [7; 7; 7; 7]%Z 2 = Ok ([7; 7; 7; 7]%Z, 7%Z) /\
  pth_element 1 [3; 1; 2; 5; 4]%Z 2 = Timeout /\
  pth_element 5 []%Z 0 = Fault.
Proof. repeat split; vm_compute; reflexivity. Qed.

Example quantile_values :
  quantile 5 [3; 1; 2; 5; 4]%Z (1 # 2) true = Ok ([3; 1; 2; 5; 4]%Z, QVal 3) /\
  quantile 5 [3; 1; 2; 5; 4]%Z (3 # 8) true = Ok ([2; 1; 3; 5; 4]%Z, QVal (5 # 2)) /\
  quantile 5 [3; 1; 2; 5; 4]%Z 1 false = Ok ([3; 1; 2; 5; 4]%Z, QInf).
Proof. repeat split; vm_compute; reflexivity. Qed.
