(* C16 - property theorems only.  Each is closed by a short script over the
   lemmas of Proofs*.v; `Print Assumptions` follows each.
   Vocabulary (Model.v): the buffer is a list of integers indexed by the C code's
   logical index; `Ok` results mean: no out-of-bounds access (Fault) and no fuel
   exhaustion (Timeout) happened.  F is the fuel handed to every loop. *)
From Coq Require Import ZArith List Bool Arith Lia ZifyBool Permutation QArith Qround Lqa.
From NV.C16 Require Import Model Proofs1 Proofs2 Proofs3 ProofsSrc FibreModel FibreProofs.
From NV.Generated Require Import QuantileMacros FffBlas.
From NV.C16 Require Import BlasModel BlasProofs.
From Coq Require Import Ring.
Import ListNotations.
Close Scope Q_scope.

(* ================================================================ quantile.c *)

(* (1) _pth_element, for EVERY array (ties, constant arrays included) and every
   0 <= p < n: with fuel F >= n for each loop it terminates without touching an
   index outside [0,n), leaves a permutation of the input in the buffer and
   returns the p-th order statistic:  #{x < a} <= p < #{x <= a}. *)
Theorem pth_element_spec :
  forall (F : nat) (x : list Z) (p : nat), p < length x -> length x <= F ->
  exists x' a, pth_element F x p = Ok (x', a) /\ Permutation x' x /\
               count_lt a x <= p /\ p < count_le a x.
Proof. exact pth_element_ok. Qed.
Print Assumptions pth_element_spec.

(* (2) _pth_interval for p + 2 < n: terminates in bounds, permutation, returns the
   p-th and (p+1)-th order statistics. *)
Theorem pth_interval_spec :
  forall (F : nat) (x : list Z) (p : nat), S (S p) < length x -> length x <= F ->
  exists x' am aM, pth_interval F x p = Ok (x', am, aM) /\ Permutation x' x /\
                   is_kth x p am /\ is_kth x (S p) aM.
Proof. exact pth_interval_ok. Qed.
Print Assumptions pth_interval_spec.

(* (3) _pth_interval for every p + 1 < n (including the last pair p = n-2): always
   terminates in bounds with a permutation and the right UPPER value; the lower
   value is right OR (only when p = n-2) was overwritten with the upper one by
   the `il == jr` exit.  _partial: the full statement (am is the p-th order
   statistic) is false for p = n-2, see (4). *)
Theorem pth_interval_last_pair_partial :
  forall (F : nat) (x : list Z) (p : nat), S p < length x -> length x <= F ->
  exists x' am aM, pth_interval F x p = Ok (x', am, aM) /\ Permutation x' x /\
    is_kth x (S p) aM /\ (is_kth x p am \/ (S (S p) = length x /\ am = aM)).
Proof. exact pth_interval_gen. Qed.
Print Assumptions pth_interval_last_pair_partial.

(* (4) FINDING: for p = n-2 the code returns am = aM = the maximum. *)
Theorem pth_interval_last_pair_refuted :
  exists (x : list Z) (p : nat), S p < length x /\
  exists x' am aM, pth_interval (length x) x p = Ok (x', am, aM) /\ ~ is_kth x p am.
Proof.
  exists [1; 2]%Z, 0. split; [simpl; lia|].
  exists [1; 2]%Z, 2%Z, 2%Z. split; [vm_compute; reflexivity|].
  intros K. apply is_kthb_spec in K. vm_compute in K. discriminate.
Qed.
Print Assumptions pth_interval_last_pair_refuted.

(* (5) order statistics defined by counting are unique and are members. *)
Theorem order_statistic_unique :
  forall x k a b, is_kth x k a -> is_kth x k b -> a = b.
Proof. exact is_kth_unique. Qed.
Print Assumptions order_statistic_unique.

Theorem order_statistic_member : forall x k a, is_kth x k a -> In a x.
Proof. exact is_kth_in. Qed.
Print Assumptions order_statistic_member.

(* (6) UNSIGNED_CEIL / UNSIGNED_FLOOR on non-negative rationals. *)
Theorem unsigned_ceil_is_ceiling :
  forall a : Q, (0 <= a)%Q ->
  (inject_Z (unsigned_ceil a) - 1 < a)%Q /\ (a <= inject_Z (unsigned_ceil a))%Q.
Proof. exact unsigned_ceil_spec. Qed.
Print Assumptions unsigned_ceil_is_ceiling.

Theorem unsigned_floor_is_floor :
  forall a : Q, (0 <= a)%Q -> unsigned_floor a = Qfloor a.
Proof. exact ctrunc_floor. Qed.
Print Assumptions unsigned_floor_is_floor.

(* (6') the macro bodies as TRANSLATED from the current quantile.c
   (Generated/QuantileMacros.v) are those functions: ceiling / floor of a >= 0. *)
Theorem src_unsigned_ceil_is_ceiling :
  forall a : Q, (0 <= a)%Q ->
  (inject_Z (src_unsigned_ceil a) - 1 < a)%Q /\ (a <= inject_Z (src_unsigned_ceil a))%Q.
Proof. exact src_ceil_spec. Qed.
Print Assumptions src_unsigned_ceil_is_ceiling.

Theorem src_unsigned_floor_is_floor :
  forall a : Q, (0 <= a)%Q -> src_unsigned_floor a = Qfloor a.
Proof. exact src_floor_spec. Qed.
Print Assumptions src_unsigned_floor_is_floor.

Theorem src_macros_are_the_model's :
  forall a, src_unsigned_ceil a = unsigned_ceil a /\ src_unsigned_floor a = unsigned_floor a.
Proof. intros a. split; [apply src_ceil_eq|apply src_floor_eq]. Qed.
Print Assumptions src_macros_are_the_model's.

(* (7) quantile(), interp = 0, every rational ratio r in [0,1], n >= 2:
   with p = ceil(r n): returns +inf when p = n, otherwise the p-th order statistic
   (the smallest order statistic whose rank is >= r n). *)
Theorem quantile_noninterp_spec :
  forall (F : nat) (x : list Z) (r : Q),
  2 <= length x -> length x <= F -> (0 <= r)%Q -> (r <= 1)%Q ->
  let n := Z.of_nat (length x) in
  let p := unsigned_ceil (r * inject_Z n) in
  (inject_Z p - 1 < r * inject_Z n)%Q /\ (r * inject_Z n <= inject_Z p)%Q /\
  ((p = n /\ quantile F x r false = Ok (x, QInf)) \/
   ((0 <= p < n)%Z /\
    exists x' a, quantile F x r false = Ok (x', QVal (inject_Z a)) /\
                 Permutation x' x /\ is_kth x (Z.to_nat p) a)).
Proof.
  intros F x r Hn HF H0 H1 n p.
  destruct (ratio_scale r n H0 H1 ltac:(unfold n; lia)) as [A B].
  destruct (unsigned_ceil_spec _ A) as [C D].
  split; [exact C|]. split; [exact D|].
  rewrite quantile_in_range by assumption.
  exact (quantile_pp_noninterp F x _ Hn HF A B).
Qed.
Print Assumptions quantile_noninterp_spec.

(* (8) quantile(), interp = 1, every rational r in [0,1], n >= 2: with
   pp = r (n-1), p = floor(pp), w = pp - p: returns the p-th order statistic when
   w = 0 and otherwise (1-w) a_p + w a_{p+1} - EXCEPT that for p = n-2 the value
   a_p may have been replaced by a_{p+1} (see (4), (9)). *)
Theorem quantile_interp_spec_partial :
  forall (F : nat) (x : list Z) (r : Q),
  2 <= length x -> length x <= F -> (0 <= r)%Q -> (r <= 1)%Q ->
  let pp := (r * inject_Z (Z.of_nat (length x) - 1))%Q in
  let p := Qfloor pp in
  let w := (pp - inject_Z p)%Q in
  (0 <= p <= Z.of_nat (length x) - 1)%Z /\ (0 <= w)%Q /\ (w < 1)%Q /\
  (((w == 0)%Q /\
    exists x' a, quantile F x r true = Ok (x', QVal (inject_Z a)) /\
                 Permutation x' x /\ is_kth x (Z.to_nat p) a) \/
   ((0 < w)%Q /\ (p + 1 <= Z.of_nat (length x) - 1)%Z /\
    exists x' am aM q, quantile F x r true = Ok (x', QVal q) /\ Permutation x' x /\
      (q == (1 - w) * inject_Z am + w * inject_Z aM)%Q /\
      is_kth x (S (Z.to_nat p)) aM /\
      (is_kth x (Z.to_nat p) am \/ (p + 2 = Z.of_nat (length x))%Z /\ am = aM))).
Proof.
  intros F x r Hn HF H0 H1 pp p w.
  destruct (ratio_scale r (Z.of_nat (length x) - 1) H0 H1 ltac:(lia)) as [A B].
  rewrite quantile_in_range by assumption.
  exact (quantile_pp_interp F x _ Hn HF A B).
Qed.
Print Assumptions quantile_interp_spec_partial.

(* the same for ranks below the last pair: the fully correct interpolation *)
Theorem quantile_interp_spec :
  forall (F : nat) (x : list Z) (r : Q),
  2 <= length x -> length x <= F -> (0 <= r)%Q -> (r <= 1)%Q ->
  let pp := (r * inject_Z (Z.of_nat (length x) - 1))%Q in
  let p := Qfloor pp in
  let w := (pp - inject_Z p)%Q in
  (0 < w)%Q -> (p + 2 < Z.of_nat (length x))%Z ->
  exists x' am aM q, quantile F x r true = Ok (x', QVal q) /\ Permutation x' x /\
      (q == (1 - w) * inject_Z am + w * inject_Z aM)%Q /\
      is_kth x (Z.to_nat p) am /\ is_kth x (S (Z.to_nat p)) aM.
Proof.
  intros F x r Hn HF H0 H1 pp p w Hw Hp.
  destruct (quantile_interp_spec_partial F x r Hn HF H0 H1) as (_ & _ & _ & [[E _]|(_ & _ & R)]).
  - fold pp p w in E. lra.
  - fold pp p w in R. destruct R as (x' & am & aM & q & R1 & R2 & R3 & R4 & R5).
    exists x', am, aM, q. repeat split; try assumption; try apply R4.
    + destruct R5 as [K|[K _] ]; [apply K|lia].
    + destruct R5 as [K|[K _] ]; [apply K|lia].
Qed.
Print Assumptions quantile_interp_spec.

(* (9) FINDING: median of [1;2] is 2, not 3/2 (and 0.75-quantile of [1;2;4;8] is 8, not 5). *)
Theorem median_last_pair_refuted :
  quantile 2 [1; 2]%Z (1 # 2) true = Ok ([1; 2]%Z, QVal 2) /\
  is_kth [1; 2]%Z 0 1%Z /\ is_kth [1; 2]%Z 1 2%Z /\
  quantile 4 [1; 2; 4; 8]%Z (3 # 4) true = Ok ([1; 2; 4; 8]%Z, QVal 8) /\
  is_kth [1; 2; 4; 8]%Z 2 4%Z /\ is_kth [1; 2; 4; 8]%Z 3 8%Z.
Proof.
  repeat split; try (vm_compute; reflexivity); try (apply Nat.leb_le; vm_compute; reflexivity).
Qed.
Print Assumptions median_last_pair_refuted.

(* (10) size == 1 returns the single element for every ratio in range. *)
Theorem quantile_single :
  forall F v r b, (0 <= r)%Q -> (r <= 1)%Q -> quantile F [v] r b = Ok ([v], QVal (inject_Z v)).
Proof. exact quantile_single_ok. Qed.
Print Assumptions quantile_single.

(* (11) strided layout: for every non-zero stride (negative included) distinct
   logical indices live at distinct addresses inside the block spanned by the
   first and last element, and the pointer updates `+= stride` / `-= stride`
   track index +1 / -1.  (In-bounds logical indices, theorem (1), therefore mean
   in-bounds addresses; the correspondence checks guard cells around and between
   the strided sample.) *)
Theorem strided_layout :
  forall base stride n k1 k2, stride <> 0%Z -> k1 < n -> k2 < n ->
  (addr base stride k1 = addr base stride k2 -> k1 = k2) /\
  (Z.min base (addr base stride (n - 1)) <= addr base stride k1 <= Z.max base (addr base stride (n - 1)))%Z /\
  (addr base stride (S k1) = addr base stride k1 + stride)%Z.
Proof.
  intros base stride n k1 k2 Hs H1 H2. split; [apply addr_inj; exact Hs|].
  split; [apply addr_block; exact H1|apply addr_step].
Qed.
Print Assumptions strided_layout.

(* (12) all-but-axis iteration (PyArray_IterAllButAxis as used by _quantile.pyx, the
   fffpy per-axis iterators): for EVERY shape, EVERY stride vector (negative,
   non-contiguous, Fortran order ...) and every axis, the fibres handed to the
   kernel - one per entry of the array with dims[axis] set to 1, each walking
   shape[axis] steps of strides[axis] - together visit every element offset of
   the array exactly once (as multisets), and each has shape[axis] entries. *)
Theorem fibre_iteration_exact_cover :
  forall (shape : list nat) (strides : list Z) (axis : nat),
  axis < length shape -> length strides = length shape ->
  Permutation (concat (fibres shape strides axis)) (offsets shape strides) /\
  (forall f, In f (fibres shape strides axis) -> length f = nth axis shape 0).
Proof.
  intros shape strides axis H1 H2. split.
  - rewrite fibres_concat. apply fibre_offsets_cover; assumption.
  - apply fibres_length.
Qed.
Print Assumptions fibre_iteration_exact_cover.

Example fibres_2x3_fortran_axis1 :
  fibres [2; 3] [1; 2]%Z 1 = [[0; 2; 4]; [1; 3; 5]]%Z /\
  fibres [2; 3] [3; -1]%Z 0 = [[0; 3]; [-1; 2]; [-2; 1]]%Z.
Proof. split; vm_compute; reflexivity. Qed.

(* non-vacuity: ties and constant arrays run through the same_extremities escape *)
Example pth_element_ties :
  pth_element 6 [5; 1; 5; 2; 5; 5]%Z 1 = Ok ([2; 1; 5; 5; 5; 5]%Z, 2%Z) /\
  pth_element 4 [7; 7; 7; 7]%Z 2 = Ok ([7; 7; 7; 7]%Z, 7%Z) /\
  pth_element 1 [3; 1; 2; 5; 4]%Z 2 = Timeout /\
  pth_element 5 []%Z 0 = Fault.
Proof. repeat split; vm_compute; reflexivity. Qed.

Example quantile_values :
  quantile 5 [3; 1; 2; 5; 4]%Z (1 # 2) true = Ok ([3; 1; 2; 5; 4]%Z, QVal 3) /\
  quantile 5 [3; 1; 2; 5; 4]%Z (3 # 8) true = Ok ([2; 1; 3; 5; 4]%Z, QVal (5 # 2)) /\
  quantile 5 [3; 1; 2; 5; 4]%Z 1 false = Ok ([3; 1; 2; 5; 4]%Z, QInf).
Proof. repeat split; vm_compute; reflexivity. Qed.

(* ================================================================ fff_blas.c *)
(* ======================================================================== *)
(* C16 / BLAS part - paste into coq/C16/Properties.v                        *)
(* needs:                                                                   *)
(* ======================================================================== *)

(* fff_blas_dgemm: for every TransA/TransB (NoTrans, Trans, ConjTrans), the Fortran call described by the
   table GENERATED from fff_blas.c (flags TRANS(TransB), TRANS(TransA); m = C->size2, n = C->size1,
   k from B; operands B then A), executed by the column-major reference DGEMM on the buffers and read back
   row-major, is C <- alpha op(A) op(B) + beta C.  Any commutative ring; contiguous non-empty operands. *)
Theorem blas_flag_swap_correct_dgemm :
  forall (R : Type) (r0 r1 : R) (radd rmul rsub : R -> R -> R) (ropp : R -> R) (rdiv : R -> R -> R),
    ring_theory r0 r1 radd rmul rsub ropp eq ->
    forall (ta tb : cflag) (alpha beta : R) (A B C : rmat R),
      transflag ta -> transflag tb -> wfm R A -> wfm R B -> wfm R C ->
      (if is_tr ta then rm_s2 A else rm_s1 A) = rm_s1 C ->
      (if is_tr tb then rm_s1 B else rm_s2 B) = rm_s2 C ->
      (if is_tr ta then rm_s1 A else rm_s2 A) = (if is_tr tb then rm_s2 B else rm_s1 B) ->
      fff_call R r0 r1 radd rmul rsub rdiv fff_blas_dgemm_call (env_dgemm R ta tb alpha A B beta C)
      = Some (OpC, doc_dgemm R r0 radd rmul ta tb alpha A B beta C).
Proof. exact flag_swap_dgemm. Qed.
Print Assumptions blas_flag_swap_correct_dgemm.

(* fff_blas_dgemv: y <- alpha op(A) x + beta y for every TransA (SWAP_TRANS, m = A->size2, n = A->size1) *)
Theorem blas_flag_swap_correct_dgemv :
  forall (R : Type) (r0 r1 : R) (radd rmul rsub rdiv : R -> R -> R) (ta : cflag) (alpha beta : R) (A x y : rmat R),
    transflag ta -> wfm R A -> wfv R x -> wfv R y ->
    (if is_tr ta then rm_s2 A else rm_s1 A) = rm_s1 y ->
    (if is_tr ta then rm_s1 A else rm_s2 A) = rm_s1 x ->
    fff_call R r0 r1 radd rmul rsub rdiv fff_blas_dgemv_call (env_dgemv R ta alpha A x beta y)
    = Some (OpY, doc_dgemv R r0 radd rmul ta alpha A x beta y).
Proof. exact flag_swap_dgemv. Qed.
Print Assumptions blas_flag_swap_correct_dgemv.

(* fff_blas_dsymm: C <- alpha S B + beta C (Left) / alpha B S + beta C (Right), S = A symmetrised from its
   Uplo triangle in the ROW-MAJOR sense, for every Side/Uplo (SWAP_SIDE, SWAP_UPLO, m = C->size2, n = C->size1) *)
Theorem blas_flag_swap_correct_dsymm :
  forall (R : Type) (r0 r1 : R) (radd rmul rsub : R -> R -> R) (ropp : R -> R) (rdiv : R -> R -> R),
    ring_theory r0 r1 radd rmul rsub ropp eq ->
    forall (s u : cflag) (alpha beta : R) (A B C : rmat R),
      sideflag s -> uploflag u -> wfm R A -> wfm R B -> wfm R C ->
      rm_s1 A = rm_s2 A -> rm_s1 A = (if is_lf s then rm_s1 C else rm_s2 C) ->
      rm_s1 B = rm_s1 C -> rm_s2 B = rm_s2 C ->
      fff_call R r0 r1 radd rmul rsub rdiv fff_blas_dsymm_call (env_dsymm R s u alpha A B beta C)
      = Some (OpC, doc_dsymm R r0 radd rmul s u alpha A B beta C).
Proof. exact flag_swap_dsymm. Qed.
Print Assumptions blas_flag_swap_correct_dsymm.

(* fff_blas_dtrmm: B <- alpha op(T) B (Left) / alpha B op(T) (Right), T the Uplo triangle of A (unit diagonal
   if Diag = Unit), for all 2 x 2 x 3 x 2 flag combinations *)
Theorem blas_flag_swap_correct_dtrmm :
  forall (R : Type) (r0 r1 : R) (radd rmul rsub : R -> R -> R) (ropp : R -> R) (rdiv : R -> R -> R),
    ring_theory r0 r1 radd rmul rsub ropp eq ->
    forall (s u ta d : cflag) (alpha : R) (A B : rmat R),
      sideflag s -> uploflag u -> transflag ta -> diagflag d -> wfm R A -> wfm R B ->
      rm_s1 A = rm_s2 A -> rm_s1 A = (if is_lf s then rm_s1 B else rm_s2 B) ->
      fff_call R r0 r1 radd rmul rsub rdiv fff_blas_dtrmm_call (env_dtrxm R r0 s u ta d alpha A B)
      = Some (OpB, doc_dtrmm R r0 r1 radd rmul s u ta d alpha A B).
Proof. exact flag_swap_dtrmm. Qed.
Print Assumptions blas_flag_swap_correct_dtrmm.

(* fff_blas_dsyrk, SQUARE A only: the Uplo triangle (row-major sense) of C becomes
   alpha op(A) op(A)^T + beta C, the other triangle is untouched.
   PARTIAL: for a non-square A the wrapper passes the wrong k (A->size1 for NoTrans, A->size2 for Trans: the
   row count of op(A), not its column count) - see blas_dsyrk_kdim_refuted. *)
Theorem blas_flag_swap_correct_dsyrk_partial :
  forall (R : Type) (r0 r1 : R) (radd rmul rsub : R -> R -> R) (ropp : R -> R) (rdiv : R -> R -> R),
    ring_theory r0 r1 radd rmul rsub ropp eq ->
    forall (u t : cflag) (alpha beta : R) (A C : rmat R),
      uploflag u -> transflag t -> wfm R A -> wfm R C ->
      rm_s1 A = rm_s2 A -> rm_s1 C = rm_s1 A -> rm_s2 C = rm_s1 A ->
      fff_call R r0 r1 radd rmul rsub rdiv fff_blas_dsyrk_call (env_dsyrk R u t alpha A beta C)
      = Some (OpC, doc_dsyrk R r0 radd rmul u t alpha A beta C).
Proof. exact flag_swap_dsyrk_square. Qed.
Print Assumptions blas_flag_swap_correct_dsyrk_partial.

(* same for fff_blas_dsyr2k (alpha op(A) op(B)^T + alpha op(B) op(A)^T + beta C); PARTIAL: square A, B only *)
Theorem blas_flag_swap_correct_dsyr2k_partial :
  forall (R : Type) (r0 r1 : R) (radd rmul rsub : R -> R -> R) (ropp : R -> R) (rdiv : R -> R -> R),
    ring_theory r0 r1 radd rmul rsub ropp eq ->
    forall (u t : cflag) (alpha beta : R) (A B C : rmat R),
      uploflag u -> transflag t -> wfm R A -> wfm R B -> wfm R C ->
      rm_s1 A = rm_s2 A -> rm_s1 B = rm_s1 A -> rm_s2 B = rm_s1 A -> rm_s1 C = rm_s1 A -> rm_s2 C = rm_s1 A ->
      fff_call R r0 r1 radd rmul rsub rdiv fff_blas_dsyr2k_call (env_dsyr2k R u t alpha A B beta C)
      = Some (OpC, doc_dsyr2k R r0 radd rmul u t alpha A B beta C).
Proof. exact flag_swap_dsyr2k_square. Qed.
Print Assumptions blas_flag_swap_correct_dsyr2k_partial.

(* FINDING: with a 1 x 3 matrix A the call does not compute the documented A A^T *)
Theorem blas_dsyrk_kdim_refuted :
  exists (u t : cflag) (alpha beta : Z) (A C : zrmat),
    rm_s1 C = rm_s2 C /\ rm_s1 C = (if is_tr t then rm_s2 A else rm_s1 A) /\
    zcall_dsyrk u t alpha A beta C <> Some (OpC, zdoc_dsyrk u t alpha A beta C).
Proof. exact dsyrk_kdim_refuted. Qed.
Print Assumptions blas_dsyrk_kdim_refuted.

Theorem blas_dsyr2k_kdim_refuted :
  exists (u t : cflag) (alpha beta : Z) (A B C : zrmat),
    rm_s1 C = rm_s2 C /\ rm_s1 C = (if is_tr t then rm_s2 A else rm_s1 A) /\
    rm_s1 B = rm_s1 A /\ rm_s2 B = rm_s2 A /\
    zcall_dsyr2k u t alpha A B beta C <> Some (OpC, zdoc_dsyr2k u t alpha A B beta C).
Proof. exact dsyr2k_kdim_refuted. Qed.
Print Assumptions blas_dsyr2k_kdim_refuted.

(* fff_blas_dtrsv / dtrsm: for every flag combination the call performs the documented ROW-MAJOR substitution
   (forward for an effectively lower, backward for an effectively upper op(T); division uninterpreted):
   x <- inv(op(T)) x ; B <- alpha inv(op(T)) B (Left) / alpha B inv(op(T)) (Right). *)
Theorem blas_flag_swap_correct_dtrsv :
  forall (R : Type) (r0 r1 : R) (radd rmul rsub rdiv : R -> R -> R) (u ta d : cflag) (A x : rmat R),
    uploflag u -> transflag ta -> diagflag d -> wfm R A -> wfv R x ->
    rm_s1 A = rm_s2 A -> rm_s1 x = rm_s1 A ->
    fff_call R r0 r1 radd rmul rsub rdiv fff_blas_dtrsv_call (env_dtrsv R r0 u ta d A x)
    = Some (OpX, doc_dtrsv R r0 r1 radd rmul rsub rdiv u ta d A x).
Proof. exact flag_swap_dtrsv. Qed.
Print Assumptions blas_flag_swap_correct_dtrsv.

Theorem blas_flag_swap_correct_dtrsm :
  forall (R : Type) (r0 r1 : R) (radd rmul rsub rdiv : R -> R -> R) (s u ta d : cflag) (alpha : R) (A B : rmat R),
    sideflag s -> uploflag u -> transflag ta -> diagflag d -> wfm R A -> wfm R B ->
    rm_s1 A = rm_s2 A -> rm_s1 A = (if is_lf s then rm_s1 B else rm_s2 B) ->
    fff_call R r0 r1 radd rmul rsub rdiv fff_blas_dtrsm_call (env_dtrxm R r0 s u ta d alpha A B)
    = Some (OpB, doc_dtrsm R r0 r1 radd rmul rsub rdiv s u ta d alpha A B).
Proof. exact flag_swap_dtrsm. Qed.
Print Assumptions blas_flag_swap_correct_dtrsm.

(* the substitution used in doc_dtrsv/doc_dtrsm solves the lower-triangular system when the division is exact
   on the diagonal.  PARTIAL: only the forward (lower) substitution; the backward one is the same algorithm on
   reversed indices (solve_upper) and its "T x = b" statement, and the lifting to op(A) X = alpha B, are not proved. *)
Theorem blas_trisolve_lower_solves_partial :
  forall (R : Type) (r0 r1 : R) (radd rmul rsub : R -> R -> R) (ropp : R -> R) (rdiv : R -> R -> R),
    ring_theory r0 r1 radd rmul rsub ropp eq ->
    forall (T : fm R) (b : nat -> R) (n : nat),
      (forall (i : nat) (y : R), (i < n)%nat -> rmul (T i i) (rdiv y (T i i)) = y) ->
      forall i : nat, (i < n)%nat ->
        sum_n R r0 radd (S i) (fun l : nat => rmul (T i l) (nth l (fwd R r0 radd rmul rsub rdiv T b n) r0)) = b i.
Proof. exact fwd_solves_lower. Qed.
Print Assumptions blas_trisolve_lower_solves_partial.

(* non-vacuity: concrete flag combinations evaluated on small Z matrices through the GENERATED table *)
Example blas_dgemm_example :     (* A^T B^T with A 3x2, B 2x3 *)
  zcall_dgemm CblasTrans CblasTrans 1%Z (zm 3 2 [1; 4; 2; 5; 3; 6]%Z) (zm 2 3 [1; 0; 1; 0; 1; 1]%Z) 0%Z (zm 2 2 [0; 0; 0; 0]%Z)
  = Some (OpC, [4; 5; 10; 11]%Z).
Proof. vm_compute. reflexivity. Qed.

Example blas_dsymm_example :     (* Right, Lower: B S with S = [[1 2][2 3]] read from the lower triangle (9 is ignored) *)
  zcall_dsymm CblasRight CblasLower 1%Z (zm 2 2 [1; 9; 2; 3]%Z) (zm 1 2 [1; 1]%Z) 0%Z (zm 1 2 [0; 0]%Z)
  = Some (OpC, [3; 5]%Z).
Proof. vm_compute. reflexivity. Qed.

Example blas_dtrsm_example :     (* Left, Upper, NoTrans, NonUnit: [[1 2][0 -1]] X = [[5 6][7 8]] *)
  zcall_dtrsm CblasLeft CblasUpper CblasNoTrans CblasNonUnit 1%Z (zm 2 2 [1; 2; 0; -1]%Z) (zm 2 2 [5; 6; 7; 8]%Z)
  = Some (OpB, [19; 22; -7; -8]%Z).
Proof. vm_compute. reflexivity. Qed.

Example blas_dsyrk_example :     (* Upper, Trans, square: upper triangle of A^T A, lower entry 7 untouched *)
  zcall_dsyrk CblasUpper CblasTrans 1%Z (zm 2 2 [1; 2; 3; 4]%Z) 0%Z (zm 2 2 [0; 0; 7; 0]%Z)
  = Some (OpC, [10; 14; 7; 20]%Z).
Proof. vm_compute. reflexivity. Qed.

