(* C16 - property theorems only.  Each is closed by a short script over the
   lemmas of Proofs*.v; `Print Assumptions` follows each.
   Vocabulary (Model.v): the buffer is a list of integers indexed by the C code's
   logical index; `Ok` results mean: no out-of-bounds access (Fault) and no fuel
   exhaustion (Timeout) happened.  F is the fuel handed to every loop. *)
From Coq Require Import ZArith List Bool Arith Lia ZifyBool Permutation QArith Qround Lqa.
From NV.C16 Require Import Model Proofs1 Proofs2 Proofs3 ProofsSrc FibreModel FibreProofs.
From NV.Generated Require Import QuantileMacros FffBlas.
From NV.C16 Require Import BlasModel BlasProofs.
From NV.C16 Require Import Blas1Model Blas1Proofs.
From NV.Generated Require Import FffBlas1.
From Coq Require String.
From Coq Require Import Ring.
From Coq Require Import Qabs.
From NV.C16 Require Import SplineModel SplineProofs.
Import ListNotations.
Close Scope Q_scope.

(* ================================================================ quantile.c *)

(* (1) _pth_element, for EVERY array (ties, constant arrays included) and every
   0 <= p < n: with fuel F >= n for each loop it terminates without touching an
   index outside [0,n), leaves a permutation of the input in the buffer and
   returns the p-th order statistic:  #{x < a} <= p < #{x <= a}. *)
Theorem pth_element_spec :
  forall (F : nat) (x : list Z) (p : nat), p < length x -> length x <= F ->
  exists x' a, pth_element F x p = Ok (x', a) /\ Permutation x' x /\
               count_lt a x <= p /\ p < count_le a x.
Proof. exact pth_element_ok. Qed.
Print Assumptions pth_element_spec.

(* (2) _pth_interval for EVERY p + 1 < n (the last pair p = n-2 included - the
   `il == jr` exit assigns only the output that is still missing, commit c821d37):
   terminates in bounds, permutation, returns the p-th and (p+1)-th order
   statistics. *)
Theorem pth_interval_spec :
  forall (F : nat) (x : list Z) (p : nat), S p < length x -> length x <= F ->
  exists x' am aM, pth_interval F x p = Ok (x', am, aM) /\ Permutation x' x /\
                   is_kth x p am /\ is_kth x (S p) aM.
Proof. exact pth_interval_ok. Qed.
Print Assumptions pth_interval_spec.

(* (3) the former finding (median of [1;2] was 2): the last pair is now right *)
Example pth_interval_last_pair :
  pth_interval 2 [1; 2]%Z 0 = Ok ([1; 2]%Z, 1%Z, 2%Z) /\
  pth_interval 4 [1; 2; 4; 8]%Z 2 = Ok ([1; 2; 4; 8]%Z, 4%Z, 8%Z).
Proof. split; vm_compute; reflexivity. Qed.

(* (5) order statistics defined by counting are unique and are members. *)
Theorem order_statistic_unique :
  forall x k a b, is_kth x k a -> is_kth x k b -> a = b.
Proof. exact is_kth_unique. Qed.
Print Assumptions order_statistic_unique.

Theorem order_statistic_member : forall x k a, is_kth x k a -> In a x.
Proof. exact is_kth_in. Qed.
Print Assumptions order_statistic_member.

(* (6) UNSIGNED_CEIL / UNSIGNED_FLOOR on non-negative rationals. *)
Theorem unsigned_ceil_is_ceiling :
  forall a : Q, (0 <= a)%Q ->
  (inject_Z (unsigned_ceil a) - 1 < a)%Q /\ (a <= inject_Z (unsigned_ceil a))%Q.
Proof. exact unsigned_ceil_spec. Qed.
Print Assumptions unsigned_ceil_is_ceiling.

Theorem unsigned_floor_is_floor :
  forall a : Q, (0 <= a)%Q -> unsigned_floor a = Qfloor a.
Proof. exact ctrunc_floor. Qed.
Print Assumptions unsigned_floor_is_floor.

(* (6') the macro bodies as TRANSLATED from the current quantile.c
   (Generated/QuantileMacros.v) are those functions: ceiling / floor of a >= 0. *)
Theorem src_unsigned_ceil_is_ceiling :
  forall a : Q, (0 <= a)%Q ->
  (inject_Z (src_unsigned_ceil a) - 1 < a)%Q /\ (a <= inject_Z (src_unsigned_ceil a))%Q.
Proof. exact src_ceil_spec. Qed.
Print Assumptions src_unsigned_ceil_is_ceiling.

Theorem src_unsigned_floor_is_floor :
  forall a : Q, (0 <= a)%Q -> src_unsigned_floor a = Qfloor a.
Proof. exact src_floor_spec. Qed.
Print Assumptions src_unsigned_floor_is_floor.

Theorem src_macros_are_the_model's :
  forall a, src_unsigned_ceil a = unsigned_ceil a /\ src_unsigned_floor a = unsigned_floor a.
Proof. intros a. split; [apply src_ceil_eq|apply src_floor_eq]. Qed.
Print Assumptions src_macros_are_the_model's.

(* (7) quantile(), interp = 0, every rational ratio r in [0,1], n >= 2:
   with p = ceil(r n): returns +inf when p = n, otherwise the p-th order statistic
   (the smallest order statistic whose rank is >= r n). *)
Theorem quantile_noninterp_spec :
  forall (F : nat) (x : list Z) (r : Q),
  2 <= length x -> length x <= F -> (0 <= r)%Q -> (r <= 1)%Q ->
  let n := Z.of_nat (length x) in
  let p := unsigned_ceil (r * inject_Z n) in
  (inject_Z p - 1 < r * inject_Z n)%Q /\ (r * inject_Z n <= inject_Z p)%Q /\
  ((p = n /\ quantile F x r false = Ok (x, QInf)) \/
   ((0 <= p < n)%Z /\
    exists x' a, quantile F x r false = Ok (x', QVal (inject_Z a)) /\
                 Permutation x' x /\ is_kth x (Z.to_nat p) a)).
Proof.
  intros F x r Hn HF H0 H1 n p.
  destruct (ratio_scale r n H0 H1 ltac:(unfold n; lia)) as [A B].
  destruct (unsigned_ceil_spec _ A) as [C D].
  split; [exact C|]. split; [exact D|].
  rewrite quantile_in_range by assumption.
  exact (quantile_pp_noninterp F x _ Hn HF A B).
Qed.
Print Assumptions quantile_noninterp_spec.

(* (8) quantile(), interp = 1, every rational r in [0,1], n >= 2, EVERY rank: with
   pp = r (n-1), p = floor(pp), w = pp - p: returns the p-th order statistic when
   w = 0 and otherwise (1-w) a_p + w a_{p+1}. *)
Theorem quantile_interp_spec :
  forall (F : nat) (x : list Z) (r : Q),
  2 <= length x -> length x <= F -> (0 <= r)%Q -> (r <= 1)%Q ->
  let pp := (r * inject_Z (Z.of_nat (length x) - 1))%Q in
  let p := Qfloor pp in
  let w := (pp - inject_Z p)%Q in
  (0 <= p <= Z.of_nat (length x) - 1)%Z /\ (0 <= w)%Q /\ (w < 1)%Q /\
  (((w == 0)%Q /\
    exists x' a, quantile F x r true = Ok (x', QVal (inject_Z a)) /\
                 Permutation x' x /\ is_kth x (Z.to_nat p) a) \/
   ((0 < w)%Q /\ (p + 1 <= Z.of_nat (length x) - 1)%Z /\
    exists x' am aM q, quantile F x r true = Ok (x', QVal q) /\ Permutation x' x /\
      (q == (1 - w) * inject_Z am + w * inject_Z aM)%Q /\
      is_kth x (Z.to_nat p) am /\ is_kth x (S (Z.to_nat p)) aM)).
Proof.
  intros F x r Hn HF H0 H1 pp p w.
  destruct (ratio_scale r (Z.of_nat (length x) - 1) H0 H1 ltac:(lia)) as [A B].
  rewrite quantile_in_range by assumption.
  exact (quantile_pp_interp F x _ Hn HF A B).
Qed.
Print Assumptions quantile_interp_spec.

(* (9) median(x) = quantile(x, 1/2, interp) is NumPy's median for every n >= 2: the
   mean of the order statistics of ranks (n-1) div 2 and n div 2. *)
Theorem median_spec :
  forall (F : nat) (x : list Z), 2 <= length x -> length x <= F ->
  let N := Z.of_nat (length x) in
  exists x' lo hi q, quantile F x (1 # 2) true = Ok (x', QVal q) /\ Permutation x' x /\
    is_kth x (Z.to_nat ((N - 1) / 2)) lo /\ is_kth x (Z.to_nat (N / 2)) hi /\
    (q == (inject_Z lo + inject_Z hi) * (1 # 2))%Q.
Proof. exact median_ok. Qed.
Print Assumptions median_spec.

Example median_last_pair :
  quantile 2 [1; 2]%Z (1 # 2) true = Ok ([1; 2]%Z, QVal (3 # 2)) /\
  quantile 4 [1; 2; 4; 8]%Z (3 # 4) true = Ok ([1; 2; 4; 8]%Z, QVal 5).
Proof. split; vm_compute; reflexivity. Qed.

(* (10) size == 1 returns the single element for every ratio in range. *)
Theorem quantile_single :
  forall F v r b, (0 <= r)%Q -> (r <= 1)%Q -> quantile F [v] r b = Ok ([v], QVal (inject_Z v)).
Proof. exact quantile_single_ok. Qed.
Print Assumptions quantile_single.

(* (11) strided layout: for every non-zero stride (negative included) distinct
   logical indices live at distinct addresses inside the block spanned by the
   first and last element, and the pointer updates `+= stride` / `-= stride`
   track index +1 / -1.  (In-bounds logical indices, theorem (1), therefore mean
   in-bounds addresses; the correspondence checks guard cells around and between
   the strided sample.) *)
Theorem strided_layout :
  forall base stride n k1 k2, stride <> 0%Z -> k1 < n -> k2 < n ->
  (addr base stride k1 = addr base stride k2 -> k1 = k2) /\
  (Z.min base (addr base stride (n - 1)) <= addr base stride k1 <= Z.max base (addr base stride (n - 1)))%Z /\
  (addr base stride (S k1) = addr base stride k1 + stride)%Z.
Proof.
  intros base stride n k1 k2 Hs H1 H2. split; [apply addr_inj; exact Hs|].
  split; [apply addr_block; exact H1|apply addr_step].
Qed.
Print Assumptions strided_layout.

(* (12) all-but-axis iteration (PyArray_IterAllButAxis as used by _quantile.pyx, the
   fffpy per-axis iterators): for EVERY shape, EVERY stride vector (negative,
   non-contiguous, Fortran order ...) and every axis, the fibres handed to the
   kernel - one per entry of the array with dims[axis] set to 1, each walking
   shape[axis] steps of strides[axis] - together visit every element offset of
   the array exactly once (as multisets), and each has shape[axis] entries. *)
Theorem fibre_iteration_exact_cover :
  forall (shape : list nat) (strides : list Z) (axis : nat),
  axis < length shape -> length strides = length shape ->
  Permutation (concat (fibres shape strides axis)) (offsets shape strides) /\
  (forall f, In f (fibres shape strides axis) -> length f = nth axis shape 0).
Proof.
  intros shape strides axis H1 H2. split.
  - rewrite fibres_concat. apply fibre_offsets_cover; assumption.
  - apply fibres_length.
Qed.
Print Assumptions fibre_iteration_exact_cover.

Example fibres_2x3_fortran_axis1 :
  fibres [2; 3] [1; 2]%Z 1 = [[0; 2; 4]; [1; 3; 5]]%Z /\
  fibres [2; 3] [3; -1]%Z 0 = [[0; 3]; [-1; 2]; [-2; 1]]%Z.
Proof. split; vm_compute; reflexivity. Qed.

(* non-vacuity: ties and constant arrays run through the same_extremities escape *)
Example pth_element_ties :
  pth_element 6 [5; 1; 5; 2; 5; 5]%Z 1 = Ok ([2; 1; 5; 5; 5; 5]%Z, 2%Z) /\
  pth_element 4 [7; 7; 7; 7]%Z 2 = Ok ([7; 7; 7; 7]%Z, 7%Z) /\
  pth_element 1 [3; 1; 2; 5; 4]%Z 2 = Timeout /\
  pth_element 5 []%Z 0 = Fault.
Proof. repeat split; vm_compute; reflexivity. Qed.

Example quantile_values :
  quantile 5 [3; 1; 2; 5; 4]%Z (1 # 2) true = Ok ([3; 1; 2; 5; 4]%Z, QVal 3) /\
  quantile 5 [3; 1; 2; 5; 4]%Z (3 # 8) true = Ok ([2; 1; 3; 5; 4]%Z, QVal (5 # 2)) /\
  quantile 5 [3; 1; 2; 5; 4]%Z 1 false = Ok ([3; 1; 2; 5; 4]%Z, QInf).
Proof. repeat split; vm_compute; reflexivity. Qed.

(* ================================================================ fff_blas.c *)
(* ======================================================================== *)
(* C16 / BLAS part - block for coq/C16/Properties.v                         *)
(* needs:                                                                   *)
(* ======================================================================== *)

(* fff_blas_dgemm: for every TransA/TransB (NoTrans, Trans, ConjTrans), the Fortran call described by the
   table GENERATED from fff_blas.c (flags TRANS(TransB), TRANS(TransA); m = C->size2, n = C->size1,
   k from B; operands B then A), executed by the column-major reference DGEMM on the buffers and read back
   row-major, is C <- alpha op(A) op(B) + beta C.  Any commutative ring; contiguous non-empty operands. *)
Theorem blas_flag_swap_correct_dgemm :
  forall (R : Type) (r0 r1 : R) (radd rmul rsub : R -> R -> R) (ropp : R -> R) (rdiv : R -> R -> R),
    ring_theory r0 r1 radd rmul rsub ropp eq ->
    forall (ta tb : cflag) (alpha beta : R) (A B C : rmat R),
      transflag ta -> transflag tb -> wfm R A -> wfm R B -> wfm R C ->
      (if is_tr ta then rm_s2 A else rm_s1 A) = rm_s1 C ->
      (if is_tr tb then rm_s1 B else rm_s2 B) = rm_s2 C ->
      (if is_tr ta then rm_s1 A else rm_s2 A) = (if is_tr tb then rm_s2 B else rm_s1 B) ->
      fff_call R r0 r1 radd rmul rsub rdiv fff_blas_dgemm_call (env_dgemm R ta tb alpha A B beta C)
      = Some (OpC, doc_dgemm R r0 radd rmul ta tb alpha A B beta C).
Proof. exact flag_swap_dgemm. Qed.
Print Assumptions blas_flag_swap_correct_dgemm.

(* fff_blas_dgemv: y <- alpha op(A) x + beta y for every TransA (SWAP_TRANS, m = A->size2, n = A->size1) *)
Theorem blas_flag_swap_correct_dgemv :
  forall (R : Type) (r0 r1 : R) (radd rmul rsub rdiv : R -> R -> R) (ta : cflag) (alpha beta : R) (A x y : rmat R),
    transflag ta -> wfm R A -> wfv R x -> wfv R y ->
    (if is_tr ta then rm_s2 A else rm_s1 A) = rm_s1 y ->
    (if is_tr ta then rm_s1 A else rm_s2 A) = rm_s1 x ->
    fff_call R r0 r1 radd rmul rsub rdiv fff_blas_dgemv_call (env_dgemv R ta alpha A x beta y)
    = Some (OpY, doc_dgemv R r0 radd rmul ta alpha A x beta y).
Proof. exact flag_swap_dgemv. Qed.
Print Assumptions blas_flag_swap_correct_dgemv.

(* fff_blas_dsymm: C <- alpha S B + beta C (Left) / alpha B S + beta C (Right), S = A symmetrised from its
   Uplo triangle in the ROW-MAJOR sense, for every Side/Uplo (SWAP_SIDE, SWAP_UPLO, m = C->size2, n = C->size1) *)
Theorem blas_flag_swap_correct_dsymm :
  forall (R : Type) (r0 r1 : R) (radd rmul rsub : R -> R -> R) (ropp : R -> R) (rdiv : R -> R -> R),
    ring_theory r0 r1 radd rmul rsub ropp eq ->
    forall (s u : cflag) (alpha beta : R) (A B C : rmat R),
      sideflag s -> uploflag u -> wfm R A -> wfm R B -> wfm R C ->
      rm_s1 A = rm_s2 A -> rm_s1 A = (if is_lf s then rm_s1 C else rm_s2 C) ->
      rm_s1 B = rm_s1 C -> rm_s2 B = rm_s2 C ->
      fff_call R r0 r1 radd rmul rsub rdiv fff_blas_dsymm_call (env_dsymm R s u alpha A B beta C)
      = Some (OpC, doc_dsymm R r0 radd rmul s u alpha A B beta C).
Proof. exact flag_swap_dsymm. Qed.
Print Assumptions blas_flag_swap_correct_dsymm.

(* fff_blas_dtrmm: B <- alpha op(T) B (Left) / alpha B op(T) (Right), T the Uplo triangle of A (unit diagonal
   if Diag = Unit), for all 2 x 2 x 3 x 2 flag combinations *)
Theorem blas_flag_swap_correct_dtrmm :
  forall (R : Type) (r0 r1 : R) (radd rmul rsub : R -> R -> R) (ropp : R -> R) (rdiv : R -> R -> R),
    ring_theory r0 r1 radd rmul rsub ropp eq ->
    forall (s u ta d : cflag) (alpha : R) (A B : rmat R),
      sideflag s -> uploflag u -> transflag ta -> diagflag d -> wfm R A -> wfm R B ->
      rm_s1 A = rm_s2 A -> rm_s1 A = (if is_lf s then rm_s1 B else rm_s2 B) ->
      fff_call R r0 r1 radd rmul rsub rdiv fff_blas_dtrmm_call (env_dtrxm R r0 s u ta d alpha A B)
      = Some (OpB, doc_dtrmm R r0 r1 radd rmul s u ta d alpha A B).
Proof. exact flag_swap_dtrmm. Qed.
Print Assumptions blas_flag_swap_correct_dtrmm.

(* fff_blas_dsyrk: C is n x n, op(A) is n x k with ARBITRARY k (non-square A included): for every Uplo and
   Trans (incl. ConjTrans) the Uplo triangle (row-major sense) of C becomes alpha op(A) op(A)^T + beta C and
   the other triangle is untouched (SWAP_UPLO, SWAP_TRANS, n = C->size1, k = A->size2 / A->size1). *)
Theorem blas_flag_swap_correct_dsyrk :
  forall (R : Type) (r0 r1 : R) (radd rmul rsub : R -> R -> R) (ropp : R -> R) (rdiv : R -> R -> R),
    ring_theory r0 r1 radd rmul rsub ropp eq ->
    forall (u t : cflag) (alpha beta : R) (A C : rmat R),
      uploflag u -> transflag t -> wfm R A -> wfm R C ->
      rm_s1 C = rm_s2 C -> rm_s1 C = (if is_tr t then rm_s2 A else rm_s1 A) ->
      fff_call R r0 r1 radd rmul rsub rdiv fff_blas_dsyrk_call (env_dsyrk R u t alpha A beta C)
      = Some (OpC, doc_dsyrk R r0 radd rmul u t alpha A beta C).
Proof. exact flag_swap_dsyrk. Qed.
Print Assumptions blas_flag_swap_correct_dsyrk.

(* fff_blas_dsyr2k: same shapes (B shaped like A): alpha op(A) op(B)^T + alpha op(B) op(A)^T + beta C on the
   Uplo triangle, other triangle untouched *)
Theorem blas_flag_swap_correct_dsyr2k :
  forall (R : Type) (r0 r1 : R) (radd rmul rsub : R -> R -> R) (ropp : R -> R) (rdiv : R -> R -> R),
    ring_theory r0 r1 radd rmul rsub ropp eq ->
    forall (u t : cflag) (alpha beta : R) (A B C : rmat R),
      uploflag u -> transflag t -> wfm R A -> wfm R B -> wfm R C ->
      rm_s1 B = rm_s1 A -> rm_s2 B = rm_s2 A ->
      rm_s1 C = rm_s2 C -> rm_s1 C = (if is_tr t then rm_s2 A else rm_s1 A) ->
      fff_call R r0 r1 radd rmul rsub rdiv fff_blas_dsyr2k_call (env_dsyr2k R u t alpha A B beta C)
      = Some (OpC, doc_dsyr2k R r0 radd rmul u t alpha A B beta C).
Proof. exact flag_swap_dsyr2k. Qed.
Print Assumptions blas_flag_swap_correct_dsyr2k.

(* fff_blas_dtrsv / dtrsm: for every flag combination the call performs the documented ROW-MAJOR substitution
   (forward for an effectively lower, backward for an effectively upper op(T); division uninterpreted):
   x <- inv(op(T)) x ; B <- alpha inv(op(T)) B (Left) / alpha B inv(op(T)) (Right). *)
Theorem blas_flag_swap_correct_dtrsv :
  forall (R : Type) (r0 r1 : R) (radd rmul rsub rdiv : R -> R -> R) (u ta d : cflag) (A x : rmat R),
    uploflag u -> transflag ta -> diagflag d -> wfm R A -> wfv R x ->
    rm_s1 A = rm_s2 A -> rm_s1 x = rm_s1 A ->
    fff_call R r0 r1 radd rmul rsub rdiv fff_blas_dtrsv_call (env_dtrsv R r0 u ta d A x)
    = Some (OpX, doc_dtrsv R r0 r1 radd rmul rsub rdiv u ta d A x).
Proof. exact flag_swap_dtrsv. Qed.
Print Assumptions blas_flag_swap_correct_dtrsv.

Theorem blas_flag_swap_correct_dtrsm :
  forall (R : Type) (r0 r1 : R) (radd rmul rsub rdiv : R -> R -> R) (s u ta d : cflag) (alpha : R) (A B : rmat R),
    sideflag s -> uploflag u -> transflag ta -> diagflag d -> wfm R A -> wfm R B ->
    rm_s1 A = rm_s2 A -> rm_s1 A = (if is_lf s then rm_s1 B else rm_s2 B) ->
    fff_call R r0 r1 radd rmul rsub rdiv fff_blas_dtrsm_call (env_dtrxm R r0 s u ta d alpha A B)
    = Some (OpB, doc_dtrsm R r0 r1 radd rmul rsub rdiv s u ta d alpha A B).
Proof. exact flag_swap_dtrsm. Qed.
Print Assumptions blas_flag_swap_correct_dtrsm.

(* the substitution used in doc_dtrsv/doc_dtrsm (trisolve) solves the triangular system when the division is
   exact on the diagonal: row i of T x = b summed over the referenced triangle - columns n-1 down to i for the
   back substitution (upper = true), columns 0..i for the forward substitution (upper = false). *)
Theorem blas_trisolve_solves :
  forall (R : Type) (r0 r1 : R) (radd rmul rsub : R -> R -> R) (ropp : R -> R) (rdiv : R -> R -> R),
    ring_theory r0 r1 radd rmul rsub ropp eq ->
    forall (upper : bool) (T : fm R) (b : nat -> R) (n : nat),
      (forall (i : nat) (y : R), (i < n)%nat -> rmul (T i i) (rdiv y (T i i)) = y) ->
      forall i : nat, (i < n)%nat ->
        (if upper
         then sum_n R r0 radd (n - i)
                (fun m : nat => rmul (T i (n - 1 - m)%nat) (trisolve R r0 radd rmul rsub rdiv true n T b (n - 1 - m)%nat))
         else sum_n R r0 radd (S i)
                (fun l : nat => rmul (T i l) (trisolve R r0 radd rmul rsub rdiv false n T b l))) = b i.
Proof. exact trisolve_solves. Qed.
Print Assumptions blas_trisolve_solves.

(* non-vacuity: concrete flag combinations evaluated on small Z matrices through the GENERATED table *)
Example blas_dgemm_example :     (* A^T B^T with A 3x2, B 2x3 *)
  zcall_dgemm CblasTrans CblasTrans 1%Z (zm 3 2 [1; 4; 2; 5; 3; 6]%Z) (zm 2 3 [1; 0; 1; 0; 1; 1]%Z) 0%Z (zm 2 2 [0; 0; 0; 0]%Z)
  = Some (OpC, [4; 5; 10; 11]%Z).
Proof. vm_compute. reflexivity. Qed.

Example blas_dsymm_example :     (* Right, Lower: B S with S = [[1 2][2 3]] read from the lower triangle (9 is ignored) *)
  zcall_dsymm CblasRight CblasLower 1%Z (zm 2 2 [1; 9; 2; 3]%Z) (zm 1 2 [1; 1]%Z) 0%Z (zm 1 2 [0; 0]%Z)
  = Some (OpC, [3; 5]%Z).
Proof. vm_compute. reflexivity. Qed.

Example blas_dtrsm_example :     (* Left, Upper, NoTrans, NonUnit: [[1 2][0 -1]] X = [[5 6][7 8]] *)
  zcall_dtrsm CblasLeft CblasUpper CblasNoTrans CblasNonUnit 1%Z (zm 2 2 [1; 2; 0; -1]%Z) (zm 2 2 [5; 6; 7; 8]%Z)
  = Some (OpB, [19; 22; -7; -8]%Z).
Proof. vm_compute. reflexivity. Qed.

Example blas_dsyrk_nonsquare_example :   (* A = [1 2 3] (1 x 3), NoTrans: A A^T = 14, and it is the documented value *)
  zcall_dsyrk CblasUpper CblasNoTrans 1%Z (zm 1 3 [1; 2; 3]%Z) 0%Z (zm 1 1 [0%Z]) = Some (OpC, [14%Z])
  /\ zdoc_dsyrk CblasUpper CblasNoTrans 1%Z (zm 1 3 [1; 2; 3]%Z) 0%Z (zm 1 1 [0%Z]) = [14%Z].
Proof. exact dsyrk_nonsquare_example. Qed.

Example blas_dsyrk_trans_example :       (* Upper, Trans, A 3 x 2: upper triangle of A^T A, lower entry 7 untouched *)
  zcall_dsyrk CblasUpper CblasTrans 1%Z (zm 3 2 [1; 2; 3; 4; 5; 6]%Z) 0%Z (zm 2 2 [0; 0; 7; 0]%Z)
  = Some (OpC, [35; 44; 7; 56]%Z).
Proof. vm_compute. reflexivity. Qed.

Example blas_dsyr2k_nonsquare_example :  (* Lower, Trans, A = [1;2], B = [3;4] (2 x 1): A^T B + B^T A = 22 *)
  zcall_dsyr2k CblasLower CblasTrans 1%Z (zm 2 1 [1; 2]%Z) (zm 2 1 [3; 4]%Z) 0%Z (zm 1 1 [0%Z]) = Some (OpC, [22%Z])
  /\ zdoc_dsyr2k CblasLower CblasTrans 1%Z (zm 2 1 [1; 2]%Z) (zm 2 1 [3; 4]%Z) 0%Z (zm 1 1 [0%Z]) = [22%Z].
Proof. exact dsyr2k_nonsquare_example. Qed.


(* ================================================================ cubic_spline.c *)
Section SplineProperties.
(* ======================================================================
   C16 / cubic spline - property theorems (snippet for coq/C16/Properties.v).
   Needs (put with the other imports of Properties.v):

     Require Import QArith Qround Qabs Lqa.
     From Coq Require Import ZArith List Bool Lia.
     From NV.C16 Require Import SplineModel SplineProofs.
     Import ListNotations.

   All statements below are written in Q_scope (QArith opens it); Z facts
   carry explicit %Z.  If Properties.v does `Close Scope Q_scope.`, wrap this
   block in `Local Open Scope Q_scope.` ... (it is written that way below).
   ====================================================================== *)
Local Open Scope Q_scope.

(* ---- cubic_spline_basis (cubic_spline.c:58-78), for ALL rational x.
   `cubic_spline_basis_gen c` is the C function with the literal
   0.66666666666667 abstracted as c; c23_literal / c23_double instantiate it. *)

(* B(0) = c, B(1) = B(-1) = 1/6, B(x) = 0 for |x| >= 2 *)
Theorem spline_basis_values : forall c : Q,
  cubic_spline_basis_gen c 0 == c /\
  cubic_spline_basis_gen c 1 == 1#6 /\
  cubic_spline_basis_gen c (-1) == 1#6 /\
  (forall x, 2 <= Qabs x -> cubic_spline_basis_gen c x == 0).
Proof. exact basis_values. Qed.
Print Assumptions spline_basis_values.

Theorem spline_basis_even : forall c x : Q,
  cubic_spline_basis_gen c (- x) == cubic_spline_basis_gen c x.
Proof. exact basis_even. Qed.
Print Assumptions spline_basis_even.

Theorem spline_basis_nonneg : forall c x : Q,
  1#2 <= c -> 0 <= cubic_spline_basis_gen c x.
Proof. exact basis_nonneg. Qed.
Print Assumptions spline_basis_nonneg.

(* partition of unity, offset form: for 0 <= t < 1 the four weights sum to 1
   when the constant is exactly 2/3 *)
Theorem spline_basis_partition : forall c t : Q, c == 2#3 -> 0 <= t -> t < 1 ->
  cubic_spline_basis_gen c (t + 1) + cubic_spline_basis_gen c t +
  cubic_spline_basis_gen c (t - 1) + cubic_spline_basis_gen c (t - 2) == 1.
Proof. exact basis_partition_exact. Qed.
Print Assumptions spline_basis_partition.

(* ... generalised to every rational x: the four integer shifts floor(x)-1..floor(x)+2
   sum to 1 and every other integer shift has weight 0 *)
Theorem spline_basis_partition_all_x : forall c x : Q, c == 2#3 ->
  cubic_spline_basis_gen c (x - inject_Z (Qfloor x - 1)) + cubic_spline_basis_gen c (x - inject_Z (Qfloor x)) +
  cubic_spline_basis_gen c (x - inject_Z (Qfloor x + 1)) + cubic_spline_basis_gen c (x - inject_Z (Qfloor x + 2)) == 1.
Proof. exact basis_partition_floor. Qed.
Print Assumptions spline_basis_partition_all_x.

Theorem spline_basis_other_shifts_zero : forall (c x : Q) (j : Z),
  (j <= Qfloor x - 2 \/ Qfloor x + 3 <= j)%Z -> cubic_spline_basis_gen c (x - inject_Z j) == 0.
Proof. exact basis_other_shifts_zero. Qed.
Print Assumptions spline_basis_other_shifts_zero.

(* The C does not use 2/3 but the decimal 0.66666666666667: with ANY constant c the
   four weights sum to 1 within 2|c - 2/3| (exactly 1 + 2(c-2/3) for 0<t<1), i.e.
   within 1/(15*10^13) for the literal and for the double the compiler rounds it to. *)
Theorem spline_basis_partition_any_constant : forall c t : Q, 0 <= t -> t < 1 ->
  Qabs (cubic_spline_basis_gen c (t + 1) + cubic_spline_basis_gen c t +
        cubic_spline_basis_gen c (t - 1) + cubic_spline_basis_gen c (t - 2) - 1)
  <= 2 * Qabs (c - (2#3)).
Proof. exact basis_partition_bound. Qed.
Print Assumptions spline_basis_partition_any_constant.

Theorem spline_source_constant_error :
  c23_literal - (2#3) == 1 # 300000000000000 /\
  Qabs (c23_double - c23_literal) <= 1 # 18014398509481984 /\
  1#2 <= c23_literal /\ 1#2 <= c23_double.
Proof.
  split; [exact c23_literal_error|]. split; [exact c23_double_close|].
  split; [exact c23_literal_ge_half|exact c23_double_ge_half].
Qed.
Print Assumptions spline_source_constant_error.

(* ---- boundary / mirror index maps (cubic_spline.c:644-710) *)

(* Whenever the guard of _mirror_grid_neighbors passes - for ANY coordinate and ANY
   ddim, whatever _apply_boundary_conditions did before - the four neighbours
   nx..px=nx+3 are mapped by _mirrored_position into [0, ddim] = valid indices of an
   axis of extent dim = ddim+1.  (No out-of-range index exists: no finding here.) *)
Theorem mirror_index_in_bounds : forall (x : Q) (ddim nx px : Z),
  mirror_grid_neighbors x ddim = Some (nx, px) ->
  px = (nx + 3)%Z /\
  forall xx : Z, (nx <= xx <= px)%Z -> (0 <= mirrored_position xx ddim <= ddim)%Z.
Proof.
  intros x ddim nx px H. split.
  - apply (neighbors_guard _ _ _ _ H).
  - exact (mirror_index_in_bounds_lemma x ddim nx px H).
Qed.
Print Assumptions mirror_index_in_bounds.

(* for every mode and coordinate, every coefficient position that
   cubic_spline_sample1d reads is inside the array *)
Theorem sample_positions_in_bounds_all_modes :
  forall (c : Q) (mode ddim : Z) (x : Q) (pos : list Z) (ws : list Q) (w : Q),
  sample1d_plan c mode ddim x = Some (pos, ws, w) ->
  Forall (fun p => (0 <= p <= ddim)%Z) pos.
Proof. exact sample_positions_in_bounds. Qed.
Print Assumptions sample_positions_in_bounds_all_modes.

(* what _apply_boundary_conditions returns: coordinate inside the once-mirrored grid
   (inside the grid itself for 'zero'/'nearest'), weight in [0,1] *)
Theorem boundary_conditions_range : forall (mode ddim : Z) (x x' w : Q),
  (0 <= ddim)%Z -> apply_boundary_conditions mode ddim x = Some (x', w) ->
  inject_Z (- ddim) <= x' /\ x' <= inject_Z (2 * ddim) /\ 0 <= w /\ w <= 1 /\
  ((mode = 0 \/ mode = 1)%Z -> 0 <= x' /\ x' <= inject_Z ddim).
Proof. exact boundary_range. Qed.
Print Assumptions boundary_conditions_range.

(* the four neighbours are floor(x')-1 .. floor(x')+2 and (ideal constant) their
   weights are a partition of unity, in every mode *)
Theorem sample_weights_partition :
  forall (c : Q) (mode ddim : Z) (x : Q) (pos : list Z) (ws : list Q) (w : Q),
  c == 2#3 -> (0 <= ddim)%Z ->
  sample1d_plan c mode ddim x = Some (pos, ws, w) ->
  fold_right Qplus 0 ws == 1.
Proof. exact sample_weights_sum. Qed.
Print Assumptions sample_weights_partition.

(* ---- sampling at grid points (cubic_spline_sample1d; 2d..4d are tensor products) *)

(* extent >= 3, every mode, every grid point k: the sample is
   coef[m(k-1)]/6 + c*coef[k] + coef[m(k+1)]/6 *)
Theorem sample_at_grid_point_formula : forall (c : Q) (mode : Z) (coef : list Q) (k : Z),
  let ddim := (Z.of_nat (length coef) - 1)%Z in
  (2 <= ddim)%Z -> (0 <= k <= ddim)%Z ->
  sample1d_gen c mode (inject_Z k) coef ==
    (1#6) * coef_at coef (mirrored_position (k - 1) ddim) + c * coef_at coef k
    + (1#6) * coef_at coef (mirrored_position (k + 1) ddim).
Proof. exact sample_at_grid_point. Qed.
Print Assumptions sample_at_grid_point_formula.

(* hence: coefficients that satisfy the mirror-boundary interpolation identity
   (c[k-1] + 4 c[k] + c[k+1])/6 = s[k] are sampled back to s[k] exactly, in every
   mode, at every grid point including the first and the last - for extents >= 3
   and the ideal constant 2/3 *)
Theorem sample_at_grid_points_exact : forall (c : Q) (mode : Z) (coef : list Q) (k : Z) (s : Q),
  let ddim := (Z.of_nat (length coef) - 1)%Z in
  c == 2#3 -> (2 <= ddim)%Z -> (0 <= k <= ddim)%Z ->
  interp_at coef ddim k == s ->
  sample1d_gen c mode (inject_Z k) coef == s.
Proof. exact sample_reproduces_grid. Qed.
Print Assumptions sample_at_grid_points_exact.

(* with the constant the C actually uses the deviation is (c - 2/3) * coef[k]
   (3.3e-15 * coef[k] for the literal) *)
Theorem sample_at_grid_points_deviation : forall (c : Q) (mode : Z) (coef : list Q) (k : Z) (s : Q),
  let ddim := (Z.of_nat (length coef) - 1)%Z in
  (2 <= ddim)%Z -> (0 <= k <= ddim)%Z ->
  interp_at coef ddim k == s ->
  sample1d_gen c mode (inject_Z k) coef - s == (c - (2#3)) * coef_at coef k.
Proof. exact sample_grid_deviation. Qed.
Print Assumptions sample_at_grid_points_deviation.

(* ---- REFUTED clause (finding): "reproduces the samples exactly at grid points under
   every boundary mode" fails for extents 1 and 2.
   extent 1: every sample is 0.0 (guard 3 <= px <= 3*ddim = 0 never passes);
   extent 2: the sample at the last grid point x = 1 is 0.0 (px = 4 > 3*ddim = 3). *)
Theorem sample_extent1_always_zero_refuted : forall (c : Q) (mode : Z) (x a : Q),
  sample1d_gen c mode x [a] == 0.
Proof. exact sample_extent1_zero. Qed.
Print Assumptions sample_extent1_always_zero_refuted.

Theorem sample_extent2_last_grid_point_refuted :
  exists (coef : list Q) (s : Q),
    interp_at coef 1 1 == s /\ ~ s == 0 /\
    forall (c : Q) (mode : Z), sample1d_gen c mode 1 coef == 0.
Proof.
  exists [-2; 7], 4. split; [reflexivity|]. split; [discriminate|].
  intros c mode. apply sample_extent2_last_zero.
Qed.
Print Assumptions sample_extent2_last_grid_point_refuted.

(* reflect mode: coordinates in [-ddim, 1-ddim) and [2 ddim - 1, 2 ddim] are accepted by
   _apply_boundary_conditions but have no neighbour set inside the once-mirrored grid,
   so the sample is 0.0 there (documented: "Returns 0 if no neighbor can be found") *)
Theorem reflect_outer_step_has_no_neighbors : forall (x : Q) (ddim : Z), (0 <= ddim)%Z ->
  (inject_Z (- ddim) <= x -> x < inject_Z (1 - ddim) -> mirror_grid_neighbors x ddim = None) /\
  (inject_Z (2 * ddim - 1) <= x -> mirror_grid_neighbors x ddim = None).
Proof.
  intros x ddim Hd. split.
  - exact (reflect_gap_low x ddim Hd).
  - exact (reflect_gap_high x ddim Hd).
Qed.
Print Assumptions reflect_outer_step_has_no_neighbors.

(* ---- not proved: the recursion of _cubic_spline_transform1d (pole sqrt(3)-2).
   spline_transform_interpolates is a TEST in the harness (interpolation identity and
   scipy.ndimage.spline_filter at 1e-10 on the implementation output). *)

(* ---- non-vacuity *)
Example spline_basis_value_example : cubic_spline_basis (1#2) == (66666666666667 # 100000000000000) - (3#16).
Proof. reflexivity. Qed.

Example spline_basis_outer_example : cubic_spline_basis_gen (2#3) (-3#2) == 1#48.
Proof. reflexivity. Qed.

Example spline_partition_example :
  cubic_spline_basis_gen (2#3) ((1#4) + 1) + cubic_spline_basis_gen (2#3) (1#4) +
  cubic_spline_basis_gen (2#3) ((1#4) - 1) + cubic_spline_basis_gen (2#3) ((1#4) - 2) == 1.
Proof. reflexivity. Qed.

(* reflect mode, extent 5, x = -1/2: neighbours -2..1 are read at positions 2,1,0,1 *)
Example sample_plan_example :
  match sample1d_plan (2#3) 2 4 (-1#2) with
  | Some (pos, _, w) => pos = [2; 1; 0; 1]%Z /\ w == 1
  | None => False
  end.
Proof. vm_compute. split; reflexivity. Qed.

(* 'zero' mode half a voxel outside: weight 1/2 at the clamped coordinate *)
Example sample_zero_mode_example : sample1d_gen (2#3) 0 (-1#2) [6; 6; 6; 6] == 3.
Proof. reflexivity. Qed.

(* samples 1,4,9 have spline coefficients 0,3,12 (mirror boundaries); sampled back exactly *)
Example sample_grid_example :
  interp_at [0; 3; 12] 2 0 == 1 /\ interp_at [0; 3; 12] 2 1 == 4 /\ interp_at [0; 3; 12] 2 2 == 9 /\
  sample1d_gen (2#3) 1 0 [0; 3; 12] == 1 /\ sample1d_gen (2#3) 1 1 [0; 3; 12] == 4 /\
  sample1d_gen (2#3) 1 2 [0; 3; 12] == 9.
Proof. repeat split; reflexivity. Qed.

(* the refuted clause on the concrete replay: coefficients [-2; 7] of samples [1; 4] *)
Example sample_extent2_example :
  sample1d_gen (2#3) 1 0 [-2; 7] == 1 /\ sample1d_gen (2#3) 1 1 [-2; 7] == 0.
Proof. split; reflexivity. Qed.

End SplineProperties.

(* ================================================================ fff_blas.c, level 1 *)
Section Blas1Properties.
Import Coq.Strings.String.
Import Blas1Model Blas1Proofs FffBlas1.
Local Open Scope Q_scope.

(* tie to the source: every level-1 wrapper hands its vector (size, data, stride) to the
   Fortran kernel of the SAME name and returns the kernel's result unchanged (idamax: - 1
   for the C index); translated from the current fff_blas.c (Generated/FffBlas1.v). *)
Theorem blas1_wrappers_call_their_kernels :
  map (fun c => (b1_wrapper c, b1_kernel c, b1_args c, b1_offset c, b1_guard c)) fff_blas1_calls =
  [ ("ddot", "ddot", ["x.size"; "x.data"; "x.stride"; "y.data"; "y.stride"], 0%Z, true);
    ("dnrm2", "dnrm2", ["x.size"; "x.data"; "x.stride"], 0%Z, false);
    ("dasum", "dasum", ["x.size"; "x.data"; "x.stride"], 0%Z, false);
    ("idamax", "idamax", ["x.size"; "x.data"; "x.stride"], (-1)%Z, false);
    ("dswap", "dswap", ["x.size"; "x.data"; "x.stride"; "y.data"; "y.stride"], 0%Z, true);
    ("dcopy", "dcopy", ["x.size"; "x.data"; "x.stride"; "y.data"; "y.stride"], 0%Z, true);
    ("daxpy", "daxpy", ["x.size"; "&alpha"; "x.data"; "x.stride"; "y.data"; "y.stride"], 0%Z, true);
    ("dscal", "dscal", ["x.size"; "&alpha"; "x.data"; "x.stride"], 0%Z, false);
    ("drotg", "drotg", ["a"; "b"; "c"; "s"], 0%Z, false);
    ("drot", "drot", ["x.size"; "x.data"; "x.stride"; "y.data"; "y.stride"; "&c"; "&s"], 0%Z, true);
    ("drotmg", "drotmg", ["d1"; "d2"; "b1"; "&b2"; "P"], 0%Z, false) ]%string.
Proof. vm_compute. reflexivity. Qed.
Print Assumptions blas1_wrappers_call_their_kernels.

(* the Euclidean norm is determined by r >= 0 /\ r^2 = sum x_i^2 ... *)
Theorem nrm2_value_unique : forall x r s, is_nrm2 x r -> is_nrm2 x s -> r == s.
Proof. intros x r s [H1 E1] [H2 E2]. exact (nrm2_unique r s (qsumsq x) H1 H2 E1 E2). Qed.
Print Assumptions nrm2_value_unique.

(* ... is homogeneous: ||c x|| = |c| ||x|| for EVERY rational c (so the value at magnitude
   2^k x is exactly 2^k times the value at x - no magnitude is special) ... *)
Theorem nrm2_homogeneous : forall c x r, is_nrm2 x r -> is_nrm2 (scal c x) (Qabs c * r).
Proof. exact nrm2_scal. Qed.
Print Assumptions nrm2_homogeneous.

(* ... and lies between max |x_i| and sqrt(n) max |x_i| (squared form): for finite doubles
   of any magnitude the norm is an ordinary number of the same magnitude. *)
Theorem nrm2_between_max_and_sqrt_n_max : forall x r m, is_nrm2 x r ->
  (forall a, In a x -> a * a <= m) ->
  (forall a, In a x -> a * a <= r * r) /\ r * r <= inject_Z (Z.of_nat (List.length x)) * m.
Proof.
  intros x r m [_ E] H. split.
  - intros a Ha. rewrite E. apply sumsq_ge_each. exact Ha.
  - rewrite E. apply sumsq_le_n_max. exact H.
Qed.
Print Assumptions nrm2_between_max_and_sqrt_n_max.

Theorem dot_laws : forall c x y,
  qdot x y == qdot y x /\ qdot (scal c x) y == c * qdot x y /\ qsumsq x == qdot x x /\ 0 <= qsumsq x.
Proof.
  intros c x y. split; [apply dot_comm|]. split; [apply dot_scal_l|]. split; [reflexivity|apply sumsq_nonneg].
Qed.
Print Assumptions dot_laws.

Theorem asum_laws : forall c x, 0 <= qasum x /\ qasum (scal c x) == Qabs c * qasum x.
Proof. intros c x. split; [apply asum_nonneg|apply asum_scal]. Qed.
Print Assumptions asum_laws.

(* idamax - 1 is the FIRST index of an entry of maximal absolute value *)
Theorem iamax_first_maximiser : forall x, x <> [] ->
  (iamax x < List.length x)%nat /\
  (forall j, (j < List.length x)%nat -> Qabs (nth j x 0) <= Qabs (nth (iamax x) x 0)) /\
  (forall j, (j < iamax x)%nat -> Qabs (nth j x 0) < Qabs (nth (iamax x) x 0)).
Proof. exact iamax_spec. Qed.
Print Assumptions iamax_first_maximiser.

Example blas1_values :
  nrm2_exactb [3 # 1; -4 # 1; 0; 12 # 1] (13 # 1) = true /\
  nrm2_exactb (scal (2 ^ 600) [3 # 1; 4 # 1]) (5 * 2 ^ 600) = true /\
  nrm2_exactb (scal (1 # 2 ^ 600) [3 # 1; 4 # 1]) (5 # 2 ^ 600) = true /\
  iamax [1; -7 # 1; 7 # 1; 2 # 1] = 1%nat /\ qasum [1; -7 # 1; 2 # 1] == 10 # 1 /\
  ql_eqb (axpy (2 # 1) [1; 2 # 1] [10 # 1; 20 # 1]) [12 # 1; 24 # 1] = true.
Proof. repeat split; vm_compute; reflexivity. Qed.
End Blas1Properties.
