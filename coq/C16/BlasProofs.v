(* C16 (BLAS part) - proofs that the flag swaps / operand order / dimensions in
   the GENERATED table of fff_blas.c turn the column-major Fortran routines into
   the documented row-major operations, for every flag combination, over an
   arbitrary commutative ring. *)
From Coq Require Import List Arith Bool Lia Ring ZArith.
From NV.Generated Require Import FffBlas.
From NV.C16 Require Import BlasModel.
Import ListNotations.

Section BlasProofs.
  Variable R : Type.
  Variables (r0 r1 : R) (radd rmul rsub : R -> R -> R) (ropp : R -> R).
  Variable rdiv : R -> R -> R.
  Hypothesis Rth : ring_theory r0 r1 radd rmul rsub ropp (@eq R).
  Add Ring BlasRing : Rth.

  Local Infix "+" := radd.
  Local Infix "*" := rmul.
  Local Infix "-" := rsub.

  Local Notation rmat := (rmat R).
  Local Notation fm := (fm R).
  Local Notation sum_n := (sum_n R r0 radd).
  Local Notation mmul := (mmul R r0 radd rmul).
  Local Notation tri := (tri R r0 r1).
  Local Notation sym := (sym R).
  Local Notation tp := (tp R).
  Local Notation opt := (opt R).
  Local Notation rent := (rent R r0).
  Local Notation fent := (fent R r0).
  Local Notation fvec := (fvec R r0).
  Local Notation fstore := (fstore R r0).
  Local Notation flat_tab := (flat_tab R).
  Local Notation fwd := (fwd R r0 radd rmul rsub rdiv).
  Local Notation solve_lower := (solve_lower R r0 radd rmul rsub rdiv).
  Local Notation solve_upper := (solve_upper R r0 radd rmul rsub rdiv).
  Local Notation trisolve := (trisolve R r0 radd rmul rsub rdiv).
  Local Notation fff_call := (fff_call R r0 r1 radd rmul rsub rdiv).

  (* well-formed contiguous operand: tda = row length, buffer holds exactly the
     matrix, no empty dimension (an empty dimension makes the Fortran routine
     reject LDA = 0 through XERBLA) *)
  Definition wfm (M : rmat) : Prop :=
    rm_tda M = rm_s2 M /\ length (rm_data M) = (rm_s1 M * rm_s2 M)%nat /\ (0 < rm_s1 M)%nat /\ (0 < rm_s2 M)%nat.
  (* stride-1 vector = n x 1 matrix *)
  Definition wfv (x : rmat) : Prop := wfm x /\ rm_s2 x = 1%nat.

  Definition transflag (f : cflag) : Prop := f = CblasNoTrans \/ f = CblasTrans \/ f = CblasConjTrans.
  Definition uploflag (f : cflag) : Prop := f = CblasUpper \/ f = CblasLower.
  Definition diagflag (f : cflag) : Prop := f = CblasNonUnit \/ f = CblasUnit.
  Definition sideflag (f : cflag) : Prop := f = CblasLeft \/ f = CblasRight.

  (* ---------------------------------------------------------------- basic lemmas *)
  Lemma sum_n_ext k (f g : nat -> R) :
    (forall l, (l < k)%nat -> f l = g l) -> sum_n k f = sum_n k g.
  Proof.
    induction k as [|k IH]; intros H; [reflexivity|]. cbn [BlasModel.sum_n].
    rewrite IH by (intros l Hl; apply H; lia). rewrite H by lia. reflexivity.
  Qed.

  Lemma sum_n_add k (f g : nat -> R) :
    sum_n k (fun l => f l + g l) = sum_n k f + sum_n k g.
  Proof.
    induction k as [|k IH]; cbn [BlasModel.sum_n]; [ring|]. rewrite IH. ring.
  Qed.

  (* what Fortran sees in a row-major buffer whose leading dimension is the row length: the transpose *)
  Lemma fent_rent (M : rmat) ld i j : rm_tda M = ld -> fent ld (rm_data M) i j = rent M j i.
  Proof. intros <-. unfold BlasModel.fent, BlasModel.rent. f_equal. lia. Qed.

  Lemma fvec_rent (x : rmat) inc l : rm_tda x = inc -> fvec inc (rm_data x) l = rent x l 0.
  Proof. intros H. unfold BlasModel.fvec. now apply fent_rent. Qed.

  (* reading back, row-major, the buffer in which Fortran stored an s2 x s1 result *)
  Lemma fstore_rowmajor s1 s2 (v g : fm) d :
    length d = (s1 * s2)%nat ->
    (forall i j, (i < s1)%nat -> (j < s2)%nat -> v j i = g i j) ->
    fstore s2 s2 s1 v d = flat_tab s1 s2 g.
  Proof.
    intros Hlen Hv. unfold BlasModel.fstore, BlasModel.flat_tab. rewrite Hlen.
    apply map_ext_in. intros p Hp. apply in_seq in Hp.
    assert (Hs2 : s2 <> 0%nat) by (intros ->; lia).
    assert (Hm : (p mod s2 < s2)%nat) by (apply Nat.mod_upper_bound; exact Hs2).
    assert (Hd : (p / s2 < s1)%nat) by (apply Nat.div_lt_upper_bound; [exact Hs2|lia]).
    apply Nat.ltb_lt in Hm. apply Nat.ltb_lt in Hd as Hd'. rewrite Hm, Hd'. cbn [andb].
    apply Hv; [exact Hd | now apply Nat.ltb_lt].
  Qed.

  Lemma ld_ok_true ld rows : (0 < ld)%nat -> (rows <= ld)%nat -> ld_ok ld rows = true.
  Proof. intros H1 H2. unfold ld_ok. apply Nat.leb_le. lia. Qed.

  Lemma pos_neqb n : (0 < n)%nat -> negb (Nat.eqb n 0) = true.
  Proof. intros H. destruct (Nat.eqb_spec n 0); [lia|reflexivity]. Qed.

  (* ---------------------------------------------------------------- tactics *)
  Ltac flagcases H := unfold transflag, uploflag, diagflag, sideflag in H;
                      repeat (destruct H as [H|H]); subst.
  Ltac unwf H t l p1 p2 := destruct H as [t [l [p1 p2]]].
  Ltac reduce_call :=
    unfold BlasModel.fff_call;
    cbn [fc_routine fc_args map eval_arg eval_dim e_flag e_scal e_op mac_apply f_exec
         fff_blas_dgemv_call fff_blas_dtrsv_call fff_blas_dgemm_call fff_blas_dsymm_call fff_blas_dtrmm_call
         fff_blas_dtrsm_call fff_blas_dsyrk_call fff_blas_dsyr2k_call
         env_dgemv env_dtrsv env_dgemm env_dsymm env_dtrxm env_dsyrk env_dsyr2k
         f_dgemv f_dtrsv f_dgemm f_dsymm f_dtrmm f_dtrsm f_dsyrk f_dsyr2k
         dec_trans dec_upper dec_unit dec_left cflag_eqb scal_env].

  (* ---------------------------------------------------------------- dgemm *)
  Theorem flag_swap_dgemm ta tb alpha beta (A B C : rmat) :
    transflag ta -> transflag tb -> wfm A -> wfm B -> wfm C ->
    (if is_tr ta then rm_s2 A else rm_s1 A) = rm_s1 C ->
    (if is_tr tb then rm_s1 B else rm_s2 B) = rm_s2 C ->
    (if is_tr ta then rm_s1 A else rm_s2 A) = (if is_tr tb then rm_s2 B else rm_s1 B) ->
    fff_call fff_blas_dgemm_call (env_dgemm R ta tb alpha A B beta C)
    = Some (OpC, doc_dgemm R r0 radd rmul ta tb alpha A B beta C).
  Proof.
    intros Hta Htb HA HB HC. unwf HA tA lA pA1 pA2. unwf HB tB lB pB1 pB2. unwf HC tC lC pC1 pC2.
    flagcases Hta; flagcases Htb; cbn [is_tr cflag_eqb negb]; intros S1 S2 S3;
      reduce_call; rewrite tA, tB, tC;
      rewrite !ld_ok_true by lia; cbn [andb fr_out fr_ld fr_m fr_n fr_val];
      unfold doc_dgemm, doc_tab; cbn [is_tr cflag_eqb negb];
      f_equal; f_equal; apply fstore_rowmajor; try exact lC;
      intros i j Hi Hj; rewrite (fent_rent C) by exact tC;
      apply (f_equal (fun z => alpha * z + beta * rent C i j));
      unfold BlasModel.mmul; rewrite <- ?S3; apply sum_n_ext; intros l Hl;
      unfold BlasModel.opt, BlasModel.tp; rewrite !fent_rent by congruence; ring.
  Qed.

  (* ---------------------------------------------------------------- dgemv *)
  Theorem flag_swap_dgemv ta alpha beta (A x y : rmat) :
    transflag ta -> wfm A -> wfv x -> wfv y ->
    (if is_tr ta then rm_s2 A else rm_s1 A) = rm_s1 y ->
    (if is_tr ta then rm_s1 A else rm_s2 A) = rm_s1 x ->
    fff_call fff_blas_dgemv_call (env_dgemv R ta alpha A x beta y)
    = Some (OpY, doc_dgemv R r0 radd rmul ta alpha A x beta y).
  Proof.
    intros Hta HA [Hx Hx1] [Hy Hy1]. unwf HA tA lA pA1 pA2. unwf Hx tX lX pX1 pX2. unwf Hy tY lY pY1 pY2.
    flagcases Hta; cbn [is_tr cflag_eqb negb]; intros S1 S2;
      reduce_call; rewrite tA, tX, tY, Hx1, Hy1;
      rewrite !ld_ok_true by lia; cbn [andb negb Nat.eqb fr_out fr_ld fr_m fr_n fr_val];
      unfold doc_dgemv, doc_tab; cbn [is_tr cflag_eqb negb]; rewrite Hy1;
      f_equal; f_equal; rewrite <- S1; rewrite S1;
      apply fstore_rowmajor; try (rewrite lY, Hy1; reflexivity);
      intros i j Hi Hj; rewrite (fvec_rent y) by congruence;
      apply (f_equal (fun z => alpha * z + beta * rent y i 0));
      apply sum_n_ext; intros l Hl;
      unfold BlasModel.opt, BlasModel.tp; rewrite fent_rent by congruence; rewrite fvec_rent by congruence;
      reflexivity.
  Qed.

  (* ---------------------------------------------------------------- views under transposition *)
  Lemma tri_fent u d (M : rmat) ld i j :
    rm_tda M = ld -> tri u d (fent ld (rm_data M)) i j = tri (negb u) d (rent M) j i.
  Proof.
    intros H. unfold BlasModel.tri. rewrite (fent_rent M ld i j H), (Nat.eqb_sym j i).
    destruct u; reflexivity.
  Qed.

  Lemma sym_fent u (M : rmat) ld i j :
    rm_tda M = ld -> sym u (fent ld (rm_data M)) i j = sym (negb u) (rent M) j i.
  Proof.
    intros H. unfold BlasModel.sym. rewrite (fent_rent M ld i j H), (fent_rent M ld j i H).
    destruct u; reflexivity.
  Qed.

  Lemma in_tri_swap u i j : in_tri u j i = in_tri (negb u) i j.
  Proof. destruct u; reflexivity. Qed.

  (* ---------------------------------------------------------------- dsymm *)
  Theorem flag_swap_dsymm s u alpha beta (A B C : rmat) :
    sideflag s -> uploflag u -> wfm A -> wfm B -> wfm C ->
    rm_s1 A = rm_s2 A -> rm_s1 A = (if is_lf s then rm_s1 C else rm_s2 C) ->
    rm_s1 B = rm_s1 C -> rm_s2 B = rm_s2 C ->
    fff_call fff_blas_dsymm_call (env_dsymm R s u alpha A B beta C)
    = Some (OpC, doc_dsymm R r0 radd rmul s u alpha A B beta C).
  Proof.
    intros Hs Hu HA HB HC. unwf HA tA lA pA1 pA2. unwf HB tB lB pB1 pB2. unwf HC tC lC pC1 pC2.
    flagcases Hs; flagcases Hu; cbn [is_lf cflag_eqb]; intros Sq SA SB1 SB2;
      reduce_call; rewrite tA, tB, tC;
      rewrite !ld_ok_true by lia; cbn [andb fr_out fr_ld fr_m fr_n fr_val];
      unfold doc_dsymm, doc_tab; cbn [is_lf is_up cflag_eqb];
      f_equal; f_equal; apply fstore_rowmajor; try exact lC;
      intros i j Hi Hj; rewrite (fent_rent C) by exact tC;
      apply (f_equal (fun z => alpha * z + beta * rent C i j));
      unfold BlasModel.mmul; apply sum_n_ext; intros l Hl;
      rewrite sym_fent by congruence; rewrite fent_rent by congruence; cbn [negb]; ring.
  Qed.

  (* ---------------------------------------------------------------- dtrmm *)
  Theorem flag_swap_dtrmm s u ta d alpha (A B : rmat) :
    sideflag s -> uploflag u -> transflag ta -> diagflag d -> wfm A -> wfm B ->
    rm_s1 A = rm_s2 A -> rm_s1 A = (if is_lf s then rm_s1 B else rm_s2 B) ->
    fff_call fff_blas_dtrmm_call (env_dtrxm R r0 s u ta d alpha A B)
    = Some (OpB, doc_dtrmm R r0 r1 radd rmul s u ta d alpha A B).
  Proof.
    intros Hs Hu Hta Hd HA HB. unwf HA tA lA pA1 pA2. unwf HB tB lB pB1 pB2.
    flagcases Hs; flagcases Hu; flagcases Hta; flagcases Hd; cbn [is_lf cflag_eqb]; intros Sq SA;
      reduce_call; rewrite tA, tB;
      rewrite !ld_ok_true by lia; cbn [andb fr_out fr_ld fr_m fr_n fr_val];
      unfold doc_dtrmm, doc_tab; cbn [is_lf is_up is_tr is_un cflag_eqb negb];
      f_equal; f_equal; apply fstore_rowmajor; try exact lB;
      intros i j Hi Hj; apply (f_equal (fun z => alpha * z));
      unfold BlasModel.mmul; apply sum_n_ext; intros l Hl;
      unfold BlasModel.opt, BlasModel.tp;
      rewrite tri_fent by congruence; rewrite fent_rent by congruence; cbn [negb]; ring.
  Qed.

  (* ---------------------------------------------------------------- dsyrk / dsyr2k *)
  (* C is n x n, op(A) (and op(B)) n x k with arbitrary k: the wrapper passes n = C->size1 and
     k = A->size2 (NoTrans) / A->size1 (Trans), the column count of op(A). *)
  Theorem flag_swap_dsyrk u t alpha beta (A C : rmat) :
    uploflag u -> transflag t -> wfm A -> wfm C ->
    rm_s1 C = rm_s2 C -> rm_s1 C = (if is_tr t then rm_s2 A else rm_s1 A) ->
    fff_call fff_blas_dsyrk_call (env_dsyrk R u t alpha A beta C)
    = Some (OpC, doc_dsyrk R r0 radd rmul u t alpha A beta C).
  Proof.
    intros Hu Ht HA HC. unwf HA tA lA pA1 pA2. unwf HC tC lC pC1 pC2.
    flagcases Hu; flagcases Ht; cbn [is_tr cflag_eqb negb]; intros SqC SC;
      reduce_call; rewrite tA, tC;
      rewrite !ld_ok_true by lia; cbn [andb fr_out fr_ld fr_m fr_n fr_val];
      unfold doc_dsyrk, doc_tab; cbn [is_up is_tr cflag_eqb negb];
      f_equal; f_equal;
      replace (fstore (rm_s2 C) (rm_s1 C) (rm_s1 C)) with (fstore (rm_s2 C) (rm_s2 C) (rm_s1 C))
        by (rewrite SqC; reflexivity);
      apply fstore_rowmajor; try exact lC;
      intros i j Hi Hj; rewrite in_tri_swap; cbn [negb]; rewrite (fent_rent C) by exact tC;
      (destruct (in_tri _ i j); [|reflexivity]);
      apply (f_equal (fun z => alpha * z + beta * rent C i j));
      unfold BlasModel.mmul; apply sum_n_ext; intros l Hl;
      unfold BlasModel.opt, BlasModel.tp; rewrite !fent_rent by congruence; ring.
  Qed.

  Theorem flag_swap_dsyr2k u t alpha beta (A B C : rmat) :
    uploflag u -> transflag t -> wfm A -> wfm B -> wfm C ->
    rm_s1 B = rm_s1 A -> rm_s2 B = rm_s2 A ->
    rm_s1 C = rm_s2 C -> rm_s1 C = (if is_tr t then rm_s2 A else rm_s1 A) ->
    fff_call fff_blas_dsyr2k_call (env_dsyr2k R u t alpha A B beta C)
    = Some (OpC, doc_dsyr2k R r0 radd rmul u t alpha A B beta C).
  Proof.
    intros Hu Ht HA HB HC. unwf HA tA lA pA1 pA2. unwf HB tB lB pB1 pB2. unwf HC tC lC pC1 pC2.
    flagcases Hu; flagcases Ht; cbn [is_tr cflag_eqb negb]; intros SB1 SB2 SqC SC;
      reduce_call; rewrite tA, tB, tC;
      rewrite !ld_ok_true by lia; cbn [andb fr_out fr_ld fr_m fr_n fr_val];
      unfold doc_dsyr2k, doc_tab; cbn [is_up is_tr cflag_eqb negb];
      f_equal; f_equal;
      replace (fstore (rm_s2 C) (rm_s1 C) (rm_s1 C)) with (fstore (rm_s2 C) (rm_s2 C) (rm_s1 C))
        by (rewrite SqC; reflexivity);
      apply fstore_rowmajor; try exact lC;
      intros i j Hi Hj; rewrite in_tri_swap; cbn [negb]; rewrite (fent_rent C) by exact tC;
      (destruct (in_tri _ i j); [|reflexivity]);
      unfold BlasModel.mmul;
      rewrite ?SB1, ?SB2;
      match goal with
      | |- alpha * sum_n ?k ?f1 + alpha * sum_n ?k ?f2 + ?c = alpha * sum_n ?k ?g1 + alpha * sum_n ?k ?g2 + ?c =>
        replace (sum_n k f1) with (sum_n k g1);
        [replace (sum_n k f2) with (sum_n k g2); [reflexivity|]|]
      end;
      apply sum_n_ext; intros l Hl;
      unfold BlasModel.opt, BlasModel.tp; rewrite !fent_rent by congruence; ring.
  Qed.

  (* ---------------------------------------------------------------- triangular solves *)
  Lemma fwd_ext (T T' : fm) (b b' : nat -> R) n :
    (forall i j, T i j = T' i j) -> (forall i, b i = b' i) -> fwd T b n = fwd T' b' n.
  Proof.
    intros HT Hb. induction n as [|n IH]; [reflexivity|]. cbn [BlasModel.fwd].
    rewrite IH, Hb, HT. f_equal. f_equal. f_equal. f_equal.
    apply sum_n_ext. intros l Hl. now rewrite HT.
  Qed.

  Lemma trisolve_ext up n (T T' : fm) (b b' : nat -> R) i :
    (forall i j, T i j = T' i j) -> (forall i, b i = b' i) -> trisolve up n T b i = trisolve up n T' b' i.
  Proof.
    intros HT Hb. unfold BlasModel.trisolve, BlasModel.solve_upper, BlasModel.solve_lower.
    destruct up.
    - erewrite fwd_ext; [reflexivity| |]; intros; cbv beta; [apply HT|apply Hb].
    - erewrite fwd_ext; [reflexivity|exact HT|exact Hb].
  Qed.

  (* dtrsv: the call performs the documented row-major substitution for inv(op(A)) x *)
  Theorem flag_swap_dtrsv u ta d (A x : rmat) :
    uploflag u -> transflag ta -> diagflag d -> wfm A -> wfv x ->
    rm_s1 A = rm_s2 A -> rm_s1 x = rm_s1 A ->
    fff_call fff_blas_dtrsv_call (env_dtrsv R r0 u ta d A x)
    = Some (OpX, doc_dtrsv R r0 r1 radd rmul rsub rdiv u ta d A x).
  Proof.
    intros Hu Hta Hd HA [Hx Hx1]. unwf HA tA lA pA1 pA2. unwf Hx tX lX pX1 pX2.
    flagcases Hu; flagcases Hta; flagcases Hd; intros Sq SX;
      reduce_call; rewrite tA, tX, Hx1;
      rewrite !ld_ok_true by lia; cbn [andb negb Nat.eqb fr_out fr_ld fr_m fr_n fr_val];
      unfold doc_dtrsv, doc_tab; cbn [is_up is_tr is_un cflag_eqb negb xorb]; rewrite Hx1;
      f_equal; f_equal; rewrite <- SX;
      apply fstore_rowmajor; try (rewrite lX, Hx1; reflexivity);
      intros i j Hi Hj;
      (apply trisolve_ext;
       [ intros p q; unfold BlasModel.opt, BlasModel.tp; rewrite tri_fent by congruence; reflexivity
       | intros p; apply fvec_rent; congruence ]).
  Qed.

  (* dtrsm: the call performs the documented row-major substitution for
     alpha inv(op(A)) B (Left) / alpha B inv(op(A)) (Right) *)
  Theorem flag_swap_dtrsm s u ta d alpha (A B : rmat) :
    sideflag s -> uploflag u -> transflag ta -> diagflag d -> wfm A -> wfm B ->
    rm_s1 A = rm_s2 A -> rm_s1 A = (if is_lf s then rm_s1 B else rm_s2 B) ->
    fff_call fff_blas_dtrsm_call (env_dtrxm R r0 s u ta d alpha A B)
    = Some (OpB, doc_dtrsm R r0 r1 radd rmul rsub rdiv s u ta d alpha A B).
  Proof.
    intros Hs Hu Hta Hd HA HB. unwf HA tA lA pA1 pA2. unwf HB tB lB pB1 pB2.
    flagcases Hs; flagcases Hu; flagcases Hta; flagcases Hd; cbn [is_lf cflag_eqb]; intros Sq SA;
      reduce_call; rewrite tA, tB;
      rewrite !ld_ok_true by lia; cbn [andb fr_out fr_ld fr_m fr_n fr_val];
      unfold doc_dtrsm, doc_tab; cbn [is_lf is_up is_tr is_un cflag_eqb negb xorb];
      f_equal; f_equal; apply fstore_rowmajor; try exact lB;
      intros i j Hi Hj;
      (apply trisolve_ext;
       [ intros p q; unfold BlasModel.opt, BlasModel.tp; rewrite tri_fent by congruence; reflexivity
       | intros p; rewrite fent_rent by congruence; reflexivity ]).
  Qed.
End BlasProofs.

(* ---------------------------------------------------------------- non-square dsyrk / dsyr2k, concretely *)
(* op(A) = A = [1 2 3] (1 x 3): A A^T = 14 (before the fix of the k dimension in fff_blas.c the
   call computed 1: the sum was cut after n = 1 terms). *)
Definition zdoc_dsyr2k := doc_dsyr2k Z 0%Z Z.add Z.mul.
Lemma dsyrk_nonsquare_example :
  zcall_dsyrk CblasUpper CblasNoTrans 1%Z (zm 1 3 [1; 2; 3]%Z) 0%Z (zm 1 1 [0%Z]) = Some (OpC, [14%Z])
  /\ zdoc_dsyrk CblasUpper CblasNoTrans 1%Z (zm 1 3 [1; 2; 3]%Z) 0%Z (zm 1 1 [0%Z]) = [14%Z].
Proof. split; vm_compute; reflexivity. Qed.

Lemma dsyr2k_nonsquare_example :
  zcall_dsyr2k CblasLower CblasTrans 1%Z (zm 2 1 [1; 2]%Z) (zm 2 1 [3; 4]%Z) 0%Z (zm 1 1 [0%Z]) = Some (OpC, [22%Z])
  /\ zdoc_dsyr2k CblasLower CblasTrans 1%Z (zm 2 1 [1; 2]%Z) (zm 2 1 [3; 4]%Z) 0%Z (zm 1 1 [0%Z]) = [22%Z].
Proof. split; vm_compute; reflexivity. Qed.

(* ---------------------------------------------------------------- the substitution does solve the system *)
(* doc_dtrsv / doc_dtrsm are stated through forward / back substitution with an
   uninterpreted division.  When the division is exact on the diagonal (a field; or Z
   with a +-1 diagonal as in the correspondence), the substitution solves the triangular
   system: row i of T x = b, summed over the referenced triangle (columns 0..i for a
   lower, columns i..n-1 for an upper triangular T). *)
Section SolveCorrect.
  Variable R : Type.
  Variables (r0 r1 : R) (radd rmul rsub : R -> R -> R) (ropp : R -> R).
  Variable rdiv : R -> R -> R.
  Hypothesis Rth : ring_theory r0 r1 radd rmul rsub ropp (@eq R).
  Add Ring SolveRing : Rth.
  Local Infix "+" := radd.
  Local Infix "*" := rmul.
  Local Infix "-" := rsub.
  Local Notation sum_n := (sum_n R r0 radd).
  Local Notation fwd := (fwd R r0 radd rmul rsub rdiv).

  Lemma fwd_length (T : fm R) b n : length (fwd T b n) = n.
  Proof.
    induction n as [|n IH]; [reflexivity|]. cbn [BlasModel.fwd]. rewrite app_length, IH. cbn. lia.
  Qed.

  Theorem fwd_solves_lower (T : fm R) (b : nat -> R) n :
    (forall i y, (i < n)%nat -> T i i * rdiv y (T i i) = y) ->
    forall i, (i < n)%nat -> sum_n (S i) (fun l => T i l * nth l (fwd T b n) r0) = b i.
  Proof.
    induction n as [|n IH]; intros Hdiv i Hi; [lia|].
    cbn [BlasModel.fwd].
    assert (Hlen : length (fwd T b n) = n) by apply fwd_length.
    assert (Hpre : forall m, (m <= n)%nat ->
              forall x, sum_n m (fun l => T i l * nth l (fwd T b n ++ [x]) r0)
                        = sum_n m (fun l => T i l * nth l (fwd T b n) r0)).
    { intros m Hm x. apply (sum_n_ext R r0 radd). intros l Hl. rewrite app_nth1 by lia. reflexivity. }
    destruct (Nat.eq_dec i n) as [->|Hne].
    - cbn [BlasModel.sum_n]. rewrite Hpre by lia.
      rewrite app_nth2 by lia. rewrite Hlen, Nat.sub_diag. cbn [nth].
      rewrite Hdiv by lia. ring.
    - rewrite Hpre by lia. apply IH; [|lia]. intros k y Hk. apply Hdiv. lia.
  Qed.
  Local Notation solve_upper := (solve_upper R r0 radd rmul rsub rdiv).
  Local Notation trisolve := (trisolve R r0 radd rmul rsub rdiv).

  (* back substitution: sum over columns n-1, n-2, ..., i of row i *)
  Theorem bwd_solves_upper (T : fm R) (b : nat -> R) n :
    (forall i y, (i < n)%nat -> T i i * rdiv y (T i i) = y) ->
    forall i, (i < n)%nat ->
      sum_n (n - i) (fun m => T i (n - 1 - m)%nat * solve_upper n T b (n - 1 - m)%nat) = b i.
  Proof.
    intros Hdiv i Hi.
    pose (T' := fun p q : nat => T (n - 1 - p)%nat (n - 1 - q)%nat).
    pose (b' := fun p : nat => b (n - 1 - p)%nat).
    assert (Hdiv' : forall k y, (k < n)%nat -> T' k k * rdiv y (T' k k) = y).
    { intros k y Hk. unfold T'. apply Hdiv. lia. }
    pose proof (fwd_solves_lower T' b' n Hdiv' (n - 1 - i)%nat ltac:(lia)) as H.
    replace (S (n - 1 - i)) with (n - i)%nat in H by lia.
    unfold b' in H at 2. replace (n - 1 - (n - 1 - i))%nat with i in H by lia.
    rewrite <- H. apply (sum_n_ext R r0 radd). intros m Hm.
    unfold BlasModel.solve_upper, BlasModel.solve_lower. fold T' b'.
    replace (n - 1 - (n - 1 - m))%nat with m by lia.
    unfold T' at 2. replace (n - 1 - (n - 1 - i))%nat with i by lia. reflexivity.
  Qed.

  (* both cases: row i of T x = b over the referenced triangle *)
  Theorem trisolve_solves (upper : bool) (T : fm R) (b : nat -> R) n :
    (forall i y, (i < n)%nat -> T i i * rdiv y (T i i) = y) ->
    forall i, (i < n)%nat ->
      (if upper
       then sum_n (n - i) (fun m => T i (n - 1 - m)%nat * trisolve true n T b (n - 1 - m)%nat)
       else sum_n (S i) (fun l => T i l * trisolve false n T b l)) = b i.
  Proof.
    intros Hdiv i Hi. destruct upper.
    - cbn [BlasModel.trisolve]. now apply bwd_solves_upper.
    - cbn [BlasModel.trisolve]. unfold BlasModel.solve_lower. now apply fwd_solves_lower.
  Qed.
End SolveCorrect.
