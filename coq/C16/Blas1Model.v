(* C16 - level-1 BLAS wrappers of lib/fff/fff_blas.c (ddot, dnrm2, dasum, idamax,
   daxpy, dscal, drot, dswap, dcopy): mathematical definitions on exact rationals.
   Every finite double is a rational, so these definitions give the value the
   wrappers must return (up to the stated rounding of the reference kernel) at
   EVERY magnitude - they know nothing about overflow of intermediate squares. *)
From Coq Require Import List ZArith QArith Qabs Bool Arith.
Import ListNotations.

Fixpoint qdot (x y : list Q) : Q :=
  match x, y with
  | a :: x', b :: y' => a * b + qdot x' y'
  | _, _ => 0
  end.

(* sum of squares: the square of the Euclidean norm *)
Definition qsumsq (x : list Q) : Q := qdot x x.

Fixpoint qasum (x : list Q) : Q :=
  match x with [] => 0 | a :: t => Qabs a + qasum t end.

Definition scal (c : Q) (x : list Q) : list Q := map (Qmult c) x.

Fixpoint axpy (c : Q) (x y : list Q) : list Q :=
  match x, y with
  | a :: x', b :: y' => (c * a + b) :: axpy c x' y'
  | _, _ => []
  end.

(* (x', y') = (c x + s y, -s x + c y) *)
Fixpoint rot (c s : Q) (x y : list Q) : list (Q * Q) :=
  match x, y with
  | a :: x', b :: y' => (c * a + s * b, c * b - s * a) :: rot c s x' y'
  | _, _ => []
  end.

Definition Qltb (a b : Q) : bool := negb (Qle_bool b a).

(* idamax - 1: FIRST index of an entry of maximal absolute value *)
Fixpoint iamax_from (best : Q) (bi i : nat) (x : list Q) : nat :=
  match x with
  | [] => bi
  | a :: t => if Qltb best (Qabs a) then iamax_from (Qabs a) i (S i) t
              else iamax_from best bi (S i) t
  end.
Definition iamax (x : list Q) : nat :=
  match x with [] => 0 | a :: t => iamax_from (Qabs a) 0 1 t end.

(* r is the Euclidean norm of x *)
Definition is_nrm2 (x : list Q) (r : Q) : Prop := 0 <= r /\ r * r == qsumsq x.

(* ---- harness helpers *)
(* r >= 0 and |r^2 - sum x_i^2| <= tol * sum x_i^2 (relative, scale invariant) *)
Definition nrm2_closeb (x : list Q) (r tol : Q) : bool :=
  Qle_bool 0 r && Qle_bool (Qabs (r * r - qsumsq x)) (tol * qsumsq x).
Definition nrm2_exactb (x : list Q) (r : Q) : bool :=
  Qle_bool 0 r && Qeq_bool (r * r) (qsumsq x).
Fixpoint ql_eqb (a b : list Q) : bool :=
  match a, b with
  | [], [] => true
  | u :: a', v :: b' => Qeq_bool u v && ql_eqb a' b'
  | _, _ => false
  end.
Fixpoint qpl_eqb (a : list (Q * Q)) (bx by_ : list Q) : bool :=
  match a, bx, by_ with
  | [], [], [] => true
  | (u, v) :: a', p :: bx', q :: by' => Qeq_bool u p && Qeq_bool v q && qpl_eqb a' bx' by'
  | _, _, _ => false
  end.
(* Givens rotation (c, s, r) for (a, b): c^2 + s^2 = 1, c a + s b = r, c b - s a = 0, within tol (relative to a^2+b^2) *)
Definition rotg_closeb (a b c s r tol : Q) : bool :=
  let n2 := a * a + b * b in
  Qle_bool (Qabs (c * c + s * s - 1)) tol &&
  Qle_bool (Qabs (r * r - n2)) (tol * n2) &&
  Qle_bool (Qabs ((c * a + s * b - r) * (c * a + s * b - r))) (tol * n2) &&
  Qle_bool (Qabs ((c * b - s * a) * (c * b - s * a))) (tol * n2).

(* compact literal for the harness: every double is m * 2^e *)
Definition q2 (m e : Z) : Q :=
  if (0 <=? e)%Z then inject_Z (m * 2 ^ e) else Qmake m (Pos.pow 2 (Z.to_pos (- e))).
