(* C16 - quantile(): rank rules on exact rationals. *)
From Coq Require Import ZArith List Bool Arith Lia ZifyBool Permutation QArith Qround Lqa.
From NV.C16 Require Import Model Proofs1 Proofs2.
Import ListNotations.
Close Scope Q_scope.

(* (int)(a) is the floor for a >= 0 *)
Lemma ctrunc_floor : forall a : Q, (0 <= a)%Q -> ctrunc a = Qfloor a.
Proof.
  intros [n d] H. unfold ctrunc, Qfloor. cbn [Qnum Qden].
  unfold Qle in H. cbn in H. apply Z.quot_div_nonneg; lia.
Qed.

Lemma ctrunc_bounds : forall a : Q, (0 <= a)%Q ->
  (inject_Z (ctrunc a) <= a)%Q /\ (a < inject_Z (ctrunc a) + 1)%Q /\ (0 <= ctrunc a)%Z.
Proof.
  intros a H. rewrite (ctrunc_floor a H).
  pose proof (Qfloor_le a) as A. pose proof (Qlt_floor a) as B.
  split; [exact A|]. split.
  - rewrite inject_Z_plus in B. exact B.
  - apply Z.lt_succ_r. rewrite Zlt_Qlt. unfold Z.succ. rewrite inject_Z_plus.
    eapply Qle_lt_trans; [exact H|]. rewrite inject_Z_plus in B. exact B.
Qed.

(* UNSIGNED_CEIL(a) is the ceiling for a >= 0: the smallest integer >= a *)
Lemma unsigned_ceil_spec : forall a : Q, (0 <= a)%Q ->
  (inject_Z (unsigned_ceil a) - 1 < a)%Q /\ (a <= inject_Z (unsigned_ceil a))%Q.
Proof.
  intros a H. unfold unsigned_ceil.
  destruct (ctrunc_bounds a H) as (A & B & _).
  destruct (Qeq_bool (inject_Z (ctrunc a) - a) 0) eqn:E.
  - apply Qeq_bool_iff in E. split; lra.
  - assert (H1 : (0 <= a + 1)%Q) by lra.
    destruct (ctrunc_bounds (a + 1) H1) as (A1 & B1 & _).
    split; [|lra].
    destruct (Qlt_le_dec (inject_Z (ctrunc (a + 1)) - 1) a) as [L|G]; [exact L|exfalso].
    (* then a + 1 is the integer ctrunc (a+1), hence a is an integer and (int)(a) - a = 0 *)
    assert (Ea : (a == inject_Z (ctrunc (a + 1) - 1))%Q).
    { unfold Z.sub. rewrite inject_Z_plus. rewrite inject_Z_opp. change (inject_Z 1) with 1%Q. lra. }
    assert (Ec : ctrunc a = (ctrunc (a + 1) - 1)%Z).
    { rewrite (ctrunc_floor a H). rewrite (Qfloor_comp _ _ Ea). apply Qfloor_Z. }
    assert (Ez : (inject_Z (ctrunc a) - a == 0)%Q).
    { rewrite Ec. rewrite Ea at 2. lra. }
    apply Qeq_bool_iff in Ez. congruence.
Qed.

Lemma unsigned_ceil_range : forall (a : Q) (n : Z), (0 <= a)%Q -> (a <= inject_Z n)%Q ->
  (0 <= unsigned_ceil a <= n)%Z.
Proof.
  intros a n H0 Hn. destruct (unsigned_ceil_spec a H0) as (A & B). split.
  - rewrite Zle_Qle. change (inject_Z 0) with 0%Q. lra.
  - apply Z.lt_succ_r. rewrite Zlt_Qlt. unfold Z.succ. rewrite inject_Z_plus.
    change (inject_Z 1) with 1%Q. lra.
Qed.

(* ---------------------------------------------------------------- quantile_pp *)
Lemma size_not_one : forall x : list Z, 2 <= length x -> (length x =? 1) = false.
Proof. intros x H. lia. Qed.

(* interp = 0 *)
Lemma quantile_pp_noninterp : forall F x pp,
  2 <= length x -> length x <= F -> (0 <= pp)%Q -> (pp <= inject_Z (Z.of_nat (length x)))%Q ->
  let p := unsigned_ceil pp in
  (p = Z.of_nat (length x) /\ quantile_pp F x pp false = Ok (x, QInf)) \/
  ((0 <= p < Z.of_nat (length x))%Z /\
   exists x' a, quantile_pp F x pp false = Ok (x', QVal (inject_Z a)) /\
                Permutation x' x /\ is_kth x (Z.to_nat p) a).
Proof.
  intros F x pp Hn HF H0 H1 p.
  pose proof (unsigned_ceil_range pp _ H0 H1) as R. fold p in R.
  unfold quantile_pp. rewrite (size_not_one x Hn). cbn [negb]. fold p.
  destruct (p =? Z.of_nat (length x))%Z eqn:E.
  - left. split; [lia|reflexivity].
  - right. split; [lia|].
    destruct (pth_element_ok F x (Z.to_nat p)) as (x' & a & Rr & Perm & K); try lia.
    rewrite Rr. cbn [bind]. exists x', a. repeat split; try assumption; apply K.
Qed.

(* interp = 1 *)
Lemma quantile_pp_interp : forall F x pp,
  2 <= length x -> length x <= F -> (0 <= pp)%Q -> (pp <= inject_Z (Z.of_nat (length x) - 1))%Q ->
  let p := Qfloor pp in
  let w := (pp - inject_Z p)%Q in
  (0 <= p <= Z.of_nat (length x) - 1)%Z /\ (0 <= w)%Q /\ (w < 1)%Q /\
  (((w == 0)%Q /\
    exists x' a, quantile_pp F x pp true = Ok (x', QVal (inject_Z a)) /\
                 Permutation x' x /\ is_kth x (Z.to_nat p) a) \/
   ((0 < w)%Q /\ (p + 1 <= Z.of_nat (length x) - 1)%Z /\
    exists x' am aM q, quantile_pp F x pp true = Ok (x', QVal q) /\ Permutation x' x /\
      (q == (1 - w) * inject_Z am + w * inject_Z aM)%Q /\
      is_kth x (Z.to_nat p) am /\ is_kth x (S (Z.to_nat p)) aM)).
Proof.
  intros F x pp Hn HF H0 H1 p w.
  destruct (ctrunc_bounds pp H0) as (A & B & C).
  assert (Ep : ctrunc pp = p) by (apply ctrunc_floor; exact H0).
  rewrite Ep in A, B, C.
  assert (Hp : (p <= Z.of_nat (length x) - 1)%Z).
  { rewrite Zle_Qle. lra. }
  assert (Hw0 : (0 <= w)%Q) by (unfold w; lra).
  assert (Hw1 : (w < 1)%Q) by (unfold w; lra).
  split; [lia|]. split; [exact Hw0|]. split; [exact Hw1|].
  unfold quantile_pp. rewrite (size_not_one x Hn). cbn [negb]. unfold unsigned_floor. rewrite Ep. fold w.
  destruct (Qle_bool w 0) eqn:E.
  - left. apply Qle_bool_iff in E. split; [lra|].
    destruct (pth_element_ok F x (Z.to_nat p)) as (x' & a & Rr & Perm & K); try lia.
    rewrite Rr. cbn [bind]. exists x', a. repeat split; try assumption; apply K.
  - right.
    assert (Hw : (0 < w)%Q).
    { destruct (Qlt_le_dec 0 w) as [L|G]; [exact L|]. apply Qle_bool_iff in G. congruence. }
    split; [exact Hw|].
    assert (Hp1 : (p + 1 <= Z.of_nat (length x) - 1)%Z).
    { apply Z.lt_succ_r. unfold Z.succ. replace (Z.of_nat (length x) - 1 + 1)%Z with (Z.of_nat (length x)) by lia.
      assert (Hlt : (p < Z.of_nat (length x) - 1)%Z); [|lia].
      rewrite Zlt_Qlt. unfold w in Hw. lra. }
    split; [exact Hp1|].
    destruct (pth_interval_ok F x (Z.to_nat p)) as (x' & am & aM & Rr & Perm & Ka & Kb); try lia.
    rewrite Rr. cbn [bind].
    exists x', am, aM, (Qred ((1 - w) * inject_Z am + w * inject_Z aM)).
    split; [reflexivity|]. split; [exact Perm|]. split; [apply Qred_correct|]. split; assumption.
Qed.

(* ---------------------------------------------------------------- quantile (ratio level) *)
Lemma ratio_scale : forall (r : Q) (N : Z), (0 <= r)%Q -> (r <= 1)%Q -> (0 <= N)%Z ->
  (0 <= r * inject_Z N)%Q /\ (r * inject_Z N <= inject_Z N)%Q.
Proof.
  intros r N H0 H1 HN.
  assert (HNq : (0 <= inject_Z N)%Q) by (change 0%Q with (inject_Z 0); rewrite <- Zle_Qle; exact HN).
  split.
  - apply Qmult_le_0_compat; assumption.
  - pose proof (Qmult_le_compat_r r 1 (inject_Z N) H1 HNq) as M. rewrite Qmult_1_l in M. exact M.
Qed.

Lemma quantile_in_range : forall F x r b, (0 <= r)%Q -> (r <= 1)%Q ->
  quantile F x r b =
  quantile_pp F x (if b then r * inject_Z (Z.of_nat (length x) - 1) else r * inject_Z (Z.of_nat (length x)))%Q b.
Proof.
  intros F x r b H0 H1. unfold quantile.
  destruct (Qlt_le_dec r 0) as [L|_]; [lra|].
  destruct (Qlt_le_dec 1 r) as [L|_]; [lra|]. reflexivity.
Qed.

Lemma quantile_single_ok : forall F v r b, (0 <= r)%Q -> (r <= 1)%Q ->
  quantile F [v] r b = Ok ([v], QVal (inject_Z v)).
Proof. intros F v r b H0 H1. rewrite quantile_in_range by assumption. reflexivity. Qed.

(* ---------------------------------------------------------------- strided layout *)
Lemma addr_inj : forall base stride k1 k2, stride <> 0%Z ->
  addr base stride k1 = addr base stride k2 -> k1 = k2.
Proof.
  intros base stride k1 k2 Hs E. unfold addr in E.
  assert (E2 : (stride * Z.of_nat k1 = stride * Z.of_nat k2)%Z) by lia.
  apply Z.mul_reg_l in E2; [lia|exact Hs].
Qed.

Lemma addr_block : forall base stride n k, k < n ->
  (Z.min base (addr base stride (n - 1)) <= addr base stride k <= Z.max base (addr base stride (n - 1)))%Z.
Proof.
  intros base stride n k Hk. unfold addr.
  assert (0 <= Z.of_nat k <= Z.of_nat (n - 1))%Z by lia.
  destruct (Z.le_gt_cases 0 stride) as [P|N]; nia.
Qed.

Lemma addr_step : forall base stride k,
  (addr base stride (S k) = addr base stride k + stride)%Z /\
  (addr base stride k = addr base stride (S k) - stride)%Z.
Proof. intros. unfold addr. lia. Qed.

(* ---------------------------------------------------------------- median *)
Lemma floor_unique : forall (q : Q) (k : Z),
  (inject_Z k <= q)%Q -> (q < inject_Z k + 1)%Q -> Qfloor q = k.
Proof.
  intros q k H1 H2.
  pose proof (Qfloor_le q) as A. pose proof (Qlt_floor q) as B. rewrite inject_Z_plus in B.
  change (inject_Z 1) with 1%Q in B.
  assert (C1 : (Qfloor q < k + 1)%Z).
  { rewrite Zlt_Qlt. rewrite inject_Z_plus. change (inject_Z 1) with 1%Q. lra. }
  assert (C2 : (k < Qfloor q + 1)%Z).
  { rewrite Zlt_Qlt. rewrite inject_Z_plus. change (inject_Z 1) with 1%Q. lra. }
  lia.
Qed.

(* median = quantile(1/2, interp): the mean of the order statistics of ranks
   (n-1) div 2 and n div 2 (NumPy's definition); they coincide for odd n *)
Lemma median_ok : forall F x, 2 <= length x -> length x <= F ->
  let N := Z.of_nat (length x) in
  exists x' lo hi q, quantile F x (1 # 2) true = Ok (x', QVal q) /\ Permutation x' x /\
    is_kth x (Z.to_nat ((N - 1) / 2)) lo /\ is_kth x (Z.to_nat (N / 2)) hi /\
    (q == (inject_Z lo + inject_Z hi) * (1 # 2))%Q.
Proof.
  intros F x Hn HF N.
  assert (HN : (2 <= N)%Z) by (unfold N; lia).
  pose proof (Z.div_mod (N - 1) 2 ltac:(lia)) as Hr.
  pose proof (Z.mod_pos_bound (N - 1) 2 ltac:(lia)) as Hb.
  remember ((N - 1) / 2)%Z as k eqn:Ek. remember ((N - 1) mod 2)%Z as rr eqn:Err.
  assert (Hk : (0 <= k)%Z) by lia.
  rewrite quantile_in_range by lra. fold N.
  remember ((1 # 2) * inject_Z (N - 1))%Q as pp eqn:Dpp.
  destruct (ratio_scale (1 # 2) (N - 1) ltac:(lra) ltac:(lra) ltac:(lia)) as [A B]. rewrite <- Dpp in A, B.
  assert (Epp : (pp == inject_Z k + (1 # 2) * inject_Z rr)%Q).
  { rewrite Dpp. rewrite Hr. rewrite inject_Z_plus, inject_Z_mult. change (inject_Z 2) with 2%Q. lra. }
  assert (Crr : rr = 0%Z \/ rr = 1%Z) by lia.
  assert (Efl : Qfloor pp = k).
  { apply floor_unique; destruct Crr as [-> | ->]; change (inject_Z 0) with 0%Q in *;
      change (inject_Z 1) with 1%Q in *; lra. }
  pose proof (quantile_pp_interp F x pp Hn HF A B) as H. cbv zeta in H. fold N in H.
  rewrite Efl in H.
  destruct H as (_ & _ & _ & [(Hw & x' & a & R & Perm & K)|(Hw & Hp1 & x' & am & aM & q & R & Perm & Hq & Ka & Kb)]).
  - (* integral rank: n odd *)
    assert (Hrr : rr = 0%Z).
    { destruct Crr as [E|E]; [exact E|]. rewrite E in Epp. change (inject_Z 1) with 1%Q in Epp. lra. }
    clear Err. subst rr.
    assert (EN2 : (N / 2)%Z = k) by (symmetry; apply (Z.div_unique N 2 k 1); lia).
    exists x', a, a, (inject_Z a). split; [exact R|]. split; [exact Perm|].
    split; [exact K|]. split; [rewrite EN2; exact K|lra].
  - assert (Hrr : rr = 1%Z).
    { destruct Crr as [E|E]; [|exact E]. rewrite E in Epp. change (inject_Z 0) with 0%Q in Epp. lra. }
    clear Err. subst rr.
    assert (EN2 : (N / 2)%Z = (k + 1)%Z) by (symmetry; apply (Z.div_unique N 2 (k + 1) 0); lia).
    assert (Ew : (pp - inject_Z k == 1 # 2)%Q) by (change (inject_Z 1) with 1%Q in Epp; lra).
    exists x', am, aM, q. split; [exact R|]. split; [exact Perm|].
    split; [exact Ka|]. split.
    + rewrite EN2. replace (Z.to_nat (k + 1)) with (S (Z.to_nat k)) by lia. exact Kb.
    + rewrite Hq. rewrite Ew. lra.
Qed.
