(* C16 - lemmas: one pass, order statistics by counting, _pth_element and
   _pth_interval loops (total correctness: Ok result = no Fault, no Timeout). *)
From Coq Require Import ZArith List Bool Arith Lia ZifyBool Permutation.
From NV.C16 Require Import Model Proofs1.
Import ListNotations.

Local Notation "x '[[' k ']]'" := (nth k x 0%Z) (at level 9).

(* ---------------------------------------------------------------- one pass *)
Lemma pass_tail : forall F x1 il jr same,
  il <= jr -> jr < length x1 -> length x1 <= F ->
  (x1[[il]] <= x1[[jr]])%Z -> (same = false -> il < jr -> (x1[[il]] < x1[[jr]])%Z) ->
  let cont := (a <- rd x1 il ;;
               if il =? jr then Ok (Single x1 a)
               else r <- inner F F x1 il jr same a (S il) jr ;;
                    let '(x2, i, j) := r in Ok (Split x2 a i j)) in
  (il = jr /\ cont = Ok (Single x1 x1[[il]])) \/
  (il < jr /\ exists x2 a i j, cont = Ok (Split x2 a i j) /\ win_rel il jr x1 x2 /\ Post x2 il jr a i j).
Proof.
  intros F x1 il jr same Hle Hlen HF Hord Hstrict cont. unfold cont.
  rewrite rd_ok by lia. cbn [bind].
  destruct (il =? jr) eqn:E.
  - left. split; [lia|reflexivity].
  - right. split; [lia|].
    destruct (inner_ok F F x1 il jr same x1[[il]] (S il) jr) as (x2 & i & j & R & W & P).
    + constructor; try lia.
      * intros k Hk. assert (k = il) by lia. subst k. lia.
    + exact HF.
    + lia.
    + rewrite R. cbn [bind]. exists x2, (x1[[il]]), i, j. split; [reflexivity|]. split; assumption.
Qed.

Lemma pass_ok : forall F x il jr, il <= jr -> jr < length x -> length x <= F ->
  (il = jr /\ exists x1, pass F x il jr = Ok (Single x1 x1[[il]]) /\ win_rel il jr x x1) \/
  (il < jr /\ exists x2 a i j, pass F x il jr = Ok (Split x2 a i j) /\ win_rel il jr x x2 /\ Post x2 il jr a i j).
Proof.
  intros F x il jr Hle Hlen HF. unfold pass.
  rewrite (rd_ok x il) by lia. rewrite (rd_ok x jr) by lia. cbn [bind].
  destruct (x[[jr]] <? x[[il]])%Z eqn:Ecmp.
  - (* SWAP *)
    rewrite swap_ok by lia. cbn [bind].
    assert (Hne : il <> jr) by (intro; subst; lia).
    assert (Hn : forall m, nth m (swapl il jr x) 0%Z =
                           if m =? jr then x[[il]] else if m =? il then x[[jr]] else x[[m]]).
    { intros m. apply nth_swapl; lia. }
    assert (W : win_rel il jr x (swapl il jr x)) by (apply win_swap; lia).
    destruct (pass_tail F (swapl il jr x) il jr false) as [(A & R)|(A & x2 & a & i & j & R & W2 & P)].
    + lia.
    + rewrite swapl_length. lia.
    + rewrite swapl_length. lia.
    + rewrite !Hn. rewrite Nat.eqb_refl. destruct (il =? jr) eqn:E; [lia|]. rewrite Nat.eqb_refl. lia.
    + intros _ _. rewrite !Hn. rewrite Nat.eqb_refl. destruct (il =? jr) eqn:E; [lia|]. rewrite Nat.eqb_refl. lia.
    + lia.
    + right. split; [exact A|]. exists x2, a, i, j. split; [exact R|]. split; [|exact P].
      eapply win_trans; eassumption.
  - destruct (pass_tail F x il jr (x[[il]] =? x[[jr]])%Z) as [(A & R)|(A & x2 & a & i & j & R & W2 & P)];
      try lia.
    + left. split; [exact A|]. exists x. split; [exact R|apply win_refl].
    + right. split; [exact A|]. exists x2, a, i, j. split; [exact R|]. split; assumption.
Qed.

(* ---------------------------------------------------------------- counting *)
Lemma filter_len_perm : forall (f : Z -> bool) x y, Permutation x y ->
  length (filter f x) = length (filter f y).
Proof.
  intros f x y H. induction H as [|h l l' H IH|h h' l|l l' l'' H1 IH1 H2 IH2]; simpl.
  - reflexivity.
  - destruct (f h); simpl; lia.
  - destruct (f h); destruct (f h'); simpl; lia.
  - lia.
Qed.

Lemma is_kth_perm : forall x y k a, Permutation x y -> is_kth x k a -> is_kth y k a.
Proof.
  intros x y k a H [A B]. unfold is_kth, count_lt, count_le in *.
  rewrite <- (filter_len_perm _ x y H). rewrite <- (filter_len_perm _ x y H). split; assumption.
Qed.

Lemma count_lt_tail : forall a x p, (forall k, p <= k < length x -> (a <= x[[k]])%Z) -> count_lt a x <= p.
Proof.
  intros a. induction x as [|h t IH]; intros p H; unfold count_lt in *; simpl; [lia|].
  destruct p as [|p].
  - assert (Hh := H 0). simpl in Hh. destruct (h <? a)%Z eqn:E; [lia|].
    specialize (IH 0). simpl in IH. apply IH. intros k Hk. apply (H (S k)). simpl. lia.
  - specialize (IH p). assert (length (filter (fun v => (v <? a)%Z) t) <= p).
    { apply IH. intros k Hk. apply (H (S k)). simpl. lia. }
    destruct (h <? a)%Z; simpl; lia.
Qed.

Lemma count_lt_part : forall a x p m, m <= p -> m < length x -> x[[m]] = a ->
  (forall k, p < k < length x -> (a <= x[[k]])%Z) -> count_lt a x <= p.
Proof.
  intros a. induction x as [|h t IH]; intros p m Hmp Hm Hv H; simpl in Hm; [lia|].
  destruct m as [|m].
  - simpl in Hv. subst h.
    assert (C : count_lt a t <= p).
    { apply count_lt_tail. intros k Hk. apply (H (S k)). simpl. lia. }
    unfold count_lt in *. simpl. destruct (a <? a)%Z eqn:E; [lia|exact C].
  - destruct p as [|p]; [lia|].
    assert (C : count_lt a t <= p).
    { apply (IH p m); try lia; [exact Hv|]. intros k Hk. apply (H (S k)). simpl. lia. }
    unfold count_lt in *. simpl. destruct (h <? a)%Z; simpl; lia.
Qed.

Lemma count_le_head : forall a x p, p < length x -> (forall k, k <= p -> (x[[k]] <= a)%Z) -> p < count_le a x.
Proof.
  intros a. induction x as [|h t IH]; intros p Hp H; simpl in Hp; [lia|].
  assert (Hh := H 0). simpl in Hh.
  unfold count_le in *. simpl. destruct (h <=? a)%Z eqn:E; [|lia]. simpl.
  destruct p as [|p]; [lia|].
  assert (p < length (filter (fun v => (v <=? a)%Z) t)).
  { apply IH; [lia|]. intros k Hk. apply (H (S k)). lia. }
  lia.
Qed.

Lemma kth_of_partition : forall x p a, p < length x ->
  (forall k, k <= p -> (x[[k]] <= a)%Z) ->
  (forall k, p < k < length x -> (a <= x[[k]])%Z) ->
  (exists m, m <= p /\ x[[m]] = a) -> is_kth x p a.
Proof.
  intros x p a Hp Hle Hge (m & Hm & Hv). split.
  - apply (count_lt_part a x p m); try assumption. lia.
  - apply count_le_head; assumption.
Qed.

Lemma count_lt_le : forall a x, count_lt a x <= count_le a x.
Proof.
  intros a. induction x as [|h t IH]; unfold count_lt, count_le in *; simpl; [lia|].
  destruct (h <? a)%Z eqn:E1; destruct (h <=? a)%Z eqn:E2; simpl; lia.
Qed.

Lemma count_le_lt_mono : forall a b x, (a < b)%Z -> count_le a x <= count_lt b x.
Proof.
  intros a b x Hab. induction x as [|h t IH]; unfold count_lt, count_le in *; simpl; [lia|].
  destruct (h <=? a)%Z eqn:E1; destruct (h <? b)%Z eqn:E2; simpl; lia.
Qed.

(* the k-th order statistic is unique *)
Lemma is_kth_unique : forall x k a b, is_kth x k a -> is_kth x k b -> a = b.
Proof.
  intros x k a b [A1 A2] [B1 B2].
  destruct (Z.lt_trichotomy a b) as [H|[H|H] ]; [|exact H|].
  - pose proof (count_le_lt_mono a b x H). lia.
  - pose proof (count_le_lt_mono b a x H). lia.
Qed.

(* a k-th order statistic is an element of the list *)
Lemma is_kth_in : forall x k a, is_kth x k a -> In a x.
Proof.
  intros x k a [A B].
  assert (H : count_lt a x < count_le a x) by lia. clear A B.
  induction x as [|h t IH]; unfold count_lt, count_le in *; simpl in *; [lia|].
  destruct (Z.eq_dec h a) as [->|Hne]; [left; reflexivity|]. right. apply IH.
  destruct (h <? a)%Z eqn:E1; destruct (h <=? a)%Z eqn:E2; simpl in H; lia.
Qed.

Lemma is_kthb_spec : forall x k a, is_kthb x k a = true <-> is_kth x k a.
Proof. intros. unfold is_kthb, is_kth. lia. Qed.

(* ---------------------------------------------------------------- outer invariants *)
Record OVal (x : list Z) (il jr : nat) : Prop := {
  ov_left : forall k m, k < il -> il <= m < length x -> (x[[k]] <= x[[m]])%Z;
  ov_right : forall k m, jr < k < length x -> m <= jr -> (x[[m]] <= x[[k]])%Z
}.

Lemma oval_init : forall x, OVal x 0 (length x - 1).
Proof. intros x. constructor; intros k m H1 H2; lia. Qed.

Lemma oval_win : forall x x' il jr, il <= jr -> jr < length x ->
  OVal x il jr -> win_rel il jr x x' -> OVal x' il jr.
Proof.
  intros x x' il jr Hle Hlen [L R] (Len & _ & Out & In). constructor.
  - intros k m Hk Hm. rewrite Len in Hm. rewrite (Out k) by lia.
    destruct (Nat.lt_ge_cases jr m) as [A|A].
    + rewrite (Out m) by lia. apply L; lia.
    + destruct (In m) as (m' & Hm' & E); [lia|]. rewrite E. apply L; lia.
  - intros k m Hk Hm. rewrite Len in Hk. rewrite (Out k) by lia.
    destruct (Nat.lt_ge_cases m il) as [A|A].
    + rewrite (Out m) by lia. apply R; lia.
    + destruct (In m) as (m' & Hm' & E); [lia|]. rewrite E. apply R; lia.
Qed.

Lemma post_kth : forall x il jr a i j, jr < length x ->
  OVal x il jr -> Post x il jr a i j -> is_kth x j a.
Proof.
  intros x il jr a i j Hlen [L R] P. destruct P.
  destruct po_piv as (m & Hm & Hv).
  apply kth_of_partition.
  - lia.
  - intros k Hk. destruct (Nat.lt_ge_cases k il) as [A|A].
    + rewrite <- Hv. apply L; lia.
    + apply po_le_j. lia.
  - intros k Hk. destruct (Nat.lt_ge_cases jr k) as [A|A].
    + rewrite <- Hv. apply R; lia.
    + apply po_ge_j. lia.
  - exists m. split; [lia|exact Hv].
Qed.

Lemma shrink_right : forall x il jr a i j, jr < length x ->
  OVal x il jr -> Post x il jr a i j -> OVal x il j.
Proof.
  intros x il jr a i j Hlen [L R] P. destruct P. constructor.
  - exact L.
  - intros k m Hk Hm. destruct (Nat.lt_ge_cases jr k) as [A|A].
    + apply R; lia.
    + destruct (Nat.lt_ge_cases m il) as [B|B].
      * apply L; lia.
      * specialize (po_le_j m). specialize (po_ge_j k). lia.
Qed.

Lemma shrink_left : forall x il jr a i j, jr < length x ->
  OVal x il jr -> Post x il jr a i j -> OVal x i jr.
Proof.
  intros x il jr a i j Hlen [L R] P. destruct P. constructor.
  - intros k m Hk Hm. destruct (Nat.lt_ge_cases k il) as [A|A].
    + apply L; lia.
    + destruct (Nat.lt_ge_cases jr m) as [B|B].
      * apply R; lia.
      * specialize (po_le_i k). specialize (po_ge_i m). lia.
  - exact R.
Qed.

Lemma single_kth : forall x p, p < length x -> OVal x p p -> is_kth x p x[[p]].
Proof.
  intros x p Hp [L R]. apply kth_of_partition.
  - exact Hp.
  - intros k Hk. destruct (Nat.eq_dec k p) as [->|Hne]; [lia|]. apply L; lia.
  - intros k Hk. apply R; lia.
  - exists p. split; [lia|reflexivity].
Qed.

(* ---------------------------------------------------------------- _pth_element *)
Lemma pth_loop_ok : forall fuel F x p il jr,
  OVal x il jr -> il <= p <= jr -> jr < length x -> length x <= F -> jr - il < fuel ->
  exists x' a, pth_loop fuel F x p il jr = Ok (x', a) /\ Permutation x' x /\ is_kth x' p a.
Proof.
  induction fuel as [|f IH]; intros F x p il jr OV Hp Hlen HF Hfuel; [lia|].
  cbn [pth_loop].
  destruct (pass_ok F x il jr) as [(A & x1 & R & W)|(A & x2 & a & i & j & R & W & P)]; try lia.
  - rewrite R. cbn [bind]. exists x1, (x1[[il]]). split; [reflexivity|].
    destruct W as (Len & Perm & W'). split; [exact Perm|].
    assert (p = il) by lia. subst p. apply single_kth; [lia|].
    replace il with jr at 2 by lia. apply (oval_win x); try lia; [exact OV|].
    split; [exact Len|]. split; [exact Perm|exact W'].
  - rewrite R. cbn [bind].
    assert (Len : length x2 = length x) by (destruct W as (Len & _); exact Len).
    assert (Perm : Permutation x2 x) by (destruct W as (_ & Perm & _); exact Perm).
    assert (OV2 : OVal x2 il jr) by (apply (oval_win x); try lia; assumption).
    assert (Pj := po_jjr _ _ _ _ _ _ P). assert (Pi := po_ili _ _ _ _ _ _ P).
    assert (Pij := po_ij _ _ _ _ _ _ P). assert (Pilj := po_ilj _ _ _ _ _ _ P).
    assert (Pijr := po_ijr _ _ _ _ _ _ P).
    destruct (p <? j) eqn:E1.
    + destruct (IH F x2 p il j) as (x' & a' & R' & Perm' & K); try lia.
      * apply (shrink_right x2 il jr a i j); try lia; assumption.
      * exists x', a'. split; [exact R'|]. split; [|exact K]. eapply Permutation_trans; eassumption.
    + destruct (j <? p) eqn:E2.
      * destruct (IH F x2 p i jr) as (x' & a' & R' & Perm' & K); try lia.
        -- apply (shrink_left x2 il jr a i j); try lia; assumption.
        -- exists x', a'. split; [exact R'|]. split; [|exact K]. eapply Permutation_trans; eassumption.
      * exists x2, a. split; [reflexivity|]. split; [exact Perm|].
        assert (p = j) by lia. subst p. apply (post_kth x2 il jr a i j); try lia; assumption.
Qed.

Lemma pth_element_ok : forall F x p, p < length x -> length x <= F ->
  exists x' a, pth_element F x p = Ok (x', a) /\ Permutation x' x /\ is_kth x p a.
Proof.
  intros F x p Hp HF. unfold pth_element.
  destruct (pth_loop_ok F F x p 0 (length x - 1)) as (x' & a & R & Perm & K); try lia.
  - apply oval_init.
  - exists x', a. split; [exact R|]. split; [exact Perm|]. eapply is_kth_perm; eassumption.
Qed.

(* ---------------------------------------------------------------- _pth_interval *)
Lemma pint_loop_ok : forall fuel F x p il jr am aM s1 s2,
  OVal x il jr -> jr < length x -> length x <= F -> jr - il < fuel ->
  il <= S p <= jr -> (s1 = false -> il <= p) ->
  (s1 = true -> is_kth x p am) -> (s2 = true -> is_kth x (S p) aM) ->
  exists x' am' aM', pint_loop fuel F x p il jr am aM s1 s2 = Ok (x', am', aM') /\
    Permutation x' x /\ is_kth x' p am' /\ is_kth x' (S p) aM'.
Proof.
  induction fuel as [|f IH]; intros F x p il jr am aM s1 s2 OV Hlen HF Hfuel Hw H1 K1 K2; [lia|].
  cbn [pint_loop].
  destruct (s1 && s2) eqn:Es.
  - assert (s1 = true /\ s2 = true) as [E1 E2] by (destruct s1; destruct s2; simpl in Es; auto; discriminate).
    exists x, am, aM. split; [reflexivity|]. split; [apply Permutation_refl|]. split; auto.
  - destruct (pass_ok F x il jr) as [(A & x1 & R & W)|(A & x2 & a & i & j & R & W & P)]; try lia.
    + (* il == jr: only the missing output is assigned *)
      rewrite R. cbn [bind].
      assert (Len : length x1 = length x) by (destruct W as (Len & _); exact Len).
      assert (Perm : Permutation x1 x) by (destruct W as (_ & Perm & _); exact Perm).
      assert (Eil : il = S p) by lia.
      assert (Es1 : s1 = true) by (destruct s1; [reflexivity|specialize (H1 eq_refl); lia]).
      assert (Es2 : s2 = false) by (destruct s2; [subst s1; simpl in Es; discriminate|reflexivity]).
      subst s1 s2.
      exists x1, am, (x1[[il]]). split; [reflexivity|]. split; [exact Perm|]. split.
      * apply (is_kth_perm x); [apply Permutation_sym; exact Perm|auto].
      * rewrite Eil. apply single_kth; [lia|].
        rewrite <- Eil. replace il with jr at 2 by lia. apply (oval_win x); try lia; assumption.
    + rewrite R. cbn [bind].
      assert (Len : length x2 = length x) by (destruct W as (Len & _); exact Len).
      assert (Perm : Permutation x2 x) by (destruct W as (_ & Perm & _); exact Perm).
      assert (OV2 : OVal x2 il jr) by (apply (oval_win x); try lia; assumption).
      assert (Pj := po_jjr _ _ _ _ _ _ P). assert (Pi := po_ili _ _ _ _ _ _ P).
      assert (Pij := po_ij _ _ _ _ _ _ P). assert (Pilj := po_ilj _ _ _ _ _ _ P).
      assert (Pijr := po_ijr _ _ _ _ _ _ P).
      assert (Kj : is_kth x2 j a) by (apply (post_kth x2 il jr a i j); try lia; assumption).
      assert (K1' : s1 = true -> is_kth x2 p am).
      { intros E. apply (is_kth_perm x); [apply Permutation_sym; exact Perm|auto]. }
      assert (K2' : s2 = true -> is_kth x2 (S p) aM).
      { intros E. apply (is_kth_perm x); [apply Permutation_sym; exact Perm|auto]. }
      assert (Fin : forall r, (exists x' am' aM', r = Ok (x', am', aM') /\ Permutation x' x2 /\
                      is_kth x' p am' /\ is_kth x' (S p) aM') ->
                    exists x' am' aM', r = Ok (x', am', aM') /\ Permutation x' x /\
                      is_kth x' p am' /\ is_kth x' (S p) aM').
      { intros r (x' & am' & aM' & Rr & Pr & Ka & Kb). exists x', am', aM'. split; [exact Rr|].
        split; [eapply Permutation_trans; eassumption|]. split; assumption. }
      assert (SR : OVal x2 il j) by (apply (shrink_right x2 il jr a i j); try lia; assumption).
      assert (SL : OVal x2 i jr) by (apply (shrink_left x2 il jr a i j); try lia; assumption).
      destruct (S p <? j) eqn:E1.
      * apply Fin. apply IH; try lia; try assumption.
      * destruct (j <? p) eqn:E2.
        -- apply Fin. apply IH; try lia; try assumption.
        -- destruct (j =? p) eqn:E3.
           ++ assert (Ej : j = p) by lia.
              apply Fin. apply IH; try lia; try assumption;
                try (intros _; subst j; exact Kj).
           ++ assert (Ej : j = S p) by lia.
              apply Fin. apply IH; try lia; try assumption;
                try (intros E; specialize (H1 E); lia);
                try (intros _; subst j; exact Kj).
Qed.

(* _pth_interval, every p + 1 < n (the last pair p = n-2 included) *)
Lemma pth_interval_ok : forall F x p, S p < length x -> length x <= F ->
  exists x' am aM, pth_interval F x p = Ok (x', am, aM) /\ Permutation x' x /\
    is_kth x p am /\ is_kth x (S p) aM.
Proof.
  intros F x p Hp HF. unfold pth_interval.
  destruct (pint_loop_ok F F x p 0 (length x - 1) 0%Z 0%Z false false)
    as (x' & am & aM & R & Perm & Ka & Kb); try lia; try discriminate.
  - apply oval_init.
  - exists x', am, aM. split; [exact R|]. split; [exact Perm|].
    split; eapply is_kth_perm; eassumption.
Qed.
