(* C16 - all-but-axis iteration (PyArray_IterAllButAxis in _quantile.pyx, the
   fffpy multi-iterator): element offsets of an n-d array with arbitrary
   (positive, negative, non-contiguous) strides, and the fibres along one axis. *)
From Coq Require Import ZArith List.
Import ListNotations.

(* offsets (in elements) of all entries, C-order over the multi-index *)
Fixpoint offsets (shape : list nat) (strides : list Z) : list Z :=
  match shape, strides with
  | n :: sh, s :: st =>
      flat_map (fun i => map (fun o => (s * Z.of_nat i + o)%Z) (offsets sh st)) (seq 0 n)
  | _, _ => [0%Z]
  end.

Fixpoint set_axis (shape : list nat) (axis : nat) (v : nat) : list nat :=
  match shape with
  | [] => []
  | n :: sh => match axis with O => v :: sh | S k => n :: set_axis sh k v end
  end.

(* the iterator visits the array with dims[axis] = 1; from each visited entry the
   kernel walks `size = shape[axis]` steps of `stride = strides[axis]` *)
Definition fibres (shape : list nat) (strides : list Z) (axis : nat) : list (list Z) :=
  map (fun o => map (fun j => (o + nth axis strides 0%Z * Z.of_nat j)%Z) (seq 0 (nth axis shape 0)))
      (offsets (set_axis shape axis 1) strides).

(* harness helper: (min, max) offset of every fibre, in iteration order *)
Definition zmin_list (l : list Z) : Z := fold_right Z.min (hd 0%Z l) l.
Definition zmax_list (l : list Z) : Z := fold_right Z.max (hd 0%Z l) l.
Definition fibre_extremes (shape : list nat) (strides : list Z) (axis : nat) : list (Z * Z) :=
  map (fun f => (zmin_list f, zmax_list f)) (fibres shape strides axis).
Fixpoint zpairs_eqb (a b : list (Z * Z)) : bool :=
  match a, b with
  | [], [] => true
  | (u1, u2) :: a', (v1, v2) :: b' => (Z.eqb u1 v1 && Z.eqb u2 v2 && zpairs_eqb a' b')%bool
  | _, _ => false
  end.
