From Coq Require Import List ZArith QArith Qabs Bool Arith Lia Lqa.
From NV.C16 Require Import Blas1Model.
Import ListNotations.

Lemma sq_nonneg : forall a : Q, 0 <= a * a.
Proof.
  intros a. destruct (Qlt_le_dec a 0) as [N|P].
  - setoid_replace (a * a) with ((- a) * (- a)) by ring. apply Qmult_le_0_compat; lra.
  - apply Qmult_le_0_compat; assumption.
Qed.

Lemma abs_sq : forall a : Q, Qabs a * Qabs a == a * a.
Proof.
  intros a. destruct (Qlt_le_dec a 0) as [N|P].
  - rewrite Qabs_neg by lra. ring.
  - rewrite Qabs_pos by lra. ring.
Qed.

Lemma dot_comm : forall x y, qdot x y == qdot y x.
Proof.
  induction x as [|a x IH]; intros [|b y]; simpl; try reflexivity.
  rewrite (IH y). ring.
Qed.

Lemma dot_scal_l : forall c x y, qdot (scal c x) y == c * qdot x y.
Proof.
  intros c. induction x as [|a x IH]; intros [|b y]; simpl; try ring.
  unfold scal in IH. rewrite (IH y). ring.
Qed.

Lemma sumsq_scal : forall c x, qsumsq (scal c x) == c * c * qsumsq x.
Proof.
  intros c. unfold qsumsq. induction x as [|a x IH]; simpl; [ring|].
  unfold scal in IH. rewrite IH. ring.
Qed.

Lemma sumsq_nonneg : forall x, 0 <= qsumsq x.
Proof.
  unfold qsumsq. induction x as [|a x IH]; simpl; [lra|]. pose proof (sq_nonneg a). lra.
Qed.

Lemma sumsq_ge_each : forall x a, In a x -> a * a <= qsumsq x.
Proof.
  unfold qsumsq. induction x as [|b x IH]; intros a H; simpl in *; [contradiction|].
  destruct H as [->|H].
  - pose proof (sumsq_nonneg x) as S. unfold qsumsq in S. lra.
  - pose proof (IH a H). pose proof (sq_nonneg b). lra.
Qed.

Lemma sumsq_le_n_max : forall x m, (forall a, In a x -> a * a <= m) ->
  qsumsq x <= inject_Z (Z.of_nat (length x)) * m.
Proof.
  unfold qsumsq. induction x as [|b x IH]; intros m H.
  - simpl. change (inject_Z 0) with 0. lra.
  - cbn [length qdot]. rewrite Nat2Z.inj_succ. unfold Z.succ. rewrite inject_Z_plus.
    change (inject_Z 1) with 1.
    assert (A : b * b <= m) by (apply H; left; reflexivity).
    assert (B : qdot x x <= inject_Z (Z.of_nat (length x)) * m) by (apply IH; intros a Ha; apply H; right; exact Ha).
    lra.
Qed.

Lemma nrm2_unique : forall r s q, 0 <= r -> 0 <= s -> r * r == q -> s * s == q -> r == s.
Proof.
  intros r s q Hr Hs E1 E2.
  assert (E : (r - s) * (r + s) == 0) by (setoid_replace ((r - s) * (r + s)) with (r * r - s * s) by ring; lra).
  apply Qmult_integral in E. destruct E as [E|E]; lra.
Qed.

Lemma nrm2_scal : forall c x r, is_nrm2 x r -> is_nrm2 (scal c x) (Qabs c * r).
Proof.
  intros c x r [Hr E]. split.
  - apply Qmult_le_0_compat; [apply Qabs_nonneg|exact Hr].
  - rewrite sumsq_scal. rewrite <- E.
    setoid_replace (Qabs c * r * (Qabs c * r)) with ((Qabs c * Qabs c) * (r * r)) by ring.
    rewrite abs_sq. reflexivity.
Qed.

Lemma asum_nonneg : forall x, 0 <= qasum x.
Proof. induction x as [|a x IH]; simpl; [lra|]. pose proof (Qabs_nonneg a). lra. Qed.

Lemma asum_scal : forall c x, qasum (scal c x) == Qabs c * qasum x.
Proof.
  intros c. induction x as [|a x IH]; cbn [qasum scal map]; [ring|].
  unfold scal in IH. rewrite IH. rewrite Qabs_Qmult. ring.
Qed.

(* idamax *)
Lemma Qltb_true : forall a b, Qltb a b = true <-> a < b.
Proof.
  intros a b. unfold Qltb. rewrite negb_true_iff. split.
  - intros H. destruct (Qlt_le_dec a b) as [L|G]; [exact L|]. apply Qle_bool_iff in G. congruence.
  - intros H. destruct (Qle_bool b a) eqn:E; [|reflexivity]. apply Qle_bool_iff in E. lra.
Qed.

Close Scope Q_scope.

Lemma iamax_from_spec : forall x best bi i,
  bi < i ->
  let r := iamax_from best bi i x in
  (r = bi \/ i <= r < i + length x) /\
  (* value at the result *)
  (let v := if Nat.eqb r bi then best else Qabs (nth (r - i) x 0%Q) in
   (best <= v)%Q /\
   (forall j, j < length x -> (Qabs (nth j x 0) <= v)%Q) /\
   (r = bi -> forall j, j < length x -> (Qabs (nth j x 0) <= best)%Q) /\
   (i <= r -> (best < v)%Q /\ forall j, j < r - i -> (Qabs (nth j x 0) < v)%Q)).
Proof.
  induction x as [|a x IH]; intros best bi i Hbi; cbn [iamax_from length].
  - cbv zeta. split; [left; reflexivity|]. rewrite Nat.eqb_refl.
    split; [lra|]. split; [intros j Hj; lia|]. split; [intros _ j Hj; lia|intros H; lia].
  - destruct (Qltb best (Qabs a)) eqn:E.
    + apply Qltb_true in E.
      specialize (IH (Qabs a) i (S i) ltac:(lia)). cbv zeta in IH.
      set (r := iamax_from (Qabs a) i (S i) x) in *.
      destruct IH as (R & V0 & Vall & Vsame & Vlater).
      cbv zeta. split; [right; lia|].
      assert (Hrb : Nat.eqb r bi = false) by (apply Nat.eqb_neq; lia).
      rewrite Hrb.
      destruct (Nat.eqb r i) eqn:Eri.
      * apply Nat.eqb_eq in Eri. rewrite Eri, Nat.sub_diag. cbn [nth].
        split; [lra|]. split.
        -- intros [|j] Hj; cbn [nth]; [lra|]. apply Vall. lia.
        -- split; [intros H; lia|]. intros _. split; [lra|intros j Hj; lia].
      * apply Nat.eqb_neq in Eri. assert (Hr : S i <= r) by lia.
        destruct (Vlater Hr) as (Vl1 & Vl2).
        replace (r - i) with (S (r - S i)) by lia. cbn [nth].
        split; [lra|]. split.
        -- intros [|j] Hj; cbn [nth]; [lra|]. apply Vall. lia.
        -- split; [intros H; lia|]. intros _. split; [lra|].
           intros [|j] Hj; cbn [nth]; [lra|]. apply Vl2. lia.
    + assert (E' : (Qabs a <= best)%Q).
      { destruct (Qlt_le_dec best (Qabs a)) as [L|G]; [apply Qltb_true in L; congruence|exact G]. }
      specialize (IH best bi (S i) ltac:(lia)). cbv zeta in IH.
      set (r := iamax_from best bi (S i) x) in *.
      destruct IH as (R & V0 & Vall & Vsame & Vlater).
      cbv zeta. split; [destruct R as [R|R]; [left; exact R|right; lia]|].
      destruct (Nat.eqb r bi) eqn:Erb.
      * apply Nat.eqb_eq in Erb. split; [lra|]. split.
        -- intros [|j] Hj; cbn [nth]; [exact E'|]. apply Vall. lia.
        -- split; [|intros H; lia].
           intros _ [|j] Hj; cbn [nth]; [exact E'|]. apply Vsame; [exact Erb|lia].
      * apply Nat.eqb_neq in Erb. assert (Hr : S i <= r) by (destruct R; lia).
        destruct (Vlater Hr) as (Vl1 & Vl2).
        replace (r - i) with (S (r - S i)) by lia. cbn [nth].
        split; [lra|]. split.
        -- intros [|j] Hj; cbn [nth]; [lra|]. apply Vall. lia.
        -- split; [intros H; lia|]. intros _. split; [lra|].
           intros [|j] Hj; cbn [nth]; [lra|]. apply Vl2. lia.
Qed.

Lemma iamax_spec : forall x, x <> [] ->
  iamax x < length x /\
  (forall j, j < length x -> (Qabs (nth j x 0) <= Qabs (nth (iamax x) x 0))%Q) /\
  (forall j, j < iamax x -> (Qabs (nth j x 0) < Qabs (nth (iamax x) x 0))%Q).
Proof.
  intros [|a x] H; [congruence|]. cbn [iamax length].
  pose proof (iamax_from_spec x (Qabs a) 0 1 ltac:(lia)) as S. cbv zeta in S.
  set (r := iamax_from (Qabs a) 0 1 x) in *.
  destruct S as (R & V0 & Vall & Vsame & Vlater).
  destruct (Nat.eqb r 0) eqn:E.
  - apply Nat.eqb_eq in E. rewrite E. cbn [nth]. split; [lia|]. split.
    + intros [|j] Hj; cbn [nth]; [lra|]. apply Vsame; [exact E|lia].
    + intros j Hj; lia.
  - apply Nat.eqb_neq in E. assert (Hr : 1 <= r) by lia.
    destruct (Vlater Hr) as (Vl1 & Vl2).
    split; [lia|].
    assert (En : nth r (a :: x) 0%Q = nth (r - 1) x 0%Q).
    { clearbody r. destruct r as [|r']; [lia|]. cbn [nth]. f_equal. lia. }
    rewrite En. split.
    + intros [|j] Hj; cbn [nth]; [lra|]. apply Vall. lia.
    + intros [|j] Hj; cbn [nth]; [lra|]. apply Vl2. lia.
Qed.
