(* C16 (BLAS part) - the row-major -> Fortran (column-major) flag-swap logic of
   lib/fff/fff_blas.c.

   Generated/FffBlas.v holds, for every wrapper fff_blas_<r>, the argument list
   of its single Fortran call as data (macro applied to which C flag, which
   dimension expression, which operand buffer, in which position).  This file
   gives
     (a) reference semantics of the column-major Fortran routines (the
         documented BLAS operation on what Fortran sees: entry (i,j) of an
         array argument with leading dimension ld is buffer[i + j*ld]);
     (b) fff_call: evaluate the GENERATED argument list in an environment of
         C arguments, run the Fortran reference routine, store its result into
         the output buffer (column-major, leading dimension as passed) - the
         caller then reads that buffer row-major;
     (c) the documented row-major results doc_<r> (comments of fff_blas.c).
   Matrices are flat buffers with (size1, size2, tda); a vector is a
   size x 1 matrix whose tda is its stride.  Everything is over an arbitrary
   commutative ring (plus an uninterpreted division used only by the
   triangular solves); instantiated at Z at the end for the correspondence.
   Executable definitions only. *)
From Coq Require Import List Arith Bool ZArith.
From NV.Generated Require Import FffBlas.
Import ListNotations.

Section Blas.
  Variable R : Type.
  Variables (r0 r1 : R) (radd rmul rsub : R -> R -> R) (ropp : R -> R).
  Variable rdiv : R -> R -> R.

  Local Infix "+" := radd.
  Local Infix "*" := rmul.
  Local Infix "-" := rsub.

  (* ---------------------------------------------------------------- entries *)
  Definition fm := nat -> nat -> R.

  Fixpoint sum_n (k : nat) (f : nat -> R) : R :=
    match k with O => r0 | S k' => sum_n k' f + f k' end.

  Definition tp (f : fm) : fm := fun i j => f j i.
  Definition opt (t : bool) (f : fm) : fm := if t then tp f else f.
  Definition mmul (k : nat) (f g : fm) : fm := fun i j => sum_n k (fun l => f i l * g l j).

  (* triangular view: only the uplo triangle is referenced; unit diagonal not referenced *)
  Definition tri (upper unitd : bool) (f : fm) : fm := fun i j =>
    if Nat.eqb i j then (if unitd then r1 else f i j)
    else if (if upper then Nat.ltb i j else Nat.ltb j i) then f i j else r0.

  (* symmetric view from one triangle *)
  Definition sym (upper : bool) (f : fm) : fm := fun i j =>
    if (if upper then Nat.leb i j else Nat.leb j i) then f i j else f j i.

  Definition in_tri (upper : bool) (i j : nat) : bool := if upper then Nat.leb i j else Nat.leb j i.

  (* forward substitution for a lower-triangular system T x = b (entries of T
     above the diagonal are not referenced): x_0 .. x_{n-1} *)
  Fixpoint fwd (T : fm) (b : nat -> R) (n : nat) : list R :=
    match n with
    | O => []
    | S n' => let xs := fwd T b n' in
              xs ++ [rdiv (b n' - sum_n n' (fun l => T n' l * nth l xs r0)) (T n' n')]
    end.
  Definition solve_lower (n : nat) (T : fm) (b : nat -> R) (i : nat) : R := nth i (fwd T b n) r0.
  (* back substitution = forward substitution with both index sets reversed *)
  Definition solve_upper (n : nat) (T : fm) (b : nat -> R) (i : nat) : R :=
    solve_lower n (fun p q => T (n - 1 - p)%nat (n - 1 - q)%nat) (fun p => b (n - 1 - p)%nat) (n - 1 - i)%nat.
  Definition trisolve (upper : bool) (n : nat) (T : fm) (b : nat -> R) (i : nat) : R :=
    if upper then solve_upper n T b i else solve_lower n T b i.

  (* ---------------------------------------------------------------- buffers *)
  Record rmat := { rm_s1 : nat; rm_s2 : nat; rm_tda : nat; rm_data : list R }.

  (* row-major entry, as the C caller reads it *)
  Definition rent (M : rmat) : fm := fun i j => nth (i * rm_tda M + j) (rm_data M) r0.
  (* column-major entry, as Fortran reads an array argument with leading dimension ld *)
  Definition fent (ld : nat) (d : list R) : fm := fun i j => nth (i + j * ld) d r0.
  (* Fortran vector element with increment inc, seen as a 1 x n array with ld = inc *)
  Definition fvec (inc : nat) (d : list R) : nat -> R := fun l => fent inc d 0 l.

  (* Fortran stores the m x n result v into the array with leading dimension ld *)
  Definition fstore (ld m n : nat) (v : fm) (d : list R) : list R :=
    map (fun p => if Nat.ltb (p mod ld) m && Nat.ltb (p / ld) n then v (p mod ld) (p / ld) else nth p d r0)
        (seq 0 (length d)).

  (* row-major tabulation *)
  Definition flat_tab (s1 s2 : nat) (g : fm) : list R :=
    map (fun p => g (p / s2) (p mod s2)) (seq 0 (s1 * s2)).

  (* ---------------------------------------------------------------- Fortran side *)
  Inductive fval := VChar (c : fchar) | VInt (n : nat) | VScal (a : R) | VBuf (o : operand) (d : list R).

  Definition dec_trans (c : fchar) : option bool := match c with fN => Some false | fT => Some true | _ => None end.
  Definition dec_upper (c : fchar) : option bool := match c with fU => Some true | fL => Some false | _ => None end.
  Definition dec_unit (c : fchar) : option bool := match c with fU => Some true | fN => Some false | _ => None end.
  Definition dec_left (c : fchar) : option bool := match c with fL => Some true | fR => Some false | _ => None end.

  (* LDA >= max(1, rows) argument check of the reference routines (else XERBLA) *)
  Definition ld_ok (ld rows : nat) : bool := Nat.leb (Nat.max 1 rows) ld.

  (* what a routine did: array argument `fr_out` (leading dimension fr_ld) had its
     fr_m x fr_n entries overwritten by fr_val *)
  Record fres := { fr_out : operand; fr_ld : nat; fr_m : nat; fr_n : nat; fr_val : fm }.

  (* DGEMV: y := alpha*A*x + beta*y  or  y := alpha*A'*x + beta*y, A m x n *)
  Definition f_dgemv (args : list fval) : option fres :=
    match args with
    | [VChar ct; VInt m; VInt n; VScal alpha; VBuf _ a; VInt lda; VBuf _ x; VInt incx; VScal beta;
       VBuf oy y; VInt incy] =>
      match dec_trans ct with
      | Some t =>
        if ld_ok lda m && negb (Nat.eqb incx 0) && negb (Nat.eqb incy 0) then
          let leny := if t then n else m in
          let lenx := if t then m else n in
          let A := opt t (fent lda a) in
          Some {| fr_out := oy; fr_ld := incy; fr_m := 1; fr_n := leny;
                  fr_val := fun _ j => alpha * sum_n lenx (fun l => A j l * fvec incx x l) + beta * fvec incy y j |}
        else None
      | None => None
      end
    | _ => None
    end.

  (* DTRSV: solves op(A)*x = b, b given in x, x overwritten *)
  Definition f_dtrsv (args : list fval) : option fres :=
    match args with
    | [VChar cu; VChar ct; VChar cd; VInt n; VBuf _ a; VInt lda; VBuf ox x; VInt incx] =>
      match dec_upper cu, dec_trans ct, dec_unit cd with
      | Some u, Some t, Some d =>
        if ld_ok lda n && negb (Nat.eqb incx 0) then
          Some {| fr_out := ox; fr_ld := incx; fr_m := 1; fr_n := n;
                  fr_val := fun _ j => trisolve (xorb u t) n (opt t (tri u d (fent lda a))) (fvec incx x) j |}
        else None
      | _, _, _ => None
      end
    | _ => None
    end.

  (* DGEMM: C := alpha*op(A)*op(B) + beta*C, op(A) m x k, op(B) k x n *)
  Definition f_dgemm (args : list fval) : option fres :=
    match args with
    | [VChar cta; VChar ctb; VInt m; VInt n; VInt k; VScal alpha; VBuf _ a; VInt lda; VBuf _ b; VInt ldb;
       VScal beta; VBuf oc c; VInt ldc] =>
      match dec_trans cta, dec_trans ctb with
      | Some ta, Some tb =>
        if ld_ok lda (if ta then k else m) && ld_ok ldb (if tb then n else k) && ld_ok ldc m then
          Some {| fr_out := oc; fr_ld := ldc; fr_m := m; fr_n := n;
                  fr_val := fun i j => alpha * mmul k (opt ta (fent lda a)) (opt tb (fent ldb b)) i j
                                       + beta * fent ldc c i j |}
        else None
      | _, _ => None
      end
    | _ => None
    end.

  (* DSYMM: C := alpha*A*B + beta*C (side L, A m x m) or alpha*B*A + beta*C (side R, A n x n) *)
  Definition f_dsymm (args : list fval) : option fres :=
    match args with
    | [VChar cs; VChar cu; VInt m; VInt n; VScal alpha; VBuf _ a; VInt lda; VBuf _ b; VInt ldb;
       VScal beta; VBuf oc c; VInt ldc] =>
      match dec_left cs, dec_upper cu with
      | Some l, Some u =>
        if ld_ok lda (if l then m else n) && ld_ok ldb m && ld_ok ldc m then
          let S := sym u (fent lda a) in
          let B := fent ldb b in
          Some {| fr_out := oc; fr_ld := ldc; fr_m := m; fr_n := n;
                  fr_val := fun i j => alpha * (if l then mmul m S B i j else mmul n B S i j)
                                       + beta * fent ldc c i j |}
        else None
      | _, _ => None
      end
    | _ => None
    end.

  (* DTRMM: B := alpha*op(A)*B (side L) or alpha*B*op(A) (side R), B m x n *)
  Definition f_dtrmm (args : list fval) : option fres :=
    match args with
    | [VChar cs; VChar cu; VChar ct; VChar cd; VInt m; VInt n; VScal alpha; VBuf _ a; VInt lda;
       VBuf ob b; VInt ldb] =>
      match dec_left cs, dec_upper cu, dec_trans ct, dec_unit cd with
      | Some l, Some u, Some t, Some d =>
        if ld_ok lda (if l then m else n) && ld_ok ldb m then
          let T := opt t (tri u d (fent lda a)) in
          let B := fent ldb b in
          Some {| fr_out := ob; fr_ld := ldb; fr_m := m; fr_n := n;
                  fr_val := fun i j => alpha * (if l then mmul m T B i j else mmul n B T i j) |}
        else None
      | _, _, _, _ => None
      end
    | _ => None
    end.

  (* DTRSM: solves op(A)*X = alpha*B (side L) or X*op(A) = alpha*B (side R), X overwrites B *)
  Definition f_dtrsm (args : list fval) : option fres :=
    match args with
    | [VChar cs; VChar cu; VChar ct; VChar cd; VInt m; VInt n; VScal alpha; VBuf _ a; VInt lda;
       VBuf ob b; VInt ldb] =>
      match dec_left cs, dec_upper cu, dec_trans ct, dec_unit cd with
      | Some l, Some u, Some t, Some d =>
        if ld_ok lda (if l then m else n) && ld_ok ldb m then
          let T := opt t (tri u d (fent lda a)) in
          let B := fent ldb b in
          Some {| fr_out := ob; fr_ld := ldb; fr_m := m; fr_n := n;
                  fr_val := fun i j =>
                    if l then trisolve (xorb u t) m T (fun r => alpha * B r j) i
                    else trisolve (negb (xorb u t)) n (tp T) (fun r => alpha * B i r) j |}
        else None
      | _, _, _, _ => None
      end
    | _ => None
    end.

  (* DSYRK: C := alpha*A*A' + beta*C (trans N, A n x k) or alpha*A'*A + beta*C (trans T, A k x n);
     only the uplo triangle of C is referenced and updated *)
  Definition f_dsyrk (args : list fval) : option fres :=
    match args with
    | [VChar cu; VChar ct; VInt n; VInt k; VScal alpha; VBuf _ a; VInt lda; VScal beta; VBuf oc c; VInt ldc] =>
      match dec_upper cu, dec_trans ct with
      | Some u, Some t =>
        if ld_ok lda (if t then k else n) && ld_ok ldc n then
          let A := opt t (fent lda a) in
          Some {| fr_out := oc; fr_ld := ldc; fr_m := n; fr_n := n;
                  fr_val := fun i j => if in_tri u i j
                                       then alpha * mmul k A (tp A) i j + beta * fent ldc c i j
                                       else fent ldc c i j |}
        else None
      | _, _ => None
      end
    | _ => None
    end.

  (* DSYR2K: C := alpha*A*B' + alpha*B*A' + beta*C (N) or alpha*A'*B + alpha*B'*A + beta*C (T) *)
  Definition f_dsyr2k (args : list fval) : option fres :=
    match args with
    | [VChar cu; VChar ct; VInt n; VInt k; VScal alpha; VBuf _ a; VInt lda; VBuf _ b; VInt ldb;
       VScal beta; VBuf oc c; VInt ldc] =>
      match dec_upper cu, dec_trans ct with
      | Some u, Some t =>
        if ld_ok lda (if t then k else n) && ld_ok ldb (if t then k else n) && ld_ok ldc n then
          let A := opt t (fent lda a) in
          let B := opt t (fent ldb b) in
          Some {| fr_out := oc; fr_ld := ldc; fr_m := n; fr_n := n;
                  fr_val := fun i j => if in_tri u i j
                                       then alpha * mmul k A (tp B) i j + alpha * mmul k B (tp A) i j
                                            + beta * fent ldc c i j
                                       else fent ldc c i j |}
        else None
      | _, _ => None
      end
    | _ => None
    end.

  Definition f_exec (r : froutine) : list fval -> option fres :=
    match r with
    | F_dgemv => f_dgemv | F_dtrsv => f_dtrsv | F_dgemm => f_dgemm | F_dsymm => f_dsymm
    | F_dtrmm => f_dtrmm | F_dtrsm => f_dtrsm | F_dsyrk => f_dsyrk | F_dsyr2k => f_dsyr2k
    end.

  (* ---------------------------------------------------------------- the C wrapper *)
  Record env := { e_flag : cparam -> cflag; e_scal : scalar -> R; e_op : operand -> rmat }.

  Definition cflag_eqb (a b : cflag) : bool :=
    match a, b with
    | CblasRowMajor, CblasRowMajor | CblasColMajor, CblasColMajor | CblasNoTrans, CblasNoTrans
    | CblasTrans, CblasTrans | CblasConjTrans, CblasConjTrans | CblasUpper, CblasUpper
    | CblasLower, CblasLower | CblasNonUnit, CblasNonUnit | CblasUnit, CblasUnit
    | CblasLeft, CblasLeft | CblasRight, CblasRight => true
    | _, _ => false
    end.

  Fixpoint eval_dim (e : env) (d : dimexpr) : nat :=
    match d with
    | DSize1 o => rm_s1 (e_op e o)
    | DSize2 o => rm_s2 (e_op e o)
    | DTda o => rm_tda (e_op e o)
    | DVSize o => rm_s1 (e_op e o)
    | DStride o => rm_tda (e_op e o)
    | DIfEq p c a b => if cflag_eqb (e_flag e p) c then eval_dim e a else eval_dim e b
    end.

  Definition eval_arg (e : env) (a : farg) : fval :=
    match a with
    | AChar m p => VChar (mac_apply m (e_flag e p))
    | AInt d => VInt (eval_dim e d)
    | AScal s => VScal (e_scal e s)
    | ABuf o => VBuf o (rm_data (e_op e o))
    end.

  (* result: which operand was overwritten, and its new buffer (None: XERBLA argument error) *)
  Definition fff_call (c : fcall) (e : env) : option (operand * list R) :=
    match f_exec (fc_routine c) (map (eval_arg e) (fc_args c)) with
    | Some r => Some (fr_out r, fstore (fr_ld r) (fr_m r) (fr_n r) (fr_val r) (rm_data (e_op e (fr_out r))))
    | None => None
    end.

  (* environments for the wrappers' C signatures *)
  Definition nomat : rmat := {| rm_s1 := 0; rm_s2 := 0; rm_tda := 0; rm_data := [] |}.
  Definition scal_env (alpha beta : R) (s : scalar) : R := match s with SAlpha => alpha | SBeta => beta end.

  Definition env_dgemv (ta : cflag) (alpha : R) (A x : rmat) (beta : R) (y : rmat) : env :=
    {| e_flag := fun _ => ta; e_scal := scal_env alpha beta;
       e_op := fun o => match o with OpA => A | OpX => x | OpY => y | _ => nomat end |}.
  Definition env_dtrsv (u ta d : cflag) (A x : rmat) : env :=
    {| e_flag := fun p => match p with PUplo => u | PDiag => d | _ => ta end; e_scal := scal_env r0 r0;
       e_op := fun o => match o with OpA => A | OpX => x | _ => nomat end |}.
  Definition env_dgemm (ta tb : cflag) (alpha : R) (A B : rmat) (beta : R) (C : rmat) : env :=
    {| e_flag := fun p => match p with PTransB => tb | _ => ta end; e_scal := scal_env alpha beta;
       e_op := fun o => match o with OpA => A | OpB => B | OpC => C | _ => nomat end |}.
  Definition env_dsymm (s u : cflag) (alpha : R) (A B : rmat) (beta : R) (C : rmat) : env :=
    {| e_flag := fun p => match p with PSide => s | _ => u end; e_scal := scal_env alpha beta;
       e_op := fun o => match o with OpA => A | OpB => B | OpC => C | _ => nomat end |}.
  Definition env_dtrxm (s u ta d : cflag) (alpha : R) (A B : rmat) : env :=
    {| e_flag := fun p => match p with PSide => s | PUplo => u | PDiag => d | _ => ta end;
       e_scal := scal_env alpha r0;
       e_op := fun o => match o with OpA => A | OpB => B | _ => nomat end |}.
  Definition env_dsyrk (u t : cflag) (alpha : R) (A : rmat) (beta : R) (C : rmat) : env :=
    {| e_flag := fun p => match p with PUplo => u | _ => t end; e_scal := scal_env alpha beta;
       e_op := fun o => match o with OpA => A | OpC => C | _ => nomat end |}.
  Definition env_dsyr2k (u t : cflag) (alpha : R) (A B : rmat) (beta : R) (C : rmat) : env :=
    {| e_flag := fun p => match p with PUplo => u | _ => t end; e_scal := scal_env alpha beta;
       e_op := fun o => match o with OpA => A | OpB => B | OpC => C | _ => nomat end |}.

  (* ---------------------------------------------------------------- documented row-major results *)
  (* C flags as the documentation reads them *)
  Definition is_tr (f : cflag) : bool := negb (cflag_eqb f CblasNoTrans).   (* Trans, ConjTrans: op(A) = A^T *)
  Definition is_up (f : cflag) : bool := cflag_eqb f CblasUpper.
  Definition is_un (f : cflag) : bool := cflag_eqb f CblasUnit.
  Definition is_lf (f : cflag) : bool := cflag_eqb f CblasLeft.

  Definition doc_tab (M : rmat) (g : fm) : list R := flat_tab (rm_s1 M) (rm_s2 M) g.

  (* y = alpha op(A) x + beta y ; vectors are size x 1 *)
  Definition doc_dgemv (ta : cflag) (alpha : R) (A x : rmat) (beta : R) (y : rmat) : list R :=
    let lenx := if is_tr ta then rm_s1 A else rm_s2 A in
    doc_tab y (fun i _ => alpha * sum_n lenx (fun l => opt (is_tr ta) (rent A) i l * rent x l 0) + beta * rent y i 0).

  (* x = inv(op(A)) x by substitution *)
  Definition doc_dtrsv (u ta d : cflag) (A x : rmat) : list R :=
    doc_tab x (fun i _ => trisolve (xorb (is_up u) (is_tr ta)) (rm_s1 A)
                                   (opt (is_tr ta) (tri (is_up u) (is_un d) (rent A))) (fun r => rent x r 0) i).

  (* C = alpha op(A) op(B) + beta C *)
  Definition doc_dgemm (ta tb : cflag) (alpha : R) (A B : rmat) (beta : R) (C : rmat) : list R :=
    let k := if is_tr ta then rm_s1 A else rm_s2 A in
    doc_tab C (fun i j => alpha * mmul k (opt (is_tr ta) (rent A)) (opt (is_tr tb) (rent B)) i j + beta * rent C i j).

  (* C = alpha A B + beta C (Left) / alpha B A + beta C (Right), A symmetric from its uplo triangle *)
  Definition doc_dsymm (s u : cflag) (alpha : R) (A B : rmat) (beta : R) (C : rmat) : list R :=
    let S := sym (is_up u) (rent A) in
    doc_tab C (fun i j => alpha * (if is_lf s then mmul (rm_s1 C) S (rent B) i j else mmul (rm_s2 C) (rent B) S i j)
                          + beta * rent C i j).

  (* B = alpha op(A) B (Left) / alpha B op(A) (Right), A triangular *)
  Definition doc_dtrmm (s u ta d : cflag) (alpha : R) (A B : rmat) : list R :=
    let T := opt (is_tr ta) (tri (is_up u) (is_un d) (rent A)) in
    doc_tab B (fun i j => alpha * (if is_lf s then mmul (rm_s1 B) T (rent B) i j else mmul (rm_s2 B) (rent B) T i j)).

  (* B = alpha inv(op(A)) B (Left) / alpha B inv(op(A)) (Right), by substitution *)
  Definition doc_dtrsm (s u ta d : cflag) (alpha : R) (A B : rmat) : list R :=
    let T := opt (is_tr ta) (tri (is_up u) (is_un d) (rent A)) in
    let up := xorb (is_up u) (is_tr ta) in
    doc_tab B (fun i j => if is_lf s then trisolve up (rm_s1 B) T (fun r => alpha * rent B r j) i
                          else trisolve (negb up) (rm_s2 B) (tp T) (fun r => alpha * rent B i r) j).

  (* C = alpha A A^T + beta C (NoTrans) / alpha A^T A + beta C (Trans) on the uplo triangle of C;
     the other triangle is left as it was *)
  Definition doc_dsyrk (u t : cflag) (alpha : R) (A : rmat) (beta : R) (C : rmat) : list R :=
    let k := if is_tr t then rm_s1 A else rm_s2 A in
    let Ao := opt (is_tr t) (rent A) in
    doc_tab C (fun i j => if in_tri (is_up u) i j then alpha * mmul k Ao (tp Ao) i j + beta * rent C i j
                          else rent C i j).

  Definition doc_dsyr2k (u t : cflag) (alpha : R) (A B : rmat) (beta : R) (C : rmat) : list R :=
    let k := if is_tr t then rm_s1 A else rm_s2 A in
    let Ao := opt (is_tr t) (rent A) in
    let Bo := opt (is_tr t) (rent B) in
    doc_tab C (fun i j => if in_tri (is_up u) i j
                          then alpha * mmul k Ao (tp Bo) i j + alpha * mmul k Bo (tp Ao) i j + beta * rent C i j
                          else rent C i j).
End Blas.

Arguments rm_s1 {R} r.
Arguments rm_s2 {R} r.
Arguments rm_tda {R} r.
Arguments rm_data {R} r.
Arguments Build_rmat {R} rm_s1 rm_s2 rm_tda rm_data.

(* ---------------------------------------------------------------- Z instance (correspondence) *)
Definition zrmat := rmat Z.
(* contiguous row-major matrix / stride-1 vector *)
Definition zm (s1 s2 : nat) (d : list Z) : zrmat := Build_rmat s1 s2 s2 d.
Definition zv (d : list Z) : zrmat := Build_rmat (length d) 1 1 d.
Definition zfff_call := fff_call Z 0%Z 1%Z Z.add Z.mul Z.sub Z.div.

Definition zcall_dgemv ta alpha A x beta y := zfff_call fff_blas_dgemv_call (env_dgemv Z ta alpha A x beta y).
Definition zcall_dtrsv u ta d A x := zfff_call fff_blas_dtrsv_call (env_dtrsv Z 0%Z u ta d A x).
Definition zcall_dgemm ta tb alpha A B beta C := zfff_call fff_blas_dgemm_call (env_dgemm Z ta tb alpha A B beta C).
Definition zcall_dsymm s u alpha A B beta C := zfff_call fff_blas_dsymm_call (env_dsymm Z s u alpha A B beta C).
Definition zcall_dtrmm s u ta d alpha A B := zfff_call fff_blas_dtrmm_call (env_dtrxm Z 0%Z s u ta d alpha A B).
Definition zcall_dtrsm s u ta d alpha A B := zfff_call fff_blas_dtrsm_call (env_dtrxm Z 0%Z s u ta d alpha A B).
Definition zcall_dsyrk u t alpha A beta C := zfff_call fff_blas_dsyrk_call (env_dsyrk Z u t alpha A beta C).
Definition zcall_dsyr2k u t alpha A B beta C := zfff_call fff_blas_dsyr2k_call (env_dsyr2k Z u t alpha A B beta C).

Definition zdoc_dgemm := doc_dgemm Z 0%Z Z.add Z.mul.
Definition zdoc_dsyrk := doc_dsyrk Z 0%Z Z.add Z.mul.

Fixpoint zl_eqb (a b : list Z) : bool :=
  match a, b with
  | [], [] => true
  | x :: a', y :: b' => Z.eqb x y && zl_eqb a' b'
  | _, _ => false
  end.
Definition operand_eqb (a b : operand) : bool :=
  match a, b with OpA, OpA | OpB, OpB | OpC, OpC | OpX, OpX | OpY, OpY => true | _, _ => false end.
(* the call overwrote operand o with buffer d *)
Definition zres_is (r : option (operand * list Z)) (o : operand) (d : list Z) : bool :=
  match r with Some (o', d') => operand_eqb o o' && zl_eqb d' d | None => false end.
