(* C16 - lemmas: checked memory, swaps, window relation, scans, inner loop. *)
From Coq Require Import ZArith List Bool Arith Lia ZifyBool Permutation.
From NV.C16 Require Import Model.
Import ListNotations.

Local Notation "x '[[' k ']]'" := (nth k x 0%Z) (at level 9).

(* ---------------------------------------------------------------- upd *)
Lemma upd_length : forall x k v, length (upd k v x) = length x.
Proof.
  induction x as [|h t IH]; intros k v; simpl; [reflexivity|].
  destruct k; simpl; [reflexivity|]. now rewrite IH.
Qed.

Lemma nth_upd : forall x k v m, k < length x ->
  nth m (upd k v x) 0%Z = if m =? k then v else nth m x 0%Z.
Proof.
  induction x as [|h t IH]; intros k v m Hk; simpl in Hk; [lia|].
  destruct k as [|k]; destruct m as [|m]; simpl; try reflexivity.
  rewrite IH by lia. reflexivity.
Qed.

Lemma rd_ok : forall x k, k < length x -> rd x k = Ok (nth k x 0%Z).
Proof. intros x k H. unfold rd. destruct (k <? length x) eqn:E; [reflexivity|lia]. Qed.

Lemma wr_ok : forall x k v, k < length x -> wr x k v = Ok (upd k v x).
Proof. intros x k v H. unfold wr. destruct (k <? length x) eqn:E; [reflexivity|lia]. Qed.

Definition swapl (i j : nat) (x : list Z) : list Z := upd j (nth i x 0%Z) (upd i (nth j x 0%Z) x).

Lemma swap_ok : forall x i j, i < length x -> j < length x -> swap x i j = Ok (swapl i j x).
Proof.
  intros x i j Hi Hj. unfold swap. rewrite (rd_ok x i Hi), (rd_ok x j Hj). simpl.
  rewrite (wr_ok x i _ Hi). simpl. rewrite wr_ok by (rewrite upd_length; exact Hj). reflexivity.
Qed.

Lemma swapl_length : forall i j x, length (swapl i j x) = length x.
Proof. intros. unfold swapl. now rewrite !upd_length. Qed.

Lemma nth_swapl : forall x i j m, i < length x -> j < length x ->
  nth m (swapl i j x) 0%Z = if m =? j then nth i x 0%Z else if m =? i then nth j x 0%Z else nth m x 0%Z.
Proof.
  intros x i j m Hi Hj. unfold swapl. rewrite nth_upd by (rewrite upd_length; exact Hj).
  destruct (m =? j) eqn:E; [reflexivity|]. rewrite nth_upd by exact Hi. reflexivity.
Qed.

(* upd as firstn/skipn, for the permutation *)
Lemma upd_split : forall x k v, k < length x ->
  upd k v x = firstn k x ++ v :: skipn (S k) x.
Proof.
  induction x as [|h t IH]; intros k v Hk; simpl in Hk; [lia|].
  destruct k as [|k]; simpl; [reflexivity|]. f_equal. apply IH. lia.
Qed.

Lemma split_nth : forall (x : list Z) k, k < length x ->
  x = firstn k x ++ nth k x 0%Z :: skipn (S k) x.
Proof.
  induction x as [|h t IH]; intros k Hk; simpl in Hk; [lia|].
  destruct k as [|k]; simpl; [reflexivity|]. f_equal. apply IH. lia.
Qed.

Lemma nth_skipn' : forall (l : list Z) n m, nth m (skipn n l) 0%Z = nth (n + m) l 0%Z.
Proof.
  induction l as [|h t IH]; intros n m; destruct n; simpl; try reflexivity.
  - destruct m; reflexivity.
  - apply IH.
Qed.

Lemma nth_firstn' : forall (l : list Z) n m, m < n -> nth m (firstn n l) 0%Z = nth m l 0%Z.
Proof.
  induction l as [|h t IH]; intros n m H; destruct n; simpl; try reflexivity; try lia.
  destruct m; [reflexivity|]. apply IH. lia.
Qed.

Lemma swapl_perm : forall x i j, i < length x -> j < length x -> Permutation (swapl i j x) x.
Proof.
  intros x i j Hi Hj.
  destruct (Nat.eq_dec i j) as [->|Hne].
  - unfold swapl.
    assert (E : upd j x[[j]] (upd j x[[j]] x) = x).
    { apply nth_ext with (d := 0%Z) (d' := 0%Z).
      - now rewrite !upd_length.
      - intros m Hm. rewrite nth_upd by (rewrite upd_length; exact Hj). rewrite nth_upd by exact Hj.
        destruct (m =? j) eqn:E; [|reflexivity]. apply Nat.eqb_eq in E. now subst. }
    rewrite E. apply Permutation_refl.
  - (* general: use NoDup-free argument through nth_ext on a transposition of a 3-way split *)
    assert (W : forall a b (l : list Z), a < b -> b < length l -> Permutation (swapl a b l) l).
    { clear. intros a b l Hab Hb.
      assert (Ha : a < length l) by lia.
      rewrite (split_nth l a Ha) at 2.
      set (t := skipn (S a) l).
      assert (Ht : b - S a < length t) by (unfold t; rewrite skipn_length; lia).
      rewrite (split_nth t (b - S a) Ht).
      assert (Enb : nth (b - S a) t 0%Z = nth b l 0%Z).
      { unfold t. rewrite nth_skipn'. f_equal. lia. }
      assert (E : swapl a b l =
                  firstn a l ++ nth b l 0%Z :: firstn (b - S a) t ++ nth a l 0%Z :: skipn (S (b - S a)) t).
      { apply nth_ext with (d := 0%Z) (d' := 0%Z).
        - rewrite swapl_length. rewrite (split_nth l a Ha) at 1. fold t.
          rewrite (split_nth t (b - S a) Ht) at 1. rewrite !app_length. simpl. rewrite !app_length. simpl. lia.
        - intros m Hm. rewrite swapl_length in Hm. rewrite nth_swapl by assumption.
          assert (Lf : length (firstn a l) = a) by (rewrite firstn_length; lia).
          assert (Lf2 : length (firstn (b - S a) t) = b - S a) by (rewrite firstn_length; lia).
          destruct (m =? b) eqn:Emb.
          + apply Nat.eqb_eq in Emb. subst m.
            rewrite app_nth2 by lia. rewrite Lf.
            replace (b - a) with (S (b - S a)) by lia. cbn [nth].
            rewrite app_nth2 by lia. rewrite Lf2. now rewrite Nat.sub_diag.
          + destruct (m =? a) eqn:Ema.
            * apply Nat.eqb_eq in Ema. subst m. rewrite app_nth2 by lia. rewrite Lf, Nat.sub_diag. reflexivity.
            * destruct (Nat.lt_ge_cases m a) as [Hlt|Hge].
              -- rewrite app_nth1 by lia. rewrite nth_firstn' by lia. reflexivity.
              -- rewrite app_nth2 by lia. rewrite Lf.
                 assert (m <> a) by (intro; subst; lia).
                 destruct (m - a) as [|d] eqn:Ed; [lia|]. cbn [nth].
                 destruct (Nat.lt_ge_cases d (b - S a)) as [Hd|Hd].
                 ++ rewrite app_nth1 by lia. rewrite nth_firstn' by lia.
                    unfold t. rewrite nth_skipn'. f_equal. lia.
                 ++ rewrite app_nth2 by lia. rewrite Lf2.
                    assert (m <> b) by (intro; subst; lia).
                    destruct (d - (b - S a)) as [|e] eqn:Ee; [lia|]. cbn [nth].
                    rewrite nth_skipn'. unfold t. rewrite nth_skipn'. f_equal. lia. }
      rewrite E, Enb.
      apply Permutation_app_head.
      (* nb :: A ++ na :: B  ~  na :: A ++ nb :: B *)
      etransitivity; [apply perm_skip; symmetry; apply Permutation_middle|].
      etransitivity; [apply perm_swap|].
      apply perm_skip. apply Permutation_middle. }
    destruct (Nat.lt_ge_cases i j) as [Hlt|Hge].
    + apply W; assumption.
    + assert (Hji : j < i) by lia.
      assert (E : swapl i j x = swapl j i x).
      { apply nth_ext with (d := 0%Z) (d' := 0%Z); [now rewrite !swapl_length|].
        intros m Hm. rewrite !nth_swapl by assumption.
        destruct (m =? j) eqn:E1; destruct (m =? i) eqn:E2; try reflexivity. lia. }
      rewrite E. apply W; assumption.
Qed.

(* ---------------------------------------------------------------- window relation *)
(* x' arises from x by rearranging entries inside [il..jr] only *)
Definition win_rel (il jr : nat) (x x' : list Z) : Prop :=
  length x' = length x /\ Permutation x' x /\
  (forall k, k < il \/ jr < k -> x'[[k]] = x[[k]]) /\
  (forall m, il <= m <= jr -> exists m', il <= m' <= jr /\ x'[[m]] = x[[m']]).

Lemma win_refl : forall il jr x, win_rel il jr x x.
Proof.
  intros. repeat split; auto. intros m Hm. exists m. split; [lia|reflexivity].
Qed.

Lemma win_trans : forall il jr x y z, win_rel il jr x y -> win_rel il jr y z -> win_rel il jr x z.
Proof.
  intros il jr x y z (L1 & P1 & O1 & I1) (L2 & P2 & O2 & I2).
  split; [congruence|]. split; [eapply Permutation_trans; eassumption|]. split.
  - intros k Hk. rewrite O2, O1 by assumption. reflexivity.
  - intros m Hm. destruct (I2 m Hm) as (m1 & Hm1 & E1). destruct (I1 m1 Hm1) as (m2 & Hm2 & E2).
    exists m2. split; [assumption|congruence].
Qed.

Lemma win_swap : forall il jr x i j, il <= i <= jr -> il <= j <= jr -> jr < length x ->
  win_rel il jr x (swapl i j x).
Proof.
  intros il jr x i j Hi Hj Hn.
  assert (Hil : i < length x) by lia. assert (Hjl : j < length x) by lia.
  split; [apply swapl_length|]. split; [apply swapl_perm; assumption|]. split.
  - intros k Hk. rewrite nth_swapl by assumption.
    destruct (k =? j) eqn:E1; [lia|]. destruct (k =? i) eqn:E2; [lia|]. reflexivity.
  - intros m Hm. rewrite nth_swapl by assumption.
    destruct (m =? j) eqn:E1; [exists i; split; [lia|reflexivity]|].
    destruct (m =? i) eqn:E2; [exists j; split; [lia|reflexivity]|].
    exists m. split; [lia|reflexivity].
Qed.

(* widening the window keeps the relation *)
Lemma win_widen : forall il jr il' jr' x y, il' <= il -> jr <= jr' ->
  win_rel il jr x y -> win_rel il' jr' x y.
Proof.
  intros il jr il' jr' x y H1 H2 (L & P & O & I).
  split; [exact L|]. split; [exact P|]. split.
  - intros k Hk. apply O. lia.
  - intros m Hm. destruct (Nat.lt_ge_cases m il) as [A|A].
    + exists m. split; [lia|]. apply O. lia.
    + destruct (Nat.lt_ge_cases jr m) as [B|B].
      * exists m. split; [lia|]. apply O. lia.
      * destruct (I m) as (m' & Hm' & E); [lia|]. exists m'. split; [lia|exact E].
Qed.

(* ---------------------------------------------------------------- scans *)
Lemma scan_up_ok : forall fuel x a i s,
  i <= s -> s < length x -> (a <= x[[s]])%Z -> s - i < fuel ->
  exists i1, scan_up fuel x a i = Ok i1 /\ i <= i1 <= s /\ (a <= x[[i1]])%Z /\
             (forall k, i <= k < i1 -> (x[[k]] < a)%Z).
Proof.
  induction fuel as [|f IH]; intros x a i s His Hs Hsent Hf; [lia|].
  simpl. rewrite rd_ok by lia. simpl.
  destruct (x[[i]] <? a)%Z eqn:E.
  - assert (i <> s) by (intro; subst; lia).
    destruct (IH x a (S i) s) as (i1 & R & B & V & Q); try lia.
    exists i1. split; [exact R|]. split; [lia|]. split; [exact V|].
    intros k Hk. destruct (Nat.eq_dec k i) as [->|Hne]; [lia|]. apply Q. lia.
  - exists i. split; [reflexivity|]. split; [lia|]. split; [lia|]. intros k Hk. lia.
Qed.

Lemma scan_down_ok : forall fuel x a j s,
  s <= j -> j < length x -> (x[[s]] <= a)%Z -> j - s < fuel ->
  exists j1, scan_down fuel x a j = Ok j1 /\ s <= j1 <= j /\ (x[[j1]] <= a)%Z /\
             (forall k, j1 < k <= j -> (a < x[[k]])%Z).
Proof.
  induction fuel as [|f IH]; intros x a j s Hsj Hj Hsent Hf; [lia|].
  simpl. rewrite rd_ok by lia. simpl.
  destruct (a <? x[[j]])%Z eqn:E.
  - assert (j <> s) by (intro; subst; lia).
    destruct j as [|j']; [lia|].
    destruct (IH x a j' s) as (j1 & R & B & V & Q); try lia.
    exists j1. split; [exact R|]. split; [lia|]. split; [exact V|].
    intros k Hk. destruct (Nat.eq_dec k (S j')) as [->|Hne]; [lia|]. apply Q. lia.
  - exists j. split; [reflexivity|]. split; [lia|]. split; [lia|]. intros k Hk. lia.
Qed.

(* ---------------------------------------------------------------- inner loop *)
Record IInv (x : list Z) (il jr : nat) (same : bool) (a : Z) (i j : nat) : Prop := {
  ii_il : il < i;
  ii_ij : i <= S j;
  ii_ijr : i <= jr;
  ii_jr : j <= jr;
  ii_len : jr < length x;
  ii_a : x[[il]] = a;
  ii_lo : forall k, il <= k < i -> (x[[k]] <= a)%Z;
  ii_hi : forall k, j < k <= jr -> (a <= x[[k]])%Z;
  ii_sent : (a <= x[[jr]])%Z;
  ii_strict : same = false -> j = jr -> (a < x[[jr]])%Z
}.

(* what the inner loop establishes *)
Record Post (x : list Z) (il jr : nat) (a : Z) (i j : nat) : Prop := {
  po_ilj : il <= j;
  po_jjr : j < jr;
  po_ili : il < i;
  po_ijr : i <= jr;
  po_ji : j <= i;
  po_ij : i <= S j;
  po_le_j : forall k, il <= k <= j -> (x[[k]] <= a)%Z;
  po_ge_j : forall k, j < k <= jr -> (a <= x[[k]])%Z;
  po_le_i : forall k, il <= k < i -> (x[[k]] <= a)%Z;
  po_ge_i : forall k, i <= k <= jr -> (a <= x[[k]])%Z;
  po_piv : exists m, il <= m <= j /\ x[[m]] = a
}.

Lemma inner_ok : forall fuel F x il jr same a i j,
  IInv x il jr same a i j -> length x <= F -> jr - i < fuel ->
  exists x' i' j', inner fuel F x il jr same a i j = Ok (x', i', j') /\
                   win_rel il jr x x' /\ Post x' il jr a i' j'.
Proof.
  induction fuel as [|f IH]; intros F x il jr same a i j Inv HF Hfuel; [lia|].
  destruct Inv as [Hil Hij Hijr Hjjr Hlen Ha Hlo Hhi Hsent Hstrict].
  cbn [inner].
  (* scan up: sentinel at min(j+1, jr) *)
  set (s := if j <? jr then S j else jr).
  assert (Hs : i <= s /\ s <= jr /\ (a <= x[[s]])%Z).
  { unfold s. destruct (j <? jr) eqn:E; repeat split; try lia. apply Hhi. lia. }
  destruct Hs as (Hs1 & Hs2 & Hs3).
  destruct (scan_up_ok F x a i s) as (i1 & R1 & B1 & V1 & Q1); try lia.
  rewrite R1. cbn [bind].
  assert (Hi1j : i1 <= S j) by (unfold s in B1; destruct (j <? jr) eqn:E; lia).
  assert (Hlo1 : forall k, il <= k < i1 -> (x[[k]] <= a)%Z).
  { intros k Hk. destruct (Nat.lt_ge_cases k i) as [A|A]; [apply Hlo; lia|]. specialize (Q1 k). lia. }
  (* scan down: sentinel at i1 - 1 *)
  destruct (scan_down_ok F x a j (i1 - 1)) as (j1 & R2 & B2 & V2 & Q2); try lia.
  { apply Hlo1. lia. }
  rewrite R2. cbn [bind].
  assert (Hhi1 : forall k, j1 < k <= jr -> (a <= x[[k]])%Z).
  { intros k Hk. destruct (Nat.lt_ge_cases j k) as [A|A]; [apply Hhi; lia|]. specialize (Q2 k). lia. }
  destruct (j1 <=? i1) eqn:Estop.
  - (* stop2 = 1 *)
    cbn [bind].
    destruct (same && (j1 =? jr)) eqn:Ehack.
    + (* the same_extremities escape *)
      assert (Hj1 : j1 = jr) by lia. assert (Hsame : same = true) by (destruct same; simpl in Ehack; [reflexivity|discriminate]).
      assert (Hi1 : i1 = jr) by lia.
      destruct j1 as [|j3]; [lia|].
      rewrite swap_ok by lia. cbn [bind].
      exists (swapl il j3 x), i1, j3. split; [reflexivity|]. split; [apply win_swap; lia|].
      assert (Hn : forall m, nth m (swapl il j3 x) 0%Z =
                             if m =? j3 then x[[il]] else if m =? il then x[[j3]] else x[[m]]).
      { intros m. apply nth_swapl; lia. }
      constructor; try lia.
      * intros k Hk. rewrite Hn. destruct (k =? j3) eqn:E1; [lia|]. destruct (k =? il) eqn:E2; apply Hlo1; lia.
      * intros k Hk. rewrite Hn. destruct (k =? j3) eqn:E1; [lia|]. destruct (k =? il) eqn:E2; [lia|]. assert (k = jr) by lia. subst k. exact Hsent.
      * intros k Hk. rewrite Hn. destruct (k =? j3) eqn:E1; [lia|]. destruct (k =? il) eqn:E2; apply Hlo1; lia.
      * intros k Hk. rewrite Hn. destruct (k =? j3) eqn:E1; [lia|]. destruct (k =? il) eqn:E2; [lia|].
        assert (k = jr) by lia. subst k. exact Hsent.
      * exists j3. split; [lia|]. rewrite Hn. rewrite Nat.eqb_refl. exact Ha.
    + (* plain stop *)
      cbn [bind].
      exists x, i1, j1. split; [reflexivity|]. split; [apply win_refl|].
      assert (Hj1 : j1 < jr).
      { destruct (Nat.eq_dec j1 jr) as [E|E]; [|lia]. exfalso.
        assert (same = false) by (destruct same; [simpl in Ehack; lia|reflexivity]).
        assert (j = jr) by lia.
        specialize (Hstrict H H0). subst j1. lia. }
      constructor; try lia.
      * intros k Hk. destruct (Nat.eq_dec k i1) as [->|Hne]; [assert (i1 = j1) by lia; subst; lia|apply Hlo1; lia].
      * exact Hhi1.
      * exact Hlo1.
      * intros k Hk. destruct (Nat.eq_dec k i1) as [->|Hne]; [exact V1|apply Hhi1; lia].
      * exists il. split; [lia|exact Ha].
  - (* swap and continue *)
    assert (Hlt : i1 < j1) by lia.
    rewrite swap_ok by lia. cbn [bind].
    destruct j1 as [|j2]; [lia|]. cbn [bind].
    assert (Ehack : same && (j2 =? jr) = false) by (destruct same; simpl; lia).
    rewrite Ehack.
    assert (Hn : forall m, nth m (swapl i1 (S j2) x) 0%Z =
                           if m =? S j2 then x[[i1]] else if m =? i1 then x[[S j2]] else x[[m]]).
    { intros m. apply nth_swapl; lia. }
    destruct (IH F (swapl i1 (S j2) x) il jr same a (S i1) j2) as (x' & i' & j' & R & W & P).
    + constructor; try lia.
      * rewrite swapl_length. lia.
      * rewrite Hn. destruct (il =? S j2) eqn:E1; [lia|]. destruct (il =? i1) eqn:E2; [lia|]. exact Ha.
      * intros k Hk. rewrite Hn. destruct (k =? S j2) eqn:E1; [lia|].
        destruct (k =? i1) eqn:E2; [exact V2|apply Hlo1; lia].
      * intros k Hk. rewrite Hn. destruct (k =? S j2) eqn:E1; [exact V1|].
        destruct (k =? i1) eqn:E2; [lia|apply Hhi1; lia].
      * rewrite Hn. destruct (jr =? S j2) eqn:E1; [exact V1|]. destruct (jr =? i1) eqn:E2; [lia|exact Hsent].
    + rewrite swapl_length. exact HF.
    + lia.
    + exists x', i', j'. split; [exact R|]. split; [|exact P].
      apply win_trans with (y := swapl i1 (S j2) x); [apply win_swap; lia|exact W].
Qed.
