From Coq Require Import ZArith List Lia Permutation.
From NV.C16 Require Import FibreModel.
Import ListNotations.

Lemma flat_map_cons_perm : forall (A B : Type) (g : A -> B) (h : A -> list B) l,
  Permutation (flat_map (fun b => g b :: h b) l) (map g l ++ flat_map h l).
Proof.
  intros A B g h. induction l as [|b l IH]; simpl; [apply Permutation_refl|].
  apply perm_skip. rewrite app_assoc.
  eapply Permutation_trans; [apply Permutation_app_head; exact IH|].
  rewrite !app_assoc. apply Permutation_app_tail. apply Permutation_app_comm.
Qed.

Lemma flat_map_swap : forall (A B C : Type) (f : A -> B -> C) la lb,
  Permutation (flat_map (fun a => map (fun b => f a b) lb) la)
              (flat_map (fun b => map (fun a => f a b) la) lb).
Proof.
  intros A B C f. induction la as [|a la IH]; intros lb; simpl.
  - induction lb as [|b lb IHb]; simpl; [apply Permutation_refl|exact IHb].
  - eapply Permutation_trans; [apply Permutation_app_head; apply IH|].
    apply Permutation_sym. apply (flat_map_cons_perm B C (fun b => f a b) (fun b => map (fun a0 => f a0 b) la)).
Qed.

Lemma flat_map_perm_ext : forall (A B : Type) (f g : A -> list B) l,
  (forall a, In a l -> Permutation (f a) (g a)) -> Permutation (flat_map f l) (flat_map g l).
Proof.
  intros A B f g. induction l as [|a l IH]; intros H; simpl; [apply Permutation_refl|].
  apply Permutation_app; [apply H; left; reflexivity|apply IH; intros b Hb; apply H; right; exact Hb].
Qed.

Lemma flat_map_map' : forall (A B C : Type) (f : A -> B) (g : B -> list C) l,
  flat_map g (map f l) = flat_map (fun a => g (f a)) l.
Proof. intros. induction l as [|a l IH]; simpl; [reflexivity|]. now rewrite IH. Qed.

Lemma map_flat_map : forall (A B C : Type) (f : B -> C) (g : A -> list B) l,
  map f (flat_map g l) = flat_map (fun a => map f (g a)) l.
Proof. intros. induction l as [|a l IH]; simpl; [reflexivity|]. now rewrite map_app, IH. Qed.

Lemma flat_map_flat_map : forall (A B C : Type) (f : A -> list B) (g : B -> list C) l,
  flat_map g (flat_map f l) = flat_map (fun a => flat_map g (f a)) l.
Proof. intros. induction l as [|a l IH]; simpl; [reflexivity|]. now rewrite flat_map_app, IH. Qed.

Definition fibre_offsets (shape : list nat) (strides : list Z) (axis : nat) : list Z :=
  flat_map (fun o => map (fun j => (o + nth axis strides 0%Z * Z.of_nat j)%Z) (seq 0 (nth axis shape 0)))
           (offsets (set_axis shape axis 1) strides).

Lemma fibres_concat : forall shape strides axis,
  concat (fibres shape strides axis) = fibre_offsets shape strides axis.
Proof. intros. unfold fibres, fibre_offsets. now rewrite flat_map_concat_map. Qed.

Lemma fibre_offsets_cover : forall shape strides axis,
  axis < length shape -> length strides = length shape ->
  Permutation (fibre_offsets shape strides axis) (offsets shape strides).
Proof.
  induction shape as [|n sh IH]; intros strides axis Hax Hlen; simpl in Hax; [lia|].
  destruct strides as [|s st]; simpl in Hlen; [lia|].
  destruct axis as [|k].
  - (* the axis is the leading one *)
    unfold fibre_offsets. cbn [set_axis nth offsets seq flat_map]. rewrite app_nil_r.
    rewrite flat_map_map'.
    eapply Permutation_trans; [apply (flat_map_swap Z nat Z (fun o j => (s * Z.of_nat 0 + o + s * Z.of_nat j)%Z))|].
    apply flat_map_perm_ext. intros j _.
    erewrite map_ext; [apply Permutation_refl|]. intros o. simpl. lia.
  - unfold fibre_offsets. cbn [set_axis nth offsets].
    rewrite flat_map_flat_map.
    apply flat_map_perm_ext. intros i _.
    rewrite flat_map_map'.
    assert (P := IH st k ltac:(lia) ltac:(lia)). unfold fibre_offsets in P.
    apply (Permutation_map (fun o => (s * Z.of_nat i + o)%Z)) in P.
    rewrite map_flat_map in P.
    eapply Permutation_trans; [|exact P].
    erewrite flat_map_ext; [apply Permutation_refl|].
    intros o. cbv beta. rewrite map_map. apply map_ext. intros j. lia.
Qed.

Lemma fibres_length : forall shape strides axis f, In f (fibres shape strides axis) ->
  length f = nth axis shape 0.
Proof.
  intros shape strides axis f H. unfold fibres in H. apply in_map_iff in H.
  destruct H as (o & E & _). subst f. now rewrite map_length, seq_length.
Qed.
