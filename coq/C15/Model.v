(* C15 - executable model of nipy/algorithms/statistics/intvol.pyx EC1d/EC2d/EC3d
   and the abstract specification (Kuhn/Freudenthal triangulation of the lattice).

   Definitions only.  The simplex tables src3_d2/d3/d4, src2_d2/d3 are GENERATED on
   every run from utils.py (complex, cube_with_strides_center, join_complexes are
   executed as they are) and from the table construction in intvol.pyx. *)
From Coq Require Import ZArith List Bool Lia ZifyBool.
From NV.Generated Require Import IntvolTables RftFlags.
Import ListNotations.
Open Scope Z_scope.

(* ------------------------------------------------------------------ points *)
Definition pt := (Z * Z * Z)%type.
Definition origin : pt := (0, 0, 0).
Definition padd (p q : pt) : pt :=
  let '(a, b, c) := p in let '(d, e, f) := q in (a + d, b + e, c + f).
Definition psub (p q : pt) : pt :=
  let '(a, b, c) := p in let '(d, e, f) := q in (a - d, b - e, c - f).
Definition pt_eqb (p q : pt) : bool :=
  let '(a, b, c) := p in let '(d, e, f) := q in (a =? d) && (b =? e) && (c =? f).
Definition pneg (p : pt) : pt := let '(a, b, c) := p in (- a, - b, - c).
Definition emb2 (p : Z * Z) : pt := (fst p, snd p, 0).

Fixpoint sumZ {A} (f : A -> Z) (l : list A) : Z :=
  match l with [] => 0 | x :: r => f x + sumZ f r end.
Definition zrange (n : nat) : list Z := map Z.of_nat (seq 0 n).     (* range(n) *)
Definition b2z (b : bool) : Z := if b then 1 else 0.

(* ------------------------------------------------------------------ masks *)
(* A mask is a function on lattice points; only its values inside the array
   [0,a) x [0,b) x [0,c) are used.  2-d masks live on (i, j, 0), 1-d on (i, 0, 0). *)
Definition inbox (a b c : nat) (p : pt) : bool :=
  let '(i, j, k) := p in
  (0 <=? i) && (i <? Z.of_nat a) && (0 <=? j) && (j <? Z.of_nat b) && (0 <=? k) && (k <? Z.of_nat c).
(* pmask = np.zeros(shape + 1); pmask[:-1, :-1, :-1] = mask : zero outside the array *)
Definition restrict (a b c : nat) (M : pt -> bool) : pt -> bool := fun p => inbox a b c p && M p.

(* mask given by the harness as the C-order flat list of its entries *)
Definition mask_of_list (b c : nat) (l : list bool) : pt -> bool :=
  fun '(i, j, k) => nth (Z.to_nat ((i * Z.of_nat b + j) * Z.of_nat c + k)) l false.

(* flat index of an offset for given strides *)
Definition flat (ss : pt) (p : pt) : Z :=
  let '(s0, s1, s2) := ss in let '(i, j, k) := p in i * s0 + j * s1 + k * s2.

(* fpmask = pmask.reshape(-1), padded shape (a+1, b+1, c+1), C order *)
Definition fpmask3 (a b c : nat) (M : pt -> bool) (v : Z) : bool :=
  let s1 := Z.of_nat b + 1 in let s2 := Z.of_nat c + 1 in
  restrict a b c M (v / (s1 * s2), (v / s2) mod s1, v mod s2).
Definition fpmask2 (a b : nat) (M : pt -> bool) (v : Z) : bool :=
  let s1 := Z.of_nat b + 1 in
  restrict a b 1 M (v / s1, v mod s1, 0).

(* m = fpmask[v0]; if m: m = m * fpmask[v1] * ...;  contributes m *)
Definition simplex_in (fp : Z -> bool) (ss : pt) (index : Z) (l : list pt) : bool :=
  forallb (fun off => fp (index + flat ss off)) l.
Definition cnt (fp : Z -> bool) (ss : pt) (index : Z) (D : list (list pt)) : Z :=
  sumZ (fun l => b2z (simplex_in fp ss index l)) D.
(* EC2d: `if m and v0:` - the triangle is skipped when its first vertex has flat index 0 *)
Definition cnt_guarded (fp : Z -> bool) (ss : pt) (index : Z) (D : list (list pt)) : Z :=
  sumZ (fun l => b2z (negb (index + flat ss (hd origin l) =? 0) && simplex_in fp ss index l)) D.
(* the guard of each simplex loop (`if m:` -> false, `if m and v0:` -> true) is read from intvol.pyx *)
Definition cnt_g (guard : bool) := if guard then cnt_guarded else cnt.

(* ------------------------------------------------------------------ EC3d (intvol.pyx:340-458) *)
Definition strides3 (b c : nat) : pt := ((Z.of_nat b + 1) * (Z.of_nat c + 1), Z.of_nat c + 1, 1).
Definition EC3d_gen (g4 g3 g2 : bool) (a b c : nat) (M : pt -> bool) : Z :=
  let ss := strides3 b c in
  let fp := fpmask3 a b c M in
  sumZ (fun i => sumZ (fun j => sumZ (fun k =>
      let index := flat ss (i, j, k) in
      - cnt_g g4 fp ss index src3_d4 + cnt_g g3 fp ss index src3_d3 - cnt_g g2 fp ss index src3_d2)
    (zrange c)) (zrange b)) (zrange a)
  + sumZ (fun v => b2z (fp v)) (zrange ((a + 1) * (b + 1) * (c + 1))).
Definition EC3d := EC3d_gen src3_guard_d4 src3_guard_d3 src3_guard_d2.   (* the code as it is *)
Definition EC3d_noguard := EC3d_gen false false false.

(* ------------------------------------------------------------------ EC2d (intvol.pyx:905-1003) *)
Definition strides2 (b : nat) : pt := (Z.of_nat b + 1, 1, 0).
Definition d2_of (t : list (list (Z * Z))) : list (list pt) := map (map emb2) t.
Definition EC2d_gen (g3 g2 : bool) (a b : nat) (M : pt -> bool) : Z :=
  let ss := strides2 b in
  let fp := fpmask2 a b M in
  sumZ (fun i => sumZ (fun j =>
      let index := flat ss (i, j, 0) in
      cnt_g g3 fp ss index (d2_of src2_d3) - cnt_g g2 fp ss index (d2_of src2_d2))
    (zrange b)) (zrange a)
  + sumZ (fun v => b2z (fp v)) (zrange ((a + 1) * (b + 1))).
Definition EC2d := EC2d_gen src2_guard_d3 src2_guard_d2.   (* the code as it is *)
Definition EC2d_guarded := EC2d_gen true false.  (* `if m and v0:` in the triangle loop (the code at the pinned commit) *)
Definition EC2d_noguard := EC2d_gen false false. (* plain `if m:` in both loops (as Lips2d does it) *)

(* ------------------------------------------------------------------ EC1d (intvol.pyx:1089-1141) *)
Definition EC1d (a : nat) (M : pt -> bool) : Z :=
  let s0 := Z.of_nat a in
  let m := fun i => restrict a 1 1 M (i, 0, 0) in
  sumZ (fun i => - b2z (m i && (m ((i + 1) mod s0) && (i + 1 <? s0)))) (zrange a)
  + sumZ (fun i => b2z (m i)) (zrange a).

(* ------------------------------------------------------------------ specification *)
(* Kuhn (Freudenthal) triangulation of Z^3: a k-simplex is a chain
   p0 < p1 < ... < pk in the product order with pk - p0 in {0,1}^3, i.e. the
   vertices of a monotone lattice path inside one unit cube. *)
Definition ple (p q : pt) : bool :=
  let '(a, b, c) := p in let '(d, e, f) := q in (a <=? d) && (b <=? e) && (c <=? f).
Definition plt (p q : pt) : bool := ple p q && negb (pt_eqb p q).
Definition within1 (p0 q : pt) : bool := ple p0 q && ple q (padd p0 (1, 1, 1)).
Fixpoint chain_from (p0 p : pt) (S : list pt) : bool :=
  match S with
  | [] => true
  | q :: S' => plt p q && within1 p0 q && chain_from p0 q S'
  end.
Definition chainb (S : list pt) : bool :=
  match S with [] => false | p :: S' => chain_from p p S' end.

(* K_k(N): the k-simplices of the triangulation all of whose vertices are in N *)
Definition Kspec (N : pt -> bool) (k : nat) (S : list pt) : Prop :=
  length S = Datatypes.S k /\ chainb S = true /\ Forall (fun p => N p = true) S.

(* enumeration of all chains starting at the origin (independent of the generated tables) *)
Definition cube8 : list pt :=
  [(0,0,0); (0,0,1); (0,1,0); (0,1,1); (1,0,0); (1,0,1); (1,1,0); (1,1,1)].
Fixpoint lists_of {A} (n : nat) (xs : list A) : list (list A) :=
  match n with
  | O => [[]]
  | S n' => flat_map (fun x => map (cons x) (lists_of n' xs)) xs
  end.
Definition starts_at_origin (l : list pt) : bool :=
  match l with p :: _ => pt_eqb p origin | [] => false end.
Definition Chains (k : nat) : list (list pt) :=
  filter (fun l => chainb l && starts_at_origin l) (lists_of (S k) cube8).

Definition box (a b c : nat) : list pt :=
  flat_map (fun i => flat_map (fun j => map (fun k => (i, j, k)) (zrange c)) (zrange b)) (zrange a).
Definition all_in (N : pt -> bool) (p : pt) (l : list pt) : bool := forallb (fun off => N (padd p off)) l.
Definition owned (C : list (list pt)) (N : pt -> bool) (p : pt) : list (list pt) :=
  map (map (padd p)) (filter (all_in N p) C).
(* explicit duplicate-free list of K_k(mask) (Proofs: Kenum_spec) *)
Definition Kenum (a b c : nat) (M : pt -> bool) (k : nat) : list (list pt) :=
  let C := Chains k in flat_map (owned C (restrict a b c M)) (box a b c).
Definition nK a b c M k : Z := Z.of_nat (length (Kenum a b c M k)).
Definition chi (a b c : nat) (M : pt -> bool) : Z :=
  nK a b c M 0 - nK a b c M 1 + nK a b c M 2 - nK a b c M 3.

(* faces of the generated maximal simplices *)
Fixpoint sublists {A} (l : list A) : list (list A) :=
  match l with
  | [] => [[]]
  | x :: r => map (cons x) (sublists r) ++ sublists r
  end.

(* S is a non-empty face of a generated maximal simplex (table c[4] of cube_with_strides_center) of some lattice cube q + [0,1]^3 *)
Definition kuhn_face (S : list pt) : Prop :=
  S <> [] /\ exists q tau, In tau src3_c4 /\ In S (sublists (map (padd q) tau)).
(* the mask N moved by the vector t *)
Definition shiftM (t : pt) (N : pt -> bool) : pt -> bool := fun p => N (padd (pneg t) p).

(* ------------------------------------------------------------------ Lips3d: volume of a tetrahedron (rational part) *)
Definition dotp (u v : pt) : Z := let '(a, b, c) := u in let '(d, e, f) := v in a * d + b * e + c * f.
Definition coord (o s p : pt) : pt :=
  let '(ox, oy, oz) := o in let '(sx, sy, sz) := s in let '(i, j, k) := p in (ox + sx * i, oy + sy * j, oz + sz * k).
(* v2 of mu3_tet (intvol.pyx:36-83): 36 * volume^2 as the Gram determinant of the edge vectors from vertex 3 *)
Definition mu3_v2 (D00 D01 D02 D03 D11 D12 D13 D22 D23 D33 : Z) : Z :=
  let C00 := D00 - 2 * D03 + D33 in
  let C01 := D01 - D13 - D03 + D33 in
  let C02 := D02 - D23 - D03 + D33 in
  let C11 := D11 - 2 * D13 + D33 in
  let C12 := D12 - D13 - D23 + D33 in
  let C22 := D22 - 2 * D23 + D33 in
  C00 * (C11 * C22 - C12 * C12) - C01 * (C01 * C22 - C02 * C12) + C02 * (C01 * C12 - C11 * C02).
Definition tet_v2 (c0 c1 c2 c3 : pt) : Z :=
  mu3_v2 (dotp c0 c0) (dotp c0 c1) (dotp c0 c2) (dotp c0 c3) (dotp c1 c1) (dotp c1 c2) (dotp c1 c3)
         (dotp c2 c2) (dotp c2 c3) (dotp c3 c3).
Definition tet_v2_ok (o s : pt) (vol2 : Z) (tet : list pt) : Prop :=
  match tet with
  | [p0; p1; p2; p3] => tet_v2 (coord o s p0) (coord o s p1) (coord o s p2) (coord o s p3) = vol2
  | _ => False
  end.

(* ------------------------------------------------------------------ rft.py: IntrinsicVolumes.__mul__ and the regions used by ECcone.__call__ *)
(* IntrinsicVolumes.__mul__ (rft.py): mu[i] = sum_j self.mu[j] * other.mu[i-j], length la + lb - 1: the product of the
   generating polynomials (hand model; compared exactly with the implementation on integer regions). *)
Definition pscale (c : Z) (p : list Z) : list Z := map (Z.mul c) p.
Fixpoint ppoly_add (p q : list Z) : list Z :=
  match p, q with
  | [], _ => q
  | _, [] => p
  | x :: p', y :: q' => (x + y) :: ppoly_add p' q'
  end.
Fixpoint iv_mul (a b : list Z) : list Z :=
  match a with
  | [] => []
  | x :: a' => ppoly_add (pscale x b) (0 :: iv_mul a' b)
  end.
Fixpoint peval (p : list Z) (x : Z) : Z := match p with [] => 0 | c :: p' => c + x * peval p' x end.
Record cone := mkcone { c_mu : list Z; c_search : list Z; c_product : list Z }.
Definition call_regions (has_imul aliases aug : bool) (st : cone) (explicit : option (list Z)) : list Z * cone :=
  let s := match explicit with Some s => s | None => c_search st end in
  let s' := iv_mul s (c_product st) in
  let mutates := match explicit with Some _ => false | None => aliases && aug && has_imul end in
  (s', if mutates then mkcone (c_mu st) s' (c_product st) else st).
(* the stored regions of an ECcone and what `__call__(x, search)` does with them: returns (effective search region, object
   state afterwards).  `search = self.search; search *= self.product`: with an `__imul__` on IntrinsicVolumes the local name
   aliases the stored region and the in-place product overwrites it; without, `*=` rebinds the local name.  The three flags are
   read from the current rft.py (Generated/RftFlags.v). *)
Definition call_src := call_regions src_iv_has_imul src_call_aliases_stored_search src_call_product_augassign.


(* ------------------------------------------------------------------ rft.py: _hermitenorm_coeffs (used by Q, i.e. by every EC density) *)
(* rft.py:62-76, statement by statement: a, b = [1], [1, 0]; n == 0 returns a; `for r in range(1, n)`:
   shifted = b + [0]; padded = [0]*(len(shifted)-len(a)) + a; a, b = b, [u - r*v for u, v in zip(shifted, padded)]; returns b.
   Coefficients are Python ints (exact), highest power first; `zip` truncates like `combine`.  hev is Horner evaluation of a
   highest-power-first coefficient list (what np.poly1d(coeffs)(x) computes).  Hand model; compared exactly with the
   implementation (and with Q(dim).c for dfd = inf) by the harness. *)
Definition herm_step (r : Z) (a b : list Z) : list Z :=
  let shifted := b ++ [0] in
  let padded := repeat 0 (length shifted - length a) ++ a in
  map (fun uv => fst uv - r * snd uv) (combine shifted padded).
Fixpoint herm_loop (k : nat) (r : Z) (a b : list Z) : list Z * list Z :=
  match k with O => (a, b) | S k' => herm_loop k' (r + 1) b (herm_step r a b) end.
Definition hermitenorm_coeffs (n : nat) : list Z :=
  match n with O => [1] | S m => snd (herm_loop m 1 [1] [1; 0]) end.
Definition hev (p : list Z) (x : Z) : Z := fold_left (fun acc c => acc * x + c) p 0.


(* helpers for the harness *)
Definition flat_table (ss : pt) (D : list (list pt)) : list (list Z) := map (map (flat ss)) D.
Definition solid : pt -> bool := fun _ => true.
