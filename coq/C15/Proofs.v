(* C15 - lemmas, part 1: sums, lists, chains, the enumeration Kenum of K(mask). *)
From Coq Require Import ZArith List Bool Lia ZifyBool.
From NV.Generated Require Import IntvolTables.
From NV.C15 Require Import Model.
Import ListNotations.
Open Scope Z_scope.

(* ------------------------------------------------------------------ sums *)
Lemma sumZ_app {A} (f : A -> Z) l1 l2 : sumZ f (l1 ++ l2) = sumZ f l1 + sumZ f l2.
Proof. induction l1 as [|x l1 IH]; cbn [sumZ app]; lia. Qed.

Lemma sumZ_ext_in {A} (f g : A -> Z) l : (forall x, In x l -> f x = g x) -> sumZ f l = sumZ g l.
Proof.
  induction l as [|x l IH]; intros H; cbn [sumZ]; [reflexivity|].
  rewrite (H x (or_introl eq_refl)), IH; [reflexivity|]. intros y Hy. apply H. now right.
Qed.

Lemma sumZ_map {A B} (g : A -> B) (f : B -> Z) l : sumZ f (map g l) = sumZ (fun x => f (g x)) l.
Proof. induction l as [|x l IH]; cbn [sumZ map]; [reflexivity|]. now rewrite IH. Qed.

Lemma sumZ_flat_map {A B} (g : A -> list B) (f : B -> Z) l :
  sumZ f (flat_map g l) = sumZ (fun x => sumZ f (g x)) l.
Proof. induction l as [|x l IH]; cbn [sumZ flat_map]; [reflexivity|]. now rewrite sumZ_app, IH. Qed.

Lemma sumZ_add {A} (f g : A -> Z) l : sumZ (fun x => f x + g x) l = sumZ f l + sumZ g l.
Proof. induction l as [|x l IH]; cbn [sumZ]; lia. Qed.

Lemma sumZ_sub {A} (f g : A -> Z) l : sumZ (fun x => f x - g x) l = sumZ f l - sumZ g l.
Proof. induction l as [|x l IH]; cbn [sumZ]; lia. Qed.

Lemma sumZ_opp {A} (f : A -> Z) l : sumZ (fun x => - f x) l = - sumZ f l.
Proof. induction l as [|x l IH]; cbn [sumZ]; lia. Qed.

Lemma sumZ_zero {A} (f : A -> Z) l : (forall x, In x l -> f x = 0) -> sumZ f l = 0.
Proof.
  induction l as [|x l IH]; intros H; cbn [sumZ]; [reflexivity|].
  rewrite (H x (or_introl eq_refl)), IH; [reflexivity|]. intros y Hy. apply H. now right.
Qed.

Lemma length_filter_sum {A} (P : A -> bool) l : Z.of_nat (length (filter P l)) = sumZ (fun x => b2z (P x)) l.
Proof.
  induction l as [|x l IH]; cbn [filter sumZ length]; [reflexivity|].
  destruct (P x); cbn [length b2z]; lia.
Qed.

Lemma sumZ_filter {A} (f : A -> Z) (P : A -> bool) l :
  sumZ f (filter P l) = sumZ (fun x => if P x then f x else 0) l.
Proof. induction l as [|x l IH]; cbn [filter sumZ]; [reflexivity|]. destruct (P x); cbn [sumZ]; lia. Qed.

Lemma length_flat_map_sum {A B} (g : A -> list B) l :
  Z.of_nat (length (flat_map g l)) = sumZ (fun x => Z.of_nat (length (g x))) l.
Proof. induction l as [|x l IH]; cbn [flat_map sumZ length]; [reflexivity|]. rewrite app_length. lia. Qed.

Lemma forallb_ext_in {A} (f g : A -> bool) l : (forall x, In x l -> f x = g x) -> forallb f l = forallb g l.
Proof.
  induction l as [|x l IH]; intros H; cbn [forallb]; [reflexivity|].
  rewrite (H x (or_introl eq_refl)), IH; [reflexivity|]. intros y Hy. apply H. now right.
Qed.

(* ------------------------------------------------------------------ zrange *)
Lemma zrange_In n x : In x (zrange n) <-> 0 <= x < Z.of_nat n.
Proof.
  unfold zrange. rewrite in_map_iff. split.
  - intros [k [<- Hk]]. apply in_seq in Hk. lia.
  - intros H. exists (Z.to_nat x). split; [lia|]. apply in_seq. lia.
Qed.

Lemma zrange_S n : zrange (S n) = zrange n ++ [Z.of_nat n].
Proof. unfold zrange. rewrite seq_S, map_app. reflexivity. Qed.

Lemma zrange_app n m : zrange (n + m) = zrange n ++ map (fun x => x + Z.of_nat n) (zrange m).
Proof.
  induction m as [|m IH].
  - rewrite Nat.add_0_r. cbn. now rewrite app_nil_r.
  - rewrite Nat.add_succ_r, !zrange_S, IH, map_app, app_assoc. cbn [map]. do 2 f_equal. lia.
Qed.

(* ------------------------------------------------------------------ NoDup *)
Lemma NoDup_app' {A} (l1 l2 : list A) :
  NoDup l1 -> NoDup l2 -> (forall x, In x l1 -> ~ In x l2) -> NoDup (l1 ++ l2).
Proof.
  induction l1 as [|x l1 IH]; intros H1 H2 H; cbn [app]; [assumption|].
  inversion H1 as [|x' l' Hx Hl]; subst. constructor.
  - rewrite in_app_iff. intros [Hi|Hi]; [contradiction|]. apply (H x); [now left|assumption].
  - apply IH; [assumption|assumption|]. intros y Hy. apply H. now right.
Qed.

Lemma NoDup_map_inj {A B} (f : A -> B) l : (forall x y, f x = f y -> x = y) -> NoDup l -> NoDup (map f l).
Proof.
  intros Hf. induction l as [|x l IH]; intros H; cbn [map]; [constructor|].
  inversion H as [|x' l' Hx Hl]; subst. constructor; [|now apply IH].
  rewrite in_map_iff. intros [y [Hy Hi]]. apply Hf in Hy. now subst.
Qed.

(* all elements produced by f x carry the key x *)
Lemma NoDup_flat_map_key {A B} (f : A -> list B) (key : B -> A) l :
  NoDup l -> (forall x, In x l -> NoDup (f x)) -> (forall x y, In y (f x) -> key y = x) -> NoDup (flat_map f l).
Proof.
  intros Hl Hf Hk. induction l as [|x l IH]; cbn [flat_map]; [constructor|].
  inversion Hl as [|x' l' Hx Hl']; subst. apply NoDup_app'.
  - apply Hf. now left.
  - apply IH; [assumption|]. intros y Hy. apply Hf. now right.
  - intros y Hy Hy'. apply in_flat_map in Hy'. destruct Hy' as [z [Hz Hyz]].
    apply Hk in Hy. apply Hk in Hyz. congruence.
Qed.

Lemma NoDup_zrange n : NoDup (zrange n).
Proof. unfold zrange. apply NoDup_map_inj; [intros x y H; lia|apply seq_NoDup]. Qed.

(* ------------------------------------------------------------------ points *)
Ltac pt_eq := (apply f_equal2; [apply f_equal2|]); lia.

Lemma padd_origin p : padd p origin = p.
Proof. destruct p as [[a b] c]. unfold padd, origin. pt_eq. Qed.
Lemma padd_neg_l p q : padd p (padd (pneg p) q) = q.
Proof. destruct p as [[a b] c], q as [[d e] f]. unfold padd, pneg. pt_eq. Qed.
Lemma padd_neg_r p q : padd (pneg p) (padd p q) = q.
Proof. destruct p as [[a b] c], q as [[d e] f]. unfold padd, pneg. pt_eq. Qed.
Lemma padd_assoc p q r : padd (padd p q) r = padd p (padd q r).
Proof. destruct p as [[a b] c], q as [[d e] f], r as [[g h] i]. unfold padd. pt_eq. Qed.
Lemma padd_inj t p q : padd t p = padd t q -> p = q.
Proof. intros H. rewrite <- (padd_neg_r t p), H. apply padd_neg_r. Qed.
Lemma pt_eqb_eq p q : pt_eqb p q = true <-> p = q.
Proof.
  destruct p as [[a b] c], q as [[d e] f]. unfold pt_eqb. split.
  - intros H. pt_eq.
  - intros H. inversion H. lia.
Qed.

Lemma map_padd_inj t (l1 l2 : list pt) : map (padd t) l1 = map (padd t) l2 -> l1 = l2.
Proof.
  revert l2. induction l1 as [|x l1 IH]; intros [|y l2] H; cbn [map] in H; try discriminate; [reflexivity|].
  inversion H as [[Hx Hl]]. apply padd_inj in Hx. apply IH in Hl. congruence.
Qed.
Lemma map_padd_neg_l t (l : list pt) : map (padd t) (map (padd (pneg t)) l) = l.
Proof. rewrite map_map. rewrite <- (map_id l) at 2. apply map_ext. intros q. apply padd_neg_l. Qed.

(* ------------------------------------------------------------------ chains *)
Lemma plt_shift t p q : plt (padd t p) (padd t q) = plt p q.
Proof. destruct t as [[a b] c], p as [[d e] f], q as [[g h] i]. unfold plt, ple, pt_eqb, padd. lia. Qed.
Lemma within1_shift t p q : within1 (padd t p) (padd t q) = within1 p q.
Proof. destruct t as [[a b] c], p as [[d e] f], q as [[g h] i]. unfold within1, ple, padd. lia. Qed.

Lemma chain_from_shift t p0 p S : chain_from (padd t p0) (padd t p) (map (padd t) S) = chain_from p0 p S.
Proof.
  revert p. induction S as [|q S IH]; intros p; cbn [chain_from map]; [reflexivity|].
  now rewrite plt_shift, within1_shift, IH.
Qed.
Lemma chainb_shift t S : chainb (map (padd t) S) = chainb S.
Proof. destruct S as [|p S]; cbn [chainb map]; [reflexivity|]. apply chain_from_shift. Qed.

Lemma chain_from_within p0 p S : chain_from p0 p S = true -> Forall (fun q => within1 p0 q = true) S.
Proof.
  revert p. induction S as [|q S IH]; intros p H; [constructor|].
  cbn [chain_from] in H. apply andb_true_iff in H. destruct H as [H1 H3].
  apply andb_true_iff in H1. destruct H1 as [H1 H2]. constructor; [assumption|]. now apply IH with q.
Qed.

Lemma within1_cube8 p q : within1 p q = true -> In (padd (pneg p) q) cube8.
Proof.
  destruct p as [[a b] c], q as [[d e] f]. unfold within1, ple, padd, pneg. intros H.
  assert (Hx : - a + d = 0 \/ - a + d = 1) by lia.
  assert (Hy : - b + e = 0 \/ - b + e = 1) by lia.
  assert (Hz : - c + f = 0 \/ - c + f = 1) by lia.
  destruct Hx as [-> | ->], Hy as [-> | ->], Hz as [-> | ->]; cbn; tauto.
Qed.
Lemma within1_refl p : within1 p p = true.
Proof. destruct p as [[a b] c]. unfold within1, ple, padd. lia. Qed.

(* lists_of *)
Lemma lists_of_In {A} (xs : list A) n l : In l (lists_of n xs) <-> length l = n /\ Forall (fun x => In x xs) l.
Proof.
  revert l. induction n as [|n IH]; intros l; cbn [lists_of].
  - split.
    + intros [<- | []]. split; [reflexivity|constructor].
    + intros [H _]. destruct l; [now left|discriminate].
  - rewrite in_flat_map. split.
    + intros [x [Hx Hl]]. apply in_map_iff in Hl. destruct Hl as [l' [<- Hl']]. apply IH in Hl'.
      destruct Hl' as [Hlen Hall]. split; [cbn; lia|constructor; assumption].
    + intros [Hlen Hall]. destruct l as [|x l]; [discriminate|]. inversion Hall as [|x' l' Hx Hl]; subst.
      exists x. split; [assumption|]. apply in_map. apply IH. split; [cbn in Hlen; lia|assumption].
Qed.

Lemma NoDup_lists_of {A} (d : A) (xs : list A) n : NoDup xs -> NoDup (lists_of n xs).
Proof.
  intros Hx. induction n as [|n IH]; cbn [lists_of]; [repeat constructor; intros []|].
  apply NoDup_flat_map_key with (key := hd d); [assumption| |].
  - intros x _. apply NoDup_map_inj; [intros a b H; now inversion H|assumption].
  - intros x y Hy. apply in_map_iff in Hy. destruct Hy as [l [<- _]]. reflexivity.
Qed.

Lemma NoDup_cube8 : NoDup cube8.
Proof. unfold cube8. repeat (constructor; [cbn; intuition congruence|]). constructor. Qed.

Lemma Chains_In k l :
  In l (Chains k) <->
  length l = S k /\ Forall (fun x => In x cube8) l /\ chainb l = true /\ starts_at_origin l = true.
Proof.
  unfold Chains. rewrite filter_In, lists_of_In, andb_true_iff. tauto.
Qed.

Lemma NoDup_Chains k : NoDup (Chains k).
Proof. unfold Chains. apply NoDup_filter. apply (NoDup_lists_of origin). apply NoDup_cube8. Qed.

Lemma Chains_hd k l : In l (Chains k) -> exists r, l = origin :: r.
Proof.
  intros H. apply Chains_In in H. destruct H as [_ [_ [_ H]]]. destruct l as [|p r]; [discriminate|].
  cbn in H. apply pt_eqb_eq in H. subst. now exists r.
Qed.

(* a chain, moved so that its first vertex is the origin, is one of the enumerated chains *)
Lemma chain_normalise p S : chainb (p :: S) = true -> In (map (padd (pneg p)) (p :: S)) (Chains (length S)).
Proof.
  intros H. apply Chains_In. repeat split.
  - now rewrite map_length.
  - assert (Hw : Forall (fun q => within1 p q = true) (p :: S)).
    { constructor; [apply within1_refl|]. cbn [chainb] in H. now apply chain_from_within with p. }
    clear H. induction Hw as [|q l Hq Hl IH]; cbn [map]; constructor; [now apply within1_cube8|assumption].
  - now rewrite chainb_shift.
  - cbn [map starts_at_origin]. apply pt_eqb_eq. destruct p as [[a b] c]. unfold padd, pneg, origin. pt_eq.
Qed.

(* ------------------------------------------------------------------ box *)
Lemma box_In a b c p : In p (box a b c) <-> inbox a b c p = true.
Proof.
  destruct p as [[i j] k]. unfold box, inbox. rewrite in_flat_map. split.
  - intros [i' [Hi H]]. apply in_flat_map in H. destruct H as [j' [Hj H]]. apply in_map_iff in H.
    destruct H as [k' [E Hk]]. inversion E; subst. apply zrange_In in Hi, Hj, Hk. lia.
  - intros H. exists i. split; [apply zrange_In; lia|]. apply in_flat_map. exists j. split; [apply zrange_In; lia|].
    apply in_map_iff. exists k. split; [reflexivity|apply zrange_In; lia].
Qed.

Lemma NoDup_box a b c : NoDup (box a b c).
Proof.
  unfold box. apply NoDup_flat_map_key with (key := fun p : pt => fst (fst p)); [apply NoDup_zrange| |].
  - intros i _. apply NoDup_flat_map_key with (key := fun p : pt => snd (fst p)); [apply NoDup_zrange| |].
    + intros j _. apply NoDup_map_inj; [intros x y H; now inversion H|apply NoDup_zrange].
    + intros j p Hp. apply in_map_iff in Hp. destruct Hp as [k [<- _]]. reflexivity.
  - intros i p Hp. apply in_flat_map in Hp. destruct Hp as [j [_ Hp]]. apply in_map_iff in Hp.
    destruct Hp as [k [<- _]]. reflexivity.
Qed.

(* ------------------------------------------------------------------ Kenum enumerates K_k(mask), once *)
Lemma all_in_Forall N p l : all_in N p l = true <-> Forall (fun q => N q = true) (map (padd p) l).
Proof.
  unfold all_in. rewrite forallb_forall, Forall_forall. split.
  - intros H q Hq. apply in_map_iff in Hq. destruct Hq as [off [<- Ho]]. now apply H.
  - intros H off Ho. apply H. now apply in_map.
Qed.

Lemma Kenum_In a b c M k S : In S (Kenum a b c M k) <-> Kspec (restrict a b c M) k S.
Proof.
  unfold Kenum, Kspec, owned. rewrite in_flat_map. split.
  - intros [p [Hp HS]]. apply in_map_iff in HS. destruct HS as [l [<- Hl]]. apply filter_In in Hl.
    destruct Hl as [Hl Hin]. apply Chains_In in Hl. destruct Hl as [Hlen [_ [Hch _]]].
    repeat split; [now rewrite map_length|now rewrite chainb_shift|now apply all_in_Forall].
  - intros [Hlen [Hch Hall]]. destruct S as [|p S]; [discriminate|].
    exists p. split.
    + apply box_In. inversion Hall as [|p' S' Hp HS]; subst. unfold restrict in Hp. now apply andb_true_iff in Hp.
    + apply in_map_iff. exists (map (padd (pneg p)) (p :: S)). split; [apply map_padd_neg_l|].
      apply filter_In. split.
      * replace k with (length S) by (cbn in Hlen; lia). now apply chain_normalise.
      * apply all_in_Forall. now rewrite map_padd_neg_l.
Qed.

Lemma Kenum_NoDup a b c M k : NoDup (Kenum a b c M k).
Proof.
  unfold Kenum. apply NoDup_flat_map_key with (key := hd origin); [apply NoDup_box| |].
  - intros p _. unfold owned. apply NoDup_map_inj; [apply map_padd_inj|]. apply NoDup_filter, NoDup_Chains.
  - intros p S HS. unfold owned in HS. apply in_map_iff in HS. destruct HS as [l [<- Hl]].
    apply filter_In in Hl. destruct Hl as [Hl _]. apply Chains_hd in Hl. destruct Hl as [r ->].
    cbn [map hd]. apply padd_origin.
Qed.

(* ------------------------------------------------------------------ finite facts about the generated tables *)
Lemma tables3_are_chains :
  src3_d1 = Chains 0 /\ src3_d2 = Chains 1 /\ src3_d3 = Chains 2 /\ src3_d4 = Chains 3.
Proof. vm_compute. repeat split; reflexivity. Qed.

Definition inplane (l : list pt) : bool := forallb (fun '(_, _, k) => k =? 0) l.
Lemma tables2_are_plane_chains :
  d2_of src2_d1 = filter inplane (Chains 0) /\ d2_of src2_d2 = filter inplane (Chains 1) /\
  d2_of src2_d3 = filter inplane (Chains 2) /\ filter inplane (Chains 3) = [].
Proof. vm_compute. repeat split; reflexivity. Qed.

Lemma lips_tables_same :
  lips3_d2 = src3_d2 /\ lips3_d3 = src3_d3 /\ lips3_d4 = src3_d4 /\ lips2_d2 = src2_d2 /\ lips2_d3 = src2_d3.
Proof. vm_compute. repeat split; reflexivity. Qed.
