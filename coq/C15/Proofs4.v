(* C15 - lemmas, part 4: Gram determinant of the generated tetrahedra for orthogonal voxel spacings. *)
From Coq Require Import ZArith List Bool Lia.
From NV.Generated Require Import IntvolTables.
From NV.C15 Require Import Model.
Import ListNotations.
Open Scope Z_scope.

Lemma mu3_gram : forall ox oy oz dx dy dz,
  Forall (tet_v2_ok (ox, oy, oz) (dx, dy, dz) ((dx * dy * dz) ^ 2)) src3_d4.
Proof.
  intros. unfold src3_d4. repeat constructor; unfold tet_v2_ok, tet_v2, mu3_v2, coord, dotp; ring.
Qed.
