(* C15 - lemmas, part 3: solid box, position/padding invariance, faces of the generated maximal simplices. *)
From Coq Require Import ZArith List Bool Lia ZifyBool.
From NV.Lib Require Import Harness.
From NV.Generated Require Import IntvolTables.
From NV.C15 Require Import Model Proofs Proofs2.
Import ListNotations.
Open Scope Z_scope.

(* ------------------------------------------------------------------ solid box *)
Definition tst (bi bj bk : bool) (off : pt) : bool :=
  let '(d, e, f) := off in ((d =? 0) || bi) && ((e =? 0) || bj) && ((f =? 0) || bk).
Definition cntT bi bj bk k : Z := sumZ (fun l => b2z (forallb (tst bi bj bk) l)) (Chains k).
Definition H3 bi bj bk : Z := cntT bi bj bk 0 - cntT bi bj bk 1 + cntT bi bj bk 2 - cntT bi bj bk 3.

Lemma H3_val bi bj bk : H3 bi bj bk = if bi || bj || bk then 0 else 1.
Proof. destruct bi, bj, bk; vm_compute; reflexivity. Qed.

Lemma nown_solid a b c i j k n :
  In (i, j, k) (box a b c) ->
  nown (restrict a b c solid) n (i, j, k) = cntT (i + 1 <? Z.of_nat a) (j + 1 <? Z.of_nat b) (k + 1 <? Z.of_nat c) n.
Proof.
  intros Hp. apply box_In in Hp. unfold inbox in Hp. unfold nown, cntT. apply sumZ_ext_in. intros l Hl. f_equal.
  unfold all_in. apply forallb_ext_in. intros off Ho. apply Chains_cube in Hl. rewrite Forall_forall in Hl.
  specialize (Hl off Ho). destruct off as [[d e] f]. apply cube8_bounds in Hl.
  unfold restrict, solid, inbox, padd, tst. lia.
Qed.

Lemma h_solid a b c i j k :
  In (i, j, k) (box a b c) ->
  h (restrict a b c solid) (i, j, k) = H3 (i + 1 <? Z.of_nat a) (j + 1 <? Z.of_nat b) (k + 1 <? Z.of_nat c).
Proof. intros Hp. unfold h, H3. now rewrite !nown_solid. Qed.

Lemma sum_last (g : Z -> Z) n : (forall x, 0 <= x < Z.of_nat n -> g x = 0) -> sumZ g (zrange (S n)) = g (Z.of_nat n).
Proof.
  intros H. rewrite zrange_S, sumZ_app. cbn [sumZ]. rewrite sumZ_zero; [lia|]. intros x Hx. apply H. now apply zrange_In.
Qed.

Lemma chi_solid_box a b c : chi (S a) (S b) (S c) solid = 1.
Proof.
  rewrite chi_as_sum, sum_box.
  transitivity (sumZ (fun i => sumZ (fun j => sumZ (fun k =>
     if (i + 1 <? Z.of_nat (S a)) || (j + 1 <? Z.of_nat (S b)) || (k + 1 <? Z.of_nat (S c)) then 0 else 1)
     (zrange (S c))) (zrange (S b))) (zrange (S a))).
  - apply sumZ_ext_in. intros i Hi. apply sumZ_ext_in. intros j Hj. apply sumZ_ext_in. intros k Hk.
    rewrite h_solid, H3_val; [reflexivity|]. apply box_In. apply zrange_In in Hi, Hj, Hk. unfold inbox. lia.
  - rewrite sum_last.
    + rewrite sum_last.
      * rewrite sum_last.
        -- destruct ((Z.of_nat a + 1 <? Z.of_nat (S a)) || (Z.of_nat b + 1 <? Z.of_nat (S b)) || (Z.of_nat c + 1 <? Z.of_nat (S c))) eqn:E; lia.
        -- intros k Hk. destruct ((Z.of_nat a + 1 <? Z.of_nat (S a)) || (Z.of_nat b + 1 <? Z.of_nat (S b)) || (k + 1 <? Z.of_nat (S c))) eqn:E; lia.
      * intros j Hj. apply sumZ_zero. intros k _.
        destruct ((Z.of_nat a + 1 <? Z.of_nat (S a)) || (j + 1 <? Z.of_nat (S b)) || (k + 1 <? Z.of_nat (S c))) eqn:E; lia.
    + intros i Hi. apply sumZ_zero. intros j _. apply sumZ_zero. intros k _.
      destruct ((i + 1 <? Z.of_nat (S a)) || (j + 1 <? Z.of_nat (S b)) || (k + 1 <? Z.of_nat (S c))) eqn:E; lia.
Qed.

(* ------------------------------------------------------------------ position and padding *)

Lemma nown_ext N N' k p : (forall q, N q = N' q) -> nown N k p = nown N' k p.
Proof.
  intros H. unfold nown. apply sumZ_ext_in. intros l _. f_equal. unfold all_in. apply forallb_ext_in. intros off _. apply H.
Qed.
Lemma h_ext N N' p : (forall q, N q = N' q) -> h N p = h N' p.
Proof. intros H. unfold h. now rewrite !(nown_ext N N' _ p H). Qed.

Lemma nown_shift t N k p : nown (shiftM t N) k p = nown N k (padd (pneg t) p).
Proof.
  unfold nown. apply sumZ_ext_in. intros l _. f_equal. unfold all_in, shiftM. apply forallb_ext_in. intros off _.
  now rewrite padd_assoc.
Qed.
Lemma h_shift t N p : h (shiftM t N) p = h N (padd (pneg t) p).
Proof. unfold h. now rewrite !nown_shift. Qed.

Lemma nown_zero N k p : N p = false -> nown N k p = 0.
Proof.
  intros H. unfold nown. apply sumZ_zero. intros l Hl. apply Chains_hd in Hl. destruct Hl as [r ->].
  unfold all_in. cbn [forallb]. now rewrite padd_origin, H.
Qed.
Lemma h_zero N p : N p = false -> h N p = 0.
Proof. intros H. unfold h. now rewrite !nown_zero. Qed.

Lemma sum_shift_pad (f : Z -> Z) (a r t0 : nat) :
  (forall x, x < 0 \/ Z.of_nat a <= x -> f x = 0) ->
  sumZ (fun i => f (i - Z.of_nat t0)) (zrange (t0 + a + r)) = sumZ f (zrange a).
Proof.
  intros H. rewrite !zrange_app, !sumZ_app, !sumZ_map.
  rewrite (sumZ_zero _ (zrange t0)).
  2:{ intros x Hx. apply zrange_In in Hx. apply H. lia. }
  rewrite (sumZ_zero _ (zrange r)).
  2:{ intros x Hx. apply zrange_In in Hx. apply H. lia. }
  rewrite Z.add_0_l, Z.add_0_r. apply sumZ_ext_in. intros x _. f_equal. lia.
Qed.

Lemma sum3_shift (H : Z -> Z -> Z -> Z) a b c ti tj tk ri rj rk :
  (forall i j k, inbox a b c (i, j, k) = false -> H i j k = 0) ->
  sumZ (fun i => sumZ (fun j => sumZ (fun k => H (i - Z.of_nat ti) (j - Z.of_nat tj) (k - Z.of_nat tk))
     (zrange (tk + c + rk))) (zrange (tj + b + rj))) (zrange (ti + a + ri))
  = sumZ (fun i => sumZ (fun j => sumZ (fun k => H i j k) (zrange c)) (zrange b)) (zrange a).
Proof.
  intros Hz.
  etransitivity.
  { apply (sum_shift_pad (fun x => sumZ (fun j => sumZ (fun k => H x (j - Z.of_nat tj) (k - Z.of_nat tk))
       (zrange (tk + c + rk))) (zrange (tj + b + rj))) a ri ti).
    intros x Hx. apply sumZ_zero. intros j _. apply sumZ_zero. intros k _. apply Hz. unfold inbox. lia. }
  apply sumZ_ext_in. intros i _.
  etransitivity.
  { apply (sum_shift_pad (fun y => sumZ (fun k => H i y (k - Z.of_nat tk)) (zrange (tk + c + rk))) b rj tj).
    intros y Hy. apply sumZ_zero. intros k _. apply Hz. unfold inbox. lia. }
  apply sumZ_ext_in. intros j _.
  apply (sum_shift_pad (fun z => H i j z) c rk tk). intros z Hzz. apply Hz. unfold inbox. lia.
Qed.

Lemma chi_shift_pad a b c M ti tj tk ri rj rk :
  chi (ti + a + ri) (tj + b + rj) (tk + c + rk) (shiftM (Z.of_nat ti, Z.of_nat tj, Z.of_nat tk) (restrict a b c M))
  = chi a b c M.
Proof.
  rewrite !chi_as_sum, !sum_box.
  rewrite <- (sum3_shift (fun i j k => h (restrict a b c M) (i, j, k)) a b c ti tj tk ri rj rk).
  - apply sumZ_ext_in. intros i _. apply sumZ_ext_in. intros j _. apply sumZ_ext_in. intros k _.
    rewrite (h_ext _ (shiftM (Z.of_nat ti, Z.of_nat tj, Z.of_nat tk) (restrict a b c M))).
    + rewrite h_shift. f_equal. unfold padd, pneg. pt_eq.
    + intros [[x y] z]. unfold restrict, shiftM, inbox, padd, pneg.
      destruct (M (- Z.of_nat ti + x, - Z.of_nat tj + y, - Z.of_nat tk + z)); lia.
  - intros i j k Hout. apply h_zero. now apply restrict_out.
Qed.

(* ------------------------------------------------------------------ faces of the generated maximal simplices *)
Definition wsum (p : pt) : Z := let '(a, b, c) := p in a + b + c.

Lemma chain_from_len p0 p S :
  chain_from p0 p S = true -> S <> [] -> wsum p + Z.of_nat (length S) <= wsum p0 + 3.
Proof.
  revert p. induction S as [|q S IH]; intros p H Hne; [congruence|].
  cbn [chain_from] in H. apply andb_true_iff in H. destruct H as [H1 H3].
  apply andb_true_iff in H1. destruct H1 as [H1 H2].
  assert (Hpq : wsum p + 1 <= wsum q).
  { destruct p as [[a b] c], q as [[d e] f]. unfold plt, ple, pt_eqb, wsum in *. lia. }
  assert (Hq : wsum q <= wsum p0 + 3).
  { destruct p0 as [[a b] c], q as [[d e] f]. unfold within1, ple, padd, wsum in *. lia. }
  destruct S as [|q' S'].
  - cbn [length]. lia.
  - specialize (IH q H3 ltac:(discriminate)). cbn [length] in *. lia.
Qed.

Lemma chain_len p S : chainb (p :: S) = true -> (length S <= 3)%nat.
Proof.
  intros H. cbn [chainb] in H. destruct S as [|q S]; [cbn; lia|].
  pose proof (chain_from_len p p (q :: S) H ltac:(discriminate)) as HH. lia.
Qed.

Lemma sublists_map {A B} (f : A -> B) l : sublists (map f l) = map (map f) (sublists l).
Proof.
  induction l as [|x l IH]; cbn [sublists map]; [reflexivity|].
  rewrite map_app, IH, !map_map. reflexivity.
Qed.

Definition plist_eqb := list_eqb pt_eqb.
Lemma plist_eqb_eq l1 l2 : plist_eqb l1 l2 = true <-> l1 = l2.
Proof. apply list_eqb_spec. apply pt_eqb_eq. Qed.
Definition memb (l : list pt) (L : list (list pt)) : bool := existsb (plist_eqb l) L.
Lemma memb_In l L : memb l L = true <-> In l L.
Proof.
  unfold memb. rewrite existsb_exists. split.
  - intros [x [Hx E]]. apply plist_eqb_eq in E. now subst.
  - intros H. exists l. split; [assumption|now apply plist_eqb_eq].
Qed.

Definition is_nil {A} (l : list A) : bool := match l with [] => true | _ => false end.

(* every chain from the origin is a face of a generated maximal simplex *)
Lemma chains_are_faces :
  forallb (fun k => forallb (fun l => existsb (fun tau => memb l (sublists tau)) src3_c4) (Chains k)) [0; 1; 2; 3]%nat = true.
Proof. vm_compute. reflexivity. Qed.
(* every non-empty face of a generated maximal simplex is a chain *)
Lemma faces_are_chains :
  forallb (fun tau => forallb (fun l => is_nil l || chainb l) (sublists tau)) src3_c4 = true.
Proof. vm_compute. reflexivity. Qed.


Lemma kuhn_face_iff_chain S : kuhn_face S <-> chainb S = true.
Proof.
  split.
  - intros [Hne [q [tau [Ht HS]]]]. rewrite sublists_map in HS. apply in_map_iff in HS. destruct HS as [S0 [<- HS0]].
    rewrite chainb_shift. pose proof faces_are_chains as F. rewrite forallb_forall in F. specialize (F tau Ht).
    rewrite forallb_forall in F. specialize (F S0 HS0). destruct S0 as [|x S0]; [now elim Hne|]. exact F.
  - intros H. destruct S as [|p S]; [discriminate|]. split; [discriminate|].
    pose proof (chain_len p S H) as Hlen. pose proof (chain_normalise p S H) as Hin.
    pose proof chains_are_faces as F. rewrite forallb_forall in F.
    assert (Hk : In (length S) [0; 1; 2; 3]%nat) by (cbn; lia).
    specialize (F _ Hk). rewrite forallb_forall in F. specialize (F _ Hin). apply existsb_exists in F.
    destruct F as [tau [Ht Hm]]. apply memb_In in Hm. exists p, tau. split; [assumption|].
    rewrite sublists_map. apply in_map_iff. exists (map (padd (pneg p)) (p :: S)). split; [apply map_padd_neg_l|assumption].
Qed.
