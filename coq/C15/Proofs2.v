(* C15 - lemmas, part 2: flat indexing of the padded mask; EC3d/EC2d/EC1d count K(mask). *)
From Coq Require Import ZArith List Bool Lia ZifyBool.
From NV.Generated Require Import IntvolTables.
From NV.C15 Require Import Model Proofs.
Import ListNotations.
Open Scope Z_scope.

(* number of k-simplices owned by voxel p (least vertex p), and their alternating sum *)
Definition nown (N : pt -> bool) (k : nat) (p : pt) : Z := sumZ (fun l => b2z (all_in N p l)) (Chains k).
Definition h (N : pt -> bool) (p : pt) : Z := nown N 0 p - nown N 1 p + nown N 2 p - nown N 3 p.

Lemma sumZ_4 {A} (f1 f2 f3 f4 : A -> Z) l :
  sumZ (fun x => f1 x - f2 x + f3 x - f4 x) l = sumZ f1 l - sumZ f2 l + sumZ f3 l - sumZ f4 l.
Proof. induction l as [|x l IH]; cbn [sumZ]; lia. Qed.

Lemma nK_as_sum a b c M k : nK a b c M k = sumZ (nown (restrict a b c M) k) (box a b c).
Proof.
  unfold nK, Kenum. rewrite length_flat_map_sum. apply sumZ_ext_in. intros p _.
  unfold owned, nown. now rewrite map_length, length_filter_sum.
Qed.

Lemma chi_as_sum a b c M : chi a b c M = sumZ (h (restrict a b c M)) (box a b c).
Proof. unfold chi, h. rewrite !nK_as_sum. symmetry. apply sumZ_4. Qed.

Lemma sum_box (F : pt -> Z) a b c :
  sumZ F (box a b c) = sumZ (fun i => sumZ (fun j => sumZ (fun k => F (i, j, k)) (zrange c)) (zrange b)) (zrange a).
Proof.
  unfold box. rewrite sumZ_flat_map. apply sumZ_ext_in. intros i _.
  rewrite sumZ_flat_map. apply sumZ_ext_in. intros j _. now rewrite sumZ_map.
Qed.

Lemma Chains0 : Chains 0 = [[origin]].
Proof. vm_compute. reflexivity. Qed.

Lemma nown0 N p : nown N 0 p = b2z (N p).
Proof. unfold nown. rewrite Chains0. cbn [sumZ all_in forallb]. rewrite padd_origin. destruct (N p); reflexivity. Qed.

Lemma cube8_bounds d e f : In (d, e, f) cube8 -> (0 <= d <= 1) /\ (0 <= e <= 1) /\ (0 <= f <= 1).
Proof. cbn. intros H. repeat (destruct H as [H|H]; [inversion H; lia|]). destruct H. Qed.

Lemma Chains_cube k l : In l (Chains k) -> Forall (fun x => In x cube8) l.
Proof. intros H. apply Chains_In in H. tauto. Qed.

(* ------------------------------------------------------------------ sums over the flattened array *)
Lemma sum_flat2 (f : Z -> Z) m n :
  sumZ f (zrange (m * n)) = sumZ (fun i => sumZ (fun j => f (i * Z.of_nat n + j)) (zrange n)) (zrange m).
Proof.
  induction m as [|m IH]; [reflexivity|].
  rewrite Nat.mul_succ_l, zrange_app, sumZ_app, IH, zrange_S, sumZ_app, sumZ_map. cbn [sumZ].
  rewrite Z.add_0_r. f_equal. apply sumZ_ext_in. intros j _. f_equal. lia.
Qed.

Lemma sum_pad1 (g : Z -> Z) n : g (Z.of_nat n) = 0 -> sumZ g (zrange (n + 1)) = sumZ g (zrange n).
Proof. intros H. rewrite Nat.add_1_r, zrange_S, sumZ_app. cbn [sumZ]. lia. Qed.

(* ------------------------------------------------------------------ 3-d: flat index <-> coordinates *)
Lemma fp3_decode a b c M i j k :
  0 <= i -> 0 <= j <= Z.of_nat b -> 0 <= k <= Z.of_nat c ->
  fpmask3 a b c M (i * ((Z.of_nat b + 1) * (Z.of_nat c + 1)) + j * (Z.of_nat c + 1) + k) = restrict a b c M (i, j, k).
Proof.
  intros Hi Hj Hk. unfold fpmask3.
  set (s1 := Z.of_nat b + 1). set (s2 := Z.of_nat c + 1).
  set (v := i * (s1 * s2) + j * s2 + k).
  assert (E1 : v / (s1 * s2) = i).
  { symmetry. apply Z.div_unique with (r := j * s2 + k); [left; subst s1 s2; nia|subst v; ring]. }
  assert (E2 : v / s2 = i * s1 + j).
  { symmetry. apply Z.div_unique with (r := k); [left; subst s2; lia|subst v; ring]. }
  assert (E3 : v mod s2 = k).
  { symmetry. apply Z.mod_unique with (q := i * s1 + j); [left; subst s2; lia|subst v; ring]. }
  assert (E4 : (i * s1 + j) mod s1 = j).
  { symmetry. apply Z.mod_unique with (q := i); [left; subst s1; lia|ring]. }
  now rewrite E1, E2, E3, E4.
Qed.

Lemma simplex_in3 a b c M p l :
  In p (box a b c) -> Forall (fun x => In x cube8) l ->
  simplex_in (fpmask3 a b c M) (strides3 b c) (flat (strides3 b c) p) l = all_in (restrict a b c M) p l.
Proof.
  intros Hp Hl. unfold simplex_in, all_in. apply forallb_ext_in. intros off Ho.
  rewrite Forall_forall in Hl. specialize (Hl off Ho). destruct off as [[d e] f], p as [[i j] k].
  apply cube8_bounds in Hl. apply box_In in Hp. unfold inbox in Hp.
  unfold flat, strides3, padd.
  replace (i * ((Z.of_nat b + 1) * (Z.of_nat c + 1)) + j * (Z.of_nat c + 1) + k * 1 +
           (d * ((Z.of_nat b + 1) * (Z.of_nat c + 1)) + e * (Z.of_nat c + 1) + f * 1))
    with ((i + d) * ((Z.of_nat b + 1) * (Z.of_nat c + 1)) + (j + e) * (Z.of_nat c + 1) + (k + f)) by ring.
  apply fp3_decode; lia.
Qed.

Lemma restrict_out a b c M p : inbox a b c p = false -> restrict a b c M p = false.
Proof. intros H. unfold restrict. now rewrite H. Qed.

Lemma fp3_sum a b c M :
  sumZ (fun v => b2z (fpmask3 a b c M v)) (zrange ((a + 1) * (b + 1) * (c + 1)))
  = sumZ (fun p => b2z (restrict a b c M p)) (box a b c).
Proof.
  rewrite sum_flat2, sum_flat2, sum_box.
  transitivity (sumZ (fun i => sumZ (fun j => sumZ (fun k => b2z (restrict a b c M (i, j, k)))
                  (zrange (c + 1))) (zrange (b + 1))) (zrange (a + 1))).
  - apply sumZ_ext_in. intros i Hi. apply sumZ_ext_in. intros j Hj. apply sumZ_ext_in. intros k Hk.
    apply zrange_In in Hi, Hj, Hk. f_equal.
    replace ((i * Z.of_nat (b + 1) + j) * Z.of_nat (c + 1) + k)
      with (i * ((Z.of_nat b + 1) * (Z.of_nat c + 1)) + j * (Z.of_nat c + 1) + k) by lia.
    apply fp3_decode; lia.
  - rewrite sum_pad1.
    + apply sumZ_ext_in. intros i Hi. rewrite sum_pad1.
      * apply sumZ_ext_in. intros j Hj. rewrite sum_pad1; [reflexivity|].
        rewrite restrict_out; [reflexivity|]. unfold inbox. lia.
      * apply sumZ_zero. intros k _. rewrite restrict_out; [reflexivity|]. unfold inbox. lia.
    + apply sumZ_zero. intros j _. apply sumZ_zero. intros k _. rewrite restrict_out; [reflexivity|]. unfold inbox. lia.
Qed.

Lemma cnt_chains3 a b c M p k :
  In p (box a b c) ->
  cnt (fpmask3 a b c M) (strides3 b c) (flat (strides3 b c) p) (Chains k) = nown (restrict a b c M) k p.
Proof.
  intros Hp. unfold cnt, nown. apply sumZ_ext_in. intros l Hl.
  rewrite simplex_in3; [reflexivity|assumption|now apply Chains_cube with k].
Qed.

Lemma EC3d_noguard_chi a b c M : EC3d_noguard a b c M = chi a b c M.
Proof.
  unfold EC3d_noguard, EC3d_gen, cnt_g. destruct tables3_are_chains as (_ & E2 & E3 & E4).
  rewrite E2, E3, E4, fp3_sum, chi_as_sum.
  set (ss := strides3 b c). set (fp := fpmask3 a b c M).
  transitivity (sumZ (fun p => - cnt fp ss (flat ss p) (Chains 3) + cnt fp ss (flat ss p) (Chains 2)
                                - cnt fp ss (flat ss p) (Chains 1)) (box a b c)
                + sumZ (fun p => b2z (restrict a b c M p)) (box a b c)).
  - f_equal. symmetry. apply (sum_box (fun p => - cnt fp ss (flat ss p) (Chains 3) + cnt fp ss (flat ss p) (Chains 2)
                                - cnt fp ss (flat ss p) (Chains 1))).
  - rewrite <- sumZ_add. apply sumZ_ext_in. intros p Hp. subst ss fp.
    rewrite !cnt_chains3 by assumption. unfold h. rewrite nown0. lia.
Qed.

Lemma EC3d_is_noguard :
  src3_guard_d4 = false -> src3_guard_d3 = false -> src3_guard_d2 = false -> EC3d = EC3d_noguard.
Proof. intros H4 H3 H2. unfold EC3d, EC3d_noguard. now rewrite H4, H3, H2. Qed.

(* ------------------------------------------------------------------ 2-d *)
Lemma fp2_decode a b M i j :
  0 <= i -> 0 <= j <= Z.of_nat b -> fpmask2 a b M (i * (Z.of_nat b + 1) + j) = restrict a b 1 M (i, j, 0).
Proof.
  intros Hi Hj. unfold fpmask2. set (s1 := Z.of_nat b + 1).
  assert (E1 : (i * s1 + j) / s1 = i).
  { symmetry. apply Z.div_unique with (r := j); [left; subst s1; lia|ring]. }
  assert (E2 : (i * s1 + j) mod s1 = j).
  { symmetry. apply Z.mod_unique with (q := i); [left; subst s1; lia|ring]. }
  now rewrite E1, E2.
Qed.

Lemma inplane_cons d e f l : inplane ((d, e, f) :: l) = (f =? 0) && inplane l.
Proof. reflexivity. Qed.

Lemma simplex_in2 a b M i j l :
  In (i, j, 0) (box a b 1) -> Forall (fun x => In x cube8) l -> inplane l = true ->
  simplex_in (fpmask2 a b M) (strides2 b) (flat (strides2 b) (i, j, 0)) l = all_in (restrict a b 1 M) (i, j, 0) l.
Proof.
  intros Hp Hl Hpl. unfold simplex_in, all_in. apply forallb_ext_in. intros off Ho.
  rewrite Forall_forall in Hl. specialize (Hl off Ho). destruct off as [[d e] f].
  assert (Hf : f = 0).
  { unfold inplane in Hpl. rewrite forallb_forall in Hpl. specialize (Hpl _ Ho). cbn in Hpl. lia. }
  subst f. apply cube8_bounds in Hl. apply box_In in Hp. unfold inbox in Hp.
  unfold flat, strides2, padd.
  replace (i * (Z.of_nat b + 1) + j * 1 + 0 * 0 + (d * (Z.of_nat b + 1) + e * 1 + 0 * 0))
    with ((i + d) * (Z.of_nat b + 1) + (j + e)) by ring.
  rewrite fp2_decode by lia. reflexivity.
Qed.

Lemma all_in_offplane a b M i j l :
  Forall (fun x => In x cube8) l -> inplane l = false -> all_in (restrict a b 1 M) (i, j, 0) l = false.
Proof.
  intros Hl. induction Hl as [|off l Ho Hl IH]; intros Hpl; [discriminate|].
  destruct off as [[d e] f]. rewrite inplane_cons in Hpl. unfold all_in. cbn [forallb].
  destruct (f =? 0) eqn:Ef.
  - cbn [andb] in Hpl. apply IH in Hpl. unfold all_in in Hpl. rewrite Hpl. apply andb_false_r.
  - apply cube8_bounds in Ho. rewrite restrict_out; [reflexivity|]. unfold padd, inbox. lia.
Qed.

Lemma nown_plane a b M i j k :
  nown (restrict a b 1 M) k (i, j, 0)
  = sumZ (fun l => b2z (all_in (restrict a b 1 M) (i, j, 0) l)) (filter inplane (Chains k)).
Proof.
  unfold nown. rewrite sumZ_filter. apply sumZ_ext_in. intros l Hl. destruct (inplane l) eqn:E; [reflexivity|].
  rewrite all_in_offplane; [reflexivity|now apply Chains_cube with k|assumption].
Qed.

Lemma cnt_chains2 a b M i j k :
  In (i, j, 0) (box a b 1) ->
  cnt (fpmask2 a b M) (strides2 b) (flat (strides2 b) (i, j, 0)) (filter inplane (Chains k))
  = nown (restrict a b 1 M) k (i, j, 0).
Proof.
  intros Hp. rewrite nown_plane. unfold cnt. apply sumZ_ext_in. intros l Hl. apply filter_In in Hl.
  destruct Hl as [Hl Hpl]. rewrite simplex_in2; [reflexivity|assumption|now apply Chains_cube with k|assumption].
Qed.

Lemma fp2_sum a b M :
  sumZ (fun v => b2z (fpmask2 a b M v)) (zrange ((a + 1) * (b + 1)))
  = sumZ (fun i => sumZ (fun j => b2z (restrict a b 1 M (i, j, 0))) (zrange b)) (zrange a).
Proof.
  rewrite sum_flat2.
  transitivity (sumZ (fun i => sumZ (fun j => b2z (restrict a b 1 M (i, j, 0))) (zrange (b + 1))) (zrange (a + 1))).
  - apply sumZ_ext_in. intros i Hi. apply sumZ_ext_in. intros j Hj. apply zrange_In in Hi, Hj. f_equal.
    replace (i * Z.of_nat (b + 1) + j) with (i * (Z.of_nat b + 1) + j) by lia. apply fp2_decode; lia.
  - rewrite sum_pad1.
    + apply sumZ_ext_in. intros i Hi. rewrite sum_pad1; [reflexivity|].
      rewrite restrict_out; [reflexivity|]. unfold inbox. lia.
    + apply sumZ_zero. intros j _. rewrite restrict_out; [reflexivity|]. unfold inbox. lia.
Qed.

Lemma sum_box_plane (F : pt -> Z) a b :
  sumZ F (box a b 1) = sumZ (fun i => sumZ (fun j => F (i, j, 0)) (zrange b)) (zrange a).
Proof.
  rewrite sum_box. apply sumZ_ext_in. intros i _. apply sumZ_ext_in. intros j _. cbn. lia.
Qed.

Lemma nown3_plane a b M i j : nown (restrict a b 1 M) 3 (i, j, 0) = 0.
Proof. rewrite nown_plane. destruct tables2_are_plane_chains as (_ & _ & _ & E). now rewrite E. Qed.

Lemma EC2d_noguard_chi a b M : EC2d_noguard a b M = chi a b 1 M.
Proof.
  unfold EC2d_noguard, EC2d_gen, cnt_g. destruct tables2_are_plane_chains as (_ & E2 & E3 & _).
  rewrite E2, E3, fp2_sum, chi_as_sum, sum_box_plane, <- sumZ_add.
  apply sumZ_ext_in. intros i Hi. rewrite <- sumZ_add. apply sumZ_ext_in. intros j Hj.
  assert (Hp : In (i, j, 0) (box a b 1)).
  { apply box_In. apply zrange_In in Hi, Hj. unfold inbox. lia. }
  rewrite !cnt_chains2 by assumption. unfold h. rewrite nown0, nown3_plane. lia.
Qed.

(* the guard `v0 != 0` only matters for the voxel (0, 0) *)
Lemma cnt_guarded_same a b M i j D :
  In (i, j, 0) (box a b 1) -> restrict a b 1 M (0, 0, 0) = false ->
  Forall (fun l => exists r, l = origin :: r) D ->
  cnt_guarded (fpmask2 a b M) (strides2 b) (flat (strides2 b) (i, j, 0)) D
  = cnt (fpmask2 a b M) (strides2 b) (flat (strides2 b) (i, j, 0)) D.
Proof.
  intros Hp H0 HD. unfold cnt_guarded, cnt. apply sumZ_ext_in. intros l Hl.
  rewrite Forall_forall in HD. destruct (HD l Hl) as [r ->]. cbn [hd].
  apply box_In in Hp. unfold inbox in Hp.
  destruct (flat (strides2 b) (i, j, 0) + flat (strides2 b) origin =? 0) eqn:E; [|reflexivity].
  cbn [negb andb]. unfold simplex_in. cbn [forallb].
  assert (E0 : flat (strides2 b) (i, j, 0) + flat (strides2 b) origin = 0 * (Z.of_nat b + 1) + 0).
  { unfold flat, strides2, origin in *. lia. }
  rewrite E0, fp2_decode by lia. rewrite H0. reflexivity.
Qed.

Lemma plane_tables_hd : Forall (fun l => exists r, l = origin :: r) (d2_of src2_d3).
Proof. destruct tables2_are_plane_chains as (_ & _ & E & _). rewrite E. apply Forall_forall. intros l Hl.
  apply filter_In in Hl. destruct Hl as [Hl _]. now apply Chains_hd with 2%nat. Qed.

Lemma EC2d_guarded_chi a b M : restrict a b 1 M (0, 0, 0) = false -> EC2d_guarded a b M = chi a b 1 M.
Proof.
  intros H0. rewrite <- EC2d_noguard_chi. unfold EC2d_guarded, EC2d_noguard, EC2d_gen. f_equal.
  apply sumZ_ext_in. intros i Hi. apply sumZ_ext_in. intros j Hj. f_equal. unfold cnt_g.
  apply cnt_guarded_same; [|assumption|apply plane_tables_hd].
  apply box_In. apply zrange_In in Hi, Hj. unfold inbox. lia.
Qed.

(* ------------------------------------------------------------------ 1-d *)
Definition inline (l : list pt) : bool := forallb (fun '(_, j, k) => (j =? 0) && (k =? 0)) l.
Lemma line_chains :
  filter inline (Chains 1) = [[origin; (1, 0, 0)]] /\ filter inline (Chains 2) = [] /\ filter inline (Chains 3) = [].
Proof. vm_compute. repeat split; reflexivity. Qed.

Lemma all_in_offline a M i l :
  Forall (fun x => In x cube8) l -> inline l = false -> all_in (restrict a 1 1 M) (i, 0, 0) l = false.
Proof.
  intros Hl. induction Hl as [|off l Ho Hl IH]; intros Hpl; [discriminate|].
  destruct off as [[d e] f]. unfold inline in Hpl. cbn [forallb] in Hpl. unfold all_in. cbn [forallb].
  destruct ((e =? 0) && (f =? 0)) eqn:Ef.
  - cbn [andb] in Hpl. apply IH in Hpl. unfold all_in in Hpl. rewrite Hpl. apply andb_false_r.
  - apply cube8_bounds in Ho. rewrite restrict_out; [reflexivity|]. unfold padd, inbox. lia.
Qed.

Lemma nown_line a M i k :
  nown (restrict a 1 1 M) k (i, 0, 0)
  = sumZ (fun l => b2z (all_in (restrict a 1 1 M) (i, 0, 0) l)) (filter inline (Chains k)).
Proof.
  unfold nown. rewrite sumZ_filter. apply sumZ_ext_in. intros l Hl. destruct (inline l) eqn:E; [reflexivity|].
  rewrite all_in_offline; [reflexivity|now apply Chains_cube with k|assumption].
Qed.

Lemma EC1d_chi a M : EC1d a M = chi a 1 1 M.
Proof.
  unfold EC1d. rewrite chi_as_sum, sum_box, <- sumZ_add. apply sumZ_ext_in. intros i Hi.
  cbn [zrange seq map sumZ]. change (Z.of_nat 0) with 0. rewrite !Z.add_0_r. apply zrange_In in Hi.
  unfold h. rewrite nown0, !nown_line. destruct line_chains as (E1 & E2 & E3). rewrite E1, E2, E3.
  cbn [sumZ all_in forallb]. rewrite padd_origin. unfold padd. rewrite !Z.add_0_r.
  destruct (i + 1 <? Z.of_nat a) eqn:E.
  - rewrite Z.mod_small by lia. rewrite !andb_true_r. destruct (restrict a 1 1 M (i, 0, 0)), (restrict a 1 1 M (i + 1, 0, 0)); cbn; lia.
  - rewrite (restrict_out a 1 1 M (i + 1, 0, 0)) by (unfold inbox; lia). rewrite !andb_false_r. cbn. lia.
Qed.
