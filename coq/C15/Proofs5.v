(* C15 - lemmas, part 5: IntrinsicVolumes.__mul__ is the polynomial product; evaluation of an ECcone leaves its stored regions alone. *)
From Coq Require Import ZArith List Bool Lia.
From NV.Generated Require Import RftFlags.
From NV.C15 Require Import Model.
Import ListNotations.
Open Scope Z_scope.

Lemma peval_scale c p x : peval (pscale c p) x = c * peval p x.
Proof. induction p as [|y p IH]; cbn [pscale map peval]; [ring|]. fold (pscale c p). rewrite IH. ring. Qed.
Lemma peval_add p q x : peval (ppoly_add p q) x = peval p x + peval q x.
Proof.
  revert q. induction p as [|y p IH]; intros [|z q]; cbn [ppoly_add peval]; try ring. rewrite IH. ring.
Qed.
Lemma iv_mul_eval a b x : peval (iv_mul a b) x = peval a x * peval b x.
Proof.
  induction a as [|y a IH]; cbn [iv_mul peval]; [ring|]. rewrite peval_add, peval_scale. cbn [peval]. rewrite IH. ring.
Qed.
Lemma ppoly_add_length p q : length (ppoly_add p q) = Nat.max (length p) (length q).
Proof. revert q. induction p as [|y p IH]; intros [|z q]; cbn [ppoly_add length]; try reflexivity. now rewrite IH. Qed.
Lemma iv_mul_length a b : a <> [] -> b <> [] -> (length (iv_mul a b) + 1 = length a + length b)%nat.
Proof.
  intros Ha Hb. induction a as [|y a IH]; [congruence|]. cbn [iv_mul]. rewrite ppoly_add_length. unfold pscale. rewrite map_length.
  destruct a as [|y' a'].
  - cbn. destruct b; [congruence|cbn; lia].
  - cbn [length]. specialize (IH ltac:(discriminate)). cbn [length] in IH. lia.
Qed.
Lemma call_pure st e : snd (call_src st e) = st.
Proof. destruct e; reflexivity. Qed.
Lemma call_repeat st e1 e2 : fst (call_src (snd (call_src st e1)) e2) = fst (call_src st e2).
Proof. now rewrite call_pure. Qed.
Lemma call_imul_refuted : exists st,
  fst (call_regions true true true (snd (call_regions true true true st None)) None) <> fst (call_regions true true true st None).
Proof. exists (mkcone [1] [1] [2; 0; 3]). vm_compute. discriminate. Qed.
