(* C15 - lemmas, part 6: rft._hermitenorm_coeffs is the probabilists' Hermite polynomial He_n (three-term recurrence of the
   evaluations, degree, monic, parity), for every n. *)
From Coq Require Import ZArith List Bool Lia ZifyBool.
From NV.C15 Require Import Model.
Import ListNotations.
Open Scope Z_scope.

Definition hf (x : Z) := fun acc c : Z => acc * x + c.
Lemma hev_app0 b x : hev (b ++ [0]) x = x * hev b x.
Proof. unfold hev. rewrite fold_left_app. cbn [fold_left]. ring. Qed.
Lemma hf_repeat0 k x : fold_left (hf x) (repeat 0 k) 0 = 0.
Proof. induction k as [|k IH]; cbn [repeat fold_left]; [reflexivity|]. unfold hf at 2. replace (0 * x + 0) with 0 by ring. exact IH. Qed.
Lemma hev_pad k a x : hev (repeat 0 k ++ a) x = hev a x.
Proof. unfold hev. fold (hf x). rewrite fold_left_app, hf_repeat0. reflexivity. Qed.
Lemma hf_zip r x : forall p q a1 a2, length p = length q ->
  fold_left (hf x) (map (fun uv => fst uv - r * snd uv) (combine p q)) (a1 - r * a2)
  = fold_left (hf x) p a1 - r * fold_left (hf x) q a2.
Proof.
  induction p as [|u p IH]; intros [|v q] a1 a2 Hl; cbn [length] in Hl; try discriminate; cbn [combine map fold_left fst snd]; [reflexivity|].
  replace (hf x (a1 - r * a2) (u - r * v)) with (hf x a1 u - r * hf x a2 v) by (unfold hf; ring).
  apply IH. lia.
Qed.
Lemma hev_zip r x p q : length p = length q ->
  hev (map (fun uv => fst uv - r * snd uv) (combine p q)) x = hev p x - r * hev q x.
Proof.
  intros Hl. unfold hev. change (fun acc c : Z => acc * x + c) with (hf x).
  rewrite <- (hf_zip r x p q 0 0 Hl). f_equal. ring.
Qed.
Lemma herm_step_eval r a b x : (length a <= S (length b))%nat ->
  hev (herm_step r a b) x = x * hev b x - r * hev a x.
Proof.
  intros Hl. unfold herm_step. cbv zeta. rewrite hev_zip.
  - rewrite hev_app0, hev_pad. reflexivity.
  - rewrite !app_length, repeat_length. cbn [length]. lia.
Qed.
Lemma herm_step_length r a b : (length a <= S (length b))%nat -> length (herm_step r a b) = S (length b).
Proof. intros Hl. unfold herm_step. cbv zeta. rewrite map_length, combine_length. rewrite (app_length (repeat _ _)), repeat_length, !app_length. cbn [length]. lia. Qed.
Lemma herm_loop_unroll : forall k r a b,
  herm_loop (S k) r a b = (snd (herm_loop k r a b), herm_step (r + Z.of_nat k) (fst (herm_loop k r a b)) (snd (herm_loop k r a b))).
Proof.
  induction k as [|k IH]; intros r a b.
  - cbn [herm_loop fst snd Z.of_nat]. now rewrite Z.add_0_r.
  - change (herm_loop (S (S k)) r a b) with (herm_loop (S k) (r + 1) b (herm_step r a b)). rewrite IH.
    cbn [herm_loop]. replace (r + 1 + Z.of_nat k) with (r + Z.of_nat (S k)) by lia. reflexivity.
Qed.
Lemma herm_loop_fst n : fst (herm_loop n 1 [1] [1; 0]) = hermitenorm_coeffs n.
Proof. destruct n as [|m]; [reflexivity|]. rewrite herm_loop_unroll. reflexivity. Qed.
Lemma herm_length : forall n, length (hermitenorm_coeffs n) = S n.
Proof.
  assert (H : forall n, length (hermitenorm_coeffs n) = S n /\ length (hermitenorm_coeffs (S n)) = S (S n)).
  { induction n as [|n [IH1 IH2]]; [split; reflexivity|]. split; [exact IH2|].
    change (hermitenorm_coeffs (S (S n))) with (snd (herm_loop (S n) 1 [1] [1; 0])).
    rewrite herm_loop_unroll. cbn [snd]. rewrite herm_loop_fst. change (snd (herm_loop n 1 [1] [1; 0])) with (hermitenorm_coeffs (S n)).
    rewrite herm_step_length; lia. }
  intros n. apply H.
Qed.
Lemma herm_succ n : hermitenorm_coeffs (S (S n)) = herm_step (Z.of_nat (S n)) (hermitenorm_coeffs n) (hermitenorm_coeffs (S n)).
Proof.
  change (hermitenorm_coeffs (S (S n))) with (snd (herm_loop (S n) 1 [1] [1; 0])).
  rewrite herm_loop_unroll. cbn [snd]. rewrite herm_loop_fst. change (snd (herm_loop n 1 [1] [1; 0])) with (hermitenorm_coeffs (S n)).
  f_equal. lia.
Qed.
Lemma herm_recurrence n x :
  hev (hermitenorm_coeffs (S (S n))) x = x * hev (hermitenorm_coeffs (S n)) x - Z.of_nat (S n) * hev (hermitenorm_coeffs n) x.
Proof. rewrite herm_succ. apply herm_step_eval. rewrite !herm_length. lia. Qed.
Lemma herm_base x : hev (hermitenorm_coeffs 0) x = 1 /\ hev (hermitenorm_coeffs 1) x = x.
Proof. split; cbv [hermitenorm_coeffs herm_loop snd hev fold_left]; ring. Qed.
Lemma zipsub_nth r : forall p q i, length p = length q ->
  nth i (map (fun uv => fst uv - r * snd uv) (combine p q)) 0 = nth i p 0 - r * nth i q 0.
Proof.
  induction p as [|u p IH]; intros [|v q] i Hl; cbn [length] in Hl; try discriminate.
  - destruct i; cbn [combine map nth]; ring.
  - destruct i as [|i]; cbn [combine map nth fst snd]; [reflexivity|]. apply IH. lia.
Qed.
Lemma nth_app0 (b : list Z) i : nth i (b ++ [0]) 0 = nth i b 0.
Proof.
  destruct (Nat.lt_ge_cases i (length b)) as [Hi|Hi].
  - now rewrite app_nth1.
  - rewrite app_nth2 by exact Hi. rewrite (nth_overflow b) by exact Hi. destruct (i - length b)%nat as [|[|j]]; reflexivity.
Qed.
Lemma herm_step_nth r a b i : length b = S (length a) ->
  nth i (herm_step r a b) 0 = nth i b 0 - r * nth i (0 :: 0 :: a) 0.
Proof.
  intros Hl. unfold herm_step. cbv zeta. rewrite zipsub_nth.
  - rewrite nth_app0. rewrite app_length. cbn [length]. replace (length b + 1 - length a)%nat with 2%nat by lia. reflexivity.
  - rewrite !app_length, repeat_length. cbn [length]. lia.
Qed.
Lemma herm_monic : forall n, nth 0 (hermitenorm_coeffs n) 0 = 1.
Proof.
  assert (H : forall n, nth 0 (hermitenorm_coeffs n) 0 = 1 /\ nth 0 (hermitenorm_coeffs (S n)) 0 = 1).
  { induction n as [|n [IH1 IH2]]; [split; reflexivity|]. split; [exact IH2|].
    rewrite herm_succ, herm_step_nth by (rewrite !herm_length; reflexivity). rewrite IH2. cbn [nth]. ring. }
  intros n. apply H.
Qed.
Lemma herm_parity : forall n i, Nat.odd i = true -> nth i (hermitenorm_coeffs n) 0 = 0.
Proof.
  assert (H : forall n, (forall i, Nat.odd i = true -> nth i (hermitenorm_coeffs n) 0 = 0) /\
                        (forall i, Nat.odd i = true -> nth i (hermitenorm_coeffs (S n)) 0 = 0)).
  { induction n as [|n [IH1 IH2]].
    - split; intros i Hi; destruct i as [|[|[|i]]]; try reflexivity; discriminate.
    - split; [exact IH2|]. intros i Hi.
      rewrite herm_succ, herm_step_nth by (rewrite !herm_length; reflexivity). rewrite (IH2 i Hi).
      destruct i as [|[|i]]; cbn [nth]; try ring. rewrite (IH1 i); [ring|]. rewrite <- Hi. now rewrite Nat.odd_succ_succ. }
  intros n. apply H.
Qed.
