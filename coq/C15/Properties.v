(* C15 - property theorems only.  Definitions are in Model.v; the tables src3_*, src2_* and the loop
   guards are generated from utils.py / intvol.pyx on every run. *)
From Coq Require Import ZArith List Bool Lia.
From NV.Generated Require Import IntvolTables RftFlags.
From NV.C15 Require Import Model Proofs Proofs2 Proofs3 Proofs4 Proofs5 Proofs6.
Import ListNotations.
Open Scope Z_scope.

(* (1) The "unique simplices" tables d2/d3/d4 that EC3d/Lips3d (and EC2d/Lips2d) build from
   cube_with_strides_center / join_complexes are exactly the chains 0 < p1 < ... < pk of {0,1}^3
   (resp. of the plane) that start at the voxel itself: each simplex is owned by its least vertex. *)
Theorem kuhn_tables_valid :
  src3_d1 = Chains 0 /\ src3_d2 = Chains 1 /\ src3_d3 = Chains 2 /\ src3_d4 = Chains 3 /\
  d2_of src2_d2 = filter inplane (Chains 1) /\ d2_of src2_d3 = filter inplane (Chains 2) /\
  lips3_d2 = src3_d2 /\ lips3_d3 = src3_d3 /\ lips3_d4 = src3_d4 /\ lips2_d2 = src2_d2 /\ lips2_d3 = src2_d3.
Proof.
  destruct tables3_are_chains as (A & B & C & D). destruct tables2_are_plane_chains as (_ & E & F & _).
  destruct lips_tables_same as (G & H & I & J & K). repeat split; assumption.
Qed.
Print Assumptions kuhn_tables_valid.

(* (2) The simplices of the specification (chains inside a unit cube) are exactly the non-empty faces
   of the generated maximal simplices (the 6 tetrahedra of `maximal`) of all lattice cubes. *)
Theorem kuhn_faces_are_chains : forall S, kuhn_face S <-> chainb S = true.
Proof. exact kuhn_face_iff_chain. Qed.
Print Assumptions kuhn_faces_are_chains.

(* (3) Unique ownership: Kenum lists every k-simplex of the triangulation with all vertices in the
   mask, exactly once.  chi is defined from the lengths of these lists. *)
Theorem Kenum_enumerates_K : forall a b c M k,
  NoDup (Kenum a b c M k) /\ (forall S, In S (Kenum a b c M k) <-> Kspec (restrict a b c M) k S).
Proof. intros a b c M k. split; [apply Kenum_NoDup|intros S; apply Kenum_In]. Qed.
Print Assumptions Kenum_enumerates_K.

(* (4) EC3d - the loops over the padded flat mask with the generated tables and the guards read from
   the .pyx - is the Euler characteristic #vertices - #edges + #triangles - #tetrahedra of K(mask),
   for every shape and every mask. *)
Theorem EC3d_is_euler_characteristic : forall a b c M,
  EC3d a b c M = Z.of_nat (length (Kenum a b c M 0)) - Z.of_nat (length (Kenum a b c M 1))
               + Z.of_nat (length (Kenum a b c M 2)) - Z.of_nat (length (Kenum a b c M 3)).
Proof. intros a b c M. rewrite (EC3d_is_noguard eq_refl eq_refl eq_refl). apply EC3d_noguard_chi. Qed.
Print Assumptions EC3d_is_euler_characteristic.

Theorem EC1d_is_euler_characteristic : forall a M, EC1d a M = chi a 1 1 M.
Proof. exact EC1d_chi. Qed.
Print Assumptions EC1d_is_euler_characteristic.

(* (5) EC2d.  With plain `if m:` in both loops it is the Euler characteristic for every mask ... *)
Theorem EC2d_noguard_is_euler_characteristic : forall a b M, EC2d_noguard a b M = chi a b 1 M.
Proof. exact EC2d_noguard_chi. Qed.
Print Assumptions EC2d_noguard_is_euler_characteristic.

(* ... with `if m and v0:` in the triangle loop (the code at the pinned commit) only when mask[0,0] is not set *)
Theorem EC2d_guarded_is_euler_characteristic_partial : forall a b M,
  restrict a b 1 M (0, 0, 0) = false -> EC2d_guarded a b M = chi a b 1 M.
Proof. exact EC2d_guarded_chi. Qed.
Print Assumptions EC2d_guarded_is_euler_characteristic_partial.

(* FINDING: the 2 x 2 solid square has Euler characteristic 1; the guarded loop returns -1 *)
Theorem EC2d_guarded_origin_refuted : exists a b M, EC2d_guarded a b M = -1 /\ chi a b 1 M = 1.
Proof. exists 2%nat, 2%nat, solid. split; vm_compute; reflexivity. Qed.
Print Assumptions EC2d_guarded_origin_refuted.

(* the guards found in the current source are one of the two analysed combinations *)
Theorem EC2d_source_guard_cases : EC2d = EC2d_guarded \/ EC2d = EC2d_noguard.
Proof. (left; reflexivity) || (right; reflexivity). Qed.
Print Assumptions EC2d_source_guard_cases.

(* (6) Thin slab: a 2-d mask as a one-voxel slab in 3-d, a 1-d mask as a line in 2-d or 3-d *)
Theorem EC_thin_slab_embedding : forall a b M,
  EC3d a b 1 M = EC2d_noguard a b M /\ EC3d a 1 1 M = EC1d a M /\ EC2d_noguard a 1 M = EC1d a M.
Proof.
  intros a b M. rewrite !(EC3d_is_noguard eq_refl eq_refl eq_refl), !EC3d_noguard_chi, !EC2d_noguard_chi, EC1d_chi.
  repeat split; reflexivity.
Qed.
Print Assumptions EC_thin_slab_embedding.

(* (7) A solid box has Euler characteristic 1 *)
Theorem EC_solid_box : forall a b c,
  EC3d (S a) (S b) (S c) solid = 1 /\ EC2d_noguard (S a) (S b) solid = 1 /\ EC1d (S a) solid = 1.
Proof.
  intros a b c. rewrite (EC3d_is_noguard eq_refl eq_refl eq_refl), EC3d_noguard_chi, EC2d_noguard_chi, EC1d_chi.
  repeat split; apply chi_solid_box.
Qed.
Print Assumptions EC_solid_box.

(* (8) Position and padding: the region (mask restricted to its a x b x c array) moved by (ti,tj,tk)
   inside a larger array with ri,rj,rk further zero planes behind it has the same EC. *)
Theorem EC3d_position_padding_invariant : forall a b c M ti tj tk ri rj rk,
  EC3d (ti + a + ri) (tj + b + rj) (tk + c + rk) (shiftM (Z.of_nat ti, Z.of_nat tj, Z.of_nat tk) (restrict a b c M))
  = EC3d a b c M.
Proof.
  intros. rewrite !(EC3d_is_noguard eq_refl eq_refl eq_refl), !EC3d_noguard_chi. apply chi_shift_pad.
Qed.
Print Assumptions EC3d_position_padding_invariant.

Theorem EC2d_EC1d_position_padding_invariant : forall a b M ti tj ri rj,
  EC2d_noguard (ti + a + ri) (tj + b + rj) (shiftM (Z.of_nat ti, Z.of_nat tj, 0) (restrict a b 1 M)) = EC2d_noguard a b M /\
  EC1d (ti + a + ri) (shiftM (Z.of_nat ti, 0, 0) (restrict a 1 1 M)) = EC1d a M.
Proof.
  intros. rewrite !EC2d_noguard_chi, !EC1d_chi. split.
  - apply (chi_shift_pad a b 1 M ti tj 0 ri rj 0).
  - apply (chi_shift_pad a 1 1 M ti 0 0 ri 0 0).
Qed.
Print Assumptions EC2d_EC1d_position_padding_invariant.

(* (9) Lips3d, mu3: for voxel coordinates o + (dx*i, dy*j, dz*k) the quantity v2 of mu3_tet (36 * volume^2,
   the Gram determinant built from the dot products D_ij) of each of the 6 generated tetrahedra of a voxel is
   (dx*dy*dz)^2, wherever the voxel lies: each contributes sqrt(v2)/6 = |dx*dy*dz|/6, the 6 of them the voxel volume. *)
Theorem lips3d_mu3_gram_determinant : forall ox oy oz dx dy dz,
  length src3_d4 = 6%nat /\ Forall (tet_v2_ok (ox, oy, oz) (dx, dy, dz) ((dx * dy * dz) ^ 2)) src3_d4.
Proof. intros. split; [reflexivity|apply mu3_gram]. Qed.
Print Assumptions lips3d_mu3_gram_determinant.

(* (10) rft.py.  IntrinsicVolumes.__mul__ (model iv_mul) is the product of the generating polynomials, of full length *)
Theorem intrinsic_volumes_mul_is_polynomial_product : forall a b x,
  peval (iv_mul a b) x = peval a x * peval b x /\
  (a <> [] -> b <> [] -> (length (iv_mul a b) + 1 = length a + length b)%nat).
Proof. intros a b x. split; [apply iv_mul_eval|apply iv_mul_length]. Qed.
Print Assumptions intrinsic_volumes_mul_is_polynomial_product.

(* (11) With the operator methods and the statements found in the CURRENT rft.py (Generated/RftFlags.v), evaluating an
   ECcone - with the default or an explicit search region - leaves mu, search and product as they were, so any sequence of
   evaluations uses the same effective search region as the first one. *)
Theorem rft_call_preserves_stored_regions : forall st e1 e2,
  snd (call_src st e1) = st /\ fst (call_src (snd (call_src st e1)) e2) = fst (call_src st e2).
Proof. intros st e1 e2. split; [apply call_pure|apply call_repeat]. Qed.
Print Assumptions rft_call_preserves_stored_regions.

(* ... which fails as soon as IntrinsicVolumes gets an in-place `__imul__` while `search = self.search; search *= self.product` stays *)
Theorem rft_call_with_inplace_mul_refuted : exists st,
  fst (call_regions true true true (snd (call_regions true true true st None)) None) <> fst (call_regions true true true st None).
Proof. exact call_imul_refuted. Qed.
Print Assumptions rft_call_with_inplace_mul_refuted.

(* (12) rft._hermitenorm_coeffs (the coefficient vector that rft.Q puts into every EC density; for dfd = inf the density of
   dimension d is (2 pi)^-(d+1)/2 He_{d-1}(x) exp(-x^2/2)).  The loop `for r in range(1, n)` of the current rft.py, modelled
   statement by statement (Model.hermitenorm_coeffs), returns for EVERY n the probabilists' Hermite polynomial: its values
   (Horner evaluation, highest power first, as np.poly1d does) satisfy He_0 = 1, He_1 = x, He_{n+2} = x He_{n+1} - (n+1) He_n
   at every integer x - which determines the polynomial. *)
Theorem hermitenorm_coeffs_three_term_recurrence : forall n x,
  hev (hermitenorm_coeffs 0) x = 1 /\ hev (hermitenorm_coeffs 1) x = x /\
  hev (hermitenorm_coeffs (S (S n))) x = x * hev (hermitenorm_coeffs (S n)) x - Z.of_nat (S n) * hev (hermitenorm_coeffs n) x.
Proof. intros n x. destruct (herm_base x) as [A B]. split; [exact A|split; [exact B|apply herm_recurrence]]. Qed.
Print Assumptions hermitenorm_coeffs_three_term_recurrence.

(* (13) ... and the vector has exactly n+1 entries (the padding `[0]*(len(shifted)-len(a))` never truncates in `zip`), is
   monic, and every coefficient at odd distance from the leading one is exactly 0 (He_n has the parity of n: no spurious
   odd-parity coefficients, the defect of the former np.around(hermitenorm(n).c)), for every n. *)
Theorem hermitenorm_coeffs_degree_monic_parity : forall n,
  length (hermitenorm_coeffs n) = S n /\ nth 0 (hermitenorm_coeffs n) 0 = 1 /\
  (forall i, Nat.odd i = true -> nth i (hermitenorm_coeffs n) 0 = 0).
Proof. intros n. split; [apply herm_length|split; [apply herm_monic|apply herm_parity]]. Qed.
Print Assumptions hermitenorm_coeffs_degree_monic_parity.

(* non-vacuity *)
Definition hollow3 : pt -> bool := fun p => negb (pt_eqb p (1, 1, 1)).
Example EC3d_hollow_cube : EC3d 3 3 3 hollow3 = 2 /\ length (Kenum 3 3 3 hollow3 3) = 24%nat.
Proof. split; vm_compute; reflexivity. Qed.
Definition ring2 : pt -> bool := fun p => negb (pt_eqb p (1, 1, 0)).
Example EC2d_ring : EC2d_guarded 3 3 ring2 = 0 /\ EC2d_noguard 3 3 ring2 = 0 /\ chi 3 3 1 ring2 = 0.
Proof. repeat split; vm_compute; reflexivity. Qed.
Example hermitenorm_coeffs_He6 : hermitenorm_coeffs 6 = [1; 0; -15; 0; 45; 0; -15] /\ hev (hermitenorm_coeffs 6) 2 = -11.
Proof. split; vm_compute; reflexivity. Qed.
