(* C03 - NIfTI conversion at the level of coordinate maps, axis orders and a
   header record: nipy/io/nifti_ref.py (nipy2nifti, _find_time_like,
   nifti2nipy), the reordering of nipy/core/image/image_spaces.py
   (as_xyz_image), nipy/core/reference/spaces.py (xyz_order, xyz_affine,
   XYZSpace.__contains__), coordinate_map.py (_fix0, axmap) and
   nipy/io/files.py (_type_from_filename).

   Executable definitions only.  Numbers are exact rationals.  The literal
   tables come from Generated/NiftiTables.v (regenerated from the source on
   every run).  nibabel.io_orientation is an ORACLE: a function argument
   `O : matrix -> list (option nat)` (closest output axis of every input axis of
   the matrix part of an affine, None = nan); the harness instantiates it
   with the answers the real function gave, the theorems quantify over it. *)
From Coq Require Import String Ascii.
From Coq Require Import List Arith Bool ZArith QArith Qabs Lia.
From NV.Generated Require Import NiftiTables.
Import ListNotations.
Close Scope Q_scope.
Open Scope string_scope.
Open Scope list_scope.

(* error kinds; the harness maps the NiftiError messages (and TypeError) to these *)
Inductive err :=
| EReorder        (* 'Image cannot be reordered to XYZ because ...' *)
| ESpaceCoupled   (* 'Non space axes not orthogonal to space' *)
| ENsCoupled      (* 'Non space axes not orthogonal to each other' *)
| EWorld          (* 'Image world not a NIFTI world' *)
| EUnknownAffine  (* "Image world is 'unknown' but affine not compatible" *)
| ETooMany        (* 'Too many dimensions to convert' *)
| ETimeMismatch   (* "Axis type 'n' found in input and output but they do not appear to match" *)
| ETimeCross      (* "Axis type 'n' in input matches axis type 'm' in output" and the converse *)
| EToffset        (* 'Time input and output do not match' *)
| ECrash          (* not a NiftiError: a Python TypeError/IndexError; the current code has no such path (theorem) *)
| ENdim           (* nifti2nipy: fewer than 3 dimensions *)
| EOutside.       (* outside the modelled island (see report): the code's behaviour is not claimed *)
Inductive res (A : Type) := Ok (a : A) | Err (e : err).
Arguments Ok {A} a.
Arguments Err {A} e.
Definition bind {A B} (r : res A) (f : A -> res B) : res B :=
  match r with Ok a => f a | Err e => Err e end.

(* ------------------------------------------------------------ list helpers *)
Fixpoint str_in (s : string) (l : list string) : bool :=
  match l with [] => false | x :: r => String.eqb x s || str_in s r end.
Fixpoint str_index (s : string) (l : list string) : option nat :=
  match l with
  | [] => None
  | x :: r => if String.eqb x s then Some 0 else option_map S (str_index s r)
  end.
Fixpoint assoc {B} (s : string) (l : list (string * B)) : option B :=
  match l with [] => None | (k, v) :: r => if String.eqb k s then Some v else assoc s r end.
Fixpoint strl_eqb (a b : list string) : bool :=
  match a, b with
  | [], [] => true
  | x :: a', y :: b' => String.eqb x y && strl_eqb a' b'
  | _, _ => false
  end.
Fixpoint nat_in (n : nat) (l : list nat) : bool :=
  match l with [] => false | x :: r => Nat.eqb x n || nat_in n r end.
Fixpoint natl_eqb (a b : list nat) : bool :=
  match a, b with
  | [], [] => true
  | x :: a', y :: b' => Nat.eqb x y && natl_eqb a' b'
  | _, _ => false
  end.
Definition onat_eqb (a b : option nat) : bool :=
  match a, b with Some x, Some y => Nat.eqb x y | None, None => true | _, _ => false end.
Fixpoint onat_index (v : option nat) (l : list (option nat)) : option nat :=
  match l with
  | [] => None
  | x :: r => if onat_eqb x v then Some 0 else option_map S (onat_index v r)
  end.
Definition ostr_eqb (a b : option string) : bool :=
  match a, b with Some x, Some y => String.eqb x y | None, None => true | _, _ => false end.
Fixpoint ostr_index (v : string) (l : list (option string)) : option nat :=
  match l with
  | [] => None
  | x :: r => if ostr_eqb x (Some v) then Some 0 else option_map S (ostr_index v r)
  end.
Fixpoint index_of (v : nat) (l : list nat) : nat :=
  match l with [] => 0 | x :: r => if Nat.eqb x v then 0 else S (index_of v r) end.
Fixpoint remove_nth {A} (k : nat) (l : list A) : list A :=
  match l, k with
  | [], _ => []
  | _ :: r, O => r
  | x :: r, S k' => x :: remove_nth k' r
  end.
Fixpoint set_nth {A} (k : nat) (v : A) (l : list A) : list A :=
  match l, k with
  | [], _ => []
  | _ :: r, O => v :: r
  | x :: r, S k' => x :: set_nth k' v r
  end.

(* new[a] = old[order[a]]  (NumPy fancy selection / names reindexing) *)
Definition sel {A} (d : A) (order : list nat) (l : list A) : list A := map (fun i => nth i l d) order.
(* index into the ORIGINAL array of element `idx` of np.transpose(data, order):
   original index k is idx[position of k in order] *)
Definition scatter (order : list nat) (idx : list nat) : list nat :=
  map (fun k => nth (index_of k order) idx 0) (seq 0 (length order)).

(* stable argsort (np.argsort on fewer than 16 keys is an insertion sort) *)
Fixpoint ins (key : nat -> nat) (i : nat) (l : list nat) : list nat :=
  match l with
  | [] => [i]
  | j :: r => if Nat.ltb (key i) (key j) then i :: l else j :: ins key i r
  end.
Definition argsort (keys : list nat) : list nat :=
  fold_left (fun acc i => ins (fun k => nth k keys 0) i acc) (seq 0 (length keys)) [].

(* ------------------------------------------------------------ numbers *)
Definition is0 (a : Q) : bool := Qeq_bool a 0%Q.
Definition above_tiny (a : Q) : bool := negb (Qle_bool (Qabs a) tiny).   (* np.abs(a) > TINY *)
Definition count_true (l : list bool) : nat := length (filter (fun b => b) l).
Definition column {A} (d : A) (j : nat) (M : list (list A)) : list A := map (fun row => nth j row d) M.

(* ------------------------------------------------------------ images *)
Definition orac := list (list Q) -> list (option nat).

Section WithData.
Variable V : Type.

(* a nipy Image with an AffineTransform coordmap: input names, output names,
   matrix part (rows = outputs), translation, array shape, data as a function
   of the index, and the `toffset` of metadata['header'] (0 when there is none; nipy2nifti must ignore it) *)
Record img := { inn : list string; outn : list string; lin : list (list Q); trn : list Q;
                shp : list nat; dat : list nat -> V; meta_toffset : Q }.

(* Image.reordered_reference(order): rows, translations and output names reindexed *)
Definition reorder_ref (order : list nat) (im : img) : img :=
  {| inn := inn im; outn := sel "" order (outn im); lin := sel [] order (lin im);
     trn := sel 0%Q order (trn im); shp := shp im; dat := dat im; meta_toffset := meta_toffset im |}.
(* Image.reordered_axes(order): columns, input names, shape reindexed; data transposed *)
Definition reorder_axes (order : list nat) (im : img) : img :=
  {| inn := sel "" order (inn im); outn := outn im; lin := map (sel 0%Q order) (lin im);
     trn := trn im; shp := sel 0 order (shp im); dat := fun idx => dat im (scatter order idx);
     meta_toffset := meta_toffset im |}.

(* ------------------------------------------------------------ spaces.py *)
Definition space_names (s : string) : list string := map (fun suf => String.append s suf) space_suffixes.
(* known_names: every standard space registers its three names -> 0,1,2; non-strict adds x,y,z *)
Definition known_names (strict : bool) : list (string * nat) :=
  flat_map (fun s => combine (space_names s) [0; 1; 2]) standard_spaces
  ++ (if strict then [] else combine plain_xyz [0; 1; 2]).
Definition name2xyz (strict : bool) (nm : string) : option nat := assoc nm (known_names strict).
(* XYZSpace.__contains__: set(my_names).issubset(coord_names) *)
Definition in_space (names : list string) (s : string) : bool :=
  forallb (fun nm => str_in nm names) (space_names s).

Fixpoint axvals_from (strict : bool) (N i : nat) (names : list string) : list nat :=
  match names with
  | [] => []
  | nm :: r => (match name2xyz strict nm with Some c => c | None => N + i end) :: axvals_from strict N (S i) r
  end.
Definition axvals strict names := axvals_from strict (length names) 0 names.
(* xyz_order: None = AxesError *)
Definition xyz_order (strict : bool) (names : list string) : option (list nat) :=
  let av := axvals strict names in
  if forallb (fun c => nat_in c av) [0; 1; 2] then Some (argsort av) else None.

Definition set_is_012 (l : list (option nat)) : bool :=
  forallb (fun o => match o with Some k => Nat.ltb k 3 | None => false end) l
  && forallb (fun k => match onat_index (Some k) l with Some _ => true | None => false end) [0; 1; 2].

(* spaces.xyz_affine: None = AxesError/AffineError, Some = the 3 x 4 xyz affine rows *)
Definition xyz_affine (strict : bool) (O : orac) (im : img) : option (list (list Q)) :=
  match xyz_order strict (outn im) with
  | None => None
  | Some order =>
    if negb (natl_eqb (firstn 3 order) [0; 1; 2]) then None
    else if negb (set_is_012 (firstn 3 (O (lin im)))) then None
    else if negb (forallb (fun row => forallb is0 (skipn 3 row)) (firstn 3 (lin im))) then None
    else Some (map (fun rt => firstn 3 (fst rt) ++ [snd rt]) (combine (firstn 3 (lin im)) (firstn 3 (trn im))))
  end.

(* image_spaces.as_xyz_image *)
Definition okey (big : nat) (o : option nat) : nat := match o with Some k => k | None => big end.
Definition ornt_keys (l : list (option nat)) : list nat :=
  let big := S (fold_right (fun o m => Nat.max (okey 0 o) m) 0 l) in map (okey big) l.   (* nan -> inf *)
(* `np.argsort(current_in_order)`: with the default sort kind NumPy does not promise an order for
   ties (several nan -> inf entries), so the sort is an ORACLE `S` as well; Exec.tab_sorter falls
   back to the stable `argsort` above *)
Definition as_xyz (strict : bool) (O : orac) (S : list nat -> list nat) (im : img) : res img :=
  match xyz_affine strict O im with
  | Some _ => Ok im
  | None =>
    match xyz_order strict (outn im) with
    | None => Err EReorder
    | Some order =>
      let im1 := reorder_ref order im in
      let cur := O (lin im1) in
      if negb (forallb (fun k => match onat_index (Some k) cur with Some _ => true | None => false end) [0; 1; 2])
      then Err EReorder
      else
        let im2 := reorder_axes (S (ornt_keys cur)) im1 in
        match xyz_affine strict O im2 with Some _ => Ok im2 | None => Err EReorder end
    end
  end.

(* ------------------------------------------------------------ _fix0, axmap *)
Definition zero_rows (M : list (list Q)) : list nat :=
  filter (fun i => forallb is0 (nth i M [])) (seq 0 (length M)).
Definition zero_cols (M : list (list Q)) : list nat :=
  filter (fun j => forallb is0 (column 0%Q j M)) (seq 0 (length (hd [] M))).
Definition fix0_mat (M : list (list Q)) : list (list Q) :=
  match zero_rows M, zero_cols M with
  | [r], [c] => set_nth r (set_nth c 1%Q (nth r M [])) M
  | _, _ => M
  end.
Definition in2out (ornt : list (option nat)) (i : nat) : option nat := nth i ornt None.
Definition out2in (ornt : list (option nat)) (o : nat) : option nat := onat_index (Some o) ornt.

(* ------------------------------------------------------------ _find_time_like *)
Definition canon (nm : string) : option string := assoc nm time_like_map.

(* ci / co: canonical names (or None) of the input / output axes from position 3 on *)
Fixpoint ftl_loop (names : list string) (ci co : list (option string)) (ornt : list (option nat))
  : res (option (nat * option nat * string)) :=
  match names with
  | [] => Ok None
  | name :: rest =>
    match ostr_index name ci with
    | Some k =>
      let in_ax := k + 3 in
      let corr_out := in2out ornt in_ax in
      match ostr_index name co with
      | Some k2 =>
        let same := k2 + 3 in
        match corr_out with
        | None => match out2in ornt same with
                  | Some _ => Err ETimeMismatch
                  | None => Ok (Some (in_ax, None, name))
                  end
        | Some c => if Nat.eqb c same then Ok (Some (in_ax, Some c, name)) else Err ETimeMismatch
        end
      | None =>
        match corr_out with
        | None => Ok (Some (in_ax, None, name))    (* `if corr_out is None: return (in_ax, None, name)` *)
        | Some c =>
          if Nat.ltb c 3 || Nat.leb (length co) (c - 3) then Err EOutside   (* negative / out-of-range index *)
          else match nth (c - 3) co None with
               | None => Ok (Some (in_ax, Some c, name))
               | Some _ => Err ETimeCross
               end
        end
      end
    | None =>
      match ostr_index name co with
      | Some k2 =>
        let out_ax := k2 + 3 in
        match out2in ornt out_ax with
        | None => ftl_loop rest ci co ornt           (* continue *)
        | Some i =>
          if Nat.ltb i 3 || Nat.leb (length ci) (i - 3) then Err EOutside
          else match nth (i - 3) ci None with
               | None => Ok (Some (i, Some out_ax, name))
               | Some _ => Err ETimeCross
               end
        end
      | None => ftl_loop rest ci co ornt
      end
    end
  end.

Definition find_time_like (fix0 : bool) (O : orac) (im : img) :=
  ftl_loop time_like_ordered (map canon (skipn 3 (inn im))) (map canon (skipn 3 (outn im)))
           (O (if fix0 then fix0_mat (lin im) else lin im)).

(* ------------------------------------------------------------ the NIfTI image *)
(* what nipy2nifti puts into / nifti2nipy reads from the nibabel image *)
Record nimg := { h_aff : list (list Q);            (* 3 rows of 4: the xyz affine of the image *)
                 h_sform : string; h_qform : string;  (* code labels *)
                 h_dim_info : list (option nat);   (* freq, phase, slice *)
                 h_tunits : string;                (* time part of xyzt_units; 'unknown' when unset *)
                 h_pixdim : list Q;                (* pixdim[4 : 4 + n_ns] *)
                 h_toffset : Q;
                 h_shape : list nat;
                 h_dat : list nat -> V }.

(* header 'unknown' world: the affine must equal get_base_affine() of the header whose
   zooms were just set from it: diag(-zx, zy, zz), origin at the array centre *)
Definition base_affine_ok (xa : list (list Q)) (shape : list nat) : bool :=
  forallb (fun i =>
    let row := nth i xa [] in
    forallb (fun j => if Nat.eqb i j then true else is0 (nth j row 0%Q)) [0; 1; 2]
    && (let z := nth i row 0%Q in
        (if Nat.eqb i 0 then Qle_bool z 0%Q else Qle_bool 0%Q z)
        && Qeq_bool (nth 3 row 0%Q) (- ((inject_Z (Z.of_nat (nth i shape 0%nat)) - 1) / 2) * z)%Q))
    [0; 1; 2].

Definition space_label (strict : bool) (out3 : list string) (xa : list (list Q)) (shape : list nat) : res string :=
  match find (fun p => in_space out3 (snd p)) xform2space with
  | Some p => Ok (fst p)
  | None =>
    if negb strict && strl_eqb out3 plain_xyz then Ok plain_xyz_label
    else if negb (in_space out3 "unknown") then Err EWorld
    else if base_affine_ok xa shape then Ok "unknown" else Err EUnknownAffine
  end.

(* np.sqrt(np.sum(col ** 2)): exact when the column has at most one non-zero entry *)
Definition col_norm (c : list Q) : res Q :=
  match filter (fun a => negb (is0 a)) c with
  | [] => Ok 0%Q
  | [a] => Ok (Qabs a)
  | _ => Err EOutside
  end.
Fixpoint col_norms (cols : list (list Q)) : res (list Q) :=
  match cols with
  | [] => Ok []
  | c :: r => bind (col_norm c) (fun a => bind (col_norms r) (fun l => Ok (a :: l)))
  end.

(* np.rollaxis(data, in_ax, 3) for in_ax > 3 == transpose by these axes *)
Definition roll_axes (n in_ax : nat) : list nat := [0; 1; 2; in_ax] ++ remove_nth (in_ax - 3) (seq 3 (n - 3)).
(* order = range(n_ns); order.pop(in_ax - 3); order.insert(0, in_ax - 3) *)
Definition pix_order (n_ns k : nat) : list nat := k :: remove_nth k (seq 0 n_ns).

Definition nsp_block (L : list (list Q)) : list (list Q) := map (skipn 3) (skipn 3 L).
Definition space_orthogonal (L : list (list Q)) : bool :=
  forallb (fun row => forallb is0 (firstn 3 row)) (skipn 3 L)
  && forallb (fun row => forallb is0 (skipn 3 row)) (firstn 3 L).
Definition ns_orthogonal (L : list (list Q)) (n_ns : nat) : bool :=
  let nz := map (map above_tiny) (nsp_block L) in
  forallb (fun row => Nat.leb (count_true row) 1) nz
  && forallb (fun j => Nat.leb (count_true (column false j nz)) 1) (seq 0 n_ns).

(* the part of nipy2nifti after as_xyz_image *)
Definition nipy2nifti_xyz (strict fix0 : bool) (O : orac) (im : img) : res nimg :=
  let L := lin im in
  let n_ns := length (inn im) - 3 in
  if negb (space_orthogonal L) then Err ESpaceCoupled
  else if negb (ns_orthogonal L n_ns) then Err ENsCoupled
  else
    match xyz_affine strict O im with
    | None => Err EOutside           (* unreachable after as_xyz with the same oracle *)
    | Some xa =>
      bind (space_label strict (firstn 3 (outn im)) xa (shp im)) (fun label =>
      let dim_info := map (fun nm => str_index nm (firstn 3 (inn im))) dim_info_names in
      let mk tu pix toff shape d :=
        {| h_aff := xa; h_sform := label; h_qform := label; h_dim_info := dim_info; h_tunits := tu;
           h_pixdim := pix; h_toffset := toff; h_shape := shape; h_dat := d |} in
      if Nat.eqb n_ns 0 then Ok (mk "unknown" [] 0%Q (shp im) (dat im))
      else if Nat.ltb max_ns n_ns then Err ETooMany
      else
        bind (col_norms (map (fun j => column 0%Q j (nsp_block L)) (seq 0 n_ns))) (fun pix =>
        bind (find_time_like fix0 O im) (fun tl =>
        match tl with
        | None =>
          if Nat.eqb n_ns full_ns then Err ETooMany
          else Ok (mk "unknown" (0%Q :: pix) 0%Q
                      (firstn 3 (shp im) ++ 1 :: skipn 3 (shp im))
                      (fun idx => dat im (firstn 3 idx ++ skipn 4 idx)))
        | Some (in_ax, out_ax, name) =>
          let units := match assoc name time_like_axes with Some au => snd au | None => "unknown" end in
          bind (if String.eqb name "t" && negb (forallb is0 (skipn 3 (trn im)))
                then match out_ax with None => Err EToffset | Some o => Ok (nth o (trn im) 0%Q) end
                else Ok 0%Q) (fun toff =>       (* hdr['toffset'] = 0 unless set from the coordmap *)
          if Nat.eqb in_ax 3 then Ok (mk units pix toff (shp im) (dat im))
          else if Nat.ltb in_ax 3 then Err EOutside
          else
            let axes := roll_axes (length (shp im)) in_ax in
            Ok (mk units (sel 0%Q (pix_order n_ns (in_ax - 3)) pix) toff
                   (sel 0 axes (shp im)) (fun idx => dat im (scatter axes idx))))
        end)))
    end.

Definition nipy2nifti (strict fix0 : bool) (O : orac) (S : list nat -> list nat) (im : img) : res nimg :=
  bind (as_xyz strict O S im) (nipy2nifti_xyz strict fix0 O).

(* ------------------------------------------------------------ nifti2nipy *)
Definition in_names3 (di : list (option nat)) : list string :=
  let step names p := match fst p with Some k => set_nth k (snd p) names | None => names end in
  fold_left step (combine di dim_info_names) default_in3.

Definition block_lin (xa : list (list Q)) (zooms : list Q) : list (list Q) :=
  let n := length zooms in
  map (fun row => firstn 3 row ++ repeat 0%Q n) xa
  ++ map (fun k => repeat 0%Q 3 ++ set_nth k (nth k zooms 0%Q) (repeat 0%Q n)) (seq 0 n).

Definition nifti2nipy (h : nimg) : res img :=
  let ndim := length (h_shape h) in
  if Nat.ltb ndim 3 then Err ENdim
  else
    let label := if String.eqb (h_sform h) "unknown" then h_qform h else h_sform h in
    let world := match assoc label xform2space with Some s => s | None => "unknown" end in
    let in3 := in_names3 (h_dim_info h) in
    let out3 := space_names world in
    let xtr := map (fun row => nth 3 row 0%Q) (h_aff h) in
    if Nat.eqb ndim 3
    then Ok {| inn := in3; outn := out3; lin := map (firstn 3) (h_aff h); trn := xtr;
               shp := h_shape h; dat := h_dat h; meta_toffset := h_toffset h |}
    else
      let n_ns := ndim - 3 in
      let zooms := h_pixdim h in
      let info := assoc (h_tunits h) time_like_units in
      if Nat.eqb (nth 3 (h_shape h) 0) 1 && Nat.ltb 4 ndim && (match info with None => true | Some _ => false end)
      then (* squeeze the length-1 no-time axis *)
        let names := firstn (n_ns - 1) extra_names in
        Ok {| inn := in3 ++ names; outn := out3 ++ names;
              lin := block_lin (h_aff h) (tl zooms); trn := xtr ++ repeat 0%Q (n_ns - 1);
              shp := remove_nth 3 (h_shape h);
              dat := fun idx => h_dat h (firstn 3 idx ++ 0 :: skipn 3 idx);
              meta_toffset := h_toffset h |}
      else
        let ui := match info with Some i => i | None => match assoc default_units time_like_units with
                                                        | Some i => i | None => ("t", 1%Q) end end in
        let tname := fst ui in
        let z0 := hd 0%Q zooms in
        let z0' := if Qeq_bool (snd ui) 1%Q then z0 else Qred (z0 * snd ui)%Q in
        let t0 := if String.eqb tname "t" then h_toffset h else 0%Q in
        let names := firstn n_ns (tname :: extra_names) in
        Ok {| inn := in3 ++ names; outn := out3 ++ names;
              lin := block_lin (h_aff h) (z0' :: tl zooms); trn := xtr ++ t0 :: repeat 0%Q (n_ns - 1);
              shp := h_shape h; dat := h_dat h; meta_toffset := h_toffset h |}.

End WithData.

Arguments inn {V} i. Arguments outn {V} i. Arguments lin {V} i. Arguments trn {V} i.
Arguments shp {V} i. Arguments dat {V} i. Arguments meta_toffset {V} i.
Arguments h_aff {V} n. Arguments h_sform {V} n. Arguments h_qform {V} n. Arguments h_dim_info {V} n.
Arguments h_tunits {V} n. Arguments h_pixdim {V} n. Arguments h_toffset {V} n. Arguments h_shape {V} n.
Arguments h_dat {V} n.

(* ------------------------------------------------------------ files._type_from_filename *)
Definition chars := list ascii.
Fixpoint prefixb (p s : chars) : bool :=
  match p, s with
  | [], _ => true
  | a :: p', b :: s' => Ascii.eqb a b && prefixb p' s'
  | _ :: _, [] => false
  end.
(* work on the reversed file name *)
Fixpoint strip_compress_rev (sufs : list string) (r : chars) : chars :=
  match sufs with
  | [] => r
  | suf :: rest =>
    let rs := rev (list_ascii_of_string suf) in
    if prefixb rs r then skipn (length rs) r else strip_compress_rev rest r
  end.
(* os.path.splitext on the reversed name: the extension starts at the last dot after the last
   '/', unless the base name consists of dots only up to there *)
Fixpoint split_rev (r acc : chars) : option (chars * chars) :=
  match r with
  | [] => None
  | c :: r' =>
    if Ascii.eqb c "."%char then Some ("."%char :: acc, r')
    else if Ascii.eqb c "/"%char then None
    else split_rev r' (c :: acc)
  end.
Fixpoint nondot_before_sep (r : chars) : bool :=
  match r with
  | [] => false
  | c :: r' => if Ascii.eqb c "/"%char then false else if Ascii.eqb c "."%char then nondot_before_sep r' else true
  end.
Definition ext_of_rev (r : chars) : string :=
  match split_rev r [] with
  | Some (e, rest) => if nondot_before_sep rest then string_of_list_ascii e else ""
  | None => ""
  end.
(* None = ValueError('Strange file extension') *)
Definition type_from_filename (f : string) : option string :=
  assoc (ext_of_rev (strip_compress_rev compress_suffixes (rev (list_ascii_of_string f)))) ext_types.
