(* C03 - executable comparison for headers with space units (harness: corr/nifti2nipy) *)
From Coq Require Import String.
From Coq Require Import List ZArith QArith.
From NV.Lib Require Import Harness.
From NV.Generated Require Import NiftiTables NiftiUnits.
From NV.C03 Require Import Model Exec UnitsModel.
Open Scope string_scope.

Definition load_agrees_u (u : string) (h : nimg Z) expected : bool :=
  agrees observe_i iobs_eqb (nifti2nipy_u Z u h) expected.
Definition show_load_u (u : string) (h : nimg Z) :=
  match nifti2nipy_u Z u h with Ok i => inl (observe_i i) | Err e => inr e end.
