(* C03 - executable glue for the correspondence check (vm_compute): data as
   flat C-order index, table oracle, observations and their comparison. *)
From Coq Require Import String Ascii.
From Coq Require Import List Arith Bool ZArith QArith.
From NV.Lib Require Import Harness.
From NV.Generated Require Import NiftiTables.
From NV.C03 Require Import Model.
Import ListNotations.
Close Scope Q_scope.
Open Scope string_scope.
Open Scope list_scope.

(* C-order flat index of idx in an array of this shape *)
Fixpoint ravel (shape idx : list nat) (acc : Z) : Z :=
  match shape, idx with
  | s :: sr, i :: ir => ravel sr ir (acc * Z.of_nat s + Z.of_nat i)%Z
  | _, _ => acc
  end.
(* all indices of an array in C order *)
Fixpoint all_idx (shape : list nat) : list (list nat) :=
  match shape with
  | [] => [[]]
  | s :: r => flat_map (fun i => map (cons i) (all_idx r)) (seq 0 s)
  end.

(* an image whose data value at idx is its own flat index *)
Definition mk_img (inn outn : list string) (lin : list (list Q)) (trn : list Q) (shp : list nat) (mt : Q) : img Z :=
  {| inn := inn; outn := outn; lin := lin; trn := trn; shp := shp; dat := fun idx => ravel shp idx 0%Z;
     meta_toffset := mt |}.

(* oracle instantiated by the answers nibabel.io_orientation gave during the call *)
Definition tab_oracle (tab : list (list (list Q) * list (option nat))) : orac :=
  fun M => match find (fun p => qmat_eqb (fst p) M) tab with Some p => snd p | None => [] end.

(* np.argsort answers recorded during the call (keys with nan -> max+1); default: stable argsort *)
Definition tab_sorter (stab : list (list nat * list nat)) : list nat -> list nat :=
  fun k => match find (fun p => natlist_eqb (fst p) k) stab with Some p => snd p | None => argsort k end.

Definition err_code (e : err) : nat :=
  match e with
  | EReorder => 1 | ESpaceCoupled => 2 | ENsCoupled => 3 | EWorld => 4 | EUnknownAffine => 5 | ETooMany => 6
  | ETimeMismatch => 7 | ETimeCross => 8 | EToffset => 9 | ECrash => 10 | ENdim => 11 | EOutside => 12
  end.

(* observation of a NIfTI image *)
Record nobs := { o_aff : list (list Q); o_sform : string; o_qform : string; o_dim_info : list (option nat);
                 o_tunits : string; o_pixdim : list Q; o_toffset : Q; o_shape : list nat; o_data : list Z }.
Definition observe_n (h : nimg Z) : nobs :=
  {| o_aff := h_aff h; o_sform := h_sform h; o_qform := h_qform h; o_dim_info := h_dim_info h;
     o_tunits := h_tunits h; o_pixdim := h_pixdim h; o_toffset := h_toffset h; o_shape := h_shape h;
     o_data := map (h_dat h) (all_idx (h_shape h)) |}.
Definition strl_eqb' := list_eqb String.eqb.
Definition nobs_eqb (a b : nobs) : bool :=
  qmat_eqb (o_aff a) (o_aff b) && String.eqb (o_sform a) (o_sform b) && String.eqb (o_qform a) (o_qform b)
  && list_eqb onat_eqb (o_dim_info a) (o_dim_info b) && String.eqb (o_tunits a) (o_tunits b)
  && qlist_eqb (o_pixdim a) (o_pixdim b) && Qeq_bool (o_toffset a) (o_toffset b)
  && natlist_eqb (o_shape a) (o_shape b) && zlist_eqb (o_data a) (o_data b).

(* observation of a nipy image *)
Record iobs := { i_inn : list string; i_outn : list string; i_lin : list (list Q); i_trn : list Q;
                 i_shp : list nat; i_data : list Z }.
Definition observe_i (im : img Z) : iobs :=
  {| i_inn := inn im; i_outn := outn im; i_lin := lin im; i_trn := trn im; i_shp := shp im;
     i_data := map (dat im) (all_idx (shp im)) |}.
Definition iobs_eqb (a b : iobs) : bool :=
  strl_eqb' (i_inn a) (i_inn b) && strl_eqb' (i_outn a) (i_outn b) && qmat_eqb (i_lin a) (i_lin b)
  && qlist_eqb (i_trn a) (i_trn b) && natlist_eqb (i_shp a) (i_shp b) && zlist_eqb (i_data a) (i_data b).

(* expected outcome recorded from the implementation: inl observation | inr error code (0 = any error) *)
Definition agrees {A B} (obs : A -> B) (eqb : B -> B -> bool) (r : res A) (expected : B + nat) : bool :=
  match r, expected with
  | Ok a, inl b => eqb (obs a) b
  | Err e, inr c => Nat.eqb c 0 || Nat.eqb c (err_code e)
  | _, _ => false
  end.

Definition n2n_agrees strict fix0 tab stab im expected : bool :=
  agrees observe_n nobs_eqb (nipy2nifti Z strict fix0 (tab_oracle tab) (tab_sorter stab) im) expected.
Definition roundtrip_agrees strict fix0 tab stab im expected : bool :=
  agrees observe_i iobs_eqb (bind (nipy2nifti Z strict fix0 (tab_oracle tab) (tab_sorter stab) im) (nifti2nipy Z)) expected.
Definition load_agrees (h : nimg Z) expected : bool :=
  agrees observe_i iobs_eqb (nifti2nipy Z h) expected.
Definition ftl_agrees fix0 tab (im : img Z) (expected : option (nat * option nat * string) + nat) : bool :=
  match find_time_like Z fix0 (tab_oracle tab) im, expected with
  | Ok None, inl None => true
  | Ok (Some (i, o, n)), inl (Some (i', o', n')) => Nat.eqb i i' && onat_eqb o o' && String.eqb n n'
  | Err e, inr c => Nat.eqb c 0 || Nat.eqb c (err_code e)
  | _, _ => false
  end.
Definition mk_nimg aff sf qf di tu pix toff shape : nimg Z :=
  {| h_aff := aff; h_sform := sf; h_qform := qf; h_dim_info := di; h_tunits := tu; h_pixdim := pix;
     h_toffset := toff; h_shape := shape; h_dat := fun idx => ravel shape idx 0%Z |}.
Definition ftype_agrees (f : string) (expected : option string) : bool :=
  option_eqb String.eqb (type_from_filename f) expected.

(* printable versions for replays *)
Definition show_n2n strict fix0 tab stab im :=
  match nipy2nifti Z strict fix0 (tab_oracle tab) (tab_sorter stab) im with Ok h => inl (observe_n h) | Err e => inr e end.
Definition show_rt strict fix0 tab stab im :=
  match bind (nipy2nifti Z strict fix0 (tab_oracle tab) (tab_sorter stab) im) (nifti2nipy Z) with Ok i => inl (observe_i i) | Err e => inr e end.
Definition show_load h := match nifti2nipy Z h with Ok i => inl (observe_i i) | Err e => inr e end.

(* idempotence path: nipy2nifti (strict) of what nifti2nipy made of a converted image *)
Definition idem_agrees strict fix0 tab stab im expected : bool :=
  agrees observe_n nobs_eqb
         (bind (bind (nipy2nifti Z strict fix0 (tab_oracle tab) (tab_sorter stab) im) (nifti2nipy Z))
               (nipy2nifti Z true fix0 (tab_oracle tab) (tab_sorter stab))) expected.
Definition show_idem strict fix0 tab stab im :=
  match bind (bind (nipy2nifti Z strict fix0 (tab_oracle tab) (tab_sorter stab) im) (nifti2nipy Z))
             (nipy2nifti Z true fix0 (tab_oracle tab) (tab_sorter stab)) with Ok h => inl (observe_n h) | Err e => inr e end.
