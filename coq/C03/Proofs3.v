(* C03 - files._type_from_filename: general statement over all plain stems *)
From Coq Require Import String Ascii.
From Coq Require Import List Arith Bool Lia.
From NV.Generated Require Import NiftiTables.
From NV.C03 Require Import Model.
Import ListNotations.
Open Scope string_scope.
Open Scope list_scope.

Definition plain_char (c : ascii) : Prop := c <> "."%char /\ c <> "/"%char.

Lemma prefixb_dot_false p r :
  In "."%char p -> Forall plain_char r -> prefixb p r = false.
Proof.
  revert r. induction p as [|x p IH]; intros r Hin Hr; [destruct Hin|].
  destruct r as [|a r]; [reflexivity|]. simpl.
  inversion Hr as [|a' r' [Ha1 Ha2] Hr']; subst.
  destruct Hin as [Hx|Hin].
  - subst x. destruct (Ascii.eqb "." a) eqn:E; [apply Ascii.eqb_eq in E; congruence|reflexivity].
  - rewrite (IH r Hin Hr'). apply andb_false_r.
Qed.

Lemma split_rev_plain r acc : Forall plain_char r -> split_rev r acc = None.
Proof.
  revert acc. induction r as [|c r IH]; intros acc H; [reflexivity|].
  inversion H as [|c' r' [H1 H2] Hr]; subst. simpl.
  destruct (Ascii.eqb c ".") eqn:E1; [apply Ascii.eqb_eq in E1; congruence|].
  destruct (Ascii.eqb c "/") eqn:E2; [apply Ascii.eqb_eq in E2; congruence|].
  now apply IH.
Qed.

Lemma nondot_plain r : r <> [] -> Forall plain_char r -> nondot_before_sep r = true.
Proof.
  destruct r as [|c r]; [congruence|]. intros _ H. inversion H as [|c' r' [H1 H2] Hr]; subst. simpl.
  destruct (Ascii.eqb c "/") eqn:E2; [apply Ascii.eqb_eq in E2; congruence|].
  destruct (Ascii.eqb c ".") eqn:E1; [apply Ascii.eqb_eq in E1; congruence|]. reflexivity.
Qed.

Definition fname (stem : list ascii) (ext comp : string) : string :=
  string_of_list_ascii (stem ++ list_ascii_of_string ext ++ list_ascii_of_string comp).

Lemma strip_eq r :
  strip_compress_rev compress_suffixes r
  = if prefixb ["z"; "g"; "."]%char r then skipn 3 r
    else if prefixb ["2"; "z"; "b"; "."]%char r then skipn 4 r else r.
Proof. reflexivity. Qed.

Ltac close_eqb :=
  repeat match goal with
         | |- context [Ascii.eqb ?a ?b] =>
           let v := eval vm_compute in (Ascii.eqb a b) in
           match v with true => idtac | false => idtac end;
           change (Ascii.eqb a b) with v
         end.
Lemma prefixb_cons x p a l : prefixb (x :: p) (a :: l) = Ascii.eqb x a && prefixb p l.
Proof. reflexivity. Qed.
Lemma prefixb_nil l : prefixb [] l = true.
Proof. reflexivity. Qed.
Ltac ev := repeat (progress (cbn [split_rev andb skipn app rev list_ascii_of_string];
                             rewrite ?prefixb_cons, ?prefixb_nil; close_eqb; cbn [andb])).

Lemma type_from_filename_general stem :
  stem <> [] -> Forall plain_char stem ->
  forall comp, In comp [""; ".gz"; ".bz2"] ->
    type_from_filename (fname stem "" comp) = Some "nifti1single"
    /\ forall ext, In ext [".nii"; ".hdr"; ".img"; ".mnc"] ->
         type_from_filename (fname stem ext comp) = assoc ext ext_types.
Proof.
  intros Hne Hpl comp Hc.
  assert (Hr : Forall plain_char (rev stem)) by (apply Forall_rev; exact Hpl).
  assert (Hrne : rev stem <> []).
  { intros E. apply Hne. rewrite <- (rev_involutive stem), E. reflexivity. }
  pose proof (nondot_plain _ Hrne Hr) as Hnd.
  assert (Hgz : prefixb ["z"; "g"; "."]%char (rev stem) = false) by (apply prefixb_dot_false; simpl; auto).
  assert (Hbz : prefixb ["2"; "z"; "b"; "."]%char (rev stem) = false) by (apply prefixb_dot_false; simpl; auto).
  pose proof (split_rev_plain (rev stem) [] Hr) as Hsp.
  unfold type_from_filename, fname.
  split.
  - rewrite list_ascii_of_string_of_list_ascii, !rev_app_distr, strip_eq.
    remember (rev stem) as r eqn:Er.
    simpl in Hc. destruct Hc as [E|[E|[E|[]]]]; subst comp; ev;
      rewrite ?Hgz, ?Hbz; unfold ext_of_rev; rewrite Hsp; reflexivity.
  - intros ext He. rewrite list_ascii_of_string_of_list_ascii, !rev_app_distr, strip_eq.
    remember (rev stem) as r eqn:Er.
    simpl in Hc, He.
    destruct Hc as [E|[E|[E|[]]]]; subst comp;
      destruct He as [E|[E|[E|[E|[]]]]]; subst ext; ev; unfold ext_of_rev; ev; rewrite Hnd; reflexivity.
Qed.
