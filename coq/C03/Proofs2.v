(* C03 - the round trip nifti2nipy (nipy2nifti img) on the model, and refusals. *)
From Coq Require Import String Ascii.
From Coq Require Import List Arith Bool ZArith QArith Qabs Lia.
From NV.Generated Require Import NiftiTables.
From NV.C03 Require Import Model Proofs.
Import ListNotations.
Close Scope Q_scope.
Open Scope string_scope.
Open Scope list_scope.

Section RT.
Variable V : Type.

(* invariants of a nipy Image with an AffineTransform of at least 3 inputs and outputs
   (guaranteed by the constructors): the array has one axis per input coordinate *)
Definition wf_img (im : img V) : Prop :=
  3 <= length (inn im) /\ length (shp im) = length (inn im).

Definition world_of (label : string) : string :=
  match assoc label xform2space with Some s => s | None => "unknown" end.

Lemma space_label_world strict out3 xa shape label :
  space_label strict out3 xa shape = Ok label ->
  in_space out3 (world_of label) = true
  \/ (strict = false /\ strl_eqb out3 plain_xyz = true /\ world_of label = plain_xyz_label).
Proof.
  unfold space_label. destruct (find (fun p => in_space out3 (snd p)) xform2space) as [p|] eqn:Ef.
  - intros H. inversion H; subst. apply find_some in Ef. destruct Ef as [Hin Hsp]. left.
    pose proof xform_assoc_consistent as Hc. rewrite forallb_forall in Hc. specialize (Hc p Hin).
    unfold world_of. destruct (assoc (fst p) xform2space) as [s|]; [|discriminate].
    apply String.eqb_eq in Hc. subst s. exact Hsp.
  - destruct (negb strict && strl_eqb out3 plain_xyz) eqn:Ep.
    + intros H. inversion H; subst. apply andb_true_iff in Ep. destruct Ep as [Ep1 Ep2].
      right. split; [now destruct strict|]. split; [exact Ep2|].
      unfold world_of. now rewrite (proj1 plain_label_xform).
    + destruct (in_space out3 "unknown") eqn:Eu; cbn [negb]; [|discriminate].
      destruct (base_affine_ok xa shape); [|discriminate].
      intros H. inversion H; subst. left. unfold world_of. rewrite unknown_not_xform. exact Eu.
Qed.

Lemma space_label_not_unknown_or strict out3 xa shape label :
  space_label strict out3 xa shape = Ok label ->
  (if String.eqb label "unknown" then label else label) = label.
Proof. intros _. now destruct (String.eqb label "unknown"). Qed.

Lemma space_names_length s : length (space_names s) = 3.
Proof. unfold space_names. rewrite map_length. exact suffixes_three. Qed.

Lemma firstn_app_exact {A} (a b : list A) n : length a = n -> firstn n (a ++ b) = a.
Proof. intros H. subst n. rewrite firstn_app, Nat.sub_diag, firstn_all. simpl. apply app_nil_r. Qed.

Lemma nth_app_exact {A} (a b : list A) n d : length a = n -> nth n (a ++ b) d = hd d b.
Proof.
  intros H. subst n. rewrite app_nth2 by lia. rewrite Nat.sub_diag. now destruct b.
Qed.

Lemma set_nth_length {A} k (v : A) l : length (set_nth k v l) = length l.
Proof. revert k. induction l as [|x l IH]; intros [|k]; simpl; auto. Qed.

Lemma in_names3_length di : length (in_names3 di) = 3.
Proof.
  unfold in_names3. generalize (combine di dim_info_names). intros l.
  assert (H : length default_in3 = 3) by reflexivity. revert H. generalize default_in3.
  induction l as [|p l IH]; intros names H; simpl; [exact H|].
  apply IH. destruct (fst p) as [k|]; [|exact H]. now rewrite set_nth_length.
Qed.

(* time-like name found => its units are read back as the same name, scaling 1 *)
Lemma units_back name :
  In name time_like_ordered ->
  exists au ns, assoc name time_like_axes = Some au /\ assoc (snd au) time_like_units = Some ns
                /\ fst ns = name /\ Qeq_bool (snd ns) 1%Q = true.
Proof.
  intros H. pose proof units_round_trip as Hu. rewrite forallb_forall in Hu. specialize (Hu name H).
  destruct (assoc name time_like_axes) as [au|] eqn:Ea; [|discriminate].
  destruct (assoc (snd au) time_like_units) as [ns|] eqn:En; [|discriminate].
  apply andb_true_iff in Hu. destruct Hu as [H1 H2]. apply String.eqb_eq in H1.
  exists au, ns. repeat split; auto.
Qed.

Lemma find_time_like_sound fix0 O (im : img V) i o name :
  find_time_like V fix0 O im = Ok (Some (i, o, name)) ->
  In name time_like_ordered /\
  tl_sound (map canon (skipn 3 (inn im))) (map canon (skipn 3 (outn im)))
           (O (if fix0 then fix0_mat (lin im) else lin im)) (i, o, name).
Proof.
  unfold find_time_like. intros H.
  pose proof (ftl_loop_spec time_like_ordered (map canon (skipn 3 (inn im))) (map canon (skipn 3 (outn im)))
                            (O (if fix0 then fix0_mat (lin im) else lin im))) as S.
  rewrite H in S. destruct S as [S1 S2]. split; [exact S2|exact S1].
Qed.

(* the time offset rule of nipy2nifti *)
Definition toff_rule (im : img V) (o : option nat) (name : string) : res Q :=
  if String.eqb name "t" && negb (forallb is0 (skipn 3 (trn im)))
  then match o with None => Err EToffset | Some oo => Ok (nth oo (trn im) 0%Q) end
  else Ok 0%Q.

Definition pixdims_of (im : img V) : res (list Q) :=
  col_norms (map (fun j => column 0%Q j (nsp_block (lin im))) (seq 0 (length (inn im) - 3))).

Lemma pixdims_length im pix : pixdims_of im = Ok pix -> length pix = length (inn im) - 3.
Proof.
  unfold pixdims_of. intros H. apply col_norms_spec in H. destruct H as [H _].
  now rewrite map_length, seq_length in H.
Qed.

Lemma remove3_insert (s : list nat) : 3 <= length s -> remove_nth 3 (firstn 3 s ++ 1 :: skipn 3 s) = s.
Proof. destruct s as [|a [|b [|c r]]]; simpl; intros H; try lia; try reflexivity. Qed.

Lemma squeeze_insert_idx (idx : list nat) :
  3 <= length idx ->
  firstn 3 (firstn 3 idx ++ 0 :: skipn 3 idx) ++ skipn 4 (firstn 3 idx ++ 0 :: skipn 3 idx) = idx.
Proof. destruct idx as [|a [|b [|c r]]]; simpl; intros H; try lia; try reflexivity. Qed.

Lemma nth3_insert (s : list nat) : 3 <= length s -> nth 3 (firstn 3 s ++ 1 :: skipn 3 s) 0 = 1.
Proof. destruct s as [|a [|b [|c r]]]; simpl; intros H; try lia; try reflexivity. Qed.

Lemma length_insert (s : list nat) : 3 <= length s -> length (firstn 3 s ++ 1 :: skipn 3 s) = S (length s).
Proof. destruct s as [|a [|b [|c r]]]; simpl; intros H; try lia; try reflexivity. Qed.

(* ---------------------------------------------------------------- the round trip *)
(* what came back, relative to the (xyz-first) image that was converted *)
Definition back_ok (strict fix0 : bool) (O : orac) (im r : img V) : Prop :=
  exists xa label,
    xyz_affine V strict O im = Some xa /\
    space_label strict (firstn 3 (outn im)) xa (shp im) = Ok label /\
    (* the named space: the one whose three names the image carried *)
    firstn 3 (outn r) = space_names (world_of label) /\
    (in_space (firstn 3 (outn im)) (world_of label) = true
     \/ (strict = false /\ strl_eqb (firstn 3 (outn im)) plain_xyz = true /\ world_of label = plain_xyz_label)) /\
    (* geometry: the xyz affine rows, then a diagonal block of zooms, offsets only where listed *)
    exists zs ts, lin r = block_lin xa zs /\ trn r = map (fun row => nth 3 row 0%Q) xa ++ ts /\
    ((length (inn im) = 3 /\ zs = [] /\ ts = [] /\ shp r = shp im /\ dat r = dat im)
     \/
     exists pix, pixdims_of im = Ok pix /\
       ((* no time-like axis: same array, same zooms in the same order, no time axis comes back *)
        (find_time_like V fix0 O im = Ok None /\ zs = pix /\ ts = repeat 0%Q (length pix) /\
         shp r = shp im /\ (forall idx, 3 <= length idx -> dat r idx = dat im idx) /\
         skipn 3 (inn r) = firstn (length pix) extra_names /\ skipn 3 (outn r) = firstn (length pix) extra_names)
        \/
        (* a time-like axis (input axis i): it comes back as axis 3 under its canonical name, with its
           zoom and - for 't' - the offset of its output coordinate; the other zooms keep their order;
           data and shape are those of the array with axis i moved to position 3 *)
        exists i o name toff,
          find_time_like V fix0 O im = Ok (Some (i, o, name)) /\ toff_rule im o name = Ok toff /\
          3 <= i /\
          nth 3 (inn r) "" = name /\ nth 3 (outn r) "" = name /\
          zs = nth (i - 3) pix 0%Q :: remove_nth (i - 3) pix /\
          ts = (if String.eqb name "t" then toff else 0%Q) :: repeat 0%Q (length pix - 1) /\
          ((i = 3 /\ shp r = shp im /\ dat r = dat im)
           \/ (3 < i /\ shp r = sel 0 (roll_axes (length (shp im)) i) (shp im)
               /\ forall idx, dat r idx = dat im (scatter (roll_axes (length (shp im)) i) idx))))).

Ltac n2n_split H :=
  unfold nipy2nifti_xyz in H; cbv zeta in H;
  match type of H with context [space_orthogonal ?L] => destruct (space_orthogonal L) eqn:Eso end;
  cbn [negb] in H; [|discriminate H];
  match type of H with context [ns_orthogonal ?L ?n] => destruct (ns_orthogonal L n) eqn:Ens end;
  cbn [negb] in H; [|discriminate H];
  match type of H with context [xyz_affine ?a ?b ?c ?d] => destruct (xyz_affine a b c d) as [xa|] eqn:Exa end;
  [|discriminate H];
  match type of H with context [space_label ?a ?b ?c ?d] => destruct (space_label a b c d) as [label|e] eqn:Esl end;
  cbn [bind] in H; [|discriminate H].

Lemma roundtrip_xyz strict fix0 O (im : img V) h :
  wf_img im ->
  nipy2nifti_xyz V strict fix0 O im = Ok h ->
  exists r, nifti2nipy V h = Ok r /\ back_ok strict fix0 O im r.
Proof.
  intros [Hn Hs] H. n2n_split H.
  pose proof (space_label_world _ _ _ _ _ Esl) as Hw.
  assert (Hlab : (if String.eqb label "unknown" then label else label) = label)
    by now destruct (String.eqb label "unknown").
  set (di := map (fun nm => str_index nm (firstn 3 (inn im))) dim_info_names) in *.
  destruct (Nat.eqb (length (inn im) - 3) 0) eqn:E0.
  - (* 3-D *)
    apply Nat.eqb_eq in E0. assert (Hn3 : length (inn im) = 3) by lia.
    inversion H; subst h; clear H.
    unfold nifti2nipy; cbn [h_shape h_aff h_sform h_qform h_dim_info h_tunits h_pixdim h_toffset h_dat].
    rewrite Hs, Hn3. cbn [Nat.ltb Nat.leb Nat.eqb]. rewrite Hlab. fold (world_of label).
    eexists. split; [reflexivity|].
    exists xa, label. split; [exact Exa|]. split; [exact Esl|]. cbn [outn lin trn shp dat].
    split; [reflexivity|]. split; [exact Hw|].
    exists [], []. split.
    + unfold block_lin. simpl. rewrite app_nil_r. apply map_ext. intros row. now rewrite app_nil_r.
    + split; [now rewrite app_nil_r|]. left. auto.
  - apply Nat.eqb_neq in E0.
    destruct (Nat.ltb max_ns (length (inn im) - 3)) eqn:Emax; [discriminate H|].
    apply Nat.ltb_ge in Emax.
    match type of H with context [col_norms ?c] => destruct (col_norms c) as [pix|e] eqn:Epix end;
      cbn [bind] in H; [|discriminate H].
    pose proof (pixdims_length im pix Epix) as Hpl.
    destruct (find_time_like V fix0 O im) as [[[[i o] name]|]|e] eqn:Eftl; cbn [bind] in H; [| |discriminate H].
    + (* time-like *)
      destruct (find_time_like_sound _ _ _ _ _ _ Eftl) as [Hname Hsound].
      destruct Hsound as [Hi3 [Hirange _]]. rewrite map_length, skipn_length in Hirange.
      destruct (units_back name Hname) as [au [ns [Hau [Hns [Hns1 Hns2]]]]].
      fold (toff_rule im o name) in H.
      destruct (toff_rule im o name) as [toff|e] eqn:Etoff; cbn [bind] in H; [|discriminate H].
      rewrite Hau in H.
      assert (Hlenpos : 0 < length pix) by lia.
      destruct (Nat.eqb i 3) eqn:Ei3.
      * apply Nat.eqb_eq in Ei3. subst i.
        inversion H; subst h; clear H.
        unfold nifti2nipy; cbn [h_shape h_aff h_sform h_qform h_dim_info h_tunits h_pixdim h_toffset h_dat].
        rewrite Hs.
        destruct (Nat.ltb (length (inn im)) 3) eqn:El3; [apply Nat.ltb_lt in El3; lia|].
        destruct (Nat.eqb (length (inn im)) 3) eqn:Ee3; [apply Nat.eqb_eq in Ee3; lia|].
        rewrite Hns. rewrite andb_false_r. rewrite Hns2, Hns1, Hlab. fold (world_of label).
        eexists. split; [reflexivity|].
        exists xa, label. split; [exact Exa|]. split; [exact Esl|]. cbn [inn outn lin trn shp dat].
        split; [apply firstn_app_exact, space_names_length|]. split; [exact Hw|].
        destruct pix as [|p0 prest]; [simpl in Hlenpos; lia|].
        exists (p0 :: prest), ((if String.eqb name "t" then toff else 0%Q) :: repeat 0%Q (length (inn im) - 3 - 1)).
        split; [reflexivity|]. split; [reflexivity|]. right.
        exists (p0 :: prest). split; [exact Epix|]. right.
        exists 3, o, name, toff. split; [exact Eftl|]. split; [exact Etoff|]. split; [lia|].
        split.
        { rewrite (nth_app_exact _ _ 3 "" (in_names3_length di)).
          destruct (length (inn im) - 3) eqn:En; [lia|]. reflexivity. }
        split.
        { rewrite (nth_app_exact _ _ 3 "" (space_names_length _)).
          destruct (length (inn im) - 3) eqn:En; [lia|]. reflexivity. }
        split; [reflexivity|]. split; [simpl length; rewrite <- Hpl; reflexivity|].
        left. auto.
      * apply Nat.eqb_neq in Ei3.
        destruct (Nat.ltb i 3) eqn:Eil; [discriminate H|]. apply Nat.ltb_ge in Eil.
        remember (sel 0 (roll_axes (length (shp im)) i) (shp im)) as s' eqn:Es'.
        remember (sel 0%Q (pix_order (length (inn im) - 3) (i - 3)) pix) as p' eqn:Ep'.
        rewrite <- Hpl, pix_order_sel in Ep'.
        inversion H; subst h; clear H.
        unfold nifti2nipy; cbn [h_shape h_aff h_sform h_qform h_dim_info h_tunits h_pixdim h_toffset h_dat].
        assert (Hlen : length s' = length (inn im)).
        { subst s'. unfold sel, roll_axes. rewrite map_length. simpl.
          assert (Hr : forall k l, k < length l -> length (@remove_nth nat k l) = length l - 1).
          { intros k l. revert k. induction l as [|x l IH]; intros [|k] Hk; simpl in *; try lia.
            rewrite IH by lia. lia. }
          rewrite Hr; rewrite seq_length; lia. }
        rewrite Hlen.
        destruct (Nat.ltb (length (inn im)) 3) eqn:El3; [apply Nat.ltb_lt in El3; lia|].
        destruct (Nat.eqb (length (inn im)) 3) eqn:Ee3; [apply Nat.eqb_eq in Ee3; lia|].
        rewrite Hns. rewrite andb_false_r. rewrite Hns2, Hns1, Hlab. fold (world_of label).
        eexists. split; [reflexivity|].
        exists xa, label. split; [exact Exa|]. split; [exact Esl|]. cbn [inn outn lin trn shp dat].
        split; [apply firstn_app_exact, space_names_length|]. split; [exact Hw|].
        subst p'. cbn [hd tl].
        exists (nth (i - 3) pix 0%Q :: remove_nth (i - 3) pix),
               ((if String.eqb name "t" then toff else 0%Q) :: repeat 0%Q (length pix - 1)).
        split; [reflexivity|]. split; [rewrite Hpl; reflexivity|]. right.
        exists pix. split; [exact Epix|]. right.
        exists i, o, name, toff. split; [exact Eftl|]. split; [exact Etoff|]. split; [lia|].
        split.
        { rewrite (nth_app_exact _ _ 3 "" (in_names3_length di)).
          destruct (length (inn im) - 3) eqn:En; [lia|]. reflexivity. }
        split.
        { rewrite (nth_app_exact _ _ 3 "" (space_names_length _)).
          destruct (length (inn im) - 3) eqn:En; [lia|]. reflexivity. }
        split; [reflexivity|]. split; [reflexivity|].
        right. split; [lia|]. split; [exact Es'|]. intros idx. reflexivity.
    + (* no time-like axis *)
      destruct (Nat.eqb (length (inn im) - 3) full_ns) eqn:Efull; [discriminate H|].
      assert (Hs3 : 3 <= length (shp im)) by lia.
      remember (firstn 3 (shp im) ++ 1 :: skipn 3 (shp im)) as s' eqn:Es'.
      inversion H; subst h; clear H.
      unfold nifti2nipy; cbn [h_shape h_aff h_sform h_qform h_dim_info h_tunits h_pixdim h_toffset h_dat].
      assert (Hl' : length s' = S (length (inn im))) by (subst s'; rewrite (length_insert _ Hs3); lia).
      assert (Hn' : nth 3 s' 0 = 1) by (subst s'; apply (nth3_insert _ Hs3)).
      rewrite Hl', Hn'.
      destruct (Nat.ltb (S (length (inn im))) 3) eqn:El3; [apply Nat.ltb_lt in El3; lia|].
      destruct (Nat.eqb (S (length (inn im))) 3) eqn:Ee3; [apply Nat.eqb_eq in Ee3; lia|].
      rewrite unknown_units_none. cbn [Nat.eqb].
      destruct (Nat.ltb 4 (S (length (inn im)))) eqn:E4; [|apply Nat.ltb_ge in E4; lia].
      cbn [andb]. rewrite Hlab. fold (world_of label).
      eexists. split; [reflexivity|].
      exists xa, label. split; [exact Exa|]. split; [exact Esl|]. cbn [inn outn lin trn shp dat tl].
      split; [apply firstn_app_exact, space_names_length|]. split; [exact Hw|].
      replace (S (length (inn im)) - 3 - 1) with (length pix) by lia.
      exists pix, (repeat 0%Q (length pix)).
      split; [reflexivity|]. split; [reflexivity|]. right.
      exists pix. split; [exact Epix|]. left.
      split; [exact Eftl|]. split; [reflexivity|]. split; [reflexivity|].
      split; [subst s'; apply remove3_insert; exact Hs3|].
      split; [intros idx Hidx; destruct idx as [|a [|b [|c rr]]]; simpl in Hidx; try lia; reflexivity|].
      split.
      * rewrite skipn_app, (proj2 (Nat.sub_0_le _ _)) by (rewrite in_names3_length; lia).
        rewrite skipn_all2 by (rewrite in_names3_length; lia). reflexivity.
      * rewrite skipn_app, (proj2 (Nat.sub_0_le _ _)) by (rewrite space_names_length; lia).
        rewrite skipn_all2 by (rewrite space_names_length; lia). reflexivity.
Qed.


(* ---------------------------------------------------------------- no crash path, time offset *)
Lemma col_norm_err c e : col_norm c = Err e -> e = EOutside.
Proof.
  unfold col_norm. destruct (filter (fun a => negb (is0 a)) c) as [|a [|b r]]; intros H; try discriminate H.
  now inversion H.
Qed.
Lemma col_norms_err cols e : col_norms cols = Err e -> e = EOutside.
Proof.
  induction cols as [|c r IH]; simpl; [discriminate|].
  destruct (col_norm c) as [a|e1] eqn:Ea; simpl.
  - destruct (col_norms r) as [l|e2] eqn:El; simpl; [discriminate|].
    intros H. inversion H; subst. now apply IH.
  - intros H. inversion H; subst. now apply col_norm_err in Ea.
Qed.
Lemma space_label_err strict out3 xa shape e :
  space_label strict out3 xa shape = Err e -> e = EWorld \/ e = EUnknownAffine.
Proof.
  unfold space_label. destruct (find _ xform2space); [discriminate|].
  destruct (negb strict && strl_eqb out3 plain_xyz); [discriminate|].
  destruct (negb (in_space out3 "unknown")); [intros H; inversion H; now left|].
  destruct (base_affine_ok xa shape); [discriminate|]. intros H; inversion H; now right.
Qed.
Lemma find_time_like_err fix0 O (im : img V) e :
  find_time_like V fix0 O im = Err e -> e = ETimeMismatch \/ e = ETimeCross \/ e = EOutside.
Proof.
  unfold find_time_like. intros H.
  pose proof (ftl_loop_spec time_like_ordered (map canon (skipn 3 (inn im))) (map canon (skipn 3 (outn im)))
                            (O (if fix0 then fix0_mat (lin im) else lin im))) as S.
  now rewrite H in S.
Qed.

(* every refusal of the conversion after as_xyz is a NiftiError kind (or "outside the model"):
   there is no path to a Python TypeError any more *)
Lemma n2n_xyz_errors strict fix0 O (im : img V) e :
  nipy2nifti_xyz V strict fix0 O im = Err e ->
  In e [ESpaceCoupled; ENsCoupled; EWorld; EUnknownAffine; ETooMany; ETimeMismatch; ETimeCross; EToffset; EOutside].
Proof.
  intros H. unfold nipy2nifti_xyz in H; cbv zeta in H.
  match type of H with context [space_orthogonal ?L] => destruct (space_orthogonal L) end;
    cbn [negb] in H; [|inversion H; simpl; tauto].
  match type of H with context [ns_orthogonal ?L ?n] => destruct (ns_orthogonal L n) end;
    cbn [negb] in H; [|inversion H; simpl; tauto].
  match type of H with context [xyz_affine ?a ?b ?c ?d] => destruct (xyz_affine a b c d) as [xa|] end;
    [|inversion H; simpl; tauto].
  match type of H with context [space_label ?a ?b ?c ?d] => destruct (space_label a b c d) as [label|e1] eqn:Esl end;
    cbn [bind] in H; [|inversion H; subst; apply space_label_err in Esl; destruct Esl; subst; simpl; tauto].
  destruct (Nat.eqb (length (inn im) - 3) 0); [discriminate H|].
  destruct (Nat.ltb max_ns (length (inn im) - 3)); [inversion H; simpl; tauto|].
  match type of H with context [col_norms ?c] => destruct (col_norms c) as [pix|e1] eqn:Epix end;
    cbn [bind] in H; [|inversion H; subst; apply col_norms_err in Epix; subst; simpl; tauto].
  destruct (find_time_like V fix0 O im) as [[[[i o] name]|]|e1] eqn:Eftl; cbn [bind] in H.
  - fold (toff_rule im o name) in H.
    destruct (toff_rule im o name) as [toff|e1] eqn:Etoff; cbn [bind] in H.
    + destruct (Nat.eqb i 3); [discriminate H|]. destruct (Nat.ltb i 3); [|discriminate H].
      inversion H; simpl; tauto.
    + inversion H; subst. unfold toff_rule in Etoff.
      destruct (String.eqb name "t" && negb (forallb is0 (skipn 3 (trn im)))); [|discriminate Etoff].
      destruct o; [discriminate Etoff|]. inversion Etoff. simpl; tauto.
  - destruct (Nat.eqb (length (inn im) - 3) full_ns); [|discriminate H]. inversion H; simpl; tauto.
  - inversion H; subst. apply find_time_like_err in Eftl. destruct Eftl as [E|[E|E]]; subst; simpl; tauto.
Qed.

(* the time offset written for a 't' axis is the translation of its output coordinate - whatever
   toffset the image's old header carried *)
Lemma toff_rule_spec (im : img V) o toff :
  toff_rule im o "t" = Ok toff ->
  match o with
  | Some oo => 3 <= oo -> (toff == nth oo (trn im) 0%Q)%Q
  | None => forallb is0 (skipn 3 (trn im)) = true /\ toff = 0%Q
  end.
Proof.
  unfold toff_rule. rewrite String.eqb_refl. cbn [andb].
  destruct (forallb is0 (skipn 3 (trn im))) eqn:Ez; cbn [negb].
  - intros H. inversion H; subst. destruct o as [oo|]; [|auto].
    intros Hoo. rewrite forallb_forall in Ez.
    assert (Hsk : forall (l : list Q) k, nth (3 + k) l 0%Q = nth k (skipn 3 l) 0%Q).
    { intros l k. destruct l as [|a [|b [|c r]]]; simpl; try reflexivity; now destruct k. }
    replace oo with (3 + (oo - 3)) by lia. rewrite Hsk.
    destruct (Nat.lt_ge_cases (oo - 3) (length (skipn 3 (trn im)))) as [Hl|Hl].
    + specialize (Ez _ (nth_In _ 0%Q Hl)). unfold is0 in Ez. apply Qeq_bool_eq in Ez. now rewrite Ez.
    + rewrite nth_overflow by exact Hl. reflexivity.
  - destruct o as [oo|]; [|discriminate]. intros H. inversion H. intros _. reflexivity.
Qed.

(* ---------------------------------------------------------------- refusals *)
(* whatever is accepted is expressible: the contrapositive refuses each inexpressible class *)
Lemma accepted_is_expressible strict fix0 O (im : img V) h :
  nipy2nifti_xyz V strict fix0 O im = Ok h ->
  space_orthogonal (lin im) = true /\
  ns_orthogonal (lin im) (length (inn im) - 3) = true /\
  (exists xa label, xyz_affine V strict O im = Some xa
                    /\ space_label strict (firstn 3 (outn im)) xa (shp im) = Ok label) /\
  length (inn im) - 3 <= max_ns /\
  (0 < length (inn im) - 3 ->
     exists tl, find_time_like V fix0 O im = Ok tl /\ (tl = None -> length (inn im) - 3 <> full_ns)
                /\ (forall i o name, tl = Some (i, o, name) -> exists toff, toff_rule im o name = Ok toff)).
Proof.
  intros H. n2n_split H.
  split; [reflexivity|]. split; [reflexivity|]. split; [exists xa, label; auto|].
  destruct (Nat.eqb (length (inn im) - 3) 0) eqn:E0.
  - apply Nat.eqb_eq in E0. split; [lia|]. intros Hp. lia.
  - destruct (Nat.ltb max_ns (length (inn im) - 3)) eqn:Emax; [discriminate H|].
    apply Nat.ltb_ge in Emax. split; [exact Emax|]. intros _.
    match type of H with context [col_norms ?c] => destruct (col_norms c) as [pix|e] eqn:Epix end;
      cbn [bind] in H; [|discriminate H].
    destruct (find_time_like V fix0 O im) as [[[[i o] name]|]|e] eqn:Eftl; cbn [bind] in H; [| |discriminate H].
    + fold (toff_rule im o name) in H.
      destruct (toff_rule im o name) as [toff|e] eqn:Etoff; cbn [bind] in H; [|discriminate H].
      eexists. split; [reflexivity|]. split; [discriminate|].
      intros i' o' name' E. inversion E; subst. now exists toff.
    + destruct (Nat.eqb (length (inn im) - 3) full_ns) eqn:Efull; [discriminate H|].
      apply Nat.eqb_neq in Efull. eexists. split; [reflexivity|]. split; [auto|]. discriminate.
Qed.

End RT.
