(* C03 - lemmas: list helpers, the _find_time_like decision table, the
   pixdim / data-axis permutation of the roll, refusals. *)
From Coq Require Import String Ascii.
From Coq Require Import List Arith Bool ZArith QArith Qabs Lia.
From NV.Generated Require Import NiftiTables.
From NV.C03 Require Import Model.
Import ListNotations.
Close Scope Q_scope.
Open Scope string_scope.
Open Scope list_scope.

(* ------------------------------------------------------------ index lemmas *)
Lemma ostr_eqb_true a v : ostr_eqb a (Some v) = true -> a = Some v.
Proof.
  destruct a as [s|]; simpl; [|discriminate]. intros H. apply String.eqb_eq in H. now subst.
Qed.
Lemma ostr_eqb_false a v : ostr_eqb a (Some v) = false -> a <> Some v.
Proof.
  destruct a as [s|]; simpl; [|discriminate]. intros H E. inversion E as [E1]. subst.
  rewrite String.eqb_refl in H. discriminate.
Qed.

Lemma ostr_index_some v l k : ostr_index v l = Some k -> k < length l /\ nth k l None = Some v.
Proof.
  revert k. induction l as [|x l IH]; simpl; intros k H; [discriminate|].
  destruct (ostr_eqb x (Some v)) eqn:E.
  - inversion H; subst. split; [lia|]. now apply ostr_eqb_true.
  - destruct (ostr_index v l) as [j|] eqn:Ej; simpl in H; [|discriminate].
    inversion H; subst. destruct (IH j eq_refl) as [H1 H2]. split; [lia|exact H2].
Qed.
Lemma ostr_index_none v l : ostr_index v l = None -> ~ In (Some v) l.
Proof.
  induction l as [|x l IH]; simpl; intros H; [tauto|].
  destruct (ostr_eqb x (Some v)) eqn:E; [discriminate|].
  destruct (ostr_index v l) as [j|] eqn:Ej; simpl in H; [discriminate|].
  intros [H1|H1]; [now apply ostr_eqb_false in E|now apply IH].
Qed.

Lemma onat_eqb_true a b : onat_eqb a b = true -> a = b.
Proof.
  destruct a as [x|], b as [y|]; simpl; try discriminate; try reflexivity.
  intros H. apply Nat.eqb_eq in H. now subst.
Qed.
Lemma onat_index_some o l k : onat_index (Some o) l = Some k -> k < length l /\ nth k l None = Some o.
Proof.
  revert k. induction l as [|x l IH]; simpl; intros k H; [discriminate|].
  destruct (onat_eqb x (Some o)) eqn:E.
  - inversion H; subst. split; [lia|]. now apply onat_eqb_true.
  - destruct (onat_index (Some o) l) as [j|] eqn:Ej; simpl in H; [|discriminate].
    inversion H; subst. destruct (IH j eq_refl) as [H1 H2]. split; [lia|exact H2].
Qed.

(* ------------------------------------------------------------ _find_time_like *)
(* what a returned (input axis, output axis, name) triple must satisfy with respect to the
   canonical names ci / co (positions 3..) and the two axis dictionaries of axmap *)
Definition tl_sound (ci co : list (option string)) (ornt : list (option nat))
           (r : nat * option nat * string) : Prop :=
  let '(i, o, name) := r in
  3 <= i /\ i - 3 < length ci /\
  (* the name is carried by the input axis or by the matched output axis *)
  (nth (i - 3) ci None = Some name
   \/ exists oo, o = Some oo /\ nth (oo - 3) co None = Some name) /\
  (* and no other time-like type sits on either of them *)
  (nth (i - 3) ci None = None \/ nth (i - 3) ci None = Some name) /\
  (* the pair is the one the dictionaries give: in2out[i] = o (and so out2in finds an input for o) *)
  in2out ornt i = o /\
  (forall oo, o = Some oo ->
     3 <= oo /\ oo - 3 < length co /\ (nth (oo - 3) co None = None \/ nth (oo - 3) co None = Some name)) /\
  (* a name present on both sides with no matched output: the output with that name has no input either *)
  (o = None -> forall k2, ostr_index name co = Some k2 -> out2in ornt (k2 + 3) = None).

(* the loop says "no time-like axis" only when no name of the list is on an input axis and
   every output axis carrying one has no corresponding input *)
Definition tl_none (names : list string) (ci co : list (option string)) (ornt : list (option nat)) : Prop :=
  forall name, In name names ->
    ~ In (Some name) ci /\ (forall k2, ostr_index name co = Some k2 -> out2in ornt (k2 + 3) = None).

Lemma tl_sound_intro ci co ornt i o name :
  3 <= i -> i - 3 < length ci ->
  (nth (i - 3) ci None = Some name \/ exists oo, o = Some oo /\ nth (oo - 3) co None = Some name) ->
  (nth (i - 3) ci None = None \/ nth (i - 3) ci None = Some name) ->
  in2out ornt i = o ->
  (forall oo, o = Some oo ->
     3 <= oo /\ oo - 3 < length co /\ (nth (oo - 3) co None = None \/ nth (oo - 3) co None = Some name)) ->
  (o = None -> forall k2, ostr_index name co = Some k2 -> out2in ornt (k2 + 3) = None) ->
  tl_sound ci co ornt (i, o, name).
Proof. intros H1 H2 H3 H4 H5 H6 H7. unfold tl_sound. tauto. Qed.

Lemma ftl_loop_spec names ci co ornt :
  match ftl_loop names ci co ornt with
  | Ok None => tl_none names ci co ornt
  | Ok (Some r) => tl_sound ci co ornt r /\ In (snd r) names
  | Err e => e = ETimeMismatch \/ e = ETimeCross \/ e = EOutside
  end.
Proof.
  induction names as [|name rest IH]; simpl.
  - intros n [].
  - destruct (ostr_index name ci) as [k|] eqn:Ei.
    + destruct (ostr_index_some _ _ _ Ei) as [Hk Hci].
      assert (Hk3 : k + 3 - 3 = k) by lia.
      destruct (ostr_index name co) as [k2|] eqn:Eo.
      * destruct (ostr_index_some _ _ _ Eo) as [Hk2 Hco].
        assert (Hk23 : k2 + 3 - 3 = k2) by lia.
        destruct (in2out ornt (k + 3)) as [c|] eqn:Ec.
        -- destruct (Nat.eqb c (k2 + 3)) eqn:Ecs; [|tauto].
           apply Nat.eqb_eq in Ecs. subst c. simpl. split; [|now left].
           apply tl_sound_intro; rewrite ?Hk3; auto; try lia.
           ++ intros oo Hoo. inversion Hoo; subst. rewrite Hk23. split; [lia|]. split; [lia|]. now right.
           ++ discriminate.
        -- destruct (out2in ornt (k2 + 3)) as [j|] eqn:Ej; [tauto|].
           simpl. split; [|now left].
           apply tl_sound_intro; rewrite ?Hk3; auto; try lia.
           ++ discriminate.
           ++ intros _ k2' Hk2'. assert (k2' = k2) by congruence. subst. exact Ej.
      * destruct (in2out ornt (k + 3)) as [c|] eqn:Ec;
          [|simpl; split; [|now left]; apply tl_sound_intro; rewrite ?Hk3; auto; try lia;
            [discriminate | intros _ k2' Hk2'; congruence]].
        destruct (Nat.ltb c 3 || Nat.leb (length co) (c - 3)) eqn:Eb; [tauto|].
        apply orb_false_iff in Eb. destruct Eb as [Eb1 Eb2].
        apply Nat.ltb_ge in Eb1. apply Nat.leb_gt in Eb2.
        destruct (nth (c - 3) co None) as [other|] eqn:En; [tauto|].
        simpl. split; [|now left].
        apply tl_sound_intro; rewrite ?Hk3; auto; try lia.
        -- intros oo Hoo. inversion Hoo; subst. split; [lia|]. split; [lia|]. now left.
        -- discriminate.
    + destruct (ostr_index name co) as [k2|] eqn:Eo.
      * destruct (ostr_index_some _ _ _ Eo) as [Hk2 Hco].
        assert (Hk23 : k2 + 3 - 3 = k2) by lia.
        destruct (out2in ornt (k2 + 3)) as [i|] eqn:Ei2.
        -- destruct (Nat.ltb i 3 || Nat.leb (length ci) (i - 3)) eqn:Eb; [tauto|].
           apply orb_false_iff in Eb. destruct Eb as [Eb1 Eb2].
           apply Nat.ltb_ge in Eb1. apply Nat.leb_gt in Eb2.
           destruct (nth (i - 3) ci None) as [other|] eqn:En; [tauto|].
           simpl. split; [|now left].
           unfold out2in in Ei2. destruct (onat_index_some _ _ _ Ei2) as [Hi Hnth].
           apply tl_sound_intro; auto; try lia.
           ++ right. exists (k2 + 3). split; [reflexivity|]. rewrite Hk23. exact Hco.
           ++ intros oo Hoo. inversion Hoo; subst. rewrite Hk23. split; [lia|]. split; [lia|]. now right.
           ++ discriminate.
        -- destruct (ftl_loop rest ci co ornt) as [[r|]|e] eqn:Er.
           ++ destruct IH as [IH1 IH2]. split; [exact IH1|now right].
           ++ intros n [Hn|Hn].
              ** subst n. split; [now apply ostr_index_none|].
                 intros k2' Hk2'. assert (k2' = k2) by congruence. subst. exact Ei2.
              ** now apply IH.
           ++ exact IH.
      * destruct (ftl_loop rest ci co ornt) as [[r|]|e] eqn:Er.
        -- destruct IH as [IH1 IH2]. split; [exact IH1|now right].
        -- intros n [Hn|Hn].
           ++ subst n. split; [now apply ostr_index_none|]. intros k2' Hk2'. congruence.
           ++ now apply IH.
        -- exact IH.
Qed.

(* ------------------------------------------------------------ permutations of the roll *)
Lemma map_remove_nth {A B} (f : A -> B) k l : map f (remove_nth k l) = remove_nth k (map f l).
Proof.
  revert k; induction l as [|x l IH]; intros [|k]; simpl; auto. now rewrite IH.
Qed.

Lemma map_nth_seq {A} (d : A) l : map (fun i => nth i l d) (seq 0 (length l)) = l.
Proof.
  induction l as [|x l IH]; simpl; [reflexivity|].
  f_equal. rewrite <- seq_shift, map_map. exact IH.
Qed.

(* ns_pixdims = [ns_pixdims[i] for i in order]: the time-like zoom first, the others in their order *)
Lemma pix_order_sel {A} (d : A) k pix :
  sel d (pix_order (length pix) k) pix = nth k pix d :: remove_nth k pix.
Proof.
  unfold sel, pix_order. simpl. f_equal.
  rewrite map_remove_nth, map_nth_seq. reflexivity.
Qed.

(* the data axes and the pixdims are moved by the same permutation *)
Lemma roll_axes_pix_order m k :
  roll_axes (m + 3) (k + 3) = [0; 1; 2] ++ map (fun j => j + 3) (pix_order m k).
Proof.
  unfold roll_axes, pix_order. simpl.
  replace (k + 3 - 3) with k by lia. replace (m + 3 - 3) with m by lia.
  do 4 f_equal. rewrite map_remove_nth. f_equal.
  rewrite <- (seq_shift m 2), <- (seq_shift m 1), <- (seq_shift m 0), !map_map.
  apply map_ext. intros a. lia.
Qed.

(* np.transpose by the roll: shape *)
Lemma roll_axes_shape k (s : list nat) :
  3 <= length s ->
  sel 0 (roll_axes (length s) (k + 3)) s = firstn 3 s ++ nth (k + 3) s 0 :: remove_nth k (skipn 3 s).
Proof.
  intros H. destruct s as [|a [|b [|c rest]]]; simpl in H; try lia.
  unfold sel, roll_axes. simpl. replace (k + 3 - 3) with k by lia.
  do 4 f_equal. replace (length rest - 0) with (length rest) by lia.
  rewrite map_remove_nth. f_equal.
  rewrite <- (seq_shift _ 2), <- (seq_shift _ 1), <- (seq_shift _ 0), !map_map. simpl.
  apply map_nth_seq.
Qed.

(* ------------------------------------------------------------ col_norms *)
Lemma col_norms_spec cols pix :
  col_norms cols = Ok pix ->
  length pix = length cols /\ forall k, k < length cols -> col_norm (nth k cols []) = Ok (nth k pix 0%Q).
Proof.
  revert pix. induction cols as [|c r IH]; simpl; intros pix H.
  - inversion H; subst. split; [reflexivity|]. intros k Hk; lia.
  - destruct (col_norm c) as [a|e] eqn:Ea; simpl in H; [|discriminate].
    destruct (col_norms r) as [l|e] eqn:El; simpl in H; [|discriminate].
    inversion H; subst. destruct (IH l eq_refl) as [H1 H2]. split; [simpl; lia|].
    intros [|k] Hk; simpl; [exact Ea|]. apply H2. lia.
Qed.

(* ------------------------------------------------------------ table facts (re-checked when the source changes) *)
Lemma xform_labels_not_unknown : forallb (fun p => negb (String.eqb (fst p) "unknown")) xform2space = true.
Proof. vm_compute. reflexivity. Qed.
Lemma xform_assoc_consistent :
  forallb (fun p => match assoc (fst p) xform2space with Some s => String.eqb s (snd p) | None => false end) xform2space = true.
Proof. vm_compute. reflexivity. Qed.
Lemma unknown_not_xform : assoc "unknown" xform2space = None.
Proof. vm_compute. reflexivity. Qed.
Lemma plain_label_xform : assoc plain_xyz_label xform2space = Some plain_xyz_label
                          /\ String.eqb plain_xyz_label "unknown" = false.
Proof. vm_compute. split; reflexivity. Qed.
Lemma suffixes_three : length space_suffixes = 3.
Proof. reflexivity. Qed.
(* every time-like name writes units that nifti2nipy reads back as the same name with scaling 1 *)
Lemma units_round_trip :
  forallb (fun name => match assoc name time_like_axes with
                       | Some au => match assoc (snd au) time_like_units with
                                    | Some ns => String.eqb (fst ns) name && Qeq_bool (snd ns) 1%Q
                                    | None => false end
                       | None => false end) time_like_ordered = true.
Proof. vm_compute. reflexivity. Qed.
Lemma unknown_units_none : assoc "unknown" time_like_units = None.
Proof. vm_compute. reflexivity. Qed.
Lemma dims_bounds : max_ns = 4 /\ full_ns = 4 /\ length extra_names = 3 /\ length default_in3 = 3.
Proof. vm_compute. repeat split. Qed.
