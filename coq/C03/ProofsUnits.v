(* C03 - proofs about the space-unit handling (UnitsModel.v) *)
From Coq Require Import String.
From Coq Require Import List Bool Arith Lia QArith.
From NV.Generated Require Import NiftiTables NiftiUnits.
From NV.C03 Require Import Model UnitsModel.
Import ListNotations.
Open Scope string_scope.
Close Scope Q_scope.

Lemma skipn_all_app {A} (l l' : list A) k : length l = k -> skipn k (l ++ l') = l'.
Proof. intros <-. rewrite skipn_app, Nat.sub_diag, skipn_all. reflexivity. Qed.

Lemma scq_spec f v : (scq f v == f * v)%Q.
Proof. unfold scq. apply Qred_correct. Qed.

Lemma scale_row_entry f row : forall j, (nth j (map (scq f) row) 0 == f * nth j row 0)%Q.
Proof.
  induction row as [|x row IH]; intros j.
  - destruct j; cbn; ring.
  - destruct j as [|j]; cbn [map nth]; [apply scq_spec|apply IH].
Qed.

Lemma scale_rows_entry f M : forall i j,
  (nth j (nth i (scale_rows f M) []) 0 == f * nth j (nth i M []) 0)%Q.
Proof.
  induction M as [|row M IH]; intros i j.
  - destruct i, j; cbn; ring.
  - destruct i as [|i]; cbn [scale_rows map nth]; [apply scale_row_entry|apply IH].
Qed.

Lemma scale_rows_shape f M :
  length (scale_rows f M) = length M /\ map (@length Q) (scale_rows f M) = map (@length Q) M.
Proof.
  unfold scale_rows. split; [apply map_length|].
  rewrite map_map. apply map_ext. intros row. apply map_length.
Qed.

Lemma saved_units_reload V stale strict fix0 O S im h u :
  nipy2nifti_u V stale strict fix0 O S im = Ok (h, u) ->
  nipy2nifti V strict fix0 O S im = Ok h /\ xyz_factor u = None /\ nifti2nipy_u V u h = nifti2nipy V h.
Proof.
  unfold nipy2nifti_u. intros H.
  destruct (nipy2nifti V strict fix0 O S im) as [h'|e]; [|discriminate H].
  inversion H; subst. split; [reflexivity|]. split; [reflexivity|]. reflexivity.
Qed.

Lemma units_touch_affine_only V u h :
  match nifti2nipy V h, nifti2nipy_u V u h with
  | Ok r, Ok r' => inn r' = inn r /\ outn r' = outn r /\ shp r' = shp r /\ dat r' = dat r
                   /\ meta_toffset r' = meta_toffset r /\ length (lin r') = length (lin r)
                   /\ length (trn r') = length (trn r)
                   /\ skipn (length (h_aff h)) (lin r') = skipn (length (h_aff h)) (lin r)
                   /\ skipn (length (h_aff h)) (trn r') = skipn (length (h_aff h)) (trn r)
  | Err e, Err e' => e = e'
  | _, _ => False
  end.
Proof.
  unfold nifti2nipy_u, apply_units.
  destruct (xyz_factor u) as [f|].
  2:{ destruct (nifti2nipy V h) as [r|e]; [repeat split; reflexivity|reflexivity]. }
  unfold nifti2nipy. cbn [h_shape h_sform h_qform h_dim_info h_tunits h_pixdim h_toffset h_dat h_aff with_aff].
  destruct (Nat.ltb (length (h_shape h)) 3); [reflexivity|].
  assert (Hl : forall (g1 g2 : list Q -> list Q) (X : list (list Q)),
             skipn (length (h_aff h)) (map g1 (scale_rows f (h_aff h)) ++ X) = skipn (length (h_aff h)) (map g2 (h_aff h) ++ X)).
  { intros g1 g2 X. rewrite !skipn_all_app; [reflexivity| |]; rewrite ?map_length; unfold scale_rows; rewrite ?map_length; reflexivity. }
  assert (Ht : forall (g1 g2 : list Q -> Q) (X : list Q),
             skipn (length (h_aff h)) (map g1 (scale_rows f (h_aff h)) ++ X) = skipn (length (h_aff h)) (map g2 (h_aff h) ++ X)).
  { intros g1 g2 X. rewrite !skipn_all_app; [reflexivity| |]; rewrite ?map_length; unfold scale_rows; rewrite ?map_length; reflexivity. }
  destruct (Nat.eqb (length (h_shape h)) 3).
  - cbn [inn outn shp dat meta_toffset lin trn]. repeat split.
    + unfold scale_rows. now rewrite !map_length.
    + unfold scale_rows. now rewrite !map_length.
    + rewrite <- (app_nil_r (map (firstn 3) (scale_rows f (h_aff h)))), <- (app_nil_r (map (firstn 3) (h_aff h))). apply Hl.
    + rewrite <- (app_nil_r (map _ (scale_rows f (h_aff h)))), <- (app_nil_r (map _ (h_aff h))). apply Ht.
  - match goal with |- context [if ?c then _ else _] => destruct c end;
    cbn [inn outn shp dat meta_toffset lin trn]; unfold block_lin; repeat split;
    try (rewrite ?app_length, ?map_length; unfold scale_rows; rewrite ?map_length; reflexivity);
    try apply Hl; try apply Ht.
Qed.
