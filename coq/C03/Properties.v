(* C03 - property theorems only (NIfTI round trip preserves data and geometry, or refuses).
   The model is NV.C03.Model; the literal tables (TIME_LIKE_*, XFORM2SPACE, spaces,
   file extensions) are Generated/NiftiTables.v, regenerated from the source on every run.
   nibabel.io_orientation is the oracle `O` and np.argsort on the orientation keys (tie rule) the
   oracle `S`; every theorem holds for EVERY value of both. *)
From Coq Require Import String Ascii.
From Coq Require Import List Arith Bool ZArith QArith Qabs Lia.
From NV.Generated Require Import NiftiTables NiftiUnits.
From NV.C03 Require Import Model Exec Proofs Proofs2 Proofs3 UnitsModel ProofsUnits.
Import ListNotations.
Close Scope Q_scope.
Open Scope string_scope.
Open Scope list_scope.

(* (1) _find_time_like is total and sound, for all coordinate names, all affines and all oracle
   answers, over the TIME_LIKE tables of the current source: it either refuses (one of three error
   kinds, none of them a Python crash), or says "none" - and then no time-like name is on an input axis and every output axis
   carrying one has no input -, or returns (input axis, output axis, name) where the name is
   carried by that input axis or that output axis, no other time-like type sits on either, and
   the pair is exactly what the in2out / out2in dictionaries of axmap give. *)
Theorem find_time_like_total_and_sound :
  forall (V : Type) (fix0 : bool) (O : orac) (im : img V),
    let ci := map canon (skipn 3 (inn im)) in
    let co := map canon (skipn 3 (outn im)) in
    let ornt := O (if fix0 then fix0_mat (lin im) else lin im) in
    match find_time_like V fix0 O im with
    | Ok None => tl_none time_like_ordered ci co ornt
    | Ok (Some r) => tl_sound ci co ornt r /\ In (snd r) time_like_ordered
    | Err e => e = ETimeMismatch \/ e = ETimeCross \/ e = EOutside
    end.
Proof. intros V fix0 O im. exact (ftl_loop_spec time_like_ordered _ _ _). Qed.
Print Assumptions find_time_like_total_and_sound.

(* (2) rolling the time-like axis k+3 to position 3 moves the data axes, the shape and the
   non-spatial pixdims by ONE permutation: pixdims become (pix[k], then the others in order), the
   data axes are [0,1,2] followed by that same order shifted by 3, and the shape follows. *)
Theorem roll_moves_data_shape_and_pixdim_alike :
  forall k (pix : list Q) (s : list nat),
    length s = length pix + 3 ->
    sel 0%Q (pix_order (length pix) k) pix = nth k pix 0%Q :: remove_nth k pix
    /\ roll_axes (length s) (k + 3) = [0; 1; 2] ++ map (fun j => j + 3) (pix_order (length pix) k)
    /\ sel 0 (roll_axes (length s) (k + 3)) s = firstn 3 s ++ nth (k + 3) s 0 :: remove_nth k (skipn 3 s).
Proof.
  intros k pix s H. split; [apply pix_order_sel|]. split.
  - rewrite H. apply roll_axes_pix_order.
  - apply roll_axes_shape. lia.
Qed.
Print Assumptions roll_moves_data_shape_and_pixdim_alike.

(* (3) ROUND TRIP.  If nipy2nifti accepts an image then nifti2nipy reads the result back, and what
   comes back (see Proofs2.back_ok) has: the same xyz affine rows; the named space whose names the
   image carried (or scanner for plain x,y,z in non-strict mode); a purely diagonal non-spatial
   block; when a time-like axis was found, that axis at position 3 under its canonical name with
   its zoom, and for 't' the offset of its output coordinate; the remaining zooms in their original
   relative order; the data equal to the original under the explicit axis permutation (identity
   when there is no time-like axis or it already was axis 3; `roll_axes` otherwise).
   `im` is the image after as_xyz_image; (4) ties it to the caller's image. *)
Theorem roundtrip_geometry :
  forall V strict fix0 O S (im0 : img V) h,
    nipy2nifti V strict fix0 O S im0 = Ok h ->
    exists im, as_xyz V strict O S im0 = Ok im /\
      (wf_img V im -> exists r, nifti2nipy V h = Ok r /\ back_ok V strict fix0 O im r).
Proof.
  intros V strict fix0 O S im0 h H. unfold nipy2nifti in H.
  destruct (as_xyz V strict O S im0) as [im|e] eqn:Ea; cbn [bind] in H; [|discriminate H].
  exists im. split; [reflexivity|]. intros Hwf. now apply roundtrip_xyz.
Qed.
Print Assumptions roundtrip_geometry.

(* (4) as_xyz_image either returns the image itself or the image with its output coordinates
   reindexed by `order` (names, rows and translations together) and then its array axes reindexed
   by `desired` (names, columns, shape together; data transposed by the same `desired`). *)
Theorem as_xyz_is_explicit_reordering :
  forall V strict O S (im0 im : img V),
    as_xyz V strict O S im0 = Ok im ->
    im = im0 \/
    exists order desired,
      xyz_order strict (outn im0) = Some order /\
      im = reorder_axes V desired (reorder_ref V order im0) /\
      outn im = sel "" order (outn im0) /\ trn im = sel 0%Q order (trn im0) /\
      lin im = map (sel 0%Q desired) (sel [] order (lin im0)) /\
      inn im = sel "" desired (inn im0) /\ shp im = sel 0 desired (shp im0) /\
      forall idx, dat im idx = dat im0 (scatter desired idx).
Proof.
  intros V strict O S im0 im H. unfold as_xyz in H.
  destruct (xyz_affine V strict O im0) as [xa|]; [inversion H; now left|].
  destruct (xyz_order strict (outn im0)) as [order|] eqn:Eo; [|discriminate H].
  match type of H with (if ?c then _ else _) = _ => destruct c; [discriminate H|] end.
  match type of H with match ?c with _ => _ end = _ => destruct c; [|discriminate H] end.
  inversion H. right. eexists _, _. split; [reflexivity|]. split; [reflexivity|].
  repeat split; reflexivity.
Qed.
Print Assumptions as_xyz_is_explicit_reordering.

(* (5) REFUSALS.  Whatever nipy2nifti accepts is expressible; so each inexpressible class -
   non-spatial axes coupled to space, coupled to each other, a world that is no NIfTI world (or
   'unknown' with an affine the header cannot hold), more than 4 non-spatial axes (or exactly 4 and
   no time-like one: more than 7 NIfTI dimensions), contradictory time-like axes, a time offset with
   no matching output axis - is refused. *)
Theorem refuses_inexpressible :
  forall V strict fix0 O S (im0 : img V) h,
    nipy2nifti V strict fix0 O S im0 = Ok h ->
    exists im, as_xyz V strict O S im0 = Ok im /\
      space_orthogonal (lin im) = true /\
      ns_orthogonal (lin im) (length (inn im) - 3) = true /\
      (exists xa label, xyz_affine V strict O im = Some xa
                        /\ space_label strict (firstn 3 (outn im)) xa (shp im) = Ok label) /\
      length (inn im) - 3 <= max_ns /\
      (0 < length (inn im) - 3 ->
         exists tl, find_time_like V fix0 O im = Ok tl /\ (tl = None -> length (inn im) - 3 <> full_ns)
                    /\ (forall i o name, tl = Some (i, o, name) -> exists toff, toff_rule V im o name = Ok toff)).
Proof.
  intros V strict fix0 O S im0 h H. unfold nipy2nifti in H.
  destruct (as_xyz V strict O S im0) as [im|e] eqn:Ea; cbn [bind] in H; [|discriminate H].
  exists im. split; [reflexivity|]. now apply (accepted_is_expressible V strict fix0 O im h).
Qed.
Print Assumptions refuses_inexpressible.

Corollary refuses_space_coupled :
  forall V strict fix0 O (im : img V),
    space_orthogonal (lin im) = false -> nipy2nifti_xyz V strict fix0 O im = Err ESpaceCoupled.
Proof. intros V strict fix0 O im H. unfold nipy2nifti_xyz. now rewrite H. Qed.
Print Assumptions refuses_space_coupled.

Corollary refuses_nonspace_coupled :
  forall V strict fix0 O (im : img V),
    space_orthogonal (lin im) = true -> ns_orthogonal (lin im) (length (inn im) - 3) = false ->
    nipy2nifti_xyz V strict fix0 O im = Err ENsCoupled.
Proof. intros V strict fix0 O im H1 H2. unfold nipy2nifti_xyz. now rewrite H1, H2. Qed.
Print Assumptions refuses_nonspace_coupled.

(* strict mode does not accept plain x, y, z (any affine, any oracle) *)
Theorem strict_refuses_plain_xyz :
  forall V fix0 O S i L t s d m rest,
    (forall nm, In nm rest -> name2xyz true nm = None) -> length rest <= 3 ->
    nipy2nifti V true fix0 O S {| inn := i; outn := plain_xyz ++ rest; lin := L; trn := t; shp := s; dat := d;
                                meta_toffset := m |} = Err EReorder.
Proof.
  intros V fix0 O S i L t s d m rest Hr Hl.
  assert (E : xyz_order true (plain_xyz ++ rest) = None).
  { unfold xyz_order, axvals. simpl app. simpl length.
    destruct rest as [|a [|b [|c [|e r]]]]; simpl in Hl; try lia; cbn [axvals_from];
      repeat match goal with
             | |- context [name2xyz true ?n] =>
               first [ rewrite (Hr n) by (simpl; tauto) | change (name2xyz true n) with (@None nat) ]
             end; reflexivity. }
  unfold nipy2nifti, as_xyz, xyz_affine. cbn [outn]. rewrite E. reflexivity.
Qed.
Print Assumptions strict_refuses_plain_xyz.

(* (6) REFUTED clauses (defects of the code as it is; replayed on the implementation by the harness) *)
Definition id_oracle (n : nat) : orac := fun _ => map Some (seq 0 n).
Definition mni4 (tname : string) : list string := ["mni-x=L->R"; "mni-y=P->A"; "mni-z=I->S"; tname].
Definition diag4 : list (list Q) := [[2; 0; 0; 0]; [0; 3; 0; 0]; [0; 0; 4; 0]; [0; 0; 0; 5]]%Q.

(* the offset of a time-like axis other than 't' is silently dropped (property: "the same
   time-like coordinate including its offset") *)
Theorem timelike_offset_preserved_refuted :
  exists (im : img Z) h r,
    nipy2nifti Z true true (id_oracle 4) argsort im = Ok h /\ nifti2nipy Z h = Ok r /\
    nth 3 (outn im) "" = "hz" /\ nth 3 (outn r) "" = "hz" /\
    nth 3 (trn im) 0%Q = 7%Q /\ nth 3 (trn r) 0%Q = 0%Q.
Proof.
  eexists (mk_img ["i"; "j"; "k"; "hz"] (mni4 "hz") diag4 [0; 0; 0; 7]%Q [2; 2; 2; 2] 0%Q), _, _.
  split; [vm_compute; reflexivity|]. split; [vm_compute; reflexivity|]. repeat split.
Qed.
Print Assumptions timelike_offset_preserved_refuted.

(* (6b) formerly refuted, now theorems (fixes 93d9936 and 2ffb6d1 in /repo) *)

(* the toffset of the image's old header plays no role: converting the same image with any other
   stale value gives the same NIfTI image *)
Definition with_meta {V} (m : Q) (im : img V) : img V :=
  {| inn := inn im; outn := outn im; lin := lin im; trn := trn im; shp := shp im; dat := dat im; meta_toffset := m |}.
Theorem stale_header_toffset_ignored :
  forall V strict fix0 O S (im : img V) m,
    nipy2nifti V strict fix0 O S (with_meta m im) = nipy2nifti V strict fix0 O S im.
Proof.
  intros V strict fix0 O S im m. unfold nipy2nifti.
  assert (Hx : forall im', nipy2nifti_xyz V strict fix0 O (with_meta m im') = nipy2nifti_xyz V strict fix0 O im')
    by (intros [i o L t s d m0]; reflexivity).
  assert (Hxa : forall im', xyz_affine V strict O (with_meta m im') = xyz_affine V strict O im')
    by (intros [i o L t s d m0]; reflexivity).
  assert (Ha : as_xyz V strict O S (with_meta m im)
               = match as_xyz V strict O S im with Ok r => Ok (with_meta m r) | Err e => Err e end).
  { unfold as_xyz. rewrite Hxa. destruct (xyz_affine V strict O im); [reflexivity|].
    change (outn (with_meta m im)) with (outn im).
    destruct (xyz_order strict (outn im)) as [order|]; [|reflexivity]. cbv zeta.
    change (lin (reorder_ref V order (with_meta m im))) with (lin (reorder_ref V order im)).
    match goal with |- (if ?c then _ else _) = _ => destruct c; [reflexivity|] end.
    match goal with |- context [reorder_axes V ?d (reorder_ref V order (with_meta m im))] =>
      change (reorder_axes V d (reorder_ref V order (with_meta m im)))
        with (with_meta m (reorder_axes V d (reorder_ref V order im))) end.
    rewrite Hxa. now destruct (xyz_affine V strict O _). }
  rewrite Ha. destruct (as_xyz V strict O S im) as [r|e]; cbn [bind]; [apply Hx|reflexivity].
Qed.
Print Assumptions stale_header_toffset_ignored.

(* and the toffset written for a 't' axis matched with output coordinate oo is exactly the
   translation of that coordinate (0 when all non-spatial translations are 0); with no matched
   output the conversion succeeds only when there is no non-spatial offset at all *)
Theorem time_offset_preserved :
  forall V (im : img V) o toff,
    toff_rule V im o "t" = Ok toff ->
    match o with
    | Some oo => 3 <= oo -> (toff == nth oo (trn im) 0%Q)%Q
    | None => forallb is0 (skipn 3 (trn im)) = true /\ toff = 0%Q
    end.
Proof. exact toff_rule_spec. Qed.
Print Assumptions time_offset_preserved.

(* every refusal is a NiftiError kind (or the model's "outside" marker): no input leads to a
   Python TypeError any more *)
Theorem converts_or_refuses :
  forall V strict fix0 O S (im : img V) e,
    nipy2nifti V strict fix0 O S im = Err e ->
    In e [EReorder; ESpaceCoupled; ENsCoupled; EWorld; EUnknownAffine; ETooMany; ETimeMismatch; ETimeCross;
          EToffset; EOutside].
Proof.
  intros V strict fix0 O S im e H. unfold nipy2nifti in H.
  destruct (as_xyz V strict O S im) as [im'|e1] eqn:Ea; cbn [bind] in H.
  - right. now apply (n2n_xyz_errors V strict fix0 O im').
  - inversion H; subst. left. unfold as_xyz in Ea.
    destruct (xyz_affine V strict O im); [discriminate Ea|].
    destruct (xyz_order strict (outn im)); [|now inversion Ea].
    match type of Ea with (if ?c then _ else _) = _ => destruct c; [now inversion Ea|] end.
    match type of Ea with match ?c with _ => _ end = _ => destruct c; [discriminate Ea|now inversion Ea] end.
Qed.
Print Assumptions converts_or_refuses.

(* the former crash witness (input axis 't', output 'q', zero TR, fix0 off) is now converted, TR 0 *)
Example zero_tr_unmatched_input_t_converts :
  exists h,
    nipy2nifti Z true false (fun _ => [Some 0; Some 1; Some 2; None]) argsort
      (mk_img ["i"; "j"; "k"; "t"] (mni4 "q") [[2; 0; 0; 0]; [0; 3; 0; 0]; [0; 0; 4; 0]; [0; 0; 0; 0]]%Q
              [0; 0; 0; 0]%Q [2; 2; 2; 2] 0%Q) = Ok h
    /\ h_pixdim h = [0%Q] /\ h_tunits h = "sec" /\ h_toffset h = 0%Q /\ h_shape h = [2; 2; 2; 2].
Proof. eexists. repeat split; vm_compute; reflexivity. Qed.
Print Assumptions zero_tr_unmatched_input_t_converts.

(* (7) files._type_from_filename: for EVERY non-empty stem without '.' and '/', each documented
   extension, alone or followed by .gz / .bz2, gives the type of the generated extension table, and
   the stem alone (or with just a compression suffix) is a single-file NIfTI. *)
Theorem type_from_filename_spec :
  forall stem, stem <> [] -> Forall plain_char stem ->
  forall comp, In comp [""; ".gz"; ".bz2"] ->
    type_from_filename (fname stem "" comp) = Some "nifti1single"
    /\ forall ext, In ext [".nii"; ".hdr"; ".img"; ".mnc"] ->
         type_from_filename (fname stem ext comp) = assoc ext ext_types.
Proof. exact type_from_filename_general. Qed.
Print Assumptions type_from_filename_spec.

(* the documented table itself (generated from the source) and some names outside the theorem *)
Example type_from_filename_documented :
  map (fun e => assoc e ext_types) [".nii"; ".hdr"; ".img"; ".mnc"]
  = [Some "nifti1single"; Some "nifti1pair"; Some "analyze"; Some "minc"]
  /\ map type_from_filename ["test.nii"; "test"; "test.hdr.gz"; "test.img.gz"; "a.b/c"; "x.foo"; ".nii"; "x.nii.bz2"]
     = [Some "nifti1single"; Some "nifti1single"; Some "nifti1pair"; Some "analyze"; Some "nifti1single"; None;
        Some "nifti1single"; Some "nifti1single"].
Proof. vm_compute. split; reflexivity. Qed.
Print Assumptions type_from_filename_documented.

(* (8) non-vacuity: a 5-D image with axes (u-axis, t-axis) in that order and permuted spatial
   axes is accepted; time comes back as axis 3 with zoom 6 and offset 7, u with zoom 5 *)
Example roundtrip_nonvacuous :
  exists h r,
    nipy2nifti Z true true (id_oracle 5) argsort
      (mk_img ["i"; "j"; "k"; "u"; "t"] ["mni-x=L->R"; "mni-y=P->A"; "mni-z=I->S"; "u"; "t"]
              [[2; 0; 0; 0; 0]; [0; 3; 0; 0; 0]; [0; 0; 4; 0; 0]; [0; 0; 0; 5; 0]; [0; 0; 0; 0; 6]]%Q
              [0; 0; 0; 0; 7]%Q [2; 2; 2; 3; 2] 0%Q) = Ok h
    /\ h_pixdim h = [6; 5]%Q /\ h_toffset h = 7%Q /\ h_shape h = [2; 2; 2; 2; 3] /\ h_tunits h = "sec"
    /\ nifti2nipy Z h = Ok r /\ inn r = ["i"; "j"; "k"; "t"; "u"] /\ trn r = [0; 0; 0; 7; 0]%Q
    /\ dat r [1; 0; 1; 1; 2] = dat (mk_img [] [] [] [] [2; 2; 2; 3; 2] 0%Q) [1; 0; 1; 2; 1].
Proof. eexists _, _. repeat split; vm_compute; reflexivity. Qed.
Print Assumptions roundtrip_nonvacuous.

(* (9) space units.  nipy2nifti writes the one constant space unit found in its source (mm), whatever
   units the image's old metadata header records (`stale`), and that unit is not rescaled on load:
   loading what was written, with the written units, is plain nifti2nipy - so roundtrip_geometry
   holds unchanged for images that came from micron / meter files. *)
Theorem saved_space_units_never_rescaled_on_reload :
  forall V stale strict fix0 O S (im : img V) h u,
    nipy2nifti_u V stale strict fix0 O S im = Ok (h, u) ->
    nipy2nifti V strict fix0 O S im = Ok h /\ xyz_factor u = None /\ nifti2nipy_u V u h = nifti2nipy V h.
Proof. exact saved_units_reload. Qed.
Print Assumptions saved_space_units_never_rescaled_on_reload.

(* (10) loading with space units u: every entry (i, j) of the xyz affine rows - matrix part and
   translation, any size - is the factor of the unit (1/1000 micron, 1000 meter; generated) times the
   stored entry, the shape of the rows is kept ... *)
Theorem space_units_scale_every_affine_entry :
  forall f M,
    (forall i j, (nth j (nth i (scale_rows f M) []) 0 == f * nth j (nth i M []) 0)%Q)
    /\ length (scale_rows f M) = length M /\ map (@length Q) (scale_rows f M) = map (@length Q) M.
Proof. intros f M. split; [intros i j; apply scale_rows_entry|apply scale_rows_shape]. Qed.
Print Assumptions space_units_scale_every_affine_entry.

(* ... (11) and nothing but the xyz affine rows depends on the units: same refusal, same names, shape, data,
   toffset, same non-spatial rows and translations. *)
Theorem space_units_touch_xyz_affine_only :
  forall V u (h : nimg V),
    match nifti2nipy V h, nifti2nipy_u V u h with
    | Ok r, Ok r' => inn r' = inn r /\ outn r' = outn r /\ shp r' = shp r /\ dat r' = dat r
                     /\ meta_toffset r' = meta_toffset r /\ length (lin r') = length (lin r)
                     /\ length (trn r') = length (trn r)
                     /\ skipn (length (h_aff h)) (lin r') = skipn (length (h_aff h)) (lin r)
                     /\ skipn (length (h_aff h)) (trn r') = skipn (length (h_aff h)) (trn r)
    | Err e, Err e' => e = e'
    | _, _ => False
    end.
Proof. exact units_touch_affine_only. Qed.
Print Assumptions space_units_touch_xyz_affine_only.

(* non-vacuity: a 4-D micron header with a shear: xyz rows and origin divided by 1000, time zoom and toffset kept;
   meter multiplies; mm and unknown leave the header alone *)
Example space_units_nonvacuous :
  let h := mk_nimg [[0; -250; 30; 1000]; [300; 0; 0; -2000]; [0; 40; -500; 3000]]%Q "mni" "mni" [None; None; None]
                   "sec" [5 # 2]%Q (3 # 2)%Q [3; 4; 5; 6] in
  (exists r, nifti2nipy_u Z "micron" h = Ok r
     /\ lin r = [[0; -1 # 4; 3 # 100; 0]; [3 # 10; 0; 0; 0]; [0; 1 # 25; -1 # 2; 0]; [0; 0; 0; 5 # 2]]%Q
     /\ trn r = [1; -2; 3; 3 # 2]%Q)
  /\ (exists r, nifti2nipy_u Z "meter" h = Ok r /\ nth 0 (trn r) 0%Q = 1000000%Q /\ nth 3 (trn r) 0%Q = (3 # 2)%Q)
  /\ nifti2nipy_u Z "mm" h = nifti2nipy Z h /\ nifti2nipy_u Z "unknown" h = nifti2nipy Z h
  /\ written_xyz_units = "mm".
Proof. cbv zeta. repeat split; try (eexists; repeat split; vm_compute; reflexivity); vm_compute; reflexivity. Qed.
Print Assumptions space_units_nonvacuous.
