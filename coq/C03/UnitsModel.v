(* C03 - space units of the NIfTI header (xyzt_units, xyz part).
   nifti_ref.nifti2nipy:571-580  `if space_units in ('micron', 'meter'): affine[:3] /= 1000. | *= 1000.`
   nifti_ref.nipy2nifti: every `hdr.set_xyzt_units(xyz='mm', ...)` call writes the constant 'mm'.
   Both are read from the source by harness/translate/niftiunits.py (Generated/NiftiUnits.v):
   xyz_unit_ops = [(unit, (divide?, constant))], written_xyz_units = the one constant written. *)
From Coq Require Import String.
From Coq Require Import List Bool QArith.
From NV.Generated Require Import NiftiTables NiftiUnits.
From NV.C03 Require Import Model.
Import ListNotations.
Open Scope string_scope.
Close Scope Q_scope.

(* the factor applied to affine[:3] (all four columns of the three xyz rows), None = untouched *)
Definition xyz_factor (u : string) : option Q :=
  match assoc u xyz_unit_ops with
  | Some (true, k) => Some (1 / k)%Q
  | Some (false, k) => Some k
  | None => None
  end.

Definition scq (f v : Q) : Q := Qred (f * v)%Q.
Definition scale_rows (f : Q) (M : list (list Q)) : list (list Q) := map (map (scq f)) M.

Section U.
Variable V : Type.

Definition with_aff (h : nimg V) (a : list (list Q)) : nimg V :=
  {| h_aff := a; h_sform := h_sform h; h_qform := h_qform h; h_dim_info := h_dim_info h; h_tunits := h_tunits h;
     h_pixdim := h_pixdim h; h_toffset := h_toffset h; h_shape := h_shape h; h_dat := h_dat h |}.

Definition apply_units (u : string) (h : nimg V) : nimg V :=
  match xyz_factor u with Some f => with_aff h (scale_rows f (h_aff h)) | None => h end.

(* nifti2nipy of an image whose header says space units `u` *)
Definition nifti2nipy_u (u : string) (h : nimg V) : res (img V) := nifti2nipy V (apply_units u h).

(* nipy2nifti: the header and the space units it writes (never the units of the old header) *)
Definition nipy2nifti_u (stale_units : string) strict fix0 O S (im : img V) : res (nimg V * string) :=
  match nipy2nifti V strict fix0 O S im with Ok h => Ok (h, written_xyz_units) | Err e => Err e end.

End U.
