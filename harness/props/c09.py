"""C09 - joint histograms and similarity measures match their definitions.

Sections
  kernel      joint_histogram.c through the rebuilt `_registration._joint_histogram`:
              (a) Coq model (control skeleton of Model.v + expressions translated from the C text,
                  Generated/JointHist.v) evaluated by vm_compute and compared EXACTLY (rationals) with H,
              (b) an independent Python/Fraction statement of the documented scheme (floor, trilinear
                  product weights, padding skipped, pv / rounded mean / seeded random neighbour),
              (c) structural oracles: mass, support, diagonal under the identity.
  eval        the same through HistogramRegistration (clamp, -1 padding, masks, voxel grid, _eval / eval).
  l1          L1_moments vs model (exact) and vs the definition (weighted median, mean absolute deviation).
  measures    cc / cr / crl1 (rational formulas, model and Fraction reference), mi / nmi / slr (float reference).
  fov         sequences of set_fov / subsample on one object (explicit and automatic spacing): block, affine, npoints
              consistent; self-registration through eval(T) equals the definition; ideal_spacing / slices vs Coq model.
  many-bins   histograms with 257..32767 bins on an axis and mass in the high bins (measures, L1, eval with > 256 bins).
  nonsquare   all 8 measures on non-square histograms vs textbook (pmi/dpmi with an independent Gaussian filter).
  distloss    dist2loss / SupervisedLikelihoodRatio vs ModelLoss.v: log argument observed exactly, measure with an exact
              stand-in for the log oracle compared exactly.
  reuse       every measure (incl. pmi, dpmi, slr) evaluated repeatedly, several measure / registration objects built
              from the same caller arrays: results independent of history, caller arrays unmodified, slr = textbook.
  helpers     clamp, smallest_bounding_box, subgrid_affine / _slicer.
  optimize    optimisation result not worse than the start on tiny problems.
  rand-fault  (subprocess) regression: _rand_interpolation when no neighbour has positive weight adds nothing.
"""
import ctypes
import json
import math
import os
import subprocess
import sys
from fractions import Fraction as F

import numpy as np

from ..kit import cz, cq, czl, cql, cnat, cbool, frac, VERIF

HDR = ("From Coq Require Import ZArith QArith List.\nFrom NV.Lib Require Import C09Base Harness.\n"
       "From NV.Generated Require Import JointHist.\nFrom NV.C09 Require Import Model.\n")

HDRPY = HDR + "From NV.C09 Require Import ModelPy.\n"

TINY = F(*float(np.finfo(np.double).tiny).as_integer_ratio())


# ------------------------------------------------------------------ PRNG replica (oracle: stream fed to the model)
class Wichmann:
    """Replica of wichmann_prng.c (prng_seed uses libc srand/rand)."""
    _libc = None

    def __init__(self, seed):
        if Wichmann._libc is None:
            Wichmann._libc = ctypes.CDLL("libc.so.6")
        lc = Wichmann._libc
        lc.srand(ctypes.c_uint(seed))
        rmax = float(2147483647)
        self.s = [int(400000 * (float(lc.rand()) / rmax)) for _ in range(4)]

    def double(self):
        p = [(11600, 185127, 10379, 2147483579), (47003, 45688, 10479, 2147483543),
             (23000, 93368, 19423, 2147483423), (33000, 65075, 8123, 2147483123)]
        for k, (a, q, r, m) in enumerate(p):
            x = self.s[k]
            x = a * (x % q) - r * (x // q)
            if x < 0:
                x += m
            self.s[k] = x
        W = self.s[0] / 2147483579. + self.s[1] / 2147483543. + self.s[2] / 2147483423. + self.s[3] / 2147483123.
        return W - int(W)


# ------------------------------------------------------------------ independent reference (the documented scheme)
def ffloor(x):
    return x.numerator // x.denominator


def neighbours_def(Jp, T):
    """Eight corners of the cell containing T (unpadded coordinates) with trilinear product weights;
    returns [(value, weight)] for the corners whose padded value is non-negative."""
    fl = [ffloor(t) for t in T]
    fr = [t - f for t, f in zip(T, fl)]
    out = []
    for a in (0, 1):
        for b in (0, 1):
            for c in (0, 1):
                w = (fr[0] if a else 1 - fr[0]) * (fr[1] if b else 1 - fr[1]) * (fr[2] if c else 1 - fr[2])
                val = int(Jp[fl[0] + 1 + a, fl[1] + 1 + b, fl[2] + 1 + c])
                out.append((val, w))
    return out


def ref_hist(Iflat, Jp, coords, mode, cI, cJ, draws=None):
    """Definition: returns (H as list of Fractions, info)."""
    H = [F(0)] * (cI * cJ)
    dims = [d - 2 for d in Jp.shape]
    info = {"contrib": 0, "full": 0, "mass_expected": F(0), "fault": False, "padding_neighbour": 0,
            "support": set(), "diag_only": True}
    di = 0
    for n, i in enumerate(Iflat):
        i = int(i)
        T = [frac(c) for c in coords[n]]
        if i < 0 or not all(-1 < T[k] < dims[k] for k in range(3)):
            continue
        nb_all = neighbours_def(Jp, T)
        nb = [(v, w) for v, w in nb_all if v >= 0]
        info["contrib"] += 1
        if len(nb) < 8:
            info["padding_neighbour"] += 1
        sw = sum((w for _, w in nb), F(0))
        pos = [v for v, w in nb if w > 0]
        if mode == "tri" and pos:
            for v in range(min(pos), max(pos) + 1):   # rounded weighted mean lies between the neighbours
                info["support"].add((i, v))
        for v in pos:
            info["support"].add((i, v))
        if mode == "pv":
            for v, w in nb:
                H[v + cJ * i] += w
            info["mass_expected"] += sw
        elif mode == "tri":
            if sw > 0:
                jm = sum((w * v for v, w in nb), F(0)) / sw
                H[ffloor(jm + F(1, 2)) + cJ * i] += 1
                info["mass_expected"] += 1
        else:
            if sw > 0:
                u = frac(draws[di]) if draws is not None else F(0)
                di += 1
                acc = F(0)
                for v, w in nb:
                    acc += w
                    if acc > sw * u:
                        H[v + cJ * i] += 1
                        break
                info["mass_expected"] += 1
            else:
                info["no_positive_weight"] = info.get("no_positive_weight", 0) + 1   # early return, no draw consumed
    return H, info


# ------------------------------------------------------------------ Coq terms
def cvox(i, T):
    return "(mkvox %s %s %s %s)" % (cz(i), cq(frac(T[0])), cq(frac(T[1])), cq(frac(T[2])))


def coq_hist_term(mode, Iflat, Jp, coords, cI, cJ, H, draws=None):
    J = czl(Jp.ravel().tolist())
    vs = "[" + "; ".join(cvox(int(i), coords[n]) for n, i in enumerate(Iflat)) + "]"
    d = " ".join(cz(x) for x in Jp.shape)
    Hq = cql([frac(x) for x in np.asarray(H).ravel()])
    if mode == "rand":
        return "qlist_eqb (joint_hist_rand %s %s %s %s %s %s [(-9)%%Z;(-9)%%Z;(-9)%%Z;(-9)%%Z;(-9)%%Z;(-9)%%Z;(-9)%%Z;(-9)%%Z]) %s" % (
            J, d, cz(cI), cz(cJ), vs, cql([frac(u) for u in draws]), Hq)
    return "qlist_eqb (joint_hist %s %s %s %s %s %s) %s" % ("PV" if mode == "pv" else "TRI", J, d, cz(cI), cz(cJ), vs, Hq)


# ------------------------------------------------------------------ case generation
QUART = [F(k, 4) for k in range(-8, 9)]


def lattice_affine(rng, kind, sshape, tshape):
    """3x3 matrix and translation with entries on the quarter lattice."""
    A = [[F(int(r == c)) for c in range(3)] for r in range(3)]
    t = [F(0)] * 3
    q = lambda lo, hi: F(int(rng.integers(lo * 4, hi * 4 + 1)), 4)
    if kind == "identity":
        pass
    elif kind == "shift":
        t = [q(-1, 1) for _ in range(3)]
    elif kind == "shift-partly-out":
        t = [q(-2, 2) for _ in range(3)]
        k = int(rng.integers(3))
        t[k] = F(int(rng.choice([-1, 1]))) * (F(max(sshape[k], tshape[k])) / 2 + q(0, 1))
    elif kind == "shift-out":
        k = int(rng.integers(3))
        t[k] = F(int(rng.choice([-1, 1]))) * (F(sshape[k] + tshape[k]) + q(0, 2))
    elif kind == "flip":
        for k in range(3):
            if rng.random() < 0.6:
                A[k][k] = F(-1)
                t[k] = F(sshape[k] - 1) + q(-1, 1)
    elif kind == "shear":
        r, c = rng.choice(3, size=2, replace=False)
        A[r][c] = q(-1, 1)
        t = [q(-1, 1) for _ in range(3)]
    elif kind == "scale":
        for k in range(3):
            A[k][k] = F(int(rng.choice([1, 2, 3, 5, 6])), 4)
        t = [q(-1, 1) for _ in range(3)]
    elif kind == "edge":        # coordinates exactly on -1 / dim-1 / dim borders (strict inequalities of the inside test)
        t = [F(int(rng.choice([-1, 0, tshape[k] - sshape[k], tshape[k] - sshape[k] + 1, tshape[k] - 1]))) for k in range(3)]
    else:                        # general
        A = [[q(-1, 1) if rng.random() < 0.5 else F(int(r == c)) for c in range(3)] for r in range(3)]
        t = [q(-2, 2) for _ in range(3)]
    return A, t


KINDS = ["identity", "shift", "shift-partly-out", "shift-out", "flip", "shear", "scale", "edge", "general"]


def coords_of(shape, A, t):
    idx = np.indices(shape).transpose((1, 2, 3, 0)).reshape(-1, 3)
    out = np.empty((idx.shape[0], 3))
    for n, v in enumerate(idx):
        for r in range(3):
            out[n, r] = float(sum((A[r][c] * int(v[c]) for c in range(3)), t[r]))
    return np.ascontiguousarray(out.reshape(tuple(shape) + (3,)))


def make_volumes(rng, smax, masked):
    sshape = tuple(int(x) for x in rng.integers(1, smax + 1, size=3))
    tshape = tuple(int(x) for x in rng.integers(1, smax + 1, size=3))
    if sshape[0] * sshape[1] * sshape[2] == 1:
        sshape = (2, sshape[1], sshape[2])
    cI = int(rng.integers(2, 6))
    cJ = int(rng.integers(2, 6))
    I = rng.integers(0, cI, size=sshape).astype(np.int16)
    Jt = rng.integers(0, cJ, size=tshape).astype(np.int16)
    if masked in ("source", "both"):
        I[rng.random(sshape) < 0.25] = -1
    if masked in ("target", "both"):
        Jt[rng.random(tshape) < 0.25] = -1
    Jp = -np.ones(tuple(s + 2 for s in tshape), dtype=np.int16)
    Jp[1:-1, 1:-1, 1:-1] = Jt
    return I, Jp, cI, cJ


def check_structure(ck, tag, mode, H, Hdef, info, Iflat, cI, cJ, replay):
    """Property oracles on the implementation's H (independent of the Coq model)."""
    Hx = [frac(x) for x in np.asarray(H).ravel()]
    if any(x < 0 for x in Hx):
        ck.fail("%s/negative-entry" % tag, "joint histogram has a negative entry", replay)
    tot = sum(Hx, F(0))
    if tot > info["contrib"]:
        ck.fail("%s/mass-created/%s" % (tag, mode), "total mass %s exceeds the %d contributing voxels" % (tot, info["contrib"]), replay)
    if tot != info["mass_expected"]:
        ck.fail("%s/total-mass/%s" % (tag, mode),
                "total mass %s differs from the mass defined by the scheme %s (%d contributing voxels, %d with a padding neighbour)"
                % (tot, info["mass_expected"], info["contrib"], info["padding_neighbour"]), replay)
    # row sums: only source voxels of intensity i feed row i
    cnt = [0] * cI
    for i in Iflat:
        if int(i) >= 0:
            cnt[int(i)] += 1
    for i in range(cI):
        rs = sum(Hx[i * cJ:(i + 1) * cJ], F(0))
        if rs > cnt[i]:
            ck.fail("%s/row-mass-exceeds-voxel-count/%s" % (tag, mode), "row %d has mass %s but only %d source voxels have that intensity" % (i, rs, cnt[i]), replay)
    for k, x in enumerate(Hx):
        if x != 0 and (k // cJ, k % cJ) not in info["support"]:
            ck.fail("%s/mass-outside-support/%s" % (tag, mode),
                    "bin (%d,%d) has mass %s but no contributing voxel of intensity %d has a positive-weight neighbour of intensity %d"
                    % (k // cJ, k % cJ, x, k // cJ, k % cJ), replay)
            break
    if Hdef is not None and Hx != Hdef:
        k = next(k for k in range(len(Hx)) if Hx[k] != Hdef[k])
        ck.fail("%s/differs-from-definition/%s" % (tag, mode),
                "bin (%d,%d): implementation %s, definition %s" % (k // cJ, k % cJ, Hx[k], Hdef[k]), replay)



# ------------------------------------------------------------------ isolated execution of the compiled kernel
# A broken kernel (out-of-bounds reads/writes) can kill the interpreter; the compiled code therefore runs in a
# worker process that writes one result line per case, so a crash still yields the concrete failing case.
WORKER = r"""
import sys, json, pickle
sys.path.insert(0, %r)
from harness import overlay as ov
o = ov.build(None); ov.install(o)
import numpy as np
from nipy.algorithms.registration._registration import _joint_histogram
cases = pickle.load(open(sys.argv[1], "rb"))
out = open(sys.argv[2], "w")
for k, c in enumerate(cases):
    out.write("start %%d\n" %% k); out.flush()
    H = np.full((c["cI"], c["cJ"]), 7.0)
    I = c["I"]
    if c["strided"]:
        big = -np.ones((I.shape[0] * 2, I.shape[1], I.shape[2] * 2), dtype=np.int16)
        big[::2, :, ::2] = I
        I = big[::2, :, ::2]
    _joint_histogram(H, I.flat, c["Jp"], c["coords"], c["interp"])
    # the same call once more, immediately: the kernel must not carry state from one call to the next
    H2 = np.full((c["cI"], c["cJ"]), -3.0)
    _joint_histogram(H2, I.flat, c["Jp"], c["coords"], c["interp"])
    out.write("done %%d %%s\n" %% (k, json.dumps([[x.hex() for x in H.ravel().tolist()], [x.hex() for x in H2.ravel().tolist()]]))); out.flush()
    if c.get("layouts"):
        # every array argument of the raw kernel in C-contiguous, Fortran-ordered and strided form
        def forms(a):
            big = np.zeros(tuple(2 * d for d in a.shape), dtype=a.dtype)
            view = big[tuple(slice(None, None, 2) for _ in a.shape)]
            view[...] = a
            return {"C": np.ascontiguousarray(a), "F": np.asfortranarray(a), "strided": view}
        for arg in ("H", "J", "T"):
            for lay in ("C", "F", "strided"):
                Hv = forms(np.full((c["cI"], c["cJ"]), 5.0))[lay if arg == "H" else "C"]
                Jv = forms(c["Jp"])[lay if arg == "J" else "C"]
                Tv = forms(c["coords"])[lay if arg == "T" else "C"]
                try:
                    _joint_histogram(Hv, I.flat, Jv, Tv, c["interp"])
                    st = json.dumps([x.hex() for x in np.array(Hv).ravel().tolist()])
                except Exception as e:
                    st = json.dumps("raised " + type(e).__name__)
                out.write("layout %%d %%s-%%s %%s\n" %% (k, arg, lay, st)); out.flush()
"""


def run_isolated(ck, cases, name):
    """Returns (list of H arrays or None, index of the case that crashed or None)."""
    import pickle
    cf = ck.scratch / ("%s_cases.pkl" % name)
    rf = ck.scratch / ("%s_results.txt" % name)
    pickle.dump(cases, open(cf, "wb"))
    r = subprocess.run(["timeout", "600", sys.executable, "-c", WORKER % str(VERIF), str(cf), str(rf)],
                       capture_output=True, text=True, env=dict(os.environ))
    res = [None] * len(cases)
    ck.layout_results = {}
    started = -1
    if rf.exists():
        for line in rf.read_text().splitlines():
            parts = line.split(" ", 2)
            if parts[0] == "start":
                started = int(parts[1])
            elif parts[0] == "layout" and len(parts) == 3:
                name, payload = parts[2].split(" ", 1)
                ck.layout_results.setdefault(int(parts[1]), {})[name] = json.loads(payload)
            elif parts[0] == "done" and len(parts) == 3:
                k = int(parts[1])
                c = cases[k]
                h1, h2 = json.loads(parts[2])
                res[k] = (np.array([float.fromhex(x) for x in h1]).reshape(c["cI"], c["cJ"]),
                          np.array([float.fromhex(x) for x in h2]).reshape(c["cI"], c["cJ"]))
    crashed = None
    if r.returncode != 0:
        crashed = started if (0 <= started < len(cases) and res[started] is None) else max(started, 0)
    return res, crashed, r


def kernel(ck):
    rng = ck.rng("kernel")
    N = ck.n(400, 3000)
    smax = ck.n(3, 5)
    pending, cases = [], []
    for n in range(N):
        kind = KINDS[n % len(KINDS)]
        masked = ["none", "source", "target", "both"][(n // len(KINDS)) % 4]
        mode = ["pv", "tri", "rand"][(n // 2) % 3]
        I, Jp, cI, cJ = make_volumes(rng, smax if n % 5 else 2, masked)
        sshape = I.shape
        tshape = tuple(s - 2 for s in Jp.shape)
        if kind == "identity":
            # self registration: same image on both sides
            Jp = -np.ones(tuple(s + 2 for s in sshape), dtype=np.int16)
            Jp[1:-1, 1:-1, 1:-1] = I
            cJ = cI
            tshape = sshape
        A, t = lattice_affine(rng, kind, sshape, tshape)
        coords = coords_of(sshape, A, t)
        strided = (n % 7 == 3)         # non-contiguous source iterator (built in the worker)
        Iflat = [int(x) for x in I.flat]
        cflat = coords.reshape(-1, 3)
        seed = int(rng.integers(1, 2 ** 31 - 1))
        draws = None
        if mode == "rand":
            g = Wichmann(seed)
            draws = [g.double() for _ in range(len(Iflat))]
        Hdef, info = ref_hist(Iflat, Jp, cflat, mode, cI, cJ, draws)
        replay = {"mode": mode, "kind": kind, "masked": masked, "I": I.tolist(), "strided_source": strided,
                  "J_padded": Jp.tolist(), "A": [[str(x) for x in r] for r in A], "t": [str(x) for x in t],
                  "clampI": cI, "clampJ": cJ, "seed": seed if mode == "rand" else None,
                  "call": "_joint_histogram(H, I.flat, J_padded, coords, interp)"}
        interp = {"pv": 0, "tri": 1, "rand": -seed}[mode]
        cases.append({"I": I, "Jp": Jp, "coords": coords, "cI": cI, "cJ": cJ, "interp": interp, "strided": strided,
                      "layouts": info["contrib"] > 0 and n % 4 == 1})
        pending.append((n, mode, kind, replay, Hdef, info, Iflat, cflat, Jp, cI, cJ, draws))
    results, crashed, proc = run_isolated(ck, cases, "kernel")
    ck.kernel_unsafe = crashed is not None
    if crashed is not None:
        n, mode, kind, replay = pending[crashed][:4]
        ck.fail("kernel/crash/%s" % mode,
                "the compiled kernel killed the interpreter (rc=%s: %s) on this case - out-of-bounds access"
                % (proc.returncode, (proc.stderr or "")[-200:].strip()), replay)
    terms, meta = [], []
    nrand = 0
    for k_case, (HH, (n, mode, kind, replay, Hdef, info, Iflat, cflat, Jp, cI, cJ, draws)) in enumerate(zip(results, pending)):
        if HH is None:
            continue
        H, Hrep = HH
        for name, got in sorted(ck.layout_results.get(k_case, {}).items()):
            arg, lay = name.split("-")
            ck.count(("layout", n, name), nontrivial=True, bucket="kernel:layout:%s" % name)
            if isinstance(got, str):
                if lay == "C":
                    ck.fail("kernel/layout/refuses-C-contiguous/%s" % arg, "the kernel refused C-contiguous arrays: %s" % got, dict(replay, variant=name))
                continue
            Hl = [frac(float.fromhex(x)) for x in got]
            if Hl != Hdef:
                kk = next(i for i in range(len(Hl)) if Hl[i] != Hdef[i])
                ck.fail("kernel/layout-accepted-but-wrong/%s" % name,
                        "the kernel ACCEPTED a %s array for %s (it documents C-contiguous input only) and returned a histogram that "
                        "differs from the definition: bin (%d,%d) %s vs %s" % ({"F": "Fortran-ordered", "strided": "strided", "C": "C-contiguous"}[lay],
                         {"H": "the histogram", "J": "the padded target", "T": "the transformed coordinates"}[arg], kk // cJ, kk % cJ, Hl[kk], Hdef[kk]),
                        dict(replay, variant=name, layout=lay, argument=arg, H=[str(x) for x in Hl]))
        if not np.array_equal(H, Hrep):
            k = int(np.argmax(H.ravel() != Hrep.ravel()))
            ck.fail("kernel/call-not-repeatable/%s" % mode,
                    "two consecutive identical calls (same arrays, same interp/seed) give different histograms: bin (%d,%d) %r then %r; "
                    "definition %s" % (k // cJ, k % cJ, H.ravel()[k], Hrep.ravel()[k], Hdef[k]),
                    dict(replay, first_H=H.tolist(), second_H=Hrep.tolist(), sequence="the call twice in a row in one process"))
            check_structure(ck, "kernel-second-call", mode, Hrep, Hdef, info, Iflat, cI, cJ, replay)
        nontriv = info["contrib"] > 0
        ck.count(("kernel", n, mode, kind), nontrivial=nontriv,
                 bucket="kernel:%s:%s" % (mode, "contrib" if nontriv else "nothing-inside"))
        if not np.all(np.isfinite(H)):
            ck.fail("kernel/non-finite/%s" % mode, "joint histogram has non-finite entries %s" % H.tolist(), replay)
            continue
        check_structure(ck, "kernel", mode, H, Hdef, info, Iflat, cI, cJ, replay)
        if kind == "identity":
            off = [H[a, b] for a in range(cI) for b in range(cJ) if a != b and H[a, b] != 0]
            nn = sum(1 for x in Iflat if x >= 0)
            if off or float(np.trace(H)) != nn:
                ck.fail("kernel/identity-not-diagonal/%s" % mode,
                        "self registration under the identity: off-diagonal mass %s, trace %s, non-negative voxels %d" % (off, np.trace(H), nn), replay)
        terms.append(coq_hist_term(mode, Iflat, Jp, cflat, cI, cJ, H, draws))
        meta.append((mode, kind, replay, [str(frac(x)) for x in H.ravel()], (Iflat, Jp, cflat, cI, cJ, draws)))
        if mode == "rand":
            nrand += 1
        if n in (1, 14, 22):
            ck.sample({"section": "kernel", "mode": mode, "kind": kind, "I": replay["I"], "J_padded_shape": list(Jp.shape),
                       "A": replay["A"], "t": replay["t"], "H": H.tolist()})
    if ck.build is not None and ck.build.ok:
        res = ck.coq_bools(HDR, terms, shard=60, name="kernel")
        ck.cov["traces_validated_against_impl"] += len(res)
        for ok, (mode, kind, replay, Himpl, args) in zip(res, meta):
            if not ok:
                Iflat, Jp, cflat, cI, cJ, draws = args
                vs = "[" + "; ".join(cvox(int(i), cflat[k]) for k, i in enumerate(Iflat)) + "]"
                d = " ".join(cz(x) for x in Jp.shape)
                if mode == "rand":
                    tm = "joint_hist_rand %s %s %s %s %s %s [(-9)%%Z;(-9)%%Z;(-9)%%Z;(-9)%%Z;(-9)%%Z;(-9)%%Z;(-9)%%Z;(-9)%%Z]" % (
                        czl(Jp.ravel().tolist()), d, cz(cI), cz(cJ), vs, cql([frac(u) for u in draws]))
                else:
                    tm = "joint_hist %s %s %s %s %s %s" % ("PV" if mode == "pv" else "TRI", czl(Jp.ravel().tolist()), d, cz(cI), cz(cJ), vs)
                mv = ck.coq_show(HDR, "map Qred (%s)" % tm)
                ck.fail("kernel/model-vs-impl/%s" % mode,
                        "Coq model (translated C expressions) and compiled kernel disagree: impl H=%s model H=%s" % (Himpl, mv),
                        dict(replay, impl_H=Himpl, model_H=mv))
                break
    ck.section("kernel", cases=N, model_cases=len(terms), rand_cases=nrand, max_side=smax, kinds=KINDS,
               isolated_worker=True, worker_crashed=crashed is not None)


# ------------------------------------------------------------------ rand fault (finding) in a subprocess
FAULT_SCRIPT = r"""
import sys, json
sys.path.insert(0, %r)
from harness import overlay as ov
o = ov.build(None); ov.install(o)
import numpy as np
from nipy.algorithms.registration._registration import _joint_histogram
out = {}
for name, row, cJ in (("all-neighbours-masked", [1, 0, -1, -1], 2), ("only-zero-weight-neighbour", [1, 0, -1, 3], 4)):
    Jp = -np.ones((6, 3, 3), dtype=np.int16)
    Jp[1:5, 1, 1] = row
    I = np.array([[[0, 1]]], dtype=np.int16)
    T = np.array([[[[0.5, 0., 0.], [2., 0., 0.]]]])
    res = {}
    for mode, interp in (("pv", 0), ("tri", 1), ("rand", -12345)):
        H = np.zeros((2, cJ))
        _joint_histogram(H, I.flat, Jp, T, interp)
        res[mode] = H.tolist()
    out[name] = res
print("@@" + json.dumps(out))
"""


def rand_fault(ck):
    """Regression oracle for the defect fixed by d23fc29 (_rand_interpolation had no `sumW > 0` guard: a voxel
    inside the grid whose neighbours are all masked, or only have weight 0, added one unit at a stale slot of
    the Jnn buffer).  Runs in a subprocess because the defect can crash the interpreter."""
    env = dict(os.environ)
    # generous limit: the subprocess queues on the overlay build lock when other checks run concurrently
    # (a 120 s limit expired on a loaded machine - rc=124 - and was misreported as a crash)
    r = subprocess.run(["timeout", "1200", sys.executable, "-c", FAULT_SCRIPT % str(VERIF)], capture_output=True, text=True, env=env)
    ck.count(("rand-fault",), nontrivial=True, bucket="rand-fault:subprocess")
    line = [l for l in r.stdout.splitlines() if l.startswith("@@")]
    replay = {"J_padded": "6x3x3, all -1 except J[1:5,1,1] = row", "I": [[[0, 1]]],
              "coords": [[0.5, 0, 0], [2, 0, 0]], "interp": -12345,
              "call": "_joint_histogram(H, I.flat, J_padded, coords, interp)"}
    if not line:
        ck.fail("rand/no-positive-weight-neighbour",
                "rand interpolation crashed (rc=%s) on a voxel whose neighbours are all masked: %s" % (r.returncode, r.stderr[-300:]),
                dict(replay, rows={"all-neighbours-masked": [1, 0, -1, -1]}))
        return
    out = json.loads(line[0][2:])
    for name, res in out.items():
        tot = {m: float(np.sum(h)) for m, h in res.items()}
        row1 = {m: float(np.sum(h[1])) for m, h in res.items()}
        # definition: the second voxel (intensity 1) has no neighbour of positive weight -> row 1 stays empty
        if row1["pv"] != 0 or row1["tri"] != 0:
            ck.fail("kernel/mass-created/%s" % name, "pv/tri add mass for a voxel without positive-weight neighbour: %s" % res,
                    dict(replay, scenario=name, H=res))
        if row1["rand"] != 0:
            ck.fail("rand/no-positive-weight-neighbour",
                    "interp='rand': a source voxel inside the grid whose neighbours are all masked / have weight 0 "
                    "adds one unit at a stale buffer slot (%s): H=%s, pv H=%s" % (name, res["rand"], res["pv"]),
                    dict(replay, scenario=name, H=res))
    ck.section("rand-fault", scenarios=list(out), outputs=out)


# ------------------------------------------------------------------ HistogramRegistration path
class LatticeTransform:
    """voxel-to-voxel transform with exact quarter-lattice coefficients (only `apply` is used by _eval)."""
    def __init__(self, A, t):
        self.A, self.t = A, t

    def apply(self, pts):
        shape = pts.shape[:-1]
        return coords_of(shape, self.A, self.t)


def clamp_def(x, bins, mask=None):
    """Documented clamp for float input: values inside the mask are mapped affinely onto 0..bins-1 and
    rounded (half to even, as np.round), the others are -1."""
    x = np.asarray(x)
    sel = np.ones(x.shape, bool) if mask is None else np.asarray(mask) > 0
    vals = [frac(v) for v in x[sel]]
    lo, hi = min(vals), max(vals)
    out = -np.ones(x.shape, dtype=int)
    res = []
    for v in vals:
        q = F(bins - 1) * (v - lo) / (hi - lo)
        fl = q.numerator // q.denominator
        r = q - fl
        res.append(fl + (1 if (r > F(1, 2) or (r == F(1, 2) and fl % 2 == 1)) else 0))
    out[sel] = res
    return out


def kernel_precondition(ck, R, tag, replay, expect=None):
    """joint_histogram() trusts H.shape: every clamped source value must be a valid row and every clamped target
    value a valid column of `_joint_hist` (checked BEFORE the kernel runs: a violation is an out-of-bounds write)."""
    H = R._joint_hist
    fmax = int(np.max(np.asarray(R._from_img.get_fdata())))
    tmax = int(np.max(np.asarray(R._to_data)))
    shape = tuple(int(v) for v in H.shape)
    if len(shape) != 2 or shape[0] <= fmax or shape[1] <= tmax or (expect is not None and shape != tuple(expect)):
        ck.fail("%s/hist-shape" % tag,
                "joint histogram allocated with shape %s%s but the clamped source has values up to %d and the clamped target up to %d"
                % (shape, "" if expect is None else " (expected %s = (from_bins, to_bins))" % (tuple(expect),), fmax, tmax),
                dict(replay, hist_shape=list(shape), max_clamped_from=fmax, max_clamped_to=tmax))
        return False
    return True


def evalpath(ck):
    import nipy.algorithms.registration.histogram_registration as hr
    from nipy.algorithms.registration.affine import Affine
    from nipy.core.api import Image, vox2mni
    hr.VERBOSE = False
    rng = ck.rng("eval")
    N = ck.n(60, 400)
    terms, meta = [], []
    for n in range(N):
        kind = KINDS[n % len(KINDS)]
        mode = ["pv", "tri"][n % 2]
        sshape = tuple(int(x) for x in rng.integers(2, 4, size=3))
        tshape = sshape if kind == "identity" else tuple(int(x) for x in rng.integers(2, 4, size=3))
        fb, tb = int(rng.integers(2, 6)), int(rng.integers(2, 6))
        # float data whose range is a multiple of bins-1 so that the documented rescaling is exact in doubles
        fs, ts = int(rng.integers(1, 4)), int(rng.integers(1, 4))
        fdat = (rng.integers(0, fb, size=sshape) * fs + 3).astype(float)
        fdat.flat[0], fdat.flat[-1] = 3.0, 3.0 + fs * (fb - 1)
        if kind == "identity":
            tdat, tb, ts = fdat.copy(), fb, fs
        else:
            tdat = (rng.integers(0, tb, size=tshape) * ts - 2).astype(float)
            tdat.flat[0], tdat.flat[-1] = -2.0, -2.0 + ts * (tb - 1)
        fmask = tmask = None
        if n % 4 == 1:
            fmask = rng.random(sshape) < 0.7
            fmask.flat[0] = fmask.flat[-1] = True
        if n % 4 == 2 and kind != "identity":
            tmask = rng.random(tshape) < 0.7
            tmask.flat[0] = tmask.flat[-1] = True
        fim = Image(fdat, vox2mni(np.eye(4)))
        tim = Image(tdat, vox2mni(np.eye(4)))
        replay = {"from": fdat.tolist(), "to": tdat.tolist(), "from_bins": fb, "to_bins": tb, "interp": mode,
                  "from_mask": None if fmask is None else fmask.tolist(), "to_mask": None if tmask is None else tmask.tolist(),
                  "kind": kind}
        try:
            R = hr.HistogramRegistration(fim, tim, from_bins=fb, to_bins=tb, from_mask=fmask, to_mask=tmask,
                                         similarity="cr", interp=mode)
        except Exception as e:  # noqa
            ck.fail("eval/constructor-raises", "HistogramRegistration(...) raised %s: %s" % (type(e).__name__, e), replay)
            continue
        if not kernel_precondition(ck, R, "eval", replay, expect=(fb, tb)):
            continue
        # clamp / padding oracle
        cf = clamp_def(fdat, fb, fmask)
        ct = clamp_def(tdat, tb, tmask)
        full_from = np.asarray(R._from_img.get_fdata()).astype(int)
        if not np.array_equal(full_from, cf):
            ck.fail("eval/clamp-from", "clamped `from` image differs from the documented clamp: %s vs %s" % (full_from.tolist(), cf.tolist()), replay)
            continue
        exp_to = -np.ones(tuple(s + 2 for s in tshape), dtype=int)
        exp_to[1:-1, 1:-1, 1:-1] = ct
        if not np.array_equal(np.asarray(R._to_data).astype(int), exp_to):
            ck.fail("eval/clamp-or-padding-to", "padded clamped `to` image differs from clamp + border of -1", replay)
            continue
        # field of view: bounding box of the mask as implemented (corner .. corner+size, clipped)
        fd = np.asarray(R._from_data)
        if fmask is None:
            corner = (0, 0, 0)
            if fd.shape != sshape:
                ck.fail("eval/fov-shape", "field of view %s is not the whole image %s" % (fd.shape, sshape), replay)
                continue
        else:
            w = np.where(fmask > 0)
            corner = tuple(int(a.min()) for a in w)
            hi = tuple(int(a.max()) + 1 for a in w)
            # every masked voxel must be in the field of view
            if any(fd.shape[k] < hi[k] - corner[k] for k in range(3)):
                ck.fail("eval/fov-misses-mask", "field of view %s (corner %s) does not cover the mask box up to %s" % (fd.shape, corner, hi), replay)
                continue
        sub = cf[corner[0]:corner[0] + fd.shape[0], corner[1]:corner[1] + fd.shape[1], corner[2]:corner[2] + fd.shape[2]]
        if not np.array_equal(fd.astype(int), sub):
            ck.fail("eval/fov-data", "field-of-view data is not the clamped image at corner %s" % (corner,), replay)
            continue
        exp_aff = np.eye(4)
        exp_aff[:3, 3] = corner
        if not np.array_equal(np.asarray(R._from_affine), exp_aff):
            ck.fail("eval/subgrid-affine", "_from_affine %s is not the voxel offset of the field of view %s" % (np.asarray(R._from_affine).tolist(), corner), replay)
            continue
        A, t = lattice_affine(rng, kind, fd.shape, tshape)
        # the voxel transform acts on field-of-view voxel indices directly
        Tv = LatticeTransform(A, t)
        try:
            val = R._eval(Tv)
        except Exception as e:  # noqa
            ck.fail("eval/raises", "_eval raised %s: %s" % (type(e).__name__, e), replay)
            continue
        H = np.array(R._joint_hist)
        cI, cJ = H.shape
        if (cI, cJ) != (fb, tb):
            ck.fail("eval/hist-shape", "joint histogram shape %s, bins (%d,%d)" % (H.shape, fb, tb), replay)
            continue
        Iflat = [int(x) for x in fd.flat]
        coords = coords_of(fd.shape, A, t).reshape(-1, 3)
        Jp = exp_to.astype(np.int16)
        Hdef, info = ref_hist(Iflat, Jp, coords, mode, cI, cJ)
        replay = dict(replay, A=[[str(x) for x in r] for r in A], t=[str(x) for x in t], H=H.tolist())
        nontriv = info["contrib"] > 0
        ck.count(("eval", n), nontrivial=nontriv, bucket="eval:%s:%s" % (mode, "contrib" if nontriv else "nothing-inside"))
        check_structure(ck, "eval", mode, H, Hdef, info, Iflat, cI, cJ, replay)
        if kind == "identity":
            nn = sum(1 for x in Iflat if x >= 0)
            off = [H[a, b] for a in range(cI) for b in range(cJ) if a != b and H[a, b] != 0]
            if off or float(np.trace(H)) != nn:
                ck.fail("eval/identity-not-diagonal/%s" % mode, "self registration under the identity: off-diagonal %s trace %s voxels %d" % (off, np.trace(H), nn), replay)
        # similarity value = cr formula on that histogram (Fraction reference)
        ref = cr_def([frac(x) for x in H.ravel()], cI, cJ)
        if ref is not None and abs(float(ref) - float(val)) > 1e-9:
            ck.fail("eval/similarity-value", "eval returned %r, correlation ratio of its own histogram is %r" % (val, float(ref)), replay)
        terms.append(coq_hist_term(mode, Iflat, Jp, coords, cI, cJ, H))
        meta.append(replay)
        if n == 3:
            ck.sample(dict(section="eval", **{k: replay[k] for k in ("from", "to", "from_bins", "to_bins", "interp", "A", "t", "H")}))
    # eval(T) with a world transform: identity and pure translations (exact in doubles)
    for n in range(ck.n(12, 60)):
        sshape = tuple(int(x) for x in rng.integers(2, 4, size=3))
        fb = int(rng.integers(2, 5))
        fdat = rng.integers(0, fb, size=sshape).astype(float)
        fdat.flat[0], fdat.flat[-1] = 0.0, float(fb - 1)
        fim = Image(fdat, vox2mni(np.eye(4)))
        R = hr.HistogramRegistration(fim, fim, from_bins=fb, similarity="cc", interp=["pv", "tri"][n % 2])
        if not kernel_precondition(ck, R, "evalT", {"from=to": fdat.tolist(), "bins": fb}, expect=(fb, fb)):
            continue
        T = Affine()
        tr = [0.0, 0.0, 0.0] if n % 3 == 0 else [float(F(int(rng.integers(-6, 7)), 4)) for _ in range(3)]
        T.translation = tr
        R.eval(T)
        H = np.array(R._joint_hist)
        Iflat = [int(x) for x in np.asarray(R._from_data).flat]
        A = [[F(int(r == c)) for c in range(3)] for r in range(3)]
        coords = coords_of(sshape, A, [frac(x) for x in tr]).reshape(-1, 3)
        Jp = np.asarray(R._to_data).astype(np.int16)
        mode = R.interp
        Hdef, info = ref_hist(Iflat, Jp, coords, mode, fb, fb)
        replay = {"from=to": fdat.tolist(), "bins": fb, "interp": mode, "translation": tr, "H": H.tolist()}
        ck.count(("evalT", n), nontrivial=info["contrib"] > 0, bucket="eval:world-translation")
        check_structure(ck, "evalT", mode, H, Hdef, info, Iflat, fb, fb, replay)
        if n % 3 == 0:
            off = [H[a, b] for a in range(fb) for b in range(fb) if a != b and H[a, b] != 0]
            if off or float(np.trace(H)) != len(Iflat):
                ck.fail("evalT/identity-not-diagonal/%s" % mode, "eval(identity) of an image with itself is not diagonal: %s" % H.tolist(), replay)
        terms.append(coq_hist_term(mode, Iflat, Jp, coords, fb, fb, H))
        meta.append(replay)
    if ck.build is not None and ck.build.ok:
        res = ck.coq_bools(HDR, terms, shard=40, name="eval")
        ck.cov["traces_validated_against_impl"] += len(res)
        for ok, replay in zip(res, meta):
            if not ok:
                ck.fail("eval/model-vs-impl", "Coq model and HistogramRegistration._joint_hist disagree: H=%s" % replay["H"], replay)
                break
    ck.section("eval", cases=len(terms))


# ------------------------------------------------------------------ L1 moments and measures
def l1_def(h):
    """Definition: total, weighted median = first index whose cumulative mass reaches half the total,
    mean absolute deviation around it."""
    n = sum(h, F(0))
    if n <= 0:
        return n, F(0), F(0)
    acc = F(0)
    for m, x in enumerate(h):
        acc += x
        if acc >= n / 2:
            break
    return n, F(m), sum((x * abs(k - m) for k, x in enumerate(h)), F(0)) / n


def nz(x):
    return x if x >= TINY else TINY


def cr_def(H, cI, cJ):
    rows = [H[i * cJ:(i + 1) * cJ] for i in range(cI)]
    n = sum(H, F(0))
    if n <= 0:
        return None
    hI = [sum(r[c] for r in rows) for c in range(cJ)]
    mI = sum((c * hI[c] for c in range(cJ)), F(0)) / n
    vI = sum((c * c * hI[c] for c in range(cJ)), F(0)) / n - mI * mI
    tot = F(0)
    for r in rows:
        nr = sum(r, F(0))
        if nr > 0:
            m = sum((c * r[c] for c in range(cJ)), F(0)) / nr
            tot += sum((r[c] * (c - m) ** 2 for c in range(cJ)), F(0))
    return 1 - (tot / n) / nz(vI)


def crl1_def(H, cI, cJ):
    rows = [H[i * cJ:(i + 1) * cJ] for i in range(cI)]
    hI = [sum(r[c] for r in rows) for c in range(cJ)]
    n, m, s = l1_def(hI)
    tot = F(0)
    for r in rows:
        nr, mr, sr = l1_def(r)
        tot += nr * sr
    return 1 - (tot / nz(n)) / nz(s)


def cc_def(H, cI, cJ):
    n = sum(H, F(0))
    if n <= 0:
        return None
    E = lambda f: sum((H[i * cJ + j] * f(i, j) for i in range(cI) for j in range(cJ)), F(0)) / n
    mi, mj = E(lambda i, j: j), E(lambda i, j: i)
    vi, vj = E(lambda i, j: (j - mi) ** 2), E(lambda i, j: (i - mj) ** 2)
    c = E(lambda i, j: (j - mi) * (i - mj))
    if vi * vj <= 0:
        return None
    return c * c / (vi * vj)


def textbook_float(name, H):
    """Centred textbook formulas in float64 (for histograms too large for Fractions).  I = column, J = row."""
    H = np.asarray(H, dtype=float)
    n = H.sum()
    jj, ii = np.meshgrid(np.arange(H.shape[0], dtype=float), np.arange(H.shape[1], dtype=float), indexing="ij")
    if name == "cc":
        mi_, mj_ = (H * ii).sum() / n, (H * jj).sum() / n
        vi, vj = (H * (ii - mi_) ** 2).sum() / n, (H * (jj - mj_) ** 2).sum() / n
        c = (H * (ii - mi_) * (jj - mj_)).sum() / n
        return None if vi * vj <= 1e-300 else c * c / (vi * vj)
    if name == "cr":
        hI = H.sum(0)
        mI = (hI * ii[0]).sum() / n
        sst = (hI * (ii[0] - mI) ** 2).sum()
        ssw = 0.0
        for r in H:
            if r.sum() > 0:
                m = (r * ii[0]).sum() / r.sum()
                ssw += (r * (ii[0] - m) ** 2).sum()
        return None if sst <= 1e-300 else 1 - ssw / sst
    if name == "crl1":
        def ad(h):
            tot = h.sum()
            if tot <= 0:
                return 0.0
            m = int(np.argmax(np.cumsum(h) >= tot / 2))
            return float((h * np.abs(np.arange(len(h)) - m)).sum())
        tot = ad(H.sum(0))
        return None if tot <= 1e-300 else 1 - sum(ad(r) for r in H) / tot
    if name == "mi":
        P = H / n
        pI, pJ = P.sum(0), P.sum(1)
        nzm = P > 0
        return float((P[nzm] * np.log(P[nzm] / (pJ[:, None] * pI[None, :])[nzm])).sum())
    raise ValueError(name)


def gaussian_filter_def(a, sigmas):
    """scipy.ndimage.gaussian_filter(a, sigma, mode='constant') restated: per axis a correlation with the normalised
    kernel exp(-x^2 / 2 sigma^2), |x| <= int(4 sigma + 0.5), zeros outside the array."""
    a = np.asarray(a, dtype=float)
    for ax, sg in enumerate(sigmas):
        r = int(4.0 * float(sg) + 0.5)
        x = np.arange(-r, r + 1, dtype=float)
        w = np.exp(-0.5 * x * x / (float(sg) ** 2)) if sg > 0 else np.ones(1)
        w /= w.sum()
        pad = [(0, 0)] * a.ndim
        pad[ax] = (r, r)
        ap = np.pad(a, pad)
        out = np.zeros_like(a)
        for k in range(2 * r + 1):
            sl = [slice(None)] * a.ndim
            sl[ax] = slice(k, k + a.shape[ax])
            out += w[k] * ap[tuple(sl)]
        a = out
    return a


def loglik_ratio(H, Q):
    """sum H log(Q / (Q_row Q_col)) / sum H over the populated bins"""
    Q = np.asarray(Q, dtype=float)
    r, c = Q.sum(1, keepdims=True), Q.sum(0, keepdims=True)
    m = H > 0
    return float((H[m] * np.log(Q[m] / (r * c)[m])).sum() / H.sum())


def textbook_any(name, H, dist=None):
    H = np.asarray(H, dtype=float)
    if name in ("cc", "cr", "crl1", "mi"):
        return textbook_float(name, H)
    if name == "nmi":
        P = H / H.sum()
        ent = lambda p: -float((p[p > 0] * np.log(p[p > 0])).sum())
        den = ent(P.sum(0)) + ent(P.sum(1))
        return None if den < 1e-300 else 2 * (1 - ent(P) / den)
    if name == "slr":
        return slr_def(H, dist)
    sig = 0.05 * np.array(H.shape)          # SIGMA_FACTOR * bins, PER AXIS
    if name == "pmi":
        return loglik_ratio(H, gaussian_filter_def(H / H.sum(), sig))
    if name == "dpmi":
        Hs = gaussian_filter_def(H, sig)
        return loglik_ratio(H, Hs / Hs.sum())
    raise ValueError(name)


def nonsquare_measures(ck):
    """EVERY similarity measure on non-square histograms (from_bins != to_bins, both orders, up to 48 bins so that the
    Parzen windows differ per axis) against its textbook formula."""
    from nipy.algorithms.registration import similarity_measures as sm
    rng = ck.rng("nonsquare")
    for n in range(ck.n(120, 1200)):
        a, b = int(rng.integers(1, 13)), int(rng.integers(14, 49))
        shape = (a, b) if n % 2 else (b, a)
        H = rng.integers(0, 7, size=shape).astype(float)
        if n % 3 == 0:
            H[rng.random(shape) < 0.6] = 0
        if H.sum() == 0:
            H[0, 0] = 1
        q, qkind = random_dist(rng, shape, n)
        # a SEQUENCE of histograms of different total mass (scaled, thinned, one extra bin) for ONE object per measure
        seq = [H, np.floor(H / 2) + (rng.random(shape) < 0.1), H * 3.0 + (rng.random(shape) < 0.2) * 0.5]
        for Hk in seq:
            if Hk.sum() == 0:
                Hk[0, 0] = 1
        for name in ALL_SIMS:
            try:
                m = sm.similarity_measures[name](shape, False, q.copy() if name == "slr" else None)
            except Exception as e:  # noqa
                ck.fail("measures/nonsquare-raises/%s" % name, "constructing %s raised %s: %s" % (name, type(e).__name__, e), {"measure": name, "shape": list(shape)})
                continue
            for step, Hk in enumerate(seq):
                ck.count(("nonsquare", n, name, step), nontrivial=True,
                         bucket="measures:nonsquare:%s" % (name if name != "slr" else "slr:dist-" + qkind))
                replay = {"measure": name, "shape": list(shape), "dist": q.tolist() if name == "slr" else None,
                          "sequence": "one %s object evaluated on %d histograms of total mass %s; this is evaluation #%d" % (name, len(seq), [float(x.sum()) for x in seq], step + 1),
                          "histograms": [x.tolist() for x in seq[:step + 1]]}
                try:
                    v = float(m(Hk.copy()))
                except Exception as e:  # noqa
                    ck.fail("measures/nonsquare-raises/%s" % name, "%s on a %s histogram raised %s: %s" % (name, shape, type(e).__name__, e), replay)
                    break
                want = textbook_any(name, Hk, q)
                if want is None:
                    continue
                if not math.isfinite(v) or abs(v - want) > 1e-8 * max(1.0, abs(want)):
                    onzero = name == "slr" and bool(((np.asarray(q) == 0) & (Hk > 0)).any())
                    ck.fail("measures/%s/%s%s" % (name, "nonsquare" if step == 0 else "later-evaluation-of-same-object",
                                                  "/mass-on-zero-probability-cell-of-dist" if onzero else ""),
                            "%s object, evaluation #%d, on a %dx%d histogram of total mass %g returned %r, textbook value %r%s"
                            % (name, step + 1, shape[0], shape[1], Hk.sum(), v, want,
                               "" if step == 0 else " (earlier evaluations of this object were on histograms of mass %s)" % [float(x.sum()) for x in seq[:step]]),
                            dict(replay, value=repr(v), textbook=want))
                    break
    ck.section("nonsquare-measures", measures=ALL_SIMS, shapes="(1..12) x (14..48) in both orders")
    ck.trust.append("scipy.ndimage.gaussian_filter (pmi, dpmi) is an oracle; it is restated independently (truncated normalised "
                    "Gaussian, radius int(4 sigma + .5), zero padding) and the two are compared on every run")


def many_bins(ck):
    """Value magnitudes: histograms with far more than 256 bins on an axis (up to 32767 are legal) and mass in the
    high bins - index grids, squares and products must not wrap."""
    from nipy.algorithms.registration import similarity_measures as sm
    from nipy.algorithms.registration._registration import _L1_moments
    import nipy.algorithms.registration.histogram_registration as hr
    from nipy.core.api import Image, vox2mni
    hr.VERBOSE = False
    rng = ck.rng("many-bins")
    terms, meta = [], []
    for n in range(ck.n(40, 300)):
        big = int(rng.choice([257, 300, 513, 1000, 4097, 32767][: (4 if n % 3 else 6)]))
        small = int(rng.integers(1, 5))
        shape = (big, small) if n % 2 else (small, big)
        H = np.zeros(shape)
        k = int(rng.integers(3, 12))
        for _ in range(k):       # sparse mass, mostly in the high bins
            i = int(rng.integers(shape[0] // 2 if shape[0] > 256 else 0, shape[0]))
            j = int(rng.integers(shape[1] // 2 if shape[1] > 256 else 0, shape[1]))
            H[i, j] += float(rng.integers(1, 6))
        H[int(rng.integers(shape[0])), int(rng.integers(shape[1]))] += 1.0
        nzidx = np.argwhere(H > 0)
        replay = {"shape": list(shape), "nonzero_bins": [[int(a), int(b), float(H[a, b])] for a, b in nzidx]}
        ck.count(("many-bins", n), nontrivial=True, bucket="measures:many-bins:%d" % big)
        for name in ("cc", "cr", "crl1", "mi"):
            try:
                v = float(sm.similarity_measures[name](shape, False, None)(H.copy()))
            except Exception as e:  # noqa
                ck.fail("measures/many-bins-raises/%s" % name, "%s on a %s histogram raised %s: %s" % (name, shape, type(e).__name__, e), replay)
                continue
            want = textbook_float(name, H)
            if not math.isfinite(v):
                ck.fail("measures/%s/many-bins" % name, "%s on a %dx%d histogram returned %r (textbook %r)" % (name, shape[0], shape[1], v, want),
                        dict(replay, measure=name, value=repr(v), textbook=want))
                continue
            if want is not None and abs(v - want) > 1e-7 * max(1.0, abs(want)):
                ck.fail("measures/%s/many-bins" % name,
                        "%s on a %dx%d histogram with mass in bins above 255: %r, textbook value %r" % (name, shape[0], shape[1], v, want),
                        dict(replay, measure=name, value=v, textbook=want))
        # L1 moments of the long marginal + Coq model on the sparse histogram (exact)
        h = H.sum(1) if shape[0] == big else H.sum(0)
        got = _L1_moments(np.ascontiguousarray(h))
        hq = [frac(x) for x in h]
        want = l1_def(hq)
        if frac(got[0]) != want[0] or frac(got[1]) != want[1] or abs(frac(got[2]) - want[2]) > F(1, 10 ** 9):
            ck.fail("l1/many-bins", "L1_moments on a %d-bin histogram: %r, definition %s" % (len(h), got, [float(x) for x in want]),
                    {"nonzero": [[int(i), float(x)] for i, x in enumerate(h) if x]})
        if big <= 1000 and n % 4 == 0:
            Hq = [frac(x) for x in H.ravel()]
            vcc = float(sm.similarity_measures["cc"](shape, False, None)(H.copy()))
            vcr = float(sm.similarity_measures["cr"](shape, False, None)(H.copy()))
            if cc_def(Hq, shape[0], shape[1]) is not None and math.isfinite(vcc):
                terms.append("qclose (1 # 10000000) (cc_rho2 %s %s %s) %s" % (cnat(shape[0]), cnat(shape[1]), cql(Hq), cq(frac(vcc))))
                meta.append(("cc", replay))
            if cr_def(Hq, shape[0], shape[1]) is not None and math.isfinite(vcr):
                terms.append("qclose (1 # 10000000) (cr_eta2 %s %s %s %s) %s" % (cq(TINY), cnat(shape[0]), cnat(shape[1]), cql(Hq), cq(frac(vcr))))
                meta.append(("cr", replay))
    # registration level: more than 256 bins requested, unequal from_bins / to_bins in both orders
    for n in range(ck.n(8, 40)):
        fb, tb = [(300, 7), (5, 400), (513, 300), (260, 260)][n % 4]
        sshape = (4, 4, 3)
        fdat = rng.integers(0, fb, size=sshape).astype(float)
        tdat = rng.integers(0, tb, size=sshape).astype(float)
        fdat[fdat < fb * 0.6] += int(fb * 0.4) - 1 if fb > 10 else 0
        fdat.flat[0], fdat.flat[-1], tdat.flat[0], tdat.flat[-1] = 0, fb - 1, 0, tb - 1
        sim = ["cc", "cr", "crl1", "mi"][n % 4] if n >= 4 else ["cc", "cr"][n % 2]
        replay = {"from": fdat.tolist(), "to": tdat.tolist(), "from_bins": fb, "to_bins": tb, "similarity": sim}
        ck.count(("many-bins-reg", n), nontrivial=True, bucket="eval:many-bins")
        try:
            R = hr.HistogramRegistration(Image(fdat, vox2mni(np.eye(4))), Image(tdat, vox2mni(np.eye(4))),
                                         from_bins=fb, to_bins=tb, similarity=sim, interp="pv")
        except Exception as e:  # noqa
            ck.fail("eval/constructor-raises", "HistogramRegistration raised %s: %s" % (type(e).__name__, e), replay)
            continue
        if not kernel_precondition(ck, R, "eval", replay, expect=(fb, tb)):
            continue
        A, t = lattice_affine(rng, "shift", sshape, sshape)
        val = float(R._eval(LatticeTransform(A, t)))
        H = np.array(R._joint_hist)
        Iflat = [int(v) for v in np.asarray(R._from_data).flat]
        Hdef, info = ref_hist(Iflat, np.asarray(R._to_data).astype(np.int16), coords_of(sshape, A, t).reshape(-1, 3), "pv", fb, tb)
        Hd = np.array([float(v) for v in Hdef]).reshape(fb, tb)
        if not np.array_equal(H, Hd):
            ck.fail("eval/differs-from-definition/many-bins", "joint histogram with %dx%d bins differs from the definition" % (fb, tb), replay)
        want = textbook_float(sim, H)
        if not math.isfinite(val) or (want is not None and abs(val - want) > 1e-7 * max(1.0, abs(want))):
            ck.fail("measures/%s/many-bins" % sim, "eval with from_bins=%d, to_bins=%d returned %r, textbook %s of its own histogram is %r" % (fb, tb, val, sim, want),
                    dict(replay, value=val, textbook=want))
    if ck.build is not None and ck.build.ok:
        res = ck.coq_bools(HDR, terms, shard=4, name="manybins")
        ck.cov["traces_validated_against_impl"] += len(res)
        for ok, (what, replay) in zip(res, meta):
            if not ok:
                ck.fail("%s/model-vs-impl" % what, "Coq model of %s and implementation disagree on a many-bin histogram %s" % (what, replay), replay)
                break
    ck.section("many-bins", sizes=[257, 300, 513, 1000, 4097, 32767])


def random_hist(rng, n, kind):
    if kind == "ints":
        h = [F(int(x)) for x in rng.integers(0, 6, size=n)]
    elif kind == "dyadic":
        h = [F(int(x), 8) for x in rng.integers(0, 40, size=n)]
    elif kind == "sparse":
        h = [F(int(x)) if rng.random() < 0.35 else F(0) for x in rng.integers(1, 9, size=n)]
    else:   # ties: cumulative mass hits exactly half the total
        k = int(rng.integers(1, n)) if n > 1 else 1
        h = [F(0)] * n
        a = int(rng.integers(1, 5))
        h[int(rng.integers(0, k))] = F(a)
        if n > 1:
            h[int(rng.integers(k, n))] += F(a)
    return h


def moments_and_measures(ck):
    from nipy.algorithms.registration._registration import _L1_moments
    from nipy.algorithms.registration import similarity_measures as sm
    rng = ck.rng("l1")
    terms, meta = [], []
    for n in range(ck.n(400, 4000)):
        size = int(rng.integers(1, 9))
        kind = ["ints", "dyadic", "sparse", "ties"][n % 4]
        h = random_hist(rng, size, kind)
        arr = np.array([float(x) for x in h])
        if n % 5 == 4:       # strided input
            big = np.zeros(2 * size)
            big[::2] = arr
            arr = big[::2]
        got = _L1_moments(arr)
        want = l1_def(h)
        if not all(math.isfinite(g) for g in got):
            ck.fail("l1/non-finite", "L1_moments returned %r for h=%s" % (got, [str(x) for x in h]), {"h": [str(x) for x in h]})
            continue
        ck.count(("l1", n), nontrivial=sum(h) > 0, bucket="l1:%s" % kind)
        replay = {"h": [str(x) for x in h], "got": list(got), "definition": [str(x) for x in want]}
        if frac(got[0]) != want[0]:
            ck.fail("l1/total", "L1_moments total %r != %s" % (got[0], want[0]), replay)
        elif frac(got[1]) != want[1]:
            ck.fail("l1/median", "L1_moments median %r, weighted median by definition %s (h=%s)" % (got[1], want[1], replay["h"]), replay)
        elif abs(frac(got[2]) - want[2]) > F(1, 10 ** 12):
            ck.fail("l1/deviation", "L1_moments deviation %r, mean absolute deviation %s (h=%s)" % (got[2], float(want[2]), replay["h"]), replay)
        terms.append("(let '(n, m, d) := l1_moments %s in Qeq_bool n %s && Qeq_bool m %s && qclose (1 # 1000000000000) d %s)" % (
            cql(h), cq(frac(got[0])), cq(frac(got[1])), cq(frac(got[2]))))
        meta.append(("l1", replay))
    # measures on random histograms
    rngm = ck.rng("measures")
    tiny = cq(TINY)
    for n in range(ck.n(150, 1500)):
        cI, cJ = int(rngm.integers(1, 6)), int(rngm.integers(1, 6))
        kind = ["ints", "dyadic", "sparse"][n % 3]
        Hq = random_hist(rngm, cI * cJ, kind)
        if sum(Hq) == 0:
            Hq[int(rngm.integers(len(Hq)))] = F(1)
        H = np.array([float(x) for x in Hq]).reshape(cI, cJ)
        replay = {"H": H.tolist()}
        ck.count(("measure", n), nontrivial=True, bucket="measures:%s" % kind)
        vals = {}
        for name in ("cc", "cr", "crl1", "mi", "nmi"):
            vals[name] = float(sm.similarity_measures[name](H.shape, False, None)(H.copy()))
        if not all(math.isfinite(v) for v in vals.values()):
            ck.fail("measures/non-finite", "similarity measure not finite: %s" % vals, replay)
            continue
        # definitions
        d = cr_def(Hq, cI, cJ)
        vI_pos = d is not None
        if d is not None and abs(float(d) - vals["cr"]) > 1e-9 * max(1.0, abs(float(d))):
            ck.fail("measures/cr", "correlation ratio %r, textbook value %r" % (vals["cr"], float(d)), replay)
        d = crl1_def(Hq, cI, cJ)
        if abs(float(d) - vals["crl1"]) > 1e-9 * max(1.0, abs(float(d))):
            ck.fail("measures/crl1", "L1 correlation ratio %r, definition %r" % (vals["crl1"], float(d)), replay)
        d = cc_def(Hq, cI, cJ)
        if d is not None and abs(float(d) - vals["cc"]) > 1e-9:
            ck.fail("measures/cc", "squared correlation coefficient %r, textbook value %r" % (vals["cc"], float(d)), replay)
        # mutual information: sum p log(p / (pI pJ)) ; nmi = 2 (1 - H(I,J) / (H(I)+H(J)))
        P = H / H.sum()
        pI, pJ = P.sum(0), P.sum(1)
        mi = sum(P[i, j] * math.log(P[i, j] / (pI[j] * pJ[i])) for i in range(cI) for j in range(cJ) if P[i, j] > 0)
        if abs(mi - vals["mi"]) > 1e-9:
            ck.fail("measures/mi", "mutual information %r, textbook value %r" % (vals["mi"], mi), replay)
        ent = lambda p: -sum(x * math.log(x) for x in np.ravel(p) if x > 0)
        den = ent(pI) + ent(pJ)
        if den > 1e-300 and abs(2 * (1 - ent(P) / den) - vals["nmi"]) > 1e-9:
            ck.fail("measures/nmi", "normalised mutual information %r, textbook value %r" % (vals["nmi"], 2 * (1 - ent(P) / den)), replay)
        # model correspondence (rational formulas)
        Hc = cql(Hq)
        tol = "(1 # 1000000000)"
        terms.append("qclose %s (cr_eta2 %s %s %s %s) %s" % (tol, tiny, cnat(cI), cnat(cJ), Hc, cq(frac(vals["cr"]))))
        meta.append(("cr", replay))
        terms.append("qclose %s (crl1_eta2 %s %s %s %s) %s" % (tol, tiny, cnat(cI), cnat(cJ), Hc, cq(frac(vals["crl1"]))))
        meta.append(("crl1", replay))
        if cc_def(Hq, cI, cJ) is not None:
            terms.append("qclose %s (cc_rho2 %s %s %s) %s" % (tol, cnat(cI), cnat(cJ), Hc, cq(frac(vals["cc"]))))
            meta.append(("cc", replay))
        if n == 2:
            ck.sample({"section": "measures", "H": H.tolist(), "values": vals})
    if ck.build is not None and ck.build.ok:
        res = ck.coq_bools(HDR, terms, shard=200, name="l1")
        ck.cov["traces_validated_against_impl"] += len(res)
        for ok, (what, replay) in zip(res, meta):
            if not ok:
                ck.fail("%s/model-vs-impl" % what, "Coq model of %s and implementation disagree on %s" % (what, replay), replay)
                break
    ck.section("l1+measures", model_terms=len(terms))


# ------------------------------------------------------------------ python helpers
def helpers(ck):
    import nipy.algorithms.registration.histogram_registration as hr
    from nipy.algorithms.registration.affine import subgrid_affine, slices2aff
    rng = ck.rng("helpers")
    for n in range(ck.n(200, 2000)):
        shape = tuple(int(x) for x in rng.integers(1, 5, size=3))
        bins = int(rng.integers(2, 40))
        if n % 3 == 0:
            x = rng.integers(-20, 200, size=shape)
        elif n % 3 == 1:
            x = rng.integers(-20, 20, size=shape).astype(float) / 4
        else:
            x = rng.normal(size=shape) * 50
        mask = None
        if n % 2:
            mask = rng.random(shape) < 0.6
            if mask.sum() < 2:
                mask[...] = True
        sel = np.ones(shape, bool) if mask is None else mask
        if x[sel].max() == x[sel].min():
            continue
        replay = {"x": x.tolist(), "bins": bins, "mask": None if mask is None else mask.astype(int).tolist()}
        y, b = hr.clamp(x, bins, mask=mask)
        ck.count(("clamp", n), nontrivial=True, bucket="helpers:clamp")
        if b > bins or b < 1:
            ck.fail("clamp/bins", "adjusted bins %d outside 1..%d" % (b, bins), replay)
        if y[sel].min() < 0 or y[sel].max() > b - 1:
            ck.fail("clamp/range", "clamped values %d..%d outside 0..%d" % (y[sel].min(), y[sel].max(), b - 1), replay)
        if (y[~sel] != -1).any():
            ck.fail("clamp/mask", "masked-out voxels are not -1", replay)
        xs, ys = x[sel].ravel(), y[sel].ravel()
        o = np.argsort(xs, kind="stable")
        if (np.diff(ys[o]) < 0).any():
            ck.fail("clamp/order", "clamp is not order preserving", replay)
        if ys[o][0] != 0:
            ck.fail("clamp/min-not-zero", "the minimum is not mapped to 0", replay)
    for n in range(ck.n(100, 1000)):
        shape = tuple(int(x) for x in rng.integers(1, 6, size=3))
        msk = rng.random(shape) < 0.3
        if msk.sum() == 0:
            msk[tuple(int(rng.integers(s)) for s in shape)] = True
        corner, size = hr.smallest_bounding_box(msk)
        ck.count(("bbox", n), nontrivial=True, bucket="helpers:bbox")
        w = np.where(msk > 0)
        lo = [int(a.min()) for a in w]
        hi = [int(a.max()) + 1 for a in w]
        replay = {"mask": msk.tolist(), "corner": corner.tolist(), "size": size.tolist()}
        if list(corner) != lo:
            ck.fail("bbox/corner", "corner %s is not the smallest masked index %s" % (corner.tolist(), lo), replay)
        # the box [corner, corner+size) clipped to the image must contain the mask ...
        if any(min(corner[k] + size[k], shape[k]) < hi[k] for k in range(3)):
            ck.fail("bbox/misses-mask", "box does not contain the mask", replay)
        # ... and be the smallest such box
        if any(int(size[k]) != hi[k] - lo[k] for k in range(3)):
            ck.fail("bbox/not-smallest", "smallest_bounding_box returns size %s for a mask spanning %s..%s (size should be %s)"
                    % (size.tolist(), lo, hi, [hi[k] - lo[k] for k in range(3)]), replay)
        sl = tuple(slice(int(rng.integers(0, 3)), int(rng.integers(3, 7)), int(rng.integers(1, 4))) for _ in range(3))
        aff = np.diag([2.0, 0.5, 1.0, 1.0])
        aff[:3, 3] = rng.integers(-4, 5, size=3)
        sa = subgrid_affine(aff, sl)
        v = rng.integers(0, 3, size=3)
        lhs = sa @ np.append(v, 1.0)
        rhs = aff @ np.append([sl[k].start + sl[k].step * v[k] for k in range(3)], 1.0)
        if not np.array_equal(lhs, rhs):
            ck.fail("subgrid_affine/spec", "voxel %s of the sub-grid is not voxel start+step*v of the image" % v.tolist(),
                    {"slices": [(s.start, s.stop, s.step) for s in sl], "affine": aff.tolist()})
    # ---- correspondence with the Coq models of the helpers (exact inputs)
    terms, meta = [], []
    for n in range(ck.n(150, 1500)):
        d = int(rng.integers(1, 7))
        if n % 3 == 2 and d % 2 == 0:
            dmax = d // 2                       # a = 1/2: exact half ties, np.round goes to even
        else:
            dmax = d * int(rng.integers(1, 4))  # a integer
        bins = dmax + 1
        size = int(rng.integers(2, 10))
        lo = int(rng.integers(-5, 6))
        x = (lo + rng.integers(0, d + 1, size=size)).astype(float)
        mask = np.ones(size, bool) if n % 2 == 0 else rng.random(size) < 0.7
        mask[0] = mask[-1] = True
        x[0], x[-1] = lo, lo + d
        y, b = hr.clamp(x, bins, mask=None if n % 2 == 0 else mask)
        ck.count(("clamp-model", n), nontrivial=True, bucket="helpers:clamp-model")
        terms.append("zlist_eqb (clamp_model %s %s %s) %s" % (cz(bins), cql([frac(v) for v in x]),
                     "[" + "; ".join("true" if m else "false" for m in mask) + "]", czl([int(v) for v in y])))
        meta.append(("clamp", {"x": x.tolist(), "bins": bins, "mask": mask.tolist(), "y": y.tolist()}))
    for n in range(ck.n(60, 600)):
        shape = tuple(int(v) for v in rng.integers(1, 6, size=3))
        msk = rng.random(shape) < 0.3
        if msk.sum() == 0:
            msk[tuple(int(rng.integers(v)) for v in shape)] = True
        corner, size = hr.smallest_bounding_box(msk)
        w = np.where(msk > 0)
        ck.count(("bbox-model", n), nontrivial=True, bucket="helpers:bbox-model")
        for k in range(3):
            cs = [int(v) for v in w[k]]
            terms.append("(let '(c, s) := bbox_axis %s %s in Z.eqb c %s && Z.eqb s %s)" % (cz(cs[0]), czl(cs[1:]), cz(corner[k]), cz(size[k])))
            meta.append(("bbox", {"mask": msk.astype(int).tolist(), "corner": corner.tolist(), "size": size.tolist()}))
        sl = tuple(slice(int(rng.integers(0, 3)), int(rng.integers(3, 7)), int(rng.integers(1, 4))) for _ in range(3))
        aff = np.eye(4)
        aff[:3, :] = rng.integers(-8, 9, size=(3, 4)) / 4.0
        sa = subgrid_affine(aff, sl)
        rows3 = "[" + "; ".join("(%s, %s, %s, %s)" % tuple(cq(frac(v)) for v in aff[r]) for r in range(3)) + "]"
        terms.append("qmat_eqb (sg_matrix_q %s %s %s %s %s %s %s) %s" % (
            rows3, cq(sl[0].step), cq(sl[1].step), cq(sl[2].step), cq(sl[0].start), cq(sl[1].start), cq(sl[2].start),
            "[" + "; ".join(cql([frac(v) for v in sa[r]]) for r in range(4)) + "]"))
        meta.append(("subgrid_affine", {"affine": aff.tolist(), "slices": [(q.start, q.stop, q.step) for q in sl], "result": sa.tolist()}))
    if ck.build is not None and ck.build.ok:
        res = ck.coq_bools(HDRPY, terms, shard=200, name="helpers")
        ck.cov["traces_validated_against_impl"] += len(res)
        for ok, (what, replay) in zip(res, meta):
            if not ok:
                ck.fail("%s/model-vs-impl" % what, "Coq model of %s and implementation disagree on %s" % (what, replay), replay)
                break
    ck.section("helpers", done=True)


# ------------------------------------------------------------------ field of view / subsampling sequences
def ideal_spacing_def(block, npoints):
    """ideal_spacing as documented in its body: while the block has more than npoints non-negative voxels,
    coarsen the axis with the most samples (ties: first axis wins over later ones as coded)."""
    dims = block.shape
    sp = [1, 1, 1]
    for _ in range(1000):
        if int((block[::sp[0], ::sp[1], ::sp[2]] >= 0).sum()) <= npoints:
            return sp
        dd = [F(dims[k], sp[k]) for k in range(3)]
        if dd[0] >= dd[1] and dd[0] >= dd[2]:
            d = 0
        elif dd[1] > dd[0] and dd[1] >= dd[2]:
            d = 1
        else:
            d = 2
        sp[d] += 1
    raise RuntimeError("ideal_spacing_def does not terminate")


def fov(ck):
    """Sequences of set_fov / subsample calls on ONE registration object (explicit spacing, corner/size, automatic
    spacing from npoints, from_mask bounding box).  After every call: the block `_from_data`, the affine
    `_from_affine`, `_from_npoints` and `_vox_coords` must describe the SAME sub-grid (voxel v of the block is image
    voxel corner + spacing*v), the automatic spacing must respect npoints, and registering the image to itself
    under the identity (and under voxel-lattice translations) must give the histogram of the definition."""
    import nipy.algorithms.registration.histogram_registration as hr
    from nipy.algorithms.registration.affine import Affine
    from nipy.core.api import Image, vox2mni
    from nipy.core.image.image_spaces import xyz_affine
    hr.VERBOSE = False
    rng = ck.rng("fov")
    terms, meta = [], []
    AFFS = [np.eye(4), np.diag([2.0, 1.0, 0.5, 1.0]), np.diag([2.0, 3.0, 1.5, 1.0])]
    for n in range(ck.n(40, 300)):
        shape = tuple(int(v) for v in rng.integers(3, 8, size=3))
        bins = int(rng.integers(2, 7))
        dat = rng.integers(0, bins, size=shape).astype([np.int16, float, np.uint8][n % 3])
        dat.flat[0], dat.flat[-1] = 0, bins - 1
        aff = AFFS[n % 3].copy()
        aff[:3, 3] = rng.integers(-8, 9, size=3)
        img = Image(dat, vox2mni(aff))
        fmask = None
        if n % 4 == 3:
            fmask = rng.random(shape) < 0.5
            fmask.flat[0] = fmask.flat[-1] = True
        try:
            R = hr.HistogramRegistration(img, img, from_bins=bins, from_mask=fmask, similarity="cc", interp="pv")
        except Exception as e:  # noqa
            ck.fail("fov/constructor-raises", "HistogramRegistration raised %s: %s" % (type(e).__name__, e), {"data": dat.tolist()})
            continue
        if not kernel_precondition(ck, R, "fov", {"data": dat.tolist(), "from_bins": bins}):
            continue
        clamped = np.asarray(R._from_img.get_fdata()).astype(int)
        img_aff = np.asarray(xyz_affine(R._from_img))
        nvox = int(np.prod(shape))
        for step in range(4):
            kind = ["constructed", "subsample-npoints", "set_fov-corner-size-npoints", "subsample-spacing",
                    "set_fov-corner-size-spacing", "set_fov-npoints"][(0 if step == 0 else 1 + int(rng.integers(5)))]
            corner, size, spacing, npoints = (0, 0, 0), shape, None, None
            call = "constructor"
            if kind == "subsample-npoints":
                npoints = int(rng.integers(1, nvox + 3))
                call = "R.subsample(npoints=%d)" % npoints
                R.subsample(npoints=npoints)
            elif kind == "subsample-spacing":
                spacing = [int(v) for v in rng.integers(1, 4, size=3)]
                call = "R.subsample(spacing=%s)" % spacing
                R.subsample(spacing=spacing)
            elif kind.startswith("set_fov-corner-size"):
                corner = tuple(int(rng.integers(0, shape[k] - 1)) for k in range(3))
                size = tuple(int(rng.integers(1, shape[k] - corner[k] + 1)) for k in range(3))
                if kind.endswith("npoints"):
                    npoints = int(rng.integers(1, int(np.prod(size)) + 2))
                    call = "R.set_fov(corner=%s, size=%s, npoints=%d)" % (corner, size, npoints)
                    R.set_fov(corner=corner, size=size, npoints=npoints)
                else:
                    spacing = [int(v) for v in rng.integers(1, 4, size=3)]
                    call = "R.set_fov(spacing=%s, corner=%s, size=%s)" % (spacing, corner, size)
                    R.set_fov(spacing=spacing, corner=corner, size=size)
            elif kind == "set_fov-npoints":
                npoints = int(rng.integers(1, nvox + 3))
                call = "R.set_fov(npoints=%d)" % npoints
                R.set_fov(npoints=npoints)
            else:
                if fmask is not None:
                    w = np.where(fmask)
                    corner = tuple(int(a.min()) for a in w)
                    size = tuple(int(a.max()) + 1 - int(a.min()) for a in w)
                npoints = hr.NPOINTS
            replay = {"data": dat.tolist(), "dtype": str(dat.dtype), "affine": aff.tolist(), "from_bins": bins,
                      "from_mask": None if fmask is None else fmask.astype(int).tolist(), "step": step, "call": call,
                      "sequence": "HistogramRegistration(img, img, from_bins, from_mask) then %d fov calls, last: %s" % (step, call)}
            auto = spacing is None
            ck.count(("fov", n, step, kind), nontrivial=True, bucket="fov:%s:%s" % (kind, "auto-spacing" if auto else "explicit"))
            fd = np.asarray(R._from_data)
            # 1. the sub-grid described by _from_affine
            M = np.linalg.solve(img_aff, np.asarray(R._from_affine))
            sp_obs = np.diag(M)[:3]
            off_obs = M[:3, 3]
            if (not np.allclose(M, np.diag(np.diag(M)) + np.pad(M[:3, 3:4], ((0, 1), (3, 0))), atol=1e-9)
                    or not np.allclose(sp_obs, np.round(sp_obs), atol=1e-9) or (np.round(sp_obs) < 1).any()
                    or not np.allclose(off_obs, np.round(off_obs), atol=1e-9) or abs(M[3, 3] - 1) > 1e-9):
                ck.fail("fov/affine-not-a-subgrid", "after %s: inv(image affine) @ _from_affine = %s is not an integer start/step sub-grid" % (call, M.tolist()), replay)
                continue
            sp_obs = [int(v) for v in np.round(sp_obs)]
            off_obs = [int(v) for v in np.round(off_obs)]
            block1 = clamped[corner[0]:corner[0] + size[0], corner[1]:corner[1] + size[1], corner[2]:corner[2] + size[2]]
            sp_exp = list(spacing) if spacing is not None else ideal_spacing_def(block1, npoints)
            exp = clamped[corner[0]:corner[0] + size[0]:sp_exp[0], corner[1]:corner[1] + size[1]:sp_exp[1],
                          corner[2]:corner[2] + size[2]:sp_exp[2]]
            replay.update(expected_spacing=sp_exp, affine_spacing=sp_obs, affine_offset=off_obs, block_shape=list(fd.shape))
            # 2. data and affine must describe the same sub-grid: voxel v of the block is image voxel offset + spacing*v
            idx = np.indices(fd.shape).reshape(3, -1)
            src = [off_obs[k] + sp_obs[k] * idx[k] for k in range(3)]
            inb = all((src[k] >= 0).all() and (src[k] < shape[k]).all() for k in range(3))
            if not inb or not np.array_equal(fd.astype(int).ravel(), clamped[src[0], src[1], src[2]]):
                ck.fail("fov/data-and-affine-disagree/%s" % ("auto-spacing" if auto else "explicit-spacing"),
                        "after %s: _from_data (shape %s) is not the image sampled at offset %s + spacing %s * v as _from_affine says "
                        "(the data were sliced with spacing %s)" % (call, fd.shape, off_obs, sp_obs, sp_exp), replay)
                continue
            if list(off_obs) != list(corner) or fd.shape != exp.shape or not np.array_equal(fd.astype(int), exp):
                ck.fail("fov/block/%s" % ("auto-spacing" if auto else "explicit-spacing"),
                        "after %s: block offset %s / shape %s differ from corner %s and slice(corner, corner+size, %s) -> shape %s"
                        % (call, off_obs, fd.shape, corner, sp_exp, exp.shape), replay)
                continue
            if int(R._from_npoints) != int((fd >= 0).sum()):
                ck.fail("fov/npoints", "after %s: _from_npoints %s != number of non-negative voxels %d" % (call, R._from_npoints, (fd >= 0).sum()), replay)
            if auto and int((fd >= 0).sum()) > npoints:
                ck.fail("fov/auto-spacing-exceeds-npoints", "after %s: %d non-negative voxels in the block, npoints=%d" % (call, (fd >= 0).sum(), npoints), replay)
            if np.asarray(R._vox_coords).shape != fd.shape + (3,):
                ck.fail("fov/vox-coords-shape", "after %s: _vox_coords shape %s, block %s" % (call, np.asarray(R._vox_coords).shape, fd.shape), replay)
            # 3. self registration through eval(T): identity, then a translation by whole/quarter voxels
            Iflat = [int(v) for v in fd.flat]
            Jp = np.asarray(R._to_data).astype(np.int16)
            for tk in range(2):
                tv = [F(0)] * 3 if tk == 0 else [F(int(v), 4) for v in rng.integers(-6, 7, size=3)]
                T = Affine()
                T.translation = [float(tv[k]) * aff[k, k] for k in range(3)]
                for mode in (("pv", "tri") if tk == 0 else ("pv",)):
                    R.interp = mode
                    try:
                        R.eval(T)
                    except Exception as e:  # noqa
                        ck.fail("fov/eval-raises", "after %s: eval raised %s: %s" % (call, type(e).__name__, e), replay)
                        continue
                    H = np.array(R._joint_hist)
                    A = [[F(sp_exp[r]) if r == c else F(0) for c in range(3)] for r in range(3)]
                    coords = coords_of(fd.shape, A, [F(corner[k]) + tv[k] for k in range(3)]).reshape(-1, 3)
                    Hdef, info = ref_hist(Iflat, Jp, coords, mode, H.shape[0], H.shape[1])
                    Hd = np.array([float(v) for v in Hdef]).reshape(H.shape)
                    if np.abs(H - Hd).max() > 1e-6:
                        k = int(np.argmax(np.abs(H - Hd)))
                        ck.fail("fov/eval-differs-from-definition/%s" % ("identity" if tk == 0 else "translation"),
                                "after %s, interp=%s, voxel translation %s: bin %s is %r, the documented mapping (block voxel v <-> image voxel "
                                "corner + spacing*v) gives %r" % (call, mode, [str(v) for v in tv], divmod(k, H.shape[1]), H.ravel()[k], Hd.ravel()[k]),
                                dict(replay, interp=mode, translation_vox=[str(v) for v in tv], H=H.tolist()))
                    if tk == 0:
                        nn = sum(1 for v in Iflat if v >= 0)
                        offd = float(H.sum() - np.trace(H))
                        if offd > 1e-6 or abs(float(np.trace(H)) - nn) > 1e-6:
                            ck.fail("fov/identity-not-diagonal/%s" % ("auto-spacing" if auto else "explicit-spacing"),
                                    "after %s, interp=%s: self registration under the identity has off-diagonal mass %g, trace %g, %d voxels"
                                    % (call, mode, offd, np.trace(H), nn), dict(replay, interp=mode, H=H.tolist()))
            R.interp = "pv"
        # model correspondence: ideal_spacing on this image's clamped data
        npq = int(rng.integers(1, nvox + 2))
        try:
            spi = [int(v) for v in hr.ideal_spacing(clamped.astype(float), npq)]
        except Exception as e:  # noqa
            ck.fail("ideal_spacing/raises", "ideal_spacing raised %s" % e, {"data": clamped.tolist(), "npoints": npq})
            continue
        spd = ideal_spacing_def(clamped, npq)
        if spi != spd:
            ck.fail("ideal_spacing/differs-from-definition", "ideal_spacing %s, definition %s" % (spi, spd), {"data": clamped.tolist(), "npoints": npq})
        terms.append("(match ideal_spacing_loop 300 %s %s %s %s %s 1 1 1 with Some (a, b, c) => Z.eqb a %s && Z.eqb b %s && Z.eqb c %s | None => false end)" % (
            czl(clamped.ravel().tolist()), cz(shape[0]), cz(shape[1]), cz(shape[2]), cz(npq), cz(spi[0]), cz(spi[1]), cz(spi[2])))
        meta.append(("ideal_spacing", {"data": clamped.tolist(), "npoints": npq, "impl": spi}))
        # model correspondence: the slices
        st, sz, stp = int(rng.integers(0, shape[0])), int(rng.integers(1, 9)), int(rng.integers(1, 4))
        got = list(range(shape[0]))[slice(st, st + sz, stp)]
        terms.append("zlist_eqb (fov_axis %s %s %s %s) %s" % (cz(shape[0]), cz(st), cz(sz), cz(stp), czl(got)))
        meta.append(("fov_axis", {"n": shape[0], "corner": st, "size": sz, "spacing": stp, "python": got}))
        if n == 1:
            ck.sample({"section": "fov", "shape": list(shape), "last_call": call, "block_shape": list(fd.shape), "spacing": sp_exp})
    if ck.build is not None and ck.build.ok:
        res = ck.coq_bools(HDRPY, terms, shard=40, name="fov")
        ck.cov["traces_validated_against_impl"] += len(res)
        for ok, (what, replay) in zip(res, meta):
            if not ok:
                ck.fail("%s/model-vs-impl" % what, "Coq model of %s and implementation disagree on %s" % (what, replay), replay)
                break
    ck.section("fov", objects=ck.n(40, 300), calls_per_object=4)


# ------------------------------------------------------------------ object reuse, caller data, slr
ALL_SIMS = ["cc", "cr", "crl1", "mi", "nmi", "pmi", "dpmi", "slr"]


def slr_def(H, q):
    """supervised log-likelihood ratio, as documented: sum H log(max(q / (q_row q_col), TINY)) / sum H with the marginals
    floored at TINY.  On a cell to which the model gives probability ZERO the loss is -log(TINY) (about 708 per count):
    intensity pairs excluded by the model are heavily penalised, never ignored."""
    q = np.asarray(q, dtype=float)
    tiny = float(TINY)
    qr = np.maximum(q.sum(1, keepdims=True), tiny)
    qc = np.maximum(q.sum(0, keepdims=True), tiny)
    with np.errstate(all="ignore"):
        ratio = np.maximum(q / qc / qr, tiny)
    H = np.asarray(H, dtype=float)
    return float(np.sum(H * np.log(ratio)) / max(H.sum(), tiny))


DIST_KINDS = ["dense", "sparse", "band", "empty-row-col", "small-values", "permutation"]


def random_dist(rng, shape, n):
    """A joint distribution model for `slr`, cycling through structural classes: strictly positive; random exact zeros;
    banded (only near-diagonal pairs possible); a whole row and column of zeros (marginal 0 -> TINY floor); entries
    spread over 200 orders of magnitude; one possible partner per intensity."""
    kind = DIST_KINDS[n % len(DIST_KINDS)]
    a, b = shape
    q = rng.random(shape) + 0.05
    if kind == "sparse":
        q[rng.random(shape) < 0.5] = 0.0
    elif kind == "band":
        ii, jj = np.indices(shape)
        q[np.abs(ii * max(b, 1) - jj * max(a, 1)) > max(a, b)] = 0.0
    elif kind == "empty-row-col":
        q[int(rng.integers(a)), :] = 0.0
        q[:, int(rng.integers(b))] = 0.0
    elif kind == "small-values":
        q = q * 10.0 ** rng.integers(-200, 1, size=shape)
    elif kind == "permutation":
        ii, jj = np.indices(shape)
        q[(ii - jj) % min(a, b) != int(rng.integers(0, min(a, b)))] = 0.0
    if q.sum() <= 0:
        q[0, 0] = 1.0
    return q / q.sum(), kind


def reuse(ck):
    """Multi-step use: every measure evaluated repeatedly, several measure / registration objects built from the
    SAME caller arrays (dist model, image data, masks).  Results must not depend on what was evaluated before,
    caller arrays must not be modified, and `slr` must equal its textbook value on every use."""
    import nipy.algorithms.registration.histogram_registration as hr
    from nipy.algorithms.registration import similarity_measures as sm
    from nipy.algorithms.registration.affine import Affine
    from nipy.core.api import Image, vox2mni
    hr.VERBOSE = False
    rng = ck.rng("reuse")
    for n in range(ck.n(60, 600)):
        shape = (int(rng.integers(2, 7)), int(rng.integers(2, 7)))
        H = rng.integers(0, 9, size=shape).astype(float)
        if H.sum() == 0:
            H[0, 0] = 1
        q, qkind = random_dist(rng, shape, n // 2)     # n // 2: every class with renormalize on and off
        q0, H0 = q.copy(), H.copy()
        renorm = bool(n % 2) 
        for name in ALL_SIMS:
            replay = {"measure": name, "renormalize": renorm, "H": H0.tolist(), "dist": q0.tolist() if name == "slr" else None}
            ck.count(("reuse", n, name), nontrivial=True, bucket="reuse:measure:%s" % name)
            try:
                m1 = sm.similarity_measures[name](shape, renorm, q if name == "slr" else None)
                v1 = float(m1(H))
                v1b = float(m1(H))
                v1s = float(m1(H.copy()))
                m2 = sm.similarity_measures[name](shape, renorm, q if name == "slr" else None)
                v2 = float(m2(H))
            except Exception as e:  # noqa
                ck.fail("reuse/raises/%s" % name, "%s raised %s: %s" % (name, type(e).__name__, e), replay)
                continue
            replay.update(first=v1, same_object_again=v1b, second_object=v2)
            if not np.array_equal(H, H0):
                ck.fail("mutates-caller-data/histogram/%s" % name, "measure %s modified the histogram passed to it" % name, replay)
                H = H0.copy()
            if not np.array_equal(q, q0):
                ck.fail("mutates-caller-data/dist/%s" % name, "measure %s modified the caller's `dist` array (max change %g)" % (name, np.abs(q - q0).max()), replay)
                q = q0.copy()
            tol = 1e-12 * max(1.0, abs(v1))
            if abs(v1 - v1b) > tol or abs(v1 - v1s) > tol:
                ck.fail("reuse/same-object-differs/%s" % name, "%s evaluated twice on the same histogram: %r then %r" % (name, v1, v1b), replay)
            if abs(v1 - v2) > tol:
                ck.fail("reuse/second-object-differs/%s" % name,
                        "a second %s measure built from the same arguments returns %r, the first returned %r" % (name, v2, v1), replay)
            if name == "slr":
                want = slr_def(H0, q0)
                if renorm:
                    want *= H0.sum()
                for which, v in (("first", v1), ("second-object", v2)):
                    if abs(v - want) > 1e-9 * max(1.0, abs(want)):
                        onzero = bool(((q0 == 0) & (H0 > 0)).any())
                        ck.fail("measures/slr/%s%s" % (which, "/mass-on-zero-probability-cell-of-dist" if onzero else ""), "slr (%s use of the model, renormalize=%s) is %r, textbook value %r" % (which, renorm, v, want), replay)
    # registration level: two objects / resolution levels sharing the caller's arrays
    for n in range(ck.n(12, 80)):
        sshape = tuple(int(v) for v in rng.integers(3, 6, size=3))
        fb, tb = int(rng.integers(2, 6)), int(rng.integers(2, 6))
        di = rng.integers(0, fb, size=sshape).astype(np.int16)
        dj = rng.integers(0, tb, size=sshape).astype(np.int16)
        di.flat[0], di.flat[-1], dj.flat[0], dj.flat[-1] = 0, fb - 1, 0, tb - 1
        q, qkind = random_dist(rng, (fb, tb), n // 3)  # slr is used when n % 3 == 0
        fmask = rng.random(sshape) < 0.8
        fmask.flat[0] = fmask.flat[-1] = True
        keep = {"from": di.copy(), "to": dj.copy(), "dist": q.copy(), "mask": fmask.copy()}
        I = Image(di, vox2mni(np.eye(4)))
        J = Image(dj, vox2mni(np.eye(4)))
        T = Affine()
        T.translation = [float(F(int(v), 4)) for v in rng.integers(-3, 4, size=3)]
        sim = "slr" if n % 3 == 0 else ALL_SIMS[n % 7]
        vals = []
        for level, spacing in enumerate(([2, 2, 1], [1, 1, 1], [1, 1, 1])):
            replay = {"similarity": sim, "from": keep["from"].tolist(), "to": keep["to"].tolist(), "dist": keep["dist"].tolist(),
                      "from_mask": keep["mask"].astype(int).tolist(), "translation": list(T.translation), "level": level, "spacing": spacing,
                      "sequence": "three HistogramRegistration objects built from the same arrays (levels 0..2), each evaluated twice"}
            ck.count(("reuse-reg", n, level), nontrivial=True, bucket="reuse:registration:%s" % sim)
            try:
                R = hr.HistogramRegistration(I, J, from_bins=fb, to_bins=tb, from_mask=fmask, similarity=sim, interp="pv",
                                             dist=q if sim == "slr" else None)
                if not kernel_precondition(ck, R, "reuse", replay, expect=(fb, tb)):
                    break
                R.subsample(spacing=spacing)
                s1 = float(R.eval(T))
                s2 = float(R.eval(T))
            except Exception as e:  # noqa
                ck.fail("reuse/registration-raises/%s" % sim, "raised %s: %s" % (type(e).__name__, e), replay)
                break
            Hc = np.array(R._joint_hist)
            vals.append(s1)
            if abs(s1 - s2) > 1e-12 * max(1.0, abs(s1)):
                ck.fail("reuse/eval-twice-differs/%s" % sim, "eval(T) twice on one object: %r then %r" % (s1, s2), replay)
            for key, arr in (("from", di), ("to", dj), ("dist", q), ("mask", fmask)):
                if not np.array_equal(arr, keep[key]):
                    ck.fail("mutates-caller-data/%s/registration" % key, "HistogramRegistration(similarity=%s) modified the caller's `%s` array" % (sim, key), replay)
                    arr[...] = keep[key]
            if sim == "slr" and Hc.sum() > 0:
                want = slr_def(Hc, keep["dist"])
                if abs(s1 - want) > 1e-9 * max(1.0, abs(want)):
                    ck.fail("measures/slr/registration-level-%d" % min(level, 1),
                            "'slr' similarity of registration object #%d built from the same dist is %r, textbook value on its own histogram %r" % (level + 1, s1, want),
                            dict(replay, H=Hc.tolist()))
        # ONE registration object evaluated at a sequence of transforms with different overlap (different histogram mass)
        if len(vals) == 3:
            masses = []
            for step in range(4):
                Ts = Affine()
                Ts.translation = [float(F(int(v), 4)) for v in rng.integers(-9, 10, size=3)]
                try:
                    sv = float(R.eval(Ts))
                except Exception as e:  # noqa
                    ck.fail("reuse/registration-raises/%s" % sim, "raised %s: %s" % (type(e).__name__, e), replay)
                    break
                Hs = np.array(R._joint_hist)
                masses.append(float(Hs.sum()))
                ck.count(("reuse-seq", n, step), nontrivial=Hs.sum() > 0, bucket="reuse:registration-sequence:%s" % sim)
                if Hs.sum() <= 0:
                    continue
                want = textbook_any(sim, Hs, keep["dist"])
                if want is not None and (not math.isfinite(sv) or abs(sv - want) > 1e-8 * max(1.0, abs(want))):
                    ck.fail("measures/%s/registration-sequence" % sim,
                            "one HistogramRegistration(similarity=%s) evaluated at a sequence of translations: evaluation #%d (histogram mass %g, "
                            "earlier masses %s) returned %r, textbook value on its own histogram %r" % (sim, step + 1, Hs.sum(), masses[:-1], sv, want),
                            dict(replay, translation=list(Ts.translation), H=Hs.tolist(), value=repr(sv), textbook=want,
                                 sequence="eval at %d different translations on one object" % (step + 1)))
                    break
        if len(vals) == 3 and abs(vals[1] - vals[2]) > 1e-12 * max(1.0, abs(vals[1])):
            ck.fail("reuse/identical-objects-differ/%s" % sim, "two registration objects built identically return %r and %r" % (vals[1], vals[2]), replay)
    ck.section("reuse", measures=ALL_SIMS)


# ------------------------------------------------------------------ dist2loss / slr: model correspondence
HDRLOSS = HDR + "From NV.C09 Require Import ModelLoss.\n"
# exact stand-in for the log oracle (the theorems hold for EVERY function in its place): -1024 on the TINY floor, identity above
STANDIN_COQ = "(fun x : Q => if Qle_bool x (1 # (2 ^ 1000)) then (-1024 # 1)%Q else x)"


class _NumpyTap:
    """Stand-in for the module-level name `np` of similarity_measures.py: every attribute is numpy's; `log` records the
    array it is given (and optionally is replaced by an exact function), so the argument of the log oracle is observed."""

    def __init__(self, real, standin=None):
        self._real, self._standin, self.calls = real, standin, []

    def __getattr__(self, k):
        return getattr(self._real, k)

    def log(self, *a, **kw):
        self.calls.append(([np.array(x, dtype=float) for x in a], sorted(kw)))
        if self._standin is not None and len(a) == 1 and not kw:
            return self._standin(np.asarray(a[0], dtype=float))
        return self._real.log(*a, **kw)


def exact_dist(rng, n):
    """Distribution models on which every float operation of dist2loss is exact: sums of cyclic-shift permutation blocks
    with weights adding up to a power of two (all non-empty row / column sums are the same power of two), embedded in an
    a x b array whose other rows / columns are empty (marginal 0 -> TINY floor), scaled by a power of two."""
    a, b = int(rng.integers(1, 6)), int(rng.integers(1, 6))
    m = int(rng.integers(1, min(a, b) + 1))
    ws = [[1], [1, 1], [1, 3], [2, 1, 1], [5, 3], [1, 2, 5], [4, 2, 1, 1], [7, 1], [3, 3, 1, 1], [1, 1, 1, 1, 4]]
    w = [x for x in ws[int(rng.integers(len(ws)))]][:m]
    if n % 3 == 0:          # strictly positive model: square, every cyclic shift used
        a = b = m = int(rng.integers(1, 5))
        w = [[1], [1, 3], [2, 1, 1], [4, 2, 1, 1]][m - 1]
    while sum(w) & (sum(w) - 1):
        w[0] += 1
    shifts = rng.permutation(m)[:len(w)]
    core = np.zeros((m, m))
    for wk, sk in zip(w, shifts):
        for i in range(m):
            core[i, (i + int(sk)) % m] += wk
    q = np.zeros((a, b))
    ri = np.sort(rng.permutation(a)[:m])
    cj = np.sort(rng.permutation(b)[:m])
    q[np.ix_(ri, cj)] = core
    scale = int(rng.integers(-12, 3)) if n % 5 else int(rng.choice([-600, -60, 40]))
    return q * 2.0 ** scale, scale


def cqmat(M):
    return "[" + "; ".join(cql([frac(float(x)) for x in row]) for row in M) + "]"


def distloss(ck):
    """dist2loss and SupervisedLikelihoodRatio against the Coq model `loss_arg` / `slr_value` (ModelLoss.v):
    (1) the array handed to np.log by the real dist2loss (observed by a tap on the module's `np`) equals `loss_arg` EXACTLY;
    (2) the loss returned is -log of it; (3) SupervisedLikelihoodRatio.__call__ run with an exact stand-in for the log oracle
    equals `slr_value` with the same stand-in EXACTLY (renormalize on / off, one object evaluated on two histograms)."""
    from nipy.algorithms.registration import similarity_measures as sm
    rng = ck.rng("distloss")
    tinyf = float(TINY)
    tiny = cq(TINY)
    standin = lambda x: np.where(x <= 2.0 ** -1000, -1024.0, x)
    terms, meta = [], []
    real_np = sm.np
    try:
        for n in range(ck.n(150, 1500)):
            q, scale = exact_dist(rng, n)
            a, b = q.shape
            zero_cells = int((q == 0).sum())
            ck.count(("distloss", n), nontrivial=True, bucket="distloss:%s" % ("zero-cells" if zero_cells else "positive"))
            replay = {"dist": q.tolist(), "scale": "2**%d" % scale}
            # (1) + (2): the real dist2loss with the real log, argument observed
            tap = _NumpyTap(real_np)
            sm.np = tap
            try:
                L = np.array(sm.dist2loss(q.copy()), dtype=float)
            except Exception as e:  # noqa
                ck.fail("distloss/raises", "dist2loss raised %s: %s" % (type(e).__name__, e), replay)
                continue
            finally:
                sm.np = real_np
            # definition, exact: floored ratio q_ij / (col_j row_i)
            cs = [max(sum(frac(float(x)) for x in q[:, j]), TINY) for j in range(b)]
            rs = [max(sum(frac(float(x)) for x in q[i, :]), TINY) for i in range(a)]
            arg = [[max(frac(float(q[i, j])) / cs[j] / rs[i], TINY) for j in range(b)] for i in range(a)]
            want = np.array([[-math.log(x) for x in row] for row in arg])
            if L.shape != q.shape or not np.all(np.isfinite(L)) or np.abs(L - want).max() > 1e-12 * 1024:
                bad = "zero-probability-cell" if zero_cells and L.shape == q.shape and np.abs(L - want)[q == 0].max(initial=0) > 1e-9 else "cell"
                ck.fail("distloss/loss-differs-from-definition/%s" % bad,
                        "dist2loss returned %s, definition -log(max(q/(q_col q_row), TINY)) = %s" % (L.tolist(), want.tolist()),
                        dict(replay, loss=L.tolist(), definition=want.tolist()))
                continue
            plain = [c for c in tap.calls if len(c[0]) == 1 and not c[1] and c[0][0].shape == q.shape]
            if len(tap.calls) != 1 or len(plain) != 1:
                ck.fail("distloss/log-argument-not-observable", "dist2loss no longer makes exactly one plain np.log(array) call "
                        "(%d calls, keyword arguments %s): the model of its argument (ModelLoss.loss_arg) must be revisited"
                        % (len(tap.calls), [c[1] for c in tap.calls]), replay)
                continue
            A = plain[0][0][0]
            if [[frac(float(x)) for x in row] for row in A] != arg:
                ck.fail("distloss/log-argument-differs-from-definition", "argument of log %s, definition %s" % (A.tolist(), [[float(x) for x in r] for r in arg]), replay)
                continue
            terms.append("qmat_eqb (loss_arg %s %s %s) %s" % (tiny, cnat(b), cqmat(q), cqmat(A)))
            meta.append(("distloss/log-argument", dict(replay, log_argument=A.tolist())))
            # (3) the measure with the exact stand-in for log: one object, two histograms
            if abs(scale) > 12:
                continue
            renorm = bool(n % 2)
            tap = _NumpyTap(real_np, standin)
            sm.np = tap
            try:
                m = sm.SupervisedLikelihoodRatio(q.shape, renorm, q.copy())
                for step in range(2):
                    H = rng.integers(0, 5, size=q.shape).astype(float)
                    if not renorm:          # total a power of two: the final division is exact
                        H[0, 0] += 1
                        while int(H.sum()) & (int(H.sum()) - 1):
                            H[0, 0] += 1
                    v = float(m(H.copy()))
                    ck.count(("distloss-call", n, step), nontrivial=True, bucket="distloss:slr-call:%s" % ("renormalize" if renorm else "mean"))
                    terms.append("Qeq_bool (slr_value %s %s %s %s %s %s) %s" % (STANDIN_COQ, tiny, cbool(renorm), cnat(b), cqmat(H), cqmat(q), cq(frac(v))))
                    meta.append(("distloss/slr-call", dict(replay, H=H.tolist(), renormalize=renorm, value_with_standin_log=v, evaluation=step + 1)))
            except Exception as e:  # noqa
                ck.fail("distloss/slr-raises", "SupervisedLikelihoodRatio raised %s: %s" % (type(e).__name__, e), replay)
            finally:
                sm.np = real_np
    finally:
        sm.np = real_np
    if ck.build is not None and ck.build.ok:
        res = ck.coq_bools(HDRLOSS, terms, shard=200, name="distloss")
        ck.cov["traces_validated_against_impl"] += len(res)
        for ok, (what, replay) in zip(res, meta):
            if not ok:
                ck.fail("%s/model-vs-impl" % what, "Coq model (ModelLoss.v) and implementation disagree on %s" % replay, replay)
                break
    ck.section("distloss", model_terms=len(terms), standin_for_log="-1024 at or below 2^-1000, identity above")
    ck.trust.append("np.log is an oracle: the model is parametric in it; dist2loss's log argument is observed by replacing the "
                    "module-level name `np` of similarity_measures at run time (no source hook)")


OPTIMIZERS = ["simplex", "powell", "cg", "bfgs", "steepest"]
OPT_SIMS = ["cc", "cr", "crl1", "mi", "nmi"]


def optimize(ck):
    """Optimisation clause.  For every optimizer the class supports x similarity measure x {default callback,
    user callback} x {VERBOSE on, off} x {start already optimal with non-zero parameters, perturbed start}:
      * the returned transform's similarity is not lower than that of the starting transform;
      * the returned transform carries exactly the parameter vector the optimiser RETURNED (captured by wrapping
        `configure_optimizer` in the module at run time), not e.g. the last point the cost function saw;
      * the optimiser contract assumed by `optimize_not_worse_partial` (returned point not worse than x0) holds."""
    import contextlib
    import functools
    import io
    import nipy.algorithms.registration.histogram_registration as hr
    from nipy.algorithms.registration.affine import Rigid
    from nipy.core.api import Image, vox2mni
    rng = ck.rng("optimize")
    rec = {}
    orig_cfg = hr.configure_optimizer
    orig_verbose = hr.VERBOSE

    def cfg(optimizer, **kw):
        fmin, args, kwargs = orig_cfg(optimizer, **kw)

        @functools.wraps(fmin)
        def wrapped(cost, x0, *a, **k):
            evals = []

            def c(x):
                v = cost(x)
                evals.append(np.array(x, dtype=float).copy())
                return v
            r = fmin(c, x0, *a, **k)
            rec["ret"] = np.array(r, dtype=float).copy()
            rec["evals"] = evals
            rec["x0"] = np.array(x0, dtype=float).copy()
            return r
        return wrapped, args, kwargs

    # tiny smooth volume; the `to` image is the same anatomy with a shifted world origin
    shape = (7, 8, 6)
    g = np.indices(shape).astype(float)
    base = np.floor(6 * np.exp(-((g[0] - 3) ** 2 / 5 + (g[1] - 3.5) ** 2 / 8 + (g[2] - 2) ** 2 / 4))
                    + 2 * np.sin(g[0] + 0.5 * g[1]) ** 2 + g[2] / 3)
    combos = [(cb, vb, st) for cb in (False, True) for vb in (True, False) for st in ("optimal", "perturbed")]
    runs = []
    if ck.thorough():
        for opt in OPTIMIZERS:
            for sim in OPT_SIMS:
                for cmb in combos:
                    runs.append((opt, sim) + cmb)
    else:
        k = 0
        for opt in OPTIMIZERS:
            for j, cmb in enumerate(combos):          # every optimizer sees all 8 settings, measures rotate
                for rep in range(2):
                    runs.append((opt, OPT_SIMS[k % len(OPT_SIMS)]) + cmb)
                    k += 1
    # nipy's own optimiser on a function whose gradient vanishes at x0 must return x0
    from nipy.algorithms.optimize import fmin_steepest
    for name, f, x0 in (("constant", lambda x: 0.0, np.zeros(2)),
                        ("piecewise-constant", lambda x: float(np.sum(np.round(x) ** 2)), np.array([0.2, 0.1]))):
        ck.count(("steepest-flat", name), nontrivial=True, bucket="optimize:fmin_steepest-flat")
        try:
            with contextlib.redirect_stdout(io.StringIO()):
                r = np.asarray(fmin_steepest(f, x0, disp=False))
            if not (np.all(np.isfinite(r)) and f(r) <= f(x0)):
                ck.fail("steepest/zero-gradient-wrong", "fmin_steepest on a %s function returned %s from %s" % (name, r.tolist(), x0.tolist()),
                        {"function": name, "x0": x0.tolist()})
        except Exception as e:  # noqa
            ck.fail("steepest/zero-gradient-raises", "fmin_steepest(f, x0) with f %s (zero gradient at x0=%s) raised %s: %s"
                    % (name, x0.tolist(), type(e).__name__, str(e)[:120]), {"function": name, "x0": x0.tolist()})
    hr.configure_optimizer = cfg
    try:
        for n, (opt, sim, user_cb, verbose, start) in enumerate(runs):
            dat = base + rng.integers(0, 2, size=shape)
            shift = np.eye(4)
            shift[:3, 3] = [float(v) for v in rng.integers(-1, 2, size=3)]
            if not shift[:3, 3].any():
                shift[0, 3] = 1.0
            fim = Image(dat, vox2mni(np.eye(4)))
            tim = Image(dat, vox2mni(shift))
            interp = ["pv", "tri"][n % 2]
            hr.VERBOSE = verbose
            T0 = Rigid()
            T0.translation = shift[:3, 3].copy()       # exact solution, non-zero parameters
            if start == "perturbed":
                T0.translation = shift[:3, 3] + np.array([0.4, -0.3, 0.2])
                T0.rotation = np.array([0.02, -0.01, 0.015])
            seen = []
            kw = {"maxiter": 40, "maxfun": 120} if opt == "simplex" else {"maxiter": 2, "maxfun": 150}
            if user_cb:
                kw["callback"] = lambda tc: seen.append(1)
            replay = {"optimizer": opt, "similarity": sim, "interp": interp, "user_callback": user_cb, "VERBOSE": verbose,
                      "start": start, "start_param": T0.param.tolist(), "from=to data": dat.tolist(),
                      "to_affine": shift.tolist(), "kwargs": {k: v for k, v in kw.items() if k != "callback"},
                      "call": "HistogramRegistration(I, J, from_bins=8, similarity, interp).optimize(Rigid(start), optimizer, **kwargs)"}
            rec.clear()
            try:
                with contextlib.redirect_stdout(io.StringIO()):
                    R = hr.HistogramRegistration(fim, tim, from_bins=8, similarity=sim, interp=interp)
                    if not kernel_precondition(ck, R, "optimize", replay):
                        continue
                    s0 = float(R.eval(T0))
                    T = R.optimize(T0.copy(), optimizer=opt, **kw)
                    s1 = float(R.eval(T))
            except Exception as e:  # noqa
                if opt == "steepest" and (type(e).__name__ == "BracketError" or "infs or NaNs" in str(e)):
                    # fmin_steepest normalises the gradient without checking that it is non-zero
                    ck.fail("steepest/zero-gradient-raises",
                            "optimize(optimizer='steepest', %s, %s) from a %s start where the numerical gradient vanishes "
                            "(already optimal, or piecewise-constant cost) raised %s: %s" % (sim, interp, start, type(e).__name__, e), replay)
                else:
                    ck.fail("optimize/raises/%s" % opt, "optimize raised %s: %s" % (type(e).__name__, e), replay)
                continue
            ck.count(("opt", n, opt, sim, user_cb, verbose, start), nontrivial=True,
                     bucket="optimize:%s:%s" % (opt, start))
            if "ret" not in rec:
                ck.fail("optimize/optimizer-not-called/%s" % opt, "optimize did not run the optimiser returned by configure_optimizer", replay)
                continue
            T2 = T0.copy()
            T2.param = rec["ret"]
            with contextlib.redirect_stdout(io.StringIO()):
                s_ret = float(R.eval(T2))
            replay.update(start_similarity=s0, result_similarity=s1, result_param=np.asarray(T.param).tolist(),
                          optimizer_returned=rec["ret"].tolist(), similarity_at_optimizer_return=s_ret,
                          cost_evaluations=len(rec["evals"]),
                          last_evaluated=rec["evals"][-1].tolist() if rec["evals"] else None)
            if not np.array_equal(np.asarray(T.param), np.asarray(T2.param)):
                last = rec["evals"] and np.array_equal(np.asarray(T.param), np.asarray(_with_param(T0, rec["evals"][-1]).param))
                ck.fail("optimize/result-is-not-optimizer-return/%s" % ("user-callback" if user_cb else ("verbose" if verbose else "silent")),
                        "optimize(%s, %s): the returned transform has parameters %s but the optimiser returned %s%s; similarity %r vs %r at the optimiser's point (start %r)"
                        % (opt, sim, np.asarray(T.param).tolist(), np.asarray(T2.param).tolist(),
                           " (it carries the LAST point the cost function evaluated)" if last else "", s1, s_ret, s0), replay)
            if not s1 >= s0 - 1e-12:
                ck.fail("optimize/worse-than-start/%s" % start,
                        "optimize(%s, %s, %s, user callback=%s, VERBOSE=%s) from a %s start returned similarity %r < starting similarity %r"
                        % (opt, sim, interp, user_cb, verbose, start, s1, s0), replay)
            if not s_ret >= s0 - 1e-12:
                ck.fail("optimize/optimizer-contract/%s" % opt,
                        "oracle contract violated: %s returned a point with similarity %r < similarity at x0 %r" % (opt, s_ret, s0), replay)
            if n == 5:
                ck.sample({"section": "optimize", **{k: replay[k] for k in ("optimizer", "similarity", "interp", "user_callback", "VERBOSE", "start", "start_similarity", "result_similarity")}})
    finally:
        hr.configure_optimizer = orig_cfg
        hr.VERBOSE = orig_verbose
    ck.section("optimize", runs=len(runs), optimizers=OPTIMIZERS, similarities=OPT_SIMS,
               settings="callback {default,user} x VERBOSE {on,off} x start {optimal non-zero, perturbed}")
    ck.trust.append("scipy.optimize (fmin, fmin_powell, fmin_cg, fmin_bfgs) and nipy fmin_steepest are oracles: the contract "
                    "'returned point not worse than x0' assumed by optimize_not_worse_partial is sampled on every run "
                    "(optimize/optimizer-contract)")


def _with_param(T, p):
    T2 = T.copy()
    T2.param = p
    return T2


def run(ck):
    ck.cov["rule"] = ("kernel: random source/target volumes (1..3 per side quick, 1..5 thorough; intensities 0..c-1, -1 for "
                      "masked/padding; bins 2..5) x 9 transform kinds on the quarter-voxel lattice (identity self-registration, "
                      "shifts inside/partly/fully outside, flips, shears, scalings, exact-border shifts, general) x mask "
                      "placement x {pv, tri, rand with the seed's Wichmann-Hill stream}; eval: the same through "
                      "HistogramRegistration with float images, bins, masks; l1/measures: random histograms (integer, dyadic, "
                      "sparse, exact-half ties); non-trivial when at least one source voxel contributes / the histogram is "
                      "non-empty; distinct by (section, case index)")
    ck.coq_build()
    ck.overlay()
    kernel(ck)
    rand_fault(ck)
    if getattr(ck, "kernel_unsafe", False):
        ck.note("the compiled kernel crashed in the isolated worker: the in-process sections eval/optimize were skipped")
    else:
        evalpath(ck)
        fov(ck)
    moments_and_measures(ck)
    if not getattr(ck, "kernel_unsafe", False):
        many_bins(ck)
    reuse(ck)
    nonsquare_measures(ck)
    distloss(ck)
    helpers(ck)
    if not getattr(ck, "kernel_unsafe", False):
        optimize(ck)
    ck.trust.append("Wichmann-Hill stream: replicated in Python (libc srand/rand for the seeding) and fed to the model; "
                    "the draw sumW*u is evaluated exactly in the model (the C product is rounded: a disagreement needs a "
                    "cumulative weight within 1e-16 of the draw)")
    ck.trust.append("C doubles are modelled as exact rationals: the correspondence only uses inputs (quarter-voxel lattice, "
                    "small integers) on which every double operation of the kernel is exact; (int) casts assumed in int range")
