"""C05 - linear-model fits are least-squares optimal and implementation-independent.

Sections
  whiten   exact correspondence of ARModel/WLSModel/GLSModel.whiten with the Gallina
           loops (dyadic AR coefficients, perfect-square weights: every float op exact)
  fit      every engine (models OLS/AR/WLS/GLS, fMRI GeneralLinearModel ols, labs glm ols
           axis 0/1) against the exact rational least-squares fit computed in Coq by the
           certified solver (|diff| <= 1e-8 (1+|exact|)); OLS fit algebra with numpy's pinv
           threaded into the model; dof and shapes exact
  glm_ar1  GeneralLinearModel 'ar1': labels against exact ar1*steps, per-label refit and
           scatter against the model (glm_get/glm_results)
  oracles  the property statement evaluated on the implementation's outputs, independent of
           Coq: normal equations / orthogonality, optimality against perturbations,
           reparametrisation, voxel order / grouping, rescaling, degenerate whiteners,
           engine agreement (incl. labs kalman from the installed module), labs axis handling
  conditioning  every engine on full-rank designs of large norm / cond 1e2..1e10 (raw-index polynomial drifts + task,
           columns scaled by 2^-25..2^25, nearly collinear columns): fitted values, s2, dof against the exact rational fit,
           residual/design cosines, column-rescaling invariance, engine agreement incl. t; pinv call sites translated
  gls      GLSModel with correlated covariances (exactly factored Sigma^-1 = L L' with dyadic L, Toeplitz rho^|i-j|, A A' + I):
           whitener is a factor of Sigma^-1 and equals L', generalised normal equations, generalised RSS, optimality,
           closed form, exact fit whitened with L' evaluated in Coq
  pos_recipr matrices.pos_recipr over the whole float range: translated threshold (Generated/PosRecipr.v),
           exact correspondence on +-2^k (k -1000..1000) and zeros, decimal magnitudes 1e-300..1e290
  stat_scale t / F / t() statistics of models OLS/AR/WLS, fMRI GLM and labs glm contrasts on data scaled by
           2^e (e -50..40) and 10^d (d -15..6): statistics invariant, effect/sd equivariant, t = effect/sd,
           engines agree at every scale
  labs_contrast  labs glm.contrast on voxel grids (0..3 voxel axes, every fit axis): exact correspondence of the F-contrast
           covariance broadcast (resize / .T / reshape) with ConModel.z_labs_fcon_variance; on real fits (ols, kalman, ar1)
           every voxel carries s2[v] * c nvbeta[v] c' and variance / F / t do not depend on grid-vs-flat layout or voxel order
  kalman_c the CURRENT lib/fff/fff_glm_kalman.c driven through ctypes on libcstat.so (KF_new / _reset /
           _iterate row by row, KF_fit, RKF_fit): Gallina recursion (Model.kf_step) vs C, batch
           regularised / OLS solutions, ssd/t and dof conventions, RKF against the installed wrapper
"""
from fractions import Fraction

import numpy as np

from ..kit import cz, czl, cnat, cq, clist

HDR = ("From Coq Require Import List ZArith QArith Qcanon.\n"
       "From NV.Lib Require Import RingMat C05Lin Harness.\n"
       "From NV.C05 Require Import Model ConModel.\n")
TOL = "(Qmake 1 100000000)"          # 1e-8
TOLA = "(Qmake 1 1000000000)"        # 1e-9 (fit algebra with pinv threaded in)
RT = 1e-8


# ---------------------------------------------------------------- literals
def zm(A):
    A = np.asarray(A)
    return "(zmat %s)" % clist([czl([int(v) for v in row]) for row in A])


def qm(A):
    A = np.asarray(A, dtype=float)
    return "(qmat %s)" % clist([clist([cq(float(v)) for v in row]) for row in A])


def qv(a):
    return "(qvec %s)" % clist([cq(float(v)) for v in np.asarray(a, dtype=float).ravel()])


def zv(a):
    return "(zvec %s)" % czl([int(v) for v in a])


def qs(x):
    return "(Q2Qc %s)" % cq(float(x))


def qfr(fr):
    fr = Fraction(fr)
    return "(qfrac %s %d)" % (cz(fr.numerator), fr.denominator)


def col2(y):
    y = np.asarray(y)
    return y[:, None] if y.ndim == 1 else y


# ---------------------------------------------------------------- exact rational least squares (python)
def exact_ls(X, y):
    """Exact solution of the normal equations with Fractions; None if singular."""
    X = [[Fraction(v) for v in row] for row in X]
    y = [Fraction(v) for v in y]
    n, p = len(X), len(X[0])
    A = [[sum(X[t][i] * X[t][j] for t in range(n)) for j in range(p)] + [sum(X[t][i] * y[t] for t in range(n))]
         for i in range(p)]
    for k in range(p):
        piv = next((r for r in range(k, p) if A[r][k] != 0), None)
        if piv is None:
            return None
        A[k], A[piv] = A[piv], A[k]
        A[k] = [v / A[k][k] for v in A[k]]
        for r in range(p):
            if r != k and A[r][k] != 0:
                f = A[r][k]
                A[r] = [a - f * b for a, b in zip(A[r], A[k])]
    b = [A[i][p] for i in range(p)]
    res = [y[t] - sum(X[t][j] * b[j] for j in range(p)) for t in range(n)]
    return b, res, sum(r * r for r in res)


def fr_mat(A):
    return [[Fraction(*float(v).as_integer_ratio()) for v in row] for row in np.asarray(A, dtype=float)]


def close(a, b, tol=RT):
    a = np.asarray(a, dtype=float)
    b = np.asarray(b, dtype=float)
    return a.shape == b.shape and bool(np.all(np.abs(a - b) <= tol * (1 + np.abs(b))))


# ---------------------------------------------------------------- generators
def rand_unimodular(rng, p):
    M = np.eye(p, dtype=np.int64)
    for _ in range(int(rng.integers(1, 5))):
        i, j = rng.integers(0, p, 2)
        if i != j:
            M[i] += int(rng.integers(-2, 3)) * M[j]
    M = M[rng.permutation(p)]
    if rng.random() < 0.4:
        M[int(rng.integers(0, p))] *= -1
    return M


def rand_design(rng, n, p):
    """integer, full column rank, moderate conditioning"""
    for _ in range(200):
        X = rng.integers(-3, 4, (n, p)).astype(np.int64)
        if rng.random() < 0.7:
            X[:, 0] = 1
        if p > 1 and rng.random() < 0.3:
            X[:, 1] = np.arange(n) - n // 2
        Xf = X.astype(float)
        if np.linalg.matrix_rank(Xf) == p and np.linalg.cond(Xf) < 200:
            return X
    X = np.zeros((n, p), dtype=np.int64)
    X[:p, :p] = np.eye(p, dtype=np.int64)
    X[p:, 0] = 1
    return X


def rand_data(rng, n, V, X=None):
    Y = rng.integers(-9, 10, (n, V)).astype(np.int64)
    if rng.random() < 0.5:                       # autocorrelated voxels, so AR(1) labels spread
        Y = np.cumsum(Y, axis=0)
        Y = np.clip(Y, -40, 40)
    if X is not None and rng.random() < 0.3:
        Y = Y + X[:, [0]] * int(rng.integers(-3, 4))
    # no voxel may lie exactly in the column space with zero residual (ar1 = 0/0): keep residuals non-zero
    return Y


def dims(rng, ck, i):
    nmax = 30 if ck.thorough() else 16
    n = int(rng.integers(3, nmax + 1)) if i > 8 else 3 + i % 6
    p = int(rng.integers(1, min(n - 1, 5) + 1))
    V = int(rng.integers(1, 9))
    return n, p, V


# ---------------------------------------------------------------- sections
class Ctx:
    def __init__(self, ck):
        self.ck = ck
        self.terms = []
        self.meta = []

    def term(self, t, sig, what, replay, show=None):
        self.terms.append(t)
        self.meta.append((sig, what, replay, show))

    def flush(self):
        ck = self.ck
        if not (ck.build is not None and ck.build.ok) or not self.terms:
            return
        res = ck.coq_bools(HDR, self.terms, shard=40)
        ck.cov["traces_validated_against_impl"] += len(res)
        seen = set()
        for ok, (sig, what, replay, show) in zip(res, self.meta):
            if not ok:
                if sig not in seen and show is not None:
                    seen.add(sig)
                    try:
                        replay = dict(replay, model=ck.coq_show(HDR, show)[:3000])
                    except Exception as e:  # noqa
                        replay = dict(replay, model="(coq_show failed: %s)" % e)
                ck.fail(sig, what, replay)


def whiten_section(ck, cx):
    from nipy.algorithms.statistics.models.regression import ARModel, WLSModel, GLSModel
    rng = ck.rng("whiten")
    N = ck.n(60, 300)
    for i in range(N):
        n, p, V = dims(rng, ck, i)
        X = rand_design(rng, n, p)
        Y = rand_data(rng, n, V)
        order = int(rng.integers(1, 4))
        den = int(rng.choice([2, 4, 8, 16]))
        rho = [Fraction(int(rng.integers(-den + 1, den)), den) for _ in range(order)]
        if i % 7 == 0:
            rho = [Fraction(0)] * order
        rhof = [float(r) for r in rho]
        m = ARModel(X.astype(float), rhof if order > 1 or i % 2 else rhof[0])
        for name, A in (("design", X), ("data", Y), ("vector", Y[:, 0])):
            A0 = np.array(A, dtype=float)
            W = m.whiten(A0)
            ck.count(("arw", n, order, tuple(rho), A.tobytes()), nontrivial=any(rho), bucket="whiten:ar%d" % order)
            if W.shape != A0.shape:
                ck.fail("whiten/ar-shape", "ARModel.whiten changes the shape %s -> %s" % (A0.shape, W.shape),
                        {"rho": rhof, "A": A.tolist()})
                continue
            if not np.array_equal(A0, np.asarray(A, dtype=float)):
                ck.fail("whiten/ar-mutates-input", "ARModel.whiten modified its argument", {"rho": rhof, "A": A.tolist()})
            # property oracle (independent restatement): row t = x_t - sum_{i<order, i+1<=t} rho_i x_{t-i-1}
            A2 = col2(A)
            exp = [[Fraction(int(v)) for v in row] for row in A2]
            for t in range(n):
                for k_, r in enumerate(rho):
                    if t - k_ - 1 >= 0:
                        exp[t] = [e - r * int(a) for e, a in zip(exp[t], A2[t - k_ - 1])]
            if fr_mat(col2(W)) != exp:
                ck.fail("whiten/ar-lag-structure/order%d" % order,
                        "ARModel.whiten(%s) is not x_t - sum_i rho_i x_(t-i-1)" % name,
                        {"rho": [str(r) for r in rho], "A": A2.tolist(), "whitened": col2(W).tolist()})
            if not any(rho) and not np.array_equal(W, A0):
                ck.fail("whiten/ar-zero-not-identity", "ARModel with zero coefficients changes the data",
                        {"rho": rhof, "A": A2.tolist()})
            t_ = "qcmat_eqb (q_ar_whiten %s %s) %s" % (clist([qfr(r) for r in rho]), zm(A2), qm(col2(W)))
            cx.term(t_, "model-vs-impl/ar-whiten", "Gallina ar_whiten and ARModel.whiten disagree (%s)" % name,
                    {"rho": [str(r) for r in rho], "A": A2.tolist(), "impl": col2(W).tolist()},
                    "map (map this) (q_ar_whiten %s %s)" % (clist([qfr(r) for r in rho]), zm(A2)))
        # WLS: perfect-square weights (sqrt exact)
        c = rng.integers(1, 6, n)
        if i % 5 == 0:
            c[:] = 1
        w = (c * c).astype(float)
        if not np.array_equal(np.sqrt(w), c.astype(float)):
            ck.fail("oracle-contract/sqrt", "numpy sqrt is not exact on a perfect square", {"w": w.tolist()})
        wm = WLSModel(X.astype(float), weights=w)
        for name, A in (("design", X), ("vector", Y[:, 0])):
            W = wm.whiten(np.array(A, dtype=float))
            ck.count(("wlsw", n, tuple(c), A.tobytes()), nontrivial=bool(np.any(c != 1)), bucket="whiten:wls")
            A2 = col2(A)
            if W is None or not np.array_equal(col2(W), A2 * c[:, None].astype(float)):
                ck.fail("whiten/wls-row-scaling", "WLSModel.whiten is not row scaling by sqrt(weights)",
                        {"weights": w.tolist(), "A": A2.tolist(), "whitened": None if W is None else col2(W).tolist()})
                continue
            cx.term("qcmat_eqb (q_wls_whiten %s %s) %s" % (zv(c), zm(A2), qm(col2(W))),
                    "model-vs-impl/wls-whiten", "Gallina wls_whiten and WLSModel.whiten disagree (%s)" % name,
                    {"c": c.tolist(), "A": A2.tolist(), "impl": col2(W).tolist()})
        # GLS: whitener threaded in (cholesky/pinv oracle), product compared at 1e-9
        sigma = np.diag(1.0 / w) if i % 3 else np.eye(n)
        gm = GLSModel(X.astype(float), sigma)
        C = np.asarray(gm.cholsigmainv)
        Wg = gm.whiten(Y.astype(float))
        ck.count(("glsw", n, tuple(c), Y.tobytes()), bucket="whiten:gls")
        cx.term("mclose %s (q_gls_whiten %s %s %s) %s" % (TOLA, cnat(V), qm(C), zm(Y), qm(Wg)),
                "model-vs-impl/gls-whiten", "Gallina gls_whiten (C . Y) and GLSModel.whiten disagree",
                {"C": C.tolist(), "Y": Y.tolist(), "impl": Wg.tolist()})
        target = np.eye(n) if i % 3 == 0 else np.diag(c.astype(float))
        if not close(C, target, 1e-10):
            ck.fail("oracle-contract/cholsigmainv", "cholesky(pinv(sigma)).T is not the expected diagonal whitener",
                    {"sigma_diag": np.diag(sigma).tolist(), "C": C.tolist()})
    ck.section("whiten", cases=N)


def engines(ck, X, Y, rep):
    """name -> (beta p x V, s2 V, dof, object) for every OLS-equivalent engine; an engine that raises is reported"""
    from nipy.algorithms.statistics.models.regression import OLSModel
    from nipy.modalities.fmri.glm import GeneralLinearModel
    from nipy.labs.glm import glm as labs
    Xf, Yf = X.astype(float), Y.astype(float)
    out = {}

    def e_ols():
        r = OLSModel(Xf).fit(Yf)
        out["models.OLSModel"] = (r.theta, r.dispersion, r.df_resid, r)
        out["models.OLSModel.MSE"] = (r.theta, r.MSE, r.df_resid, r)

    def e_glm():
        g = GeneralLinearModel(Xf)
        g.fit(Yf, "ols")
        out["fmri.GeneralLinearModel.ols"] = (g.get_beta(), g.get_mse(), list(g.results_.values())[0].df_resid, g)

    def e_labs0():
        G = labs.glm(Yf, Xf)
        out["labs.glm.ols.axis0"] = (G.beta, np.atleast_1d(G.s2), G.dof, G)

    def e_labs1():
        G1 = labs.glm(np.ascontiguousarray(Yf.T), Xf, axis=1)
        out["labs.glm.ols.axis1"] = (G1.beta.T, np.atleast_1d(G1.s2), G1.dof, G1)

    for nm, fn in (("models.OLSModel", e_ols), ("fmri.GeneralLinearModel.ols", e_glm), ("labs.glm.ols.axis0", e_labs0),
                   ("labs.glm.ols.axis1", e_labs1)):
        try:
            fn()
        except Exception as e:  # noqa
            ck.fail("%s/raises" % nm, "%s raised %s: %s" % (nm, type(e).__name__, e), rep)
    return out


def check_fit_oracles(ck, name, wX, wY, beta, s2, dof, replay):
    """property statement on one engine's output, exact data wX, wY (Fractions or ints as float arrays)"""
    n, p = wX.shape
    beta = np.asarray(beta, dtype=float)
    V = wY.shape[1]
    if beta.shape != (p, V) or np.asarray(s2).shape != (V,):
        ck.fail("%s/shape" % name, "beta/s2 have shapes %s/%s, expected (%d,%d)/(%d,)" % (beta.shape, np.asarray(s2).shape, p, V, V), replay)
        return False
    if float(dof) != n - p:
        ck.fail("%s/dof" % name, "residual degrees of freedom %r != n - p = %d" % (dof, n - p), replay)
    res = wY - wX @ beta
    scale = 1 + np.abs(wX).max() * np.abs(wY).max() * n
    if np.abs(wX.T @ res).max() > 1e-8 * scale:
        ck.fail("%s/normal-equations" % name, "whitened residuals are not orthogonal to the whitened design", replay)
    rss = (res ** 2).sum(0)
    if not close(np.asarray(s2, dtype=float) * (n - p), rss, 1e-8):
        ck.fail("%s/s2-not-rss-over-n-minus-p" % name, "s2 * (n-p) = %s but RSS = %s" % ((np.asarray(s2) * (n - p)).tolist(), rss.tolist()), replay)
    return True


def fit_section(ck, cx):
    from nipy.algorithms.statistics.models.regression import OLSModel, ARModel, WLSModel, GLSModel
    from nipy.labs.glm import glm as labs
    rng = ck.rng("fit")
    N = ck.n(70, 400)
    kalman_ok = 0
    for i in range(N):
        n, p, V = dims(rng, ck, i)
        X = rand_design(rng, n, p)
        Y = rand_data(rng, n, V, X)
        Xf, Yf = X.astype(float), Y.astype(float)
        rep = {"X": X.tolist(), "Y": Y.tolist()}
        ck.count(("fit", X.tobytes(), Y.tobytes()), bucket="fit:n%s:p%d" % ("<=8" if n <= 8 else ">8", p))
        ex = [exact_ls(X.tolist(), Y[:, v].tolist()) for v in range(V)]
        eng = engines(ck, X, Y, rep)
        if "models.OLSModel" not in eng or "labs.glm.ols.axis0" not in eng:
            continue
        ref_beta = np.array([[float(e[0][j]) for e in ex] for j in range(p)])
        ref_s2 = np.array([float(e[2] / (n - p)) for e in ex])
        for name, (beta, s2, dof, obj) in eng.items():
            if not check_fit_oracles(ck, name, Xf, Yf, beta, s2, dof, rep):
                continue
            if not close(beta, ref_beta) or not close(s2, ref_s2):
                ck.fail("%s/differs-from-exact-least-squares" % name,
                        "beta/s2 differ from the exact rational solution beyond 1e-8", dict(rep, beta=np.asarray(beta).tolist(), s2=np.asarray(s2).tolist(),
                                                                                     exact_beta=ref_beta.tolist(), exact_s2=ref_s2.tolist()))
            cx.term("fit_close %s (q_ref_fit %s %s %s %s) %s %s" % (TOL, cnat(p), cnat(V), zm(X), zm(Y), qm(np.asarray(beta).T), qv(s2)),
                    "model-vs-impl/fit/%s" % name, "%s differs from the certified exact fit of the model" % name,
                    dict(rep, beta=np.asarray(beta).tolist(), s2=np.asarray(s2).tolist()))
        # OLS fit algebra with numpy's pinv threaded into the model
        r = eng["models.OLSModel"][3]
        P = np.asarray(r.model.calc_beta)
        if not close(Xf @ P @ Xf, Xf, 1e-9) or not close(Xf @ P, (Xf @ P).T, 1e-9) or not close(P @ Xf, np.eye(p), 1e-9):
            ck.fail("oracle-contract/pinv", "numpy.linalg.pinv violates the Penrose conditions at 1e-9", rep)
        cx.term("mclose %s (q_ols_beta %s %s %s) %s" % (TOLA, cnat(V), qm(P), zm(Y), qm(r.theta)),
                "model-vs-impl/ols-beta", "OLSModel.fit theta is not calc_beta . wY", dict(rep, theta=r.theta.tolist()))
        cx.term("mclose %s (q_ols_wresid %s %s %s %s) %s" % (TOLA, cnat(V), qm(P), zm(X), zm(Y), qm(r.wresid)),
                "model-vs-impl/ols-wresid", "OLSModel.fit wresid is not wY - wX beta", dict(rep, wresid=r.wresid.tolist()))
        cx.term("vclose %s (q_ols_dispersion %s %s %s %s) %s" % (TOLA, cnat(V), qm(P), zm(X), zm(Y), qv(r.dispersion)),
                "model-vs-impl/ols-dispersion", "OLSModel.fit dispersion is not sum(wresid^2)/(n-p)",
                dict(rep, dispersion=np.asarray(r.dispersion).tolist()))
        if not close(r.predicted + r.resid, Yf, 1e-10) or not close(r.predicted, Xf @ r.theta, 1e-10):
            ck.fail("models.OLSModel/predicted-resid", "predicted + resid != Y or predicted != X theta", rep)
        # optimality against perturbations (property oracle on the implementation)
        rss = ((Yf - Xf @ r.theta) ** 2).sum(0)
        for _ in range(3):
            d = rng.integers(-2, 3, (p, V)) * float(rng.choice([1.0, 0.25, 1e-3]))
            if np.any(((Yf - Xf @ (r.theta + d)) ** 2).sum(0) < rss * (1 - 1e-10) - 1e-10):
                ck.fail("models.OLSModel/not-optimal", "a perturbed coefficient vector has smaller RSS", dict(rep, delta=d.tolist()))
        # reparametrisation by a unimodular matrix: fitted values, s2 and contrasts invariant
        M = rand_unimodular(rng, p)
        X2 = X @ M
        r2 = OLSModel(X2.astype(float)).fit(Yf)
        if not close(r2.predicted, r.predicted) or not close(r2.dispersion, r.dispersion) or r2.df_resid != r.df_resid:
            ck.fail("reparam/fitted-or-variance-changes", "fitted values / residual variance change under X -> X M, M unimodular",
                    dict(rep, M=M.tolist()))
        cvec = rng.integers(-2, 3, p).astype(float)
        if np.any(cvec):
            t1 = np.atleast_1d(np.asarray(r.Tcontrast(cvec).t))
            t2 = np.atleast_1d(np.asarray(r2.Tcontrast(M.T.astype(float) @ cvec).t))
            nz = np.array([e[2] != 0 for e in ex])        # t is 0/0-like for a voxel fitted exactly
            if np.all(np.isfinite(t1[nz])) and not close(t2[nz], t1[nz], 1e-7):
                ck.fail("reparam/contrast-t-changes", "t statistic of c'beta differs from that of (M'c)'beta_M", dict(rep, M=M.tolist(), c=cvec.tolist()))
        # voxel order / grouping
        perm = rng.permutation(V)
        rp = OLSModel(Xf).fit(Yf[:, perm])
        if not close(rp.theta, r.theta[:, perm], 1e-10) or not close(rp.dispersion, np.asarray(r.dispersion)[perm], 1e-10):
            ck.fail("voxel-order/ols", "fitting permuted voxels is not the permuted fit", dict(rep, perm=perm.tolist()))
        k = int(rng.integers(0, V))
        r1 = OLSModel(Xf).fit(Yf[:, k])
        if not close(r1.theta, r.theta[:, k], 1e-10) or not close(r1.dispersion, np.asarray(r.dispersion)[k], 1e-10):
            ck.fail("voxel-grouping/ols-single-voxel", "fitting one voxel alone differs from its column in the block fit", dict(rep, voxel=k))
        # positive rescaling
        c_ = float(rng.choice([2.0, 0.5, 3.0, 10.0]))
        rs = OLSModel(Xf).fit(c_ * Yf)
        if not close(rs.theta, c_ * r.theta, 1e-10) or not close(rs.dispersion, c_ * c_ * np.asarray(r.dispersion), 1e-10):
            ck.fail("rescale/ols", "fit(c Y) is not c beta / c^2 s2", dict(rep, c=c_))
        # degenerate whiteners reduce exactly / numerically to OLS
        wu = WLSModel(Xf, weights=np.ones(n)).fit(Yf)
        ws = WLSModel(Xf, weights=1).fit(Yf)
        a0 = ARModel(Xf, int(rng.integers(1, 4))).fit(Yf)
        gi = GLSModel(Xf, np.eye(n)).fit(Yf)
        for nm, rr, tol in (("wls-unit-weights", wu, 0), ("wls-scalar-1", ws, 0), ("ar-zero", a0, 0), ("gls-identity", gi, 1e-10)):
            same = (np.array_equal(rr.theta, r.theta) and np.array_equal(rr.dispersion, r.dispersion)) if tol == 0 else \
                (close(rr.theta, r.theta, tol) and close(rr.dispersion, r.dispersion, tol))
            if not same or rr.df_resid != r.df_resid:
                ck.fail("degenerate/%s-is-not-ols" % nm, "%s does not reduce to the OLS fit" % nm, rep)
        # AR / WLS / GLS engines against the exact fit of the whitened problem
        order = int(rng.integers(1, 4))
        den = int(rng.choice([2, 4, 8]))
        rho = [Fraction(int(rng.integers(-den + 1, den)), den) for _ in range(order)]
        ar = ARModel(Xf, [float(x) for x in rho]).fit(Yf)
        wXa, wYa = ar.model.wdesign, ar.wY
        crho = clist([qfr(x) for x in rho])
        if np.linalg.matrix_rank(wXa) == p and np.linalg.cond(wXa) < 1e4:
            check_fit_oracles(ck, "models.ARModel", wXa, wYa, ar.theta, ar.dispersion, ar.df_resid, dict(rep, rho=[str(x) for x in rho]))
            cx.term("fit_close %s (q_ref_fit %s %s (q_ar_whiten %s %s) (q_ar_whiten %s %s)) %s %s" % (
                TOL, cnat(p), cnat(V), crho, zm(X), crho, zm(Y), qm(ar.theta.T), qv(ar.dispersion)),
                "model-vs-impl/fit/models.ARModel", "ARModel.fit differs from the exact fit of the AR-whitened problem",
                dict(rep, rho=[str(x) for x in rho], theta=ar.theta.tolist(), dispersion=np.asarray(ar.dispersion).tolist()))
            ck.count(("arfit", X.tobytes(), Y.tobytes(), tuple(rho)), bucket="fit:ar%d" % order)
        c = rng.integers(1, 5, n)
        w = (c * c).astype(float)
        wl = WLSModel(Xf, weights=w).fit(Yf)
        gl = GLSModel(Xf, np.diag(1.0 / w)).fit(Yf)
        cw = "(q_wls_whiten %s %s)"
        for nm, rr, tol in (("models.WLSModel", wl, TOL), ("models.GLSModel.diag", gl, TOL)):
            check_fit_oracles(ck, nm, Xf * c[:, None], Yf * c[:, None], rr.theta, rr.dispersion, rr.df_resid, dict(rep, weights=w.tolist()))
            cx.term("fit_close %s (q_ref_fit %s %s %s %s) %s %s" % (
                tol, cnat(p), cnat(V), cw % (zv(c), zm(X)), cw % (zv(c), zm(Y)), qm(rr.theta.T), qv(rr.dispersion)),
                "model-vs-impl/fit/%s" % nm, "%s differs from the exact weighted least-squares fit" % nm,
                dict(rep, weights=w.tolist(), theta=rr.theta.tolist()))
        if not close(gl.theta, wl.theta, 1e-9) or not close(gl.dispersion, wl.dispersion, 1e-9):
            ck.fail("degenerate/gls-diagonal-is-not-wls", "GLS with diagonal covariance differs from WLS with inverse-variance weights", dict(rep, weights=w.tolist()))
        ck.count(("wfit", X.tobytes(), Y.tobytes(), tuple(c)), bucket="fit:wls/gls")
        # engine agreement incl. the Kalman engine of labs glm (installed module; s2 convention is a known finding)
        b0, s0, d0, _ = eng["labs.glm.ols.axis0"]
        for nm in eng:
            b, s, d, _ = eng[nm]
            if not close(b, b0, 1e-9) or not close(s, s0, 1e-9) or float(d) != float(d0):
                ck.fail("engines/%s-vs-labs-ols" % nm, "engines disagree on beta / s2 / dof", rep)
        try:
            K = labs.glm(Yf, Xf, method="kalman")
            kalman_ok += 1
            if not close(K.beta, b0, 1e-4):
                ck.fail("engines/labs-kalman-beta", "Kalman OLS estimates differ from OLS beyond 1e-4", dict(rep, kalman=K.beta.tolist()))
            if float(K.dof) != float(d0):
                ck.fail("engines/labs-kalman-dof", "Kalman dof %r != %r" % (K.dof, d0), rep)
            ks2 = np.atleast_1d(K.s2)
            # the filter starts from a proper prior (variance 1e7), so its sum of squares carries an absolute
            # error of order |beta|^2 / 1e7: compare with that slack
            slack = 1e-5 * (1 + float(np.abs(b0).max()) ** 2)

            def kclose(a, b):
                return bool(np.all(np.abs(np.asarray(a) - np.asarray(b)) <= 1e-4 * (1 + np.abs(b)) + slack))
            if not kclose(ks2, s0):
                if kclose(ks2 * n / (n - p), s0):
                    ck.fail("engines/labs-kalman-s2-is-rss-over-n", "labs glm method='kalman' returns s2 = RSS/n (not RSS/(n-p)) with dof = n-p: "
                            "differs from method='ols' by the factor (n-p)/n, e.g. X=%s Y[:,0]=%s" % (X.tolist(), Y[:, 0].tolist()),
                            dict(rep, kalman_s2=ks2.tolist(), ols_s2=np.asarray(s0).tolist()))
                else:
                    ck.fail("engines/labs-kalman-s2", "Kalman s2 is neither RSS/(n-p) nor RSS/n", dict(rep, kalman_s2=ks2.tolist()))
        except ImportError:
            pass
        if i < 2:
            ck.sample({"X": X.tolist(), "Y": Y.tolist(), "exact_beta": [[str(b) for b in e[0]] for e in ex],
                       "OLSModel_theta": r.theta.tolist(), "df_resid": int(r.df_resid)})
    ck.section("fit", cases=N, kalman_engine_cases=kalman_ok)


def labs_axis_section(ck):
    """labs glm.ols on N-d data along every axis = the 2-D fit of the unfolded data"""
    from nipy.labs.glm import glm as labs
    rng = ck.rng("labs-axis")
    N = ck.n(40, 300)
    for i in range(N):
        n = int(rng.integers(3, 9))
        p = int(rng.integers(1, min(n - 1, 3) + 1))
        X = rand_design(rng, n, p).astype(float)
        nd = int(rng.integers(1, 4))
        other = [int(rng.integers(1, 4)) for _ in range(nd - 1)]
        # distinct extents where possible so a wrong slot shows up in the shape; equal extents so it shows in the values
        axis = int(rng.integers(0, nd))
        shape = list(other)
        shape.insert(axis, n)
        if i % 4 == 0 and nd > 1:
            shape = [n] * nd
        Y = rng.integers(-9, 10, shape).astype(float)
        ck.count(("labs", tuple(shape), axis, Y.tobytes()), nontrivial=nd > 1, bucket="labs:nd%d:axis%d" % (nd, axis))
        rep = {"X": X.tolist(), "Y": Y.tolist(), "axis": axis}
        try:
            beta, nvbeta, s2, dof = labs.ols(Y, X, axis=axis)
        except Exception as e:  # noqa
            ck.fail("labs.ols/raises/nd%d-axis%d" % (nd, axis), "labs glm.ols raised %s: %s" % (type(e).__name__, e), rep)
            continue
        Y2 = np.moveaxis(Y, axis, 0).reshape(n, -1)
        P = np.linalg.pinv(X)
        b2 = P @ Y2
        s22 = ((Y2 - X @ b2) ** 2).sum(0) / (n - p)
        eshape = list(shape)
        eshape[axis] = p
        sshape = [s for k_, s in enumerate(shape) if k_ != axis]
        if list(beta.shape) != eshape or list(np.shape(s2)) != sshape:
            ck.fail("labs.ols/shape/nd%d-axis%d" % (nd, axis), "beta/s2 shapes %s/%s, expected %s/%s" % (beta.shape, np.shape(s2), eshape, sshape), rep)
            continue
        if not close(np.moveaxis(beta, axis, 0).reshape(p, -1), b2, 1e-10) or not close(np.reshape(s2, -1), s22, 1e-10):
            ck.fail("labs.ols/axis-values/nd%d-axis%d" % (nd, axis), "fit along axis %d differs from the fit of the unfolded data" % axis, rep)
        if dof != n - p or not close(nvbeta, P @ P.T, 1e-10):
            ck.fail("labs.ols/dof-or-nvbeta", "dof %r != n-p or nvbeta != pinv pinv'" % dof, rep)
        # contrast through the glm object uses the same axis convention
        G = labs.glm(Y, X, axis=axis)
        cvec = np.zeros(p)
        cvec[int(rng.integers(0, p))] = 1.0
        con = G.contrast(cvec)
        eff = np.tensordot(cvec, np.moveaxis(beta, axis, 0), axes=(0, 0))
        if not close(np.asarray(con.effect).reshape(-1), eff.reshape(-1), 1e-10):
            ck.fail("labs.glm/contrast-effect-axis/nd%d-axis%d" % (nd, axis), "contrast effect is not c'beta along the fit axis", rep)
    ck.section("labs_axis", cases=N)


def _grid_shape(rng, i):
    """voxel grid: 0..3 axes, non-square extents, extents of 1 included"""
    nax = [2, 3, 1, 2, 0, 2, 3, 1][i % 8]
    sh = [int(rng.integers(1, 5)) for _ in range(nax)]
    if nax >= 2 and i % 2 == 0:
        sh[0], sh[1] = 2 + i % 3, 3 + (i // 3) % 2 + (1 if 2 + i % 3 == 3 + (i // 3) % 2 else 0)    # non-square, both > 1
    return sh


def labs_contrast_section(ck, cx):
    """labs glm.contrast (glm.py 86-136): t and multi-row (F) contrasts on voxel GRIDS.
    (a) exact correspondence of the voxel-constant-nvbeta covariance broadcast with ConModel.z_labs_fcon_variance on hand-set
        glm objects (integer nvbeta - also non-symmetric -, integer s2 grids of 0..3 axes, integer contrasts of 2..4 rows);
    (b) on real fits (spherical ols / kalman, ar1) along every axis: variance[.., v] = s2[v] * c nvbeta[v] c', effect = c beta,
        and variance / F statistic of the grid = those of the same voxels handed over as a flat list and in permuted order."""
    from nipy.labs.glm import glm as labs
    rng = ck.rng("labs-contrast")
    N = ck.n(60, 400)
    for i in range(N):
        p = int(rng.integers(2, 5))
        q = int(rng.integers(2, min(p, 4) + 1)) if i % 5 else 2
        sh = _grid_shape(rng, i)
        C = rng.integers(-3, 4, (q, p)).astype(float)
        nvb = rng.integers(-4, 5, (p, p)).astype(float)
        sym = bool(i % 2)
        if sym:
            nvb = nvb + nvb.T
        s2 = rng.integers(1, 30, sh).astype(float) if sh else np.float64(int(rng.integers(1, 30)))
        s2 = np.asarray(s2)
        axis = int(rng.integers(0, len(sh) + 1))
        bshape = list(sh)
        bshape.insert(axis, p)
        G = labs.glm()
        G.beta = rng.integers(-5, 6, bshape).astype(float)
        G.nvbeta, G.s2, G.dof, G.a = nvb, s2, 7.0, 0
        G._axis, G._constants, G.model, G.method = axis, ['nvbeta', 'a'], 'spherical', 'ols'
        sq = [d for d in sh if d != 1]                       # contrast() works on s2.squeeze()
        nax = len(sq)
        ck.count(("labs-fcon", q, tuple(sh), axis, C.tobytes(), nvb.tobytes(), s2.tobytes()), nontrivial=nax >= 2,
                 bucket="labs-fcon:q%d:voxel-axes%d:%s" % (q, nax, "sym" if sym else "nonsym"))
        rep = {"c": C.tolist(), "nvbeta": nvb.tolist(), "s2": s2.tolist(), "s2_shape": sh, "axis": axis}
        feat = "voxel-axes%d" % min(nax, 2)
        try:
            con = G.contrast(C)
            var = np.asarray(con.variance)
        except Exception as e:  # noqa
            ck.fail("labs.contrast/raises/F/" + feat, "glm.contrast raised %s: %s" % (type(e).__name__, e), rep)
            continue
        if list(var.shape) != [q, q] + sq:
            ck.fail("labs.contrast/variance-shape/F/" + feat, "variance shape %s, expected %s" % (var.shape, [q, q] + sq), rep)
            continue
        vc = C @ nvb @ C.T
        expect = vc.T.reshape([q, q] + [1] * nax) * s2.squeeze()          # the code stores the transposed q x q matrix
        rep["variance"] = var.tolist()
        if sym and not np.array_equal(var, vc.reshape([q, q] + [1] * nax) * s2.squeeze()):
            ck.fail("labs.contrast/F-covariance-not-own-voxel-s2/" + feat,
                    "variance[:, :, v] != s2[v] * c nvbeta c' for a symmetric voxel-constant nvbeta", rep)
        elif not np.array_equal(var, expect):
            ck.fail("labs.contrast/F-covariance-not-own-voxel-s2/" + feat, "variance[b, a, v] != (c nvbeta c')[a, b] * s2[v]", rep)
        flat = [int(v) for v in var.ravel()]
        lit = lambda M: clist([czl([int(v) for v in row]) for row in M])
        args = "%s %s %s %s" % (lit(C), lit(nvb), clist([str(d) for d in sq]), czl([int(v) for v in np.ravel(s2)]))
        cx.term("zlist_eqb (NV.C05.ConModel.z_labs_fcon_variance %s) %s" % (args, czl(flat)),
                "model-vs-impl/labs-fcon-variance/" + feat, "ConModel.z_labs_fcon_variance differs from glm.contrast(c).variance",
                rep, show="NV.C05.ConModel.z_labs_fcon_variance " + args)
        if i < 2:
            ck.sample({"section": "labs_contrast", **rep})

    # (b) real fits
    M = ck.n(24, 250)
    stale = 0
    for i in range(M):
        n = int(rng.integers(6, 13))
        p = int(rng.integers(2, 5))
        X = rand_design(rng, n, p).astype(float)
        sh = _grid_shape(rng, i + 1)
        axis = int(rng.integers(0, len(sh) + 1))
        shape = list(sh)
        shape.insert(axis, n)
        V = int(np.prod(sh)) if sh else 1
        # voxel-dependent noise level: s2 differs strongly between voxels
        Y = rng.integers(-9, 10, shape).astype(float) * np.moveaxis(
            (1.0 + np.arange(V)).reshape(sh + [1]) if sh else np.ones((1,)), -1, axis)
        Y = Y + rng.integers(-3, 4, shape)
        q = int(rng.integers(2, min(p, 3) + 1))
        C = rng.integers(-2, 3, (q, p)).astype(float)
        if np.linalg.matrix_rank(C) < q:
            C = np.eye(p)[:q]
        nax = len([d for d in sh if d != 1])
        feat = "voxel-axes%d" % min(nax, 2)
        perm = rng.permutation(V)
        for model, method in (("spherical", "ols"), ("spherical", "kalman"), ("ar1", "kalman")):
            tag = "%s-%s" % (model, method)
            ck.count(("labs-con", tag, tuple(shape), axis, Y.tobytes(), C.tobytes()), nontrivial=nax >= 2,
                     bucket="labs-con:%s:voxel-axes%d" % (tag, nax))
            rep = {"X": X.tolist(), "Y": Y.tolist(), "axis": axis, "c": C.tolist(), "model": model, "method": method}
            Y2 = np.ascontiguousarray(np.moveaxis(Y, axis, 0).reshape(n, V))
            try:
                G = labs.glm(Y, X, axis=axis, model=model, method=method)
                G2 = labs.glm(Y2, X, axis=0, model=model, method=method)
                G3 = labs.glm(np.ascontiguousarray(Y2[:, perm]), X, axis=0, model=model, method=method)
                out = {}
                for nm, g in (("grid", G), ("flat", G2), ("perm", G3)):
                    f = g.contrast(C)
                    t = g.contrast(C[0])
                    out[nm] = (np.asarray(f.effect), np.asarray(f.variance), np.asarray(f.stat()), np.asarray(t.effect),
                               np.asarray(t.variance), np.asarray(t.stat()))
            except ImportError:
                stale += 1
                continue
            except Exception as e:  # noqa
                if 1 in sh and V > 1:            # same structural cause as the known stat-shape finding below
                    ck.fail("labs.contrast/stat-shape/voxel-axis-of-extent-1-squeezed-from-s2-not-from-effect",
                            "voxel grid %s: fit/contrast/stat raised %s: %s" % (sh, type(e).__name__, e), rep)
                else:
                    ck.fail("labs.contrast/raises/%s/%s" % (tag, feat), "labs glm fit/contrast raised %s: %s" % (type(e).__name__, e), rep)
                continue
            fe, fv, fs, te, tv, ts = out["grid"]
            if ts.size != V or fs.size != V:
                if 1 in sh and V > 1:
                    # known finding: fit()/contrast() squeeze s2 (dropping voxel axes of extent 1) but not the effect
                    ck.fail("labs.contrast/stat-shape/voxel-axis-of-extent-1-squeezed-from-s2-not-from-effect",
                            "voxel grid %s: t statistic has shape %s (effect %s / variance %s broadcast across voxels)"
                            % (sh, ts.shape, te.shape, tv.shape), rep)
                else:
                    ck.fail("labs.contrast/stat-shape/%s/%s" % (tag, feat), "statistic shapes %s / %s for %d voxels" % (ts.shape, fs.shape, V), rep)
                continue
            # own-voxel covariance from the object's own fields (same association as the library)
            s2g = np.asarray(G.s2).reshape(-1)
            if model == "spherical":
                base = np.dot(C, np.inner(G.nvbeta, C))
                # the code stores the TRANSPOSED q x q matrix (labs_fcon_cov_each_voxel_own_s2); the Kalman nvbeta is symmetric
                # only up to round-off, so the comparison follows the code's convention
                own = base.T[:, :, None] * s2g[None, None, :]
                town = float(C[0] @ G.nvbeta @ C[0]) * s2g
            else:
                nvf = np.moveaxis(np.moveaxis(np.asarray(G.nvbeta), axis, 0), axis + 1, 1).reshape(p, p, V)
                own = np.einsum("ik,klv,jl->ijv", C, nvf, C) * s2g[None, None, :]
                town = np.einsum("k,klv,l->v", C[0], nvf, C[0]) * s2g
            bfl = np.moveaxis(np.asarray(G.beta), axis, 0).reshape(p, V)
            sc = 1e-9 * (1 + np.abs(own).max())
            if fv.size != own.size or tv.size != V or fe.size != q * V:
                ck.fail("labs.contrast/shape/%s/%s" % (tag, feat), "effect/variance sizes %s/%s" % (fe.shape, fv.shape), rep)
                continue
            if np.abs(fv.reshape(q, q, V) - own).max() > sc:
                ck.fail("labs.contrast/F-covariance-not-own-voxel-s2/%s/%s" % (tag, feat),
                        "F-contrast variance[:, :, v] != s2[v] * c nvbeta[v] c' (max abs diff %.3g)" % np.abs(fv.reshape(q, q, V) - own).max(), rep)
            if np.abs(tv.reshape(V) - town).max() > 1e-9 * (1 + np.abs(town).max()):
                ck.fail("labs.contrast/t-variance-not-own-voxel-s2/%s/%s" % (tag, feat), "t-contrast variance[v] != s2[v] * c nvbeta[v] c'", rep)
            if not close(fe.reshape(q, V), C @ bfl, 1e-10) or not close(te.reshape(V), C[0] @ bfl, 1e-10):
                ck.fail("labs.contrast/effect-axis/%s/%s" % (tag, feat), "contrast effect is not c beta along the fit axis", rep)
            # grouping / order of voxels
            for nm, idx in (("flat", np.arange(V)), ("perm", perm)):
                oe, ov, os_, ote, otv, ots = out[nm]
                inv = np.empty(V, dtype=int)
                inv[idx] = np.arange(V)
                rel = 1e-7 if model == "spherical" else 1e-6
                pairs = (("F-variance", fv.reshape(q * q, V), ov.reshape(q * q, V)[:, inv]),
                         ("F-stat", fs.reshape(1, V), os_.reshape(1, V)[:, inv]),
                         ("t-variance", tv.reshape(1, V), otv.reshape(1, V)[:, inv]),
                         ("t-stat", ts.reshape(1, V), ots.reshape(1, V)[:, inv]))
                for what, a_, b_ in pairs:
                    if not np.all(np.isfinite(b_)):
                        continue
                    if np.abs(a_ - b_).max() > rel * (1 + np.abs(b_).max()):
                        ck.fail("voxel-grouping/labs-contrast-%s-differs-%s/%s/%s" % (what, "flat-vs-grid" if nm == "flat" else "permuted", tag, feat),
                                "%s of a voxel depends on how the voxels are arranged (max abs diff %.3g)" % (what, np.abs(a_ - b_).max()), rep)
    ck.section("labs_contrast", exact_cases=N, fit_cases=M, engine_unavailable=stale)


def glm_ar1_section(ck, cx):
    from nipy.algorithms.statistics.models.regression import OLSModel, ARModel
    from nipy.modalities.fmri.glm import GeneralLinearModel
    rng = ck.rng("glm-ar1")
    N = ck.n(50, 300)
    multi = 0
    for i in range(N):
        n = int(rng.integers(5, 17 if not ck.thorough() else 31))
        p = int(rng.integers(1, min(n - 2, 4) + 1))
        V = int(rng.integers(1, 9))
        X = rand_design(rng, n, p)
        Y = rand_data(rng, n, V, X)
        steps = int(rng.choice([2, 4, 8, 16])) if i % 5 else 100
        Xf, Yf = X.astype(float), Y.astype(float)
        ex = [exact_ls(X.tolist(), Y[:, v].tolist()) for v in range(V)]
        if any(e[2] == 0 for e in ex):
            continue                                  # zero residual: ar1 = 0/0 (outside the property's domain)
        rep = {"X": X.tolist(), "Y": Y.tolist(), "steps": steps}
        g = GeneralLinearModel(Xf)
        try:
            g.fit(Yf, "ar1", steps=steps)
            beta, mse = g.get_beta(), g.get_mse()
        except Exception as e:  # noqa
            ck.fail("glm-ar1/raises", "GeneralLinearModel ar1 fit / get_beta / get_mse raised %s: %s" % (type(e).__name__, e), rep)
            continue
        labels = np.asarray(g.labels_, dtype=float)
        ks = np.rint(labels * steps).astype(int)
        ck.count(("glm", X.tobytes(), Y.tobytes(), steps), nontrivial=len(set(ks.tolist())) > 1 or V == 1,
                 bucket="glm_ar1:steps%d:labels%d" % (steps, min(len(set(ks.tolist())), 4)))
        if len(set(ks.tolist())) > 1 and len(set(ks.tolist())) < V:
            multi += 1
        if labels.shape != (V,) or np.max(np.abs(labels * steps - ks)) > 1e-9:
            ck.fail("glm-ar1/labels-not-on-grid", "labels_ are not multiples of 1/steps", dict(rep, labels=labels.tolist()))
            continue
        # oracle (independent of Coq): label = trunc(exact ar1 * steps) unless the exact value sits on a bin edge
        for v in range(V):
            res = ex[v][1]
            a = sum(res[t] * res[t - 1] for t in range(1, n)) / ex[v][2] * steps
            k_exact = int(a) if a >= 0 else -int(-a)
            if k_exact != ks[v] and min(a - np.floor(float(a)), np.ceil(float(a)) - a) > 1e-9:
                ck.fail("glm-ar1/label-not-discretised-ar1", "voxel label %d/%d is not trunc(ar1*steps)/steps for ar1*steps = %s" % (ks[v], steps, float(a)),
                        dict(rep, voxel=v, labels=labels.tolist()))
        if sorted(g.results_.keys()) != sorted(set(labels.tolist())):
            ck.fail("glm-ar1/results-keys", "results_ keys are not the set of labels", dict(rep, labels=labels.tolist()))
        if beta.shape != (p, V) or mse.shape != (V,):
            ck.fail("glm-ar1/shape", "get_beta/get_mse shapes %s/%s" % (beta.shape, mse.shape), rep)
            continue
        # oracle: every voxel carries the fit under its own discretised coefficient
        for v in range(V):
            rv = ARModel(Xf, float(labels[v])).fit(Yf[:, v])
            if not close(beta[:, v], rv.theta, 1e-9) or not close(mse[v], rv.MSE, 1e-9):
                ck.fail("glm-ar1/voxel-does-not-carry-own-fit", "get_beta/get_mse of a voxel differ from ARModel(X, its label).fit(its data)",
                        dict(rep, voxel=v, labels=labels.tolist()))
                break
        # voxel order / grouping invariance (labels permute exactly, estimates closely)
        perm = rng.permutation(V)
        g2 = GeneralLinearModel(Xf)
        g2.fit(Yf[:, perm], "ar1", steps=steps)
        if not np.array_equal(np.asarray(g2.labels_), labels[perm]) or not close(g2.get_beta(), beta[:, perm], 1e-9) \
                or not close(g2.get_mse(), mse[perm], 1e-9):
            ck.fail("voxel-order/glm-ar1", "permuting the voxels does not permute labels/estimates", dict(rep, perm=perm.tolist()))
        g3 = GeneralLinearModel(Xf)
        g3.fit(np.hstack([Yf, Yf[:, :1]]), "ar1", steps=steps)
        if not close(g3.get_beta()[:, :V], beta, 1e-9) or not close(g3.get_beta()[:, V], beta[:, 0], 1e-9):
            ck.fail("voxel-grouping/glm-ar1-duplicate", "appending a duplicate voxel changes the estimates", rep)
        # model: labels from exact OLS residuals; refit + scatter under the implementation's labels
        cx.term("glm_labels_agree %s (q_glm_ar1_steps %s %s %s %s %s) %s" % (TOLA, cnat(p), cnat(V), cz(steps), zm(X), zm(Y), czl(ks)),
                "model-vs-impl/glm-ar1-labels", "labels_ differ from the model's discretised AR(1) coefficients",
                dict(rep, labels_times_steps=ks.tolist()),
                "option_map (map this) (q_glm_ar1_steps %s %s %s %s %s)" % (cnat(p), cnat(V), cz(steps), zm(X), zm(Y)))
        dyadic = steps != 100
        ok_cond = all(np.linalg.cond(m.model.wdesign) < 1e4 for m in g.results_.values())
        if ok_cond:
            tol = TOL if dyadic else "(Qmake 1 1000000)"
            cx.term("mclose %s (q_glm_ar1_beta %s %s %s %s %s) %s" % (tol, cnat(p), cz(steps), zm(X), zm(Y), czl(ks), qm(beta)),
                    "model-vs-impl/glm-ar1-beta", "get_beta() differs from the model's per-label refit and scatter",
                    dict(rep, labels_times_steps=ks.tolist(), beta=beta.tolist()))
            cx.term("mclose %s (q_glm_ar1_mse %s %s %s %s %s) %s" % (tol, cnat(p), cz(steps), zm(X), zm(Y), czl(ks), qm(mse[None, :])),
                    "model-vs-impl/glm-ar1-mse", "get_mse() differs from the model's per-label refit and scatter",
                    dict(rep, labels_times_steps=ks.tolist(), mse=mse.tolist()))
        if i < 2:
            ck.sample({"X": X.tolist(), "Y": Y.tolist(), "steps": steps, "labels_": labels.tolist(), "get_beta": beta.tolist()})
    ck.section("glm_ar1", cases=N, cases_with_shared_and_distinct_labels=multi)

# ---------------------------------------------------------------- large-norm / ill-conditioned but full-rank designs
def _cond_band(k):
    for lo, hi in ((0, 1e2), (1e2, 1e4), (1e4, 1e6), (1e6, 1e8), (1e8, 1e10)):
        if k < hi:
            return "cond-%g..%g" % (lo if lo else 1, hi)
    return "cond->1e10"


def rand_hard_design(rng, ck, i):
    """full column rank (exactly), cond 1e2..1e10, every entry an exact integer / dyadic float.
    classes: polynomial drift in the RAW scan index (+ task boxcar), columns of very different scale
    (well conditioned design . diag(2^k)), nearly collinear columns (a, a + 2^-k e)."""
    for _ in range(50):
        cls = ("raw-index-polynomial", "column-scales", "near-collinear", "raw-index-polynomial")[i % 4]
        nmax = 200 if ck.thorough() else 120
        if cls == "raw-index-polynomial":
            n = int(rng.integers(12, nmax + 1))
            deg = int(rng.integers(1, 5))
            t = np.arange(n, dtype=np.int64) + int(rng.choice([0, 0, 1, 100]))
            cols = [t ** k for k in range(deg + 1)]
            if rng.random() < 0.7:
                cols.append((t // int(rng.integers(3, 12))) % 2)
            if rng.random() < 0.3:
                cols.append(rng.integers(-3, 4, n))
            X = np.column_stack(cols).astype(float)
        elif cls == "column-scales":
            n = int(rng.integers(6, 41))
            p = int(rng.integers(2, min(n - 1, 5) + 1))
            X = rand_design(rng, n, p).astype(float) * np.ldexp(1.0, rng.integers(-25, 26, p))[None, :]
        else:
            n = int(rng.integers(6, 41))
            a = rng.integers(-5, 6, n).astype(float)
            e = rng.integers(-3, 4, n).astype(float)
            X = np.column_stack([np.ones(n), a, a + np.ldexp(1.0, -int(rng.integers(5, 26))) * e])
        n, p = X.shape
        if p >= n - 1:
            continue
        sv = np.linalg.svd(X, compute_uv=False)
        if sv[-1] == 0 or not (1e2 <= sv[0] / sv[-1] <= 1e10):
            continue
        if exact_ls(fr_mat(X), [0] * n) is None:                    # exactly rank deficient
            continue
        return cls, X, float(sv[0]), float(sv[0] / sv[-1])
    return None


def conditioning_section(ck, cx):
    """every engine on designs of large norm / cond 1e2..1e10: fitted values, residual variance, dof against the exact
    rational solution; scale-free normal equations (residual/design cosine); invariance under rescaling of the columns;
    engine agreement (fitted values, s2, t statistic)"""
    from nipy.algorithms.statistics.models.regression import OLSModel, ARModel, WLSModel
    from nipy.modalities.fmri.glm import GeneralLinearModel
    from nipy.labs.glm import glm as labs
    rng = ck.rng("conditioning")
    N = ck.n(40, 250)
    TOL6 = "(Qmake 1 1000000)"
    done = 0
    for i in range(N):
        hd = rand_hard_design(rng, ck, i)
        if hd is None:
            continue
        cls, Xf, smax, kappa = hd
        n, p = Xf.shape
        V = int(rng.integers(1, 4))
        Y = rng.integers(-9, 10, (n, V)).astype(np.int64)
        if rng.random() < 0.5:                                       # signal living on the design's own scale
            Y = Y + np.rint(Xf[:, [int(rng.integers(0, p))]] * 2.0 ** -int(np.floor(np.log2(1 + np.abs(Xf).max())) - 3)).astype(np.int64)
        Yf = Y.astype(float)
        band = _cond_band(kappa)
        feat = "%s/%s" % (cls, band)
        rep = {"X": Xf.tolist(), "Y": Y.tolist(), "design_class": cls, "smax": smax, "cond": kappa}
        XF = fr_mat(Xf)
        ex = [exact_ls(XF, Y[:, v].tolist()) for v in range(V)]
        if any(e is None for e in ex) or any(e[2] == 0 for e in ex):
            continue
        done += 1
        ck.count(("cond", Xf.tobytes(), Y.tobytes()), bucket="conditioning:%s" % feat)
        fit_ex = np.array([[float(sum(XF[r][j] * e[0][j] for j in range(p))) for e in ex] for r in range(n)])
        s2_ex = np.array([float(e[2] / (n - p)) for e in ex])
        ysc = 1.0 + np.abs(Yf).max()
        cvec = np.zeros(p)
        cvec[int(rng.integers(0, p))] = 1.0

        def run_engines(Xd):
            out = {}

            def add(nm, fn):
                try:
                    out[nm] = fn()
                except Exception as e:  # noqa
                    ck.fail("%s/raises/%s" % (nm, feat), "%s raised %s: %s" % (nm, type(e).__name__, e), rep)

            def e_models():
                r = OLSModel(Xd).fit(Yf)
                return (Xd @ r.theta, np.atleast_1d(r.dispersion), r.df_resid, np.atleast_1d(r.Tcontrast(cvec).t))

            def e_fmri():
                g = GeneralLinearModel(Xd)
                g.fit(Yf, "ols")
                return (Xd @ g.get_beta(), g.get_mse(), list(g.results_.values())[0].df_resid, np.atleast_1d(g.contrast(cvec).stat()))

            def e_labs(axis):
                def f():
                    G = labs.glm(Yf if axis == 0 else np.ascontiguousarray(Yf.T), Xd, axis=axis)
                    b = G.beta if axis == 0 else G.beta.T
                    return (Xd @ b, np.atleast_1d(G.s2), G.dof, np.atleast_1d(G.contrast(cvec).stat()).ravel())
                return f

            add("models.OLSModel", e_models)
            add("fmri.GeneralLinearModel.ols", e_fmri)
            add("labs.glm.ols.axis0", e_labs(0))
            add("labs.glm.ols.axis1", e_labs(1))
            return out
        eng = run_engines(Xf)
        for nm, (fit, s2, dof, tstat) in eng.items():
            tolf = 1e-6
            if fit.shape != (n, V) or np.asarray(s2).shape != (V,):
                ck.fail("%s/shape/%s" % (nm, feat), "fitted / s2 shapes %s / %s" % (fit.shape, np.asarray(s2).shape), rep)
                continue
            if float(dof) != n - p:
                ck.fail("%s/dof/%s" % (nm, feat), "dof %r != n - p = %d for a full-rank design" % (dof, n - p), rep)
            if np.abs(fit - fit_ex).max() > tolf * ysc:
                ck.fail("%s/fitted-values-differ-from-exact-least-squares/%s" % (nm, feat),
                        "fitted values differ from the exact rational least-squares fit by %.3g (data scale %.3g)" % (np.abs(fit - fit_ex).max(), ysc),
                        dict(rep, engine=nm))
            if np.any(np.abs(np.asarray(s2) / s2_ex - 1) > 10 * tolf):
                ck.fail("%s/residual-variance-differs-from-exact/%s" % (nm, feat), "s2 = %s, exact RSS/(n-p) = %s" % (np.asarray(s2).tolist(), s2_ex.tolist()),
                        dict(rep, engine=nm))
            res = Yf - fit
            cosang = (np.abs(Xf.T @ res) / (np.linalg.norm(Xf, axis=0)[:, None] * np.linalg.norm(res, axis=0)[None, :])).max()
            if cosang > 1e-6:
                ck.fail("%s/residuals-not-orthogonal-to-design/%s" % (nm, feat), "largest residual/column cosine %.3g" % cosang, dict(rep, engine=nm))
        # Kalman engine (installed module): (K1) the implementation against the EXACT outcome of its own recursion, the
        # solution of (X'X + 1e-7 I) b = X'y (theorem kalman_ols_equals_batch_partial); (K2) that exact outcome against exact
        # OLS, i.e. the property clause "engines agree / the fit depends on the column space only" for this engine
        try:
            K = labs.glm(Yf, Xf, method="kalman")
            fk = Xf @ K.beta
            LAMK = Fraction(1, 10 ** 7)
            rid = [ridge_exact(XF, Y[:, v].tolist(), LAMK) for v in range(V)]
            fit_rid = np.array([[float(sum(XF[r_][j] * rb[0][j] for j in range(p))) for rb in rid] for r_ in range(n)])
            smin = smax / kappa
            if float(K.dof) != n - p:
                ck.fail("labs.glm.kalman/dof/%s" % feat, "dof %r != n - p" % K.dof, rep)
            if np.abs(fit_rid - fit_ex).max() > 1e-5 * ysc:
                ck.fail("engines/labs-kalman-prior-not-negligible/design-singular-value-%s" % ("below-1" if smin < 1 else "at-least-1"),
                        "labs glm method='kalman': the EXACT result of the filter (prior variance 1e7, i.e. (X'X + 1e-7 I) b = X'y) differs from least "
                        "squares by %.3g in the fitted values (data scale %.3g) because the design has a singular value %.3g: e.g. a design column "
                        "written on a small scale; the fit is not invariant under column rescaling and differs from method='ols'" % (
                            np.abs(fit_rid - fit_ex).max(), ysc, smin), dict(rep, smallest_singular_value=smin))
            if np.abs(fk - fit_rid).max() > 1e-5 * ysc:
                ck.fail("engines/labs-kalman-float-instability/design-norm-%s" % ("at-least-1e2" if smax >= 1e2 else "below-1e2"),
                        "labs glm method='kalman': fitted values differ by %.3g (data scale %.3g) from the exact outcome of the filter's own recursion "
                        "(covariance-form update starting from Vb = 1e7 I loses the small entries of Vb): design smax %.3g, cond %.3g" % (
                            np.abs(fk - fit_rid).max(), ysc, smax, kappa), dict(rep, kalman_fitted=fk.tolist()))
        except ImportError:
            pass
        # engines agree (fitted values, s2, t statistic of a coefficient)
        if "models.OLSModel" in eng:
            f0, s0, d0, t0 = eng["models.OLSModel"]
            for nm, (fit, s2, dof, tstat) in eng.items():
                if fit.shape != f0.shape:
                    continue
                bad = np.abs(fit - f0).max() > 1e-5 * ysc or np.any(np.abs(np.asarray(s2) / s0 - 1) > 1e-4)
                if tstat is not None and tstat.shape == t0.shape:
                    bad = bad or np.any(np.abs(tstat - t0) > 1e-4 * (1 + np.abs(t0)))
                if bad:
                    ck.fail("engines/%s-vs-models.OLSModel/%s" % (nm, feat), "engines disagree on fitted values / s2 / t on an ill-conditioned full-rank design",
                            dict(rep, engine=nm))
        # same column space, columns rescaled by powers of two (t -> t/2^k ...): fitted values and s2 unchanged
        A = np.ldexp(1.0, -np.floor(np.log2(np.abs(Xf).max(axis=0))).astype(int))
        if rng.random() < 0.5:
            A = A * np.ldexp(1.0, rng.integers(-8, 9, p))
        X2 = Xf * A[None, :]
        eng2 = run_engines(X2)
        for nm in eng:
            if nm in eng2 and eng[nm][0].shape == eng2[nm][0].shape == (n, V):
                if np.abs(eng[nm][0] - eng2[nm][0]).max() > 1e-5 * ysc or np.any(np.abs(np.asarray(eng[nm][1]) / np.asarray(eng2[nm][1]) - 1) > 1e-4):
                    ck.fail("reparam/%s/column-rescaling-changes-the-fit/%s" % (nm, feat),
                            "fitted values / s2 change when the design columns are rescaled by powers of two (same column space)",
                            dict(rep, engine=nm, column_factors=A.tolist()))
        # whitened engines on the same designs (normal equations of the whitened problem, scale free)
        rho = float(Fraction(int(rng.integers(-3, 4)), 4))
        w = (rng.integers(1, 4, n) ** 2).astype(float)
        for nm, mk in (("models.ARModel", lambda: ARModel(Xf, [rho])), ("models.WLSModel", lambda: WLSModel(Xf, weights=w))):
            try:
                r = mk().fit(Yf)
            except Exception as e:  # noqa
                ck.fail("%s/raises/%s" % (nm, feat), "%s raised %s: %s" % (nm, type(e).__name__, e), rep)
                continue
            wX, wr = r.model.wdesign, np.asarray(r.wresid)
            if np.linalg.cond(wX) > 1e10:
                continue
            nr = np.linalg.norm(wr, axis=0)
            cosang = (np.abs(wX.T @ wr) / (np.linalg.norm(wX, axis=0)[:, None] * np.where(nr > 0, nr, 1)[None, :])).max()
            if cosang > 1e-6:
                ck.fail("%s/residuals-not-orthogonal-to-design/%s" % (nm, feat), "largest whitened residual/column cosine %.3g" % cosang,
                        dict(rep, engine=nm, rho=rho, weights=w.tolist()))
        # model: exact fitted values / s2 evaluated in Coq (certified solver) against every engine
        if n <= 40 and ck.build is not None and ck.build.ok:
            for nm, (fit, s2, dof, tstat) in eng.items():
                if fit.shape == (n, V):
                    cx.term("fitted_close %s (q_ref_fitted %s %s %s %s) %s %s" % (
                        TOL6, cnat(p), cnat(V), qm(Xf), zm(Y), qm(fit.T), qv(s2)),
                        "model-vs-impl/fitted/%s/%s" % (nm, feat), "%s: fitted values / s2 differ from the certified exact fit of the model" % nm,
                        dict(rep, engine=nm, fitted=fit.tolist(), s2=np.asarray(s2).tolist()))
        if done <= 1:
            ck.sample({"hard_design": cls, "n": n, "p": p, "smax": smax, "cond": kappa})
    ck.section("conditioning", cases=done)


# ---------------------------------------------------------------- generalised least squares with correlated covariances
def _frac_inv_lower(L):
    """exact inverse of a lower-triangular matrix with non-zero diagonal (Fractions)"""
    n = len(L)
    inv = [[Fraction(0)] * n for _ in range(n)]
    for j in range(n):
        for i in range(j, n):
            s_ = (Fraction(1) if i == j else Fraction(0)) - sum(L[i][k] * inv[k][j] for k in range(j, i))
            inv[i][j] = s_ / L[i][i]
    return inv


def rand_cov(rng, n, i):
    """covariance classes.  Returns (class, sigma float array, Sinv float array, exact lower Cholesky factor L of Sinv or None).
    'factored*': Sinv = L L' with L = (unit lower triangular, entries -1/0/1) . diag(2^k), so sigma, Sinv and L are exact dyadic
    numbers and L (positive diagonal) is THE Cholesky factor; 'toeplitz': rho^|i-j|; 'spd': A A' + I, A small integers."""
    cls = ("factored-bidiagonal", "factored-dense", "toeplitz", "spd", "diagonal")[i % 5]
    if cls.startswith("factored") or cls == "diagonal":
        L0 = np.eye(n, dtype=np.int64)
        if cls == "factored-bidiagonal":
            for k in range(1, n):
                L0[k, k - 1] = int(rng.choice([-1, 1, 1, 0]))
            if not np.any(L0 - np.eye(n, dtype=np.int64)):
                L0[1, 0] = 1
        elif cls == "factored-dense":
            for _ in range(int(rng.integers(1, n + 2))):
                a, b = sorted(int(v) for v in rng.integers(0, n, 2))
                if a != b:
                    L0[b, a] = int(rng.choice([-1, 1]))
            if not np.any(L0 - np.eye(n, dtype=np.int64)):
                L0[n - 1, 0] = 1
        d = [Fraction(2) ** int(k) for k in rng.integers(-1, 2, n)]
        L = [[Fraction(int(L0[r, c])) * d[c] for c in range(n)] for r in range(n)]
        Li = _frac_inv_lower(L)
        sig = [[sum(Li[k][r] * Li[k][c] for k in range(n)) for c in range(n)] for r in range(n)]
        Sinv = [[sum(L[r][k] * L[c][k] for k in range(n)) for c in range(n)] for r in range(n)]
        f = lambda M: np.array([[float(v) for v in row] for row in M])
        return cls, f(sig), f(Sinv), f(L)
    if cls == "toeplitz":
        rho = float(Fraction(int(rng.choice([-3, -2, -1, 1, 2, 3, 5])), 8))
        sig = rho ** np.abs(np.subtract.outer(np.arange(n), np.arange(n)))
        return cls, sig, np.linalg.inv(sig), None
    A = rng.integers(-2, 3, (n, n)).astype(float)
    sig = A @ A.T + np.eye(n)
    return cls, sig, np.linalg.inv(sig), None


def gls_section(ck, cx):
    """GLSModel for correlated covariances: the whitener is a factor of Sigma^-1, the fit solves the generalised
    normal equations / minimises the generalised RSS, and equals the exact fit whitened with the exact Cholesky factor"""
    from nipy.algorithms.statistics.models.regression import GLSModel
    rng = ck.rng("gls")
    N = ck.n(40, 300)
    TOL6 = "(Qmake 1 1000000)"
    for i in range(N):
        n = int(rng.integers(3, 11))
        p = int(rng.integers(1, min(n - 1, 4) + 1))
        V = int(rng.integers(1, 5))
        X = rand_design(rng, n, p)
        Y = rand_data(rng, n, V, X)
        Xf, Yf = X.astype(float), Y.astype(float)
        cls, sig, Sinv, L = rand_cov(rng, n, i)
        feat = "diagonal" if cls == "diagonal" else "correlated"
        rep = {"X": X.tolist(), "Y": Y.tolist(), "sigma": sig.tolist(), "covariance_class": cls}
        ck.count(("gls", X.tobytes(), Y.tobytes(), sig.tobytes()), nontrivial=feat == "correlated", bucket="gls:%s" % cls)
        try:
            gm = GLSModel(Xf, sig)
            r = gm.fit(Yf)
        except Exception as e:  # noqa
            ck.fail("gls/raises/%s" % feat, "GLSModel raised %s: %s" % (type(e).__name__, e), rep)
            continue
        Cw = np.asarray(gm.cholsigmainv)
        sc = 1 + np.abs(Sinv).max()
        # oracle contract + nipy's transposition: the whitener W must satisfy W'W = Sigma^-1
        if np.abs(Cw.T @ Cw - Sinv).max() > 1e-8 * sc * np.linalg.cond(sig):
            ck.fail("gls/whitener-is-not-a-factor-of-inverse-covariance/%s" % feat,
                    "cholsigmainv' cholsigmainv != pinv(sigma) (max diff %.3g)" % np.abs(Cw.T @ Cw - Sinv).max(), dict(rep, cholsigmainv=Cw.tolist()))
        if L is not None and np.abs(Cw - L.T).max() > 1e-8 * sc * np.linalg.cond(sig):
            ck.fail("gls/whitener-is-not-transposed-lower-cholesky-factor/%s" % feat,
                    "cholsigmainv differs from L' (L the exact lower Cholesky factor of Sigma^-1)", dict(rep, cholsigmainv=Cw.tolist(), L=L.tolist()))
        theta = np.asarray(r.theta)
        if theta.shape != (p, V) or r.df_resid != n - p:
            ck.fail("gls/shape-or-dof", "theta shape %s / df_resid %r" % (theta.shape, r.df_resid), rep)
            continue
        res = Yf - Xf @ theta
        scale = (1 + np.abs(Xf).max()) * (1 + np.abs(Yf).max()) * n * sc
        if np.abs(Xf.T @ Sinv @ res).max() > 1e-7 * scale:
            ck.fail("gls/generalised-normal-equations/%s" % feat,
                    "X' Sigma^-1 (Y - X theta) != 0 (max %.3g)" % np.abs(Xf.T @ Sinv @ res).max(), dict(rep, theta=theta.tolist()))
        grss = np.einsum("iv,ij,jv->v", res, Sinv, res)
        if not close(np.asarray(r.dispersion) * (n - p), grss, 1e-7):
            ck.fail("gls/dispersion-is-not-generalised-rss-over-n-minus-p/%s" % feat,
                    "dispersion*(n-p) = %s, r' Sigma^-1 r = %s" % ((np.asarray(r.dispersion) * (n - p)).tolist(), grss.tolist()), rep)
        for _ in range(3):
            d = rng.integers(-2, 3, (p, V)) * float(rng.choice([1.0, 0.25, 1e-2]))
            res2 = Yf - Xf @ (theta + d)
            if np.any(np.einsum("iv,ij,jv->v", res2, Sinv, res2) < grss * (1 - 1e-9) - 1e-9):
                ck.fail("gls/not-optimal/%s" % feat, "a perturbed coefficient vector has a smaller generalised RSS", dict(rep, delta=d.tolist()))
        # independent closed form (X' S X)^-1 X' S Y
        bref = np.linalg.solve(Xf.T @ Sinv @ Xf, Xf.T @ Sinv @ Yf)
        if not close(theta, bref, 1e-6):
            ck.fail("gls/differs-from-closed-form/%s" % feat, "theta differs from (X'S^-1X)^-1 X'S^-1 Y", dict(rep, theta=theta.tolist(), closed_form=bref.tolist()))
        # model: exact fit of the problem whitened with the exact factor L' (dyadic), evaluated in Coq
        if L is not None:
            LT = qm(L.T)
            cx.term("fit_close %s (q_ref_fit %s %s (q_gls_whiten %s %s %s) (q_gls_whiten %s %s %s)) %s %s" % (
                TOL6, cnat(p), cnat(V), cnat(p), LT, zm(X), cnat(V), LT, zm(Y), qm(theta.T), qv(r.dispersion)),
                "model-vs-impl/fit/models.GLSModel/%s" % feat,
                "GLSModel.fit differs from the exact least-squares fit of the problem whitened with L' (L L' = Sigma^-1)",
                dict(rep, theta=theta.tolist(), dispersion=np.asarray(r.dispersion).tolist(), L=L.tolist()))
        if i < 1:
            ck.sample({"gls": rep, "theta": theta.tolist()})
    ck.section("gls", cases=N)


# ---------------------------------------------------------------- pos_recipr and the statistics formed through it
def _band(c):
    """structural class of a magnitude"""
    a = abs(float(c))
    if a == 0:
        return "zero"
    if a <= 2.3e-16:
        return "le-1e-16"
    if a < 1e-7:
        return "1e-16..1e-7"
    if a <= 1e7:
        return "1e-7..1e7"
    return "gt-1e7"


def pos_recipr_section(ck, cx):
    """pos_recipr over the whole float range (model: Generated/PosRecipr.v + Model.q_pos_recipr)"""
    from nipy.algorithms.utils.matrices import pos_recipr
    rng = ck.rng("pos-recipr")
    N = ck.n(40, 300)
    for i in range(N):
        m = int(rng.integers(1, 9))
        ks = rng.integers(-1000, 1001, m) if i % 3 else rng.integers(-70, 10, m)
        x = np.ldexp(1.0, ks) * rng.choice([1.0, 1.0, 1.0, -1.0], m)
        if i % 4 == 0:
            x[int(rng.integers(0, m))] = 0.0
        shape = [(m,), (m, 1), (1, m)][i % 3]
        xs = x.reshape(shape)
        try:
            y = pos_recipr(xs)
        except Exception as e:  # noqa
            ck.fail("pos_recipr/raises", "pos_recipr raised %s: %s" % (type(e).__name__, e), {"x": x.tolist()})
            continue
        ck.count(("pr", x.tobytes(), shape), bucket="pos_recipr:pow2")
        if np.shape(y) != tuple(shape):
            ck.fail("pos_recipr/shape", "pos_recipr changes the shape %s -> %s" % (shape, np.shape(y)), {"x": xs.tolist()})
            continue
        yf = np.asarray(y, dtype=float).ravel()
        for xv, yv in zip(x, yf):
            if xv > 0 and yv * xv != 1.0:
                ck.fail("pos_recipr/positive-entry-not-inverted/%s" % _band(xv), "pos_recipr(%r) = %r, expected %r" % (xv, yv, 1.0 / xv),
                        {"x": x.tolist(), "pos_recipr": yf.tolist()})
            if xv <= 0 and yv != 0.0:
                ck.fail("pos_recipr/non-positive-entry-not-zero", "pos_recipr(%r) = %r, expected 0" % (xv, yv), {"x": x.tolist(), "pos_recipr": yf.tolist()})
        cx.term("qcvec_eqb (map q_pos_recipr %s) %s" % (qv(x), qv(yf)),
                "model-vs-impl/pos_recipr", "Gallina pos_recipr (translated threshold) and matrices.pos_recipr disagree",
                {"x": x.tolist(), "pos_recipr": yf.tolist()},
                "map this (map q_pos_recipr %s)" % qv(x))
        # decimal magnitudes (reciprocal rounded): positive rescaling divides the reciprocal
        d = rng.integers(1, 1000, m).astype(float) * 10.0 ** rng.integers(-300, 290, m).astype(float)
        yd = np.asarray(pos_recipr(d), dtype=float)
        bad = np.abs(yd * d - 1.0) > 1e-14
        if np.any(bad):
            k = int(np.argmax(bad))
            ck.fail("pos_recipr/positive-entry-not-inverted/%s" % _band(d[k]), "pos_recipr(%r) = %r" % (d[k], yd[k]), {"x": d.tolist(), "pos_recipr": yd.tolist()})
        ck.count(("prd", d.tobytes()), bucket="pos_recipr:decimal")
    ck.section("pos_recipr", cases=N)


def _stats(ck, engine, Xf, Yf, cvec, cmat, extra):
    """t and F statistics (and effect / sd where exposed) of one engine; dict name -> array"""
    from nipy.algorithms.statistics.models.regression import OLSModel, ARModel, WLSModel
    from nipy.modalities.fmri.glm import GeneralLinearModel
    from nipy.labs.glm import glm as labs
    out = {}
    if engine in ("models.OLSModel", "models.ARModel", "models.WLSModel"):
        m = {"models.OLSModel": lambda: OLSModel(Xf), "models.ARModel": lambda: ARModel(Xf, extra["rho"]),
             "models.WLSModel": lambda: WLSModel(Xf, weights=extra["w"])}[engine]()
        res = m.fit(Yf)
        T = res.Tcontrast(cvec)
        out["t"] = np.atleast_1d(T.t)
        out["effect"] = np.atleast_1d(T.effect)
        out["sd"] = np.atleast_1d(T.sd)
        out["F"] = np.atleast_1d(res.Fcontrast(cmat).F)
        out["t()"] = np.atleast_2d(m.fit(Yf[:, 0]).t()).ravel()
    elif engine == "fmri.GeneralLinearModel.ols":
        g = GeneralLinearModel(Xf)
        g.fit(Yf, "ols")
        con = g.contrast(cvec)
        out["t"] = np.atleast_1d(con.stat())
        out["effect"] = np.asarray(con.effect).ravel()
        out["sd"] = np.sqrt(np.asarray(con.variance).ravel())
        out["F"] = np.atleast_1d(g.contrast(cmat, contrast_type="F").stat())
    elif engine == "labs.glm.ols":
        G = labs.glm(Yf, Xf)
        con = G.contrast(cvec)
        out["t"] = np.atleast_1d(con.stat())
        out["effect"] = np.asarray(con.effect).ravel()
        out["sd"] = np.sqrt(np.atleast_1d(con.variance).ravel())
        out["F"] = np.atleast_1d(G.contrast(cmat, type="F").stat())
    return out


def stat_scale_section(ck):
    """contrast statistics are invariant under positive rescaling of the data over many decades
    (effect and sd carry the factor), agree between the engines at every scale, and the models-package
    statistics are effect * pos_recipr(sd) / quad * pos_recipr(q * dispersion)"""
    rng = ck.rng("stat-scale")
    N = ck.n(40, 250)
    engines_ = ["models.OLSModel", "models.ARModel", "models.WLSModel", "fmri.GeneralLinearModel.ols", "labs.glm.ols"]
    for i in range(N):
        n = int(rng.integers(5, 17 if not ck.thorough() else 31))
        p = int(rng.integers(1, min(n - 2, 4) + 1))
        V = int(rng.integers(1, 6))
        X = rand_design(rng, n, p)
        Y = rand_data(rng, n, V, X)
        Xf, Yf = X.astype(float), Y.astype(float)
        ex = [exact_ls(X.tolist(), Y[:, v].tolist()) for v in range(V)]
        nz = np.array([e[2] != 0 for e in ex])
        if not nz[0] or not np.any(nz):
            continue
        cvec = rng.integers(-2, 3, p).astype(float)
        if not np.any(cvec):
            cvec[0] = 1.0
        q = int(rng.integers(1, min(p, 3) + 1))
        cmat = np.eye(p)[rng.permutation(p)[:q]]
        den = int(rng.choice([2, 4, 8]))
        extra = {"rho": [float(Fraction(int(rng.integers(-den + 1, den)), den))],
                 "w": (rng.integers(1, 5, n) ** 2).astype(float)}
        # scales: always one in the 1e-15..1e-8 band, one moderate, one large; powers of two (exact) and decimal
        es = [int(rng.integers(-50, -26)), int(rng.integers(-26, 0)), int(rng.integers(1, 41))]
        scales = [2.0 ** e for e in es] + [10.0 ** int(rng.integers(-15, -7)), 10.0 ** int(rng.integers(-6, 7))]
        rep0 = {"X": X.tolist(), "Y": Y.tolist(), "contrast": cvec.tolist(), "F_contrast": cmat.tolist(),
                "rho": extra["rho"], "weights": extra["w"].tolist()}
        ref = {}
        for eng in engines_:
            try:
                ref[eng] = _stats(ck, eng, Xf, Yf, cvec, cmat, extra)
            except Exception as e:  # noqa
                ck.fail("stat/%s/raises" % eng, "%s raised %s: %s" % (eng, type(e).__name__, e), rep0)
        ck.count(("stat", X.tobytes(), Y.tobytes(), cvec.tobytes()), bucket="stat_scale:p%d:q%d" % (p, q))
        for c in scales:
            for eng in ref:
                rep = dict(rep0, scale=c, engine=eng)
                try:
                    st = _stats(ck, eng, Xf, c * Yf, cvec, cmat, extra)
                except Exception as e:  # noqa
                    ck.fail("stat/%s/raises/scale-%s" % (eng, _band(c)), "%s raised %s on data x %g: %s" % (eng, type(e).__name__, c, e), rep)
                    continue
                ck.count(("stat", X.tobytes(), Y.tobytes(), cvec.tobytes(), c, eng), bucket="stat_scale:scale-%s" % _band(c))
                for k_, v_ in st.items():
                    want = ref[eng][k_] * (c if k_ in ("effect", "sd") else 1.0)
                    got = v_
                    msk = nz if (got.shape == nz.shape and k_ != "t()") else np.ones(got.shape, bool)
                    # statistics are O(1) quantities; effect / sd live on the scale c * max|Y| (an exactly zero
                    # effect is round-off noise on that scale)
                    floor = 1e-9 * (c * (1.0 + float(np.abs(Yf).max())) if k_ in ("effect", "sd") else 1.0)
                    if got.shape != want.shape or not np.all(np.isfinite(got[msk])) or \
                            np.any(np.abs(got[msk] - want[msk]) > 1e-7 * np.abs(want[msk]) + floor):
                        ck.fail("rescale/%s/%s-not-scale-%s/data-scale-%s" % (eng, k_, "equivariant" if k_ in ("effect", "sd") else "invariant", _band(c)),
                                "%s: %s of data x %g is %s, expected %s" % (eng, k_, c, np.asarray(got).tolist(), np.asarray(want).tolist()), rep)
                # the statistics are what the property says they are, at this scale
                if "effect" in st and "sd" in st and st["t"].shape == st["effect"].shape:
                    ok = st["sd"] > 0
                    tt = np.where(ok, st["effect"] / np.where(ok, st["sd"], 1.0), 0.0)
                    if np.any(np.abs(st["t"][nz & ok] - tt[nz & ok]) > 1e-7 * np.abs(tt[nz & ok]) + 1e-9):
                        ck.fail("stat/%s/t-is-not-effect-over-sd/data-scale-%s" % (eng, _band(c)),
                                "%s: t = %s but effect/sd = %s on data x %g" % (eng, st["t"].tolist(), tt.tolist(), c), rep)
            # engines agree on t and F at this scale
            base = "labs.glm.ols"
            for eng in ref:
                if eng in ("models.OLSModel", "fmri.GeneralLinearModel.ols") and base in ref:
                    try:
                        a_, b_ = _stats(ck, eng, Xf, c * Yf, cvec, cmat, extra), _stats(ck, base, Xf, c * Yf, cvec, cmat, extra)
                    except Exception:  # noqa (reported above)
                        continue
                    for k_ in ("t", "F"):
                        if a_[k_].shape == b_[k_].shape == nz.shape and np.any(np.abs(a_[k_][nz] - b_[k_][nz]) > 1e-6 * (1 + np.abs(b_[k_][nz]))):
                            ck.fail("engines/%s-vs-labs-ols/%s-statistic/data-scale-%s" % (eng, k_, _band(c)),
                                    "%s statistic: %s gives %s, labs glm gives %s on data x %g" % (k_, eng, a_[k_].tolist(), b_[k_].tolist(), c),
                                    dict(rep0, scale=c))
    ck.section("stat_scale", cases=N, engines=engines_)


# ---------------------------------------------------------------- current fff_glm_kalman.c through ctypes
def _kalman_lib(ck):
    import ctypes as C
    lib = C.CDLL(str(ck.ov["cstat"]))

    class Vec(C.Structure):
        _fields_ = [("size", C.c_size_t), ("stride", C.c_size_t), ("data", C.POINTER(C.c_double)), ("owner", C.c_int)]

    class Mat(C.Structure):
        _fields_ = [("size1", C.c_size_t), ("size2", C.c_size_t), ("tda", C.c_size_t), ("data", C.POINTER(C.c_double)),
                    ("owner", C.c_int)]

    class KF(C.Structure):
        _fields_ = [("t", C.c_size_t), ("dim", C.c_size_t), ("b", C.POINTER(Vec)), ("Vb", C.POINTER(Mat)), ("Cby", C.POINTER(Vec)),
                    ("ssd", C.c_double), ("s2", C.c_double), ("dof", C.c_double), ("s2_cor", C.c_double)]

    class RKF(C.Structure):
        _fields_ = [("t", C.c_size_t), ("dim", C.c_size_t), ("Kfilt", C.POINTER(KF)), ("db", C.POINTER(Vec)), ("Hssd", C.POINTER(Mat)),
                    ("spp", C.c_double), ("Gspp", C.POINTER(Vec)), ("Hspp", C.POINTER(Mat)), ("b", C.POINTER(Vec)), ("Vb", C.POINTER(Mat)),
                    ("s2", C.c_double), ("a", C.c_double), ("dof", C.c_double), ("s2_cor", C.c_double),
                    ("vaux", C.POINTER(Vec)), ("Maux", C.POINTER(Mat))]
    lib.fff_glm_KF_new.restype = C.POINTER(KF)
    lib.fff_glm_KF_new.argtypes = [C.c_size_t]
    lib.fff_glm_KF_reset.argtypes = [C.POINTER(KF)]
    lib.fff_glm_KF_reset.restype = None
    lib.fff_glm_KF_delete.argtypes = [C.POINTER(KF)]
    lib.fff_glm_KF_delete.restype = None
    lib.fff_glm_KF_iterate.argtypes = [C.POINTER(KF), C.c_double, C.POINTER(Vec)]
    lib.fff_glm_KF_iterate.restype = None
    lib.fff_glm_KF_fit.argtypes = [C.POINTER(KF), C.POINTER(Vec), C.POINTER(Mat)]
    lib.fff_glm_KF_fit.restype = None
    lib.fff_glm_RKF_new.restype = C.POINTER(RKF)
    lib.fff_glm_RKF_new.argtypes = [C.c_size_t]
    lib.fff_glm_RKF_delete.argtypes = [C.POINTER(RKF)]
    lib.fff_glm_RKF_delete.restype = None
    lib.fff_glm_RKF_fit.argtypes = [C.POINTER(RKF), C.c_uint, C.POINTER(Vec), C.POINTER(Mat)]
    lib.fff_glm_RKF_fit.restype = None

    def vec(a):
        return Vec(a.size, 1, a.ctypes.data_as(C.POINTER(C.c_double)), 0)

    def mat(a):
        return Mat(a.shape[0], a.shape[1], a.shape[1], a.ctypes.data_as(C.POINTER(C.c_double)), 0)
    return lib, C, vec, mat


def ridge_exact(X, y, lam):
    """exact solution of (X'X + lam I) b = X'y (Fractions)"""
    n, p = len(X), len(X[0])
    Xa = [list(map(Fraction, r)) for r in X] + [[(lam if i == j else Fraction(0)) for j in range(p)] for i in range(p)]
    # normal equations of the augmented problem with sqrt avoided: build them directly
    A = [[sum(Fraction(X[t][i]) * X[t][j] for t in range(n)) + (lam if i == j else 0) for j in range(p)] +
         [sum(Fraction(X[t][i]) * y[t] for t in range(n))] for i in range(p)]
    for k in range(p):
        piv = next(r for r in range(k, p) if A[r][k] != 0)
        A[k], A[piv] = A[piv], A[k]
        A[k] = [v / A[k][k] for v in A[k]]
        for r in range(p):
            if r != k and A[r][k] != 0:
                f = A[r][k]
                A[r] = [a - f * b for a, b in zip(A[r], A[k])]
    b = [A[i][p] for i in range(p)]
    rss = sum((Fraction(y[t]) - sum(Fraction(X[t][j]) * b[j] for j in range(p))) ** 2 for t in range(n))
    return b, rss + lam * sum(v * v for v in b)


SERIES_KINDS = ("random", "random", "all-zero", "constant", "in-column-space", "one-nonzero-sample")


def series_of_kind(rng, n, X, i):
    """data classes for one time series: generic, identically zero (background voxel), constant,
    exactly fitted (zero residual), a single non-zero sample"""
    kind = SERIES_KINDS[i % len(SERIES_KINDS)] if i < 2 * len(SERIES_KINDS) else str(rng.choice(SERIES_KINDS))
    if kind == "all-zero":
        y = np.zeros(n, dtype=np.int64)
    elif kind == "constant":
        y = np.full(n, int(rng.integers(-9, 10)) or 3, dtype=np.int64)
    elif kind == "in-column-space":
        y = X @ rng.integers(-3, 4, X.shape[1])
    elif kind == "one-nonzero-sample":
        y = np.zeros(n, dtype=np.int64)
        y[int(rng.integers(0, n))] = int(rng.integers(1, 10))
    else:
        y = rand_data(rng, n, 1, X)[:, 0]
    y = np.asarray(y, dtype=np.int64)
    if not np.any(y):
        kind = "all-zero"
    return kind, y


def kalman_c_section(ck, cx):
    """drive the CURRENT lib/fff/fff_glm_kalman.c row by row and compare with the batch solutions"""
    lib, C, vec, mat = _kalman_lib(ck)
    rng = ck.rng("kalman-c")
    N = ck.n(40, 250)
    LAM = Fraction(1, 10 ** 7)
    TOLK = "(Qmake 1 1000000)"
    stale = 0
    for i in range(N):
        n = int(rng.integers(3, 13 if not ck.thorough() else 25))
        p = int(rng.integers(1, min(n - 1, 4) + 1))
        X = rand_design(rng, n, p)
        kind, y = series_of_kind(rng, n, X, i)
        Xf = np.ascontiguousarray(X, dtype=float)
        yf = np.ascontiguousarray(y, dtype=float)
        rep = {"X": X.tolist(), "y": y.tolist(), "series": kind}
        ck.count(("kalman-c", X.tobytes(), y.tobytes()), bucket="kalman_c:p%d:%s" % (p, kind))
        kf = lib.fff_glm_KF_new(p)
        lib.fff_glm_KF_reset(kf)
        tcheck = int(rng.integers(1, n))
        mid = None
        ok = True
        for t in range(n):
            row = np.ascontiguousarray(Xf[t])
            v = vec(row)
            lib.fff_glm_KF_iterate(kf, float(yf[t]), C.byref(v))
            k = kf.contents
            if k.t != t + 1 or k.s2 != k.ssd / (t + 1):
                ck.fail("kalman-c/s2-is-not-ssd-over-t", "after %d rows t=%d, s2=%r, ssd/t=%r" % (t + 1, k.t, k.s2, k.ssd / (t + 1)), rep)
                ok = False
                break
            if t + 1 == tcheck:
                mid = ([k.b.contents.data[j] for j in range(p)], k.ssd)
        k = kf.contents
        b_rows = np.array([k.b.contents.data[j] for j in range(p)])
        ssd_rows = k.ssd
        Vb = np.array([k.Vb.contents.data[j] for j in range(p * p)]).reshape(p, p)
        # the one-call driver gives the same state, plus dof and s2_cor
        lib.fff_glm_KF_reset(kf)
        yv, Xm = vec(yf), mat(Xf)
        lib.fff_glm_KF_fit(kf, C.byref(yv), C.byref(Xm))
        k = kf.contents
        b_fit = np.array([k.b.contents.data[j] for j in range(p)])
        ssd, s2, dof, s2c, tt = k.ssd, k.s2, k.dof, k.s2_cor, k.t
        Vb_fit = np.array([k.Vb.contents.data[j] for j in range(p * p)]).reshape(p, p)
        lib.fff_glm_KF_delete(kf)
        if not ok:
            continue
        # data-independent outputs of the driver (what kalman.pyx returns block-wide from the last series)
        Vinfo = np.linalg.inv(Xf.T @ Xf + 1e-7 * np.eye(p))
        if not close(Vb_fit, Vinfo, 1e-5) or not close(Vb_fit, Vb, 1e-9):
            ck.fail("kalman-c/fit-Vb-not-inverse-information/series-%s" % kind,
                    "after fff_glm_KF_fit Vb is not (X'X + 1e-7 I)^-1 (data independent): %s" % Vb_fit.tolist(), dict(rep, Vb=Vb_fit.tolist()))
        cx.term("match q_kf_fit %s kf_init_var %s %s with Some s_ => mclose %s (kVb s_) %s | None => false end" % (
            cnat(p), zm(X), zv(y), "(Qmake 1 100000)", qm(Vb_fit)),
            "model-vs-impl/kalman-c-Vb", "Gallina Kalman recursion and fff_glm_KF_fit disagree on Vb",
            dict(rep, Vb=Vb_fit.tolist()))
        if not np.array_equal(b_fit, b_rows) or ssd != ssd_rows:
            ck.fail("kalman-c/fit-differs-from-row-by-row", "fff_glm_KF_fit and reset + iterate over the rows give different states", rep)
        if dof != n - p or tt != n:
            ck.fail("kalman-c/dof/series-%s" % kind, "dof %r != n-p = %d or t %r != n" % (dof, n - p, tt), rep)
        if dof != 0 and (abs(s2c - (n / dof) * s2) > 1e-12 * (1 + abs(s2c)) or abs(s2 - ssd / n) > 1e-12 * (1 + abs(s2))):
            ck.fail("kalman-c/scale-convention", "s2 != ssd/n or s2_cor != (n/dof) s2", dict(rep, s2=s2, s2_cor=s2c, ssd=ssd))
        # batch solutions (exact): the prior-regularised one the filter computes, and plain OLS
        br, pen = ridge_exact(X.tolist(), y.tolist(), LAM)
        brf = np.array([float(v) for v in br])
        if not close(b_fit, brf, 1e-6) or abs(ssd - float(pen)) > 1e-6 * (1 + float(pen)):
            ck.fail("kalman-c/differs-from-batch-regularised-solution",
                    "after all rows b / ssd differ from the batch solution of (X'X + 1e-7 I) b = X'y and its penalised RSS",
                    dict(rep, b=b_fit.tolist(), ssd=ssd, exact_b=brf.tolist(), exact_ssd=float(pen)))
        ex = exact_ls(X.tolist(), y.tolist())
        bo = np.array([float(v) for v in ex[0]])
        slack = 1e-5 * (1 + float(np.abs(bo).max()) ** 2)
        if np.any(np.abs(b_fit - bo) > 1e-4 * (1 + np.abs(bo)) + slack) or abs(ssd - float(ex[2])) > 1e-4 * (1 + float(ex[2])) + slack \
                or abs(s2c - float(ex[2]) / (n - p)) > 1e-4 * (1 + float(ex[2])) + slack:
            ck.fail("kalman-c/differs-from-batch-ols", "Kalman OLS estimate / ssd / s2_cor differ from the batch OLS solution beyond the prior's effect",
                    dict(rep, b=b_fit.tolist(), ols=bo.tolist(), ssd=ssd, rss=float(ex[2])))
        if not close(Vb, Vb.T, 1e-7) or not close(Vb @ (Xf.T @ Xf + 1e-7 * np.eye(p)), np.eye(p), 1e-5):
            ck.fail("kalman-c/Vb-not-inverse-information", "Vb is not symmetric or not (X'X + 1e-7 I)^-1", dict(rep, Vb=Vb.tolist()))
        # model (Qc recursion as the C writes it) vs the C
        cx.term("kf_close %s %s %s (q_kf_fit %s kf_init_var %s %s) %s %s %s %s %s" % (
            TOLK, cnat(n), cnat(p), cnat(p), zm(X), zv(y), qv(b_fit), qs(ssd), qs(s2), qs(s2c), cnat(n)),
            "model-vs-impl/kalman-c-final", "Gallina Kalman recursion and fff_glm_KF_fit disagree",
            dict(rep, b=b_fit.tolist(), ssd=ssd, s2=s2, s2_cor=s2c))
        if mid is not None:
            cx.term("match q_kf_fit %s kf_init_var %s %s with Some s_ => vclose %s (kb s_) %s && qclose %s (kssd s_) %s | None => false end" % (
                cnat(p), zm(X[:tcheck]), zv(y[:tcheck]), "(Qmake 1 100000)", qv(mid[0]), "(Qmake 1 100000)", qs(mid[1])),
                "model-vs-impl/kalman-c-step", "Gallina Kalman recursion and fff_glm_KF_iterate disagree after a prefix of the rows",
                dict(rep, rows=tcheck, b=list(mid[0]), ssd=mid[1]))
        # refined filter (AR(1)): current C against the installed wrapper (same source unless the C was edited)
        try:
            from nipy.labs.glm import kalman as kmod
            rk = lib.fff_glm_RKF_new(p)
            lib.fff_glm_RKF_fit(rk, 2, C.byref(yv), C.byref(Xm))
            r = rk.contents
            rb = np.array([r.b.contents.data[j] for j in range(p)])
            rs2, ra, rdof, rs2c = r.s2, r.a, r.dof, r.s2_cor
            lib.fff_glm_RKF_delete(rk)
            B, VB, S2, dof_, A = kmod.ar1(yf[:, None].copy(), Xf, niter=2, axis=0)
            stale += 1
            if rdof != n - p or abs(rs2c - (n / rdof) * rs2) > 1e-12 * (1 + abs(rs2c)):
                ck.fail("kalman-c/rkf-dof-or-scale", "RKF dof != n-p or s2_cor != (n/dof) s2", dict(rep, dof=rdof, s2=rs2, s2_cor=rs2c))
            if np.all(np.isfinite(rb)) and (not close(rb, B[:, 0], 1e-9) or not close(rs2, S2.ravel()[0], 1e-9) or not close(ra, A.ravel()[0], 1e-9)):
                ck.fail("kalman-c/rkf-differs-from-installed-module", "fff_glm_RKF_fit of the current C and the installed kalman.ar1 disagree",
                        dict(rep, b=rb.tolist(), installed_b=B[:, 0].tolist(), a=ra, installed_a=float(A.ravel()[0])))
        except ImportError:
            pass
        # ---- one filter object for a whole block of voxels, as kalman.pyx uses it: the fit of a voxel must not
        #      depend on the voxels fitted before it with the same object (position in the block, order, niter)
        Vn = int(rng.integers(2, 6))
        Yb = np.ascontiguousarray(rand_data(rng, n, Vn, X), dtype=float)
        bkinds = ["random"] * Vn
        for _ in range(int(rng.integers(0, 3))):               # special series at any position of the block, incl. first / last
            pos = int(rng.choice([0, Vn - 1, int(rng.integers(0, Vn))]))
            bk, col_ = series_of_kind(rng, n, X, 10 ** 6)
            Yb[:, pos] = col_
            bkinds[pos] = bk
        niter = int(rng.choice([1, 2, 2, 3, 4]))

        def rkf_block(cols, fresh_each=False):
            outs = []
            rk_ = lib.fff_glm_RKF_new(p)
            for v_ in cols:
                if fresh_each:
                    lib.fff_glm_RKF_delete(rk_)
                    rk_ = lib.fff_glm_RKF_new(p)
                yy_ = np.ascontiguousarray(Yb[:, v_])
                yv_ = vec(yy_)
                lib.fff_glm_RKF_fit(rk_, niter, C.byref(yv_), C.byref(Xm))
                r_ = rk_.contents
                outs.append(np.concatenate([[r_.b.contents.data[j] for j in range(p)], [r_.Vb.contents.data[j] for j in range(p * p)],
                                            [r_.s2, r_.a, r_.dof, r_.s2_cor]]))
            lib.fff_glm_RKF_delete(rk_)
            return np.array(outs)

        def kf_block(cols, fresh_each=False):
            outs = []
            k_ = lib.fff_glm_KF_new(p)
            for v_ in cols:
                if fresh_each:
                    lib.fff_glm_KF_delete(k_)
                    k_ = lib.fff_glm_KF_new(p)
                yy_ = np.ascontiguousarray(Yb[:, v_])
                yv_ = vec(yy_)
                lib.fff_glm_KF_fit(k_, C.byref(yv_), C.byref(Xm))
                c_ = k_.contents
                outs.append(np.concatenate([[c_.b.contents.data[j] for j in range(p)], [c_.Vb.contents.data[j] for j in range(p * p)],
                                            [c_.ssd, c_.s2, c_.dof, c_.s2_cor]]))
            lib.fff_glm_KF_delete(k_)
            return np.array(outs)
        order = list(range(Vn))
        perm = [int(v_) for v_ in rng.permutation(Vn)]
        # standard filter: Vb, dof (and what kalman.ols returns block-wide: those of the LAST series) do not depend on the data
        kb_ = kf_block(order)
        for v_ in range(Vn):
            if not np.allclose(kb_[v_, p:p + p * p], kb_[0, p:p + p * p], rtol=1e-9, atol=1e-12) or kb_[v_, -2] != n - p:
                ck.fail("kalman-c/kf-data-independent-outputs-depend-on-data/series-%s/position-%s" % (
                    bkinds[v_], "last" if v_ == Vn - 1 else ("first" if v_ == 0 else "inner")),
                    "Vb / dof left by fff_glm_KF_fit for voxel %d (%s) differ from those of voxel 0 (%s): dof %r, n-p %d" % (
                        v_, bkinds[v_], bkinds[0], kb_[v_, -2], n - p), dict(X=X.tolist(), Y=Yb.tolist(), voxel=v_, kinds=bkinds))
                break
        try:
            from nipy.labs.glm import kalman as kmod
            B_, VB_, S2_, dof_i = kmod.ols(Yb.copy(), Xf, axis=0)
            if not close(kb_[:, :p].T, B_, 1e-9) or not close(kb_[-1, p:p + p * p].reshape(p, p), VB_, 1e-9) or kb_[-1, -2] != dof_i \
                    or not close(kb_[:, -3], S2_.ravel(), 1e-9):
                ck.fail("kalman-c/kf-block-differs-from-installed-module/last-series-%s" % bkinds[-1],
                        "kalman.ols loop on the current C (one object, VB / dof from the last series) and the installed kalman.ols disagree",
                        dict(X=X.tolist(), Y=Yb.tolist(), kinds=bkinds))
        except ImportError:
            pass
        for nm, blockfn, feat in (("rkf", rkf_block, "niter%s" % ("1" if niter == 1 else ">=2")), ("kf", kf_block, "ols")):
            reused = blockfn(order)
            fresh = blockfn(order, fresh_each=True)
            permuted = blockfn(perm)
            ck.count(("reuse", nm, X.tobytes(), Yb.tobytes(), niter), bucket="kalman_c:reuse:%s:%s" % (nm, feat))
            brep = dict(X=X.tolist(), Y=Yb.tolist(), niter=niter, filter=nm)
            for v_ in range(Vn):
                if not np.allclose(reused[v_], fresh[v_], rtol=1e-10, atol=1e-12, equal_nan=True):
                    ck.fail("kalman-c/%s-fit-depends-on-voxels-fitted-before/%s/voxel-not-first-in-block" % (nm, feat),
                            "voxel %d of a block fitted with one re-used %s object differs from the same voxel fitted with a fresh object "
                            "(b, Vb, s2/ssd, a ...): %s vs %s" % (v_, nm.upper(), reused[v_].tolist(), fresh[v_].tolist()), dict(brep, voxel=v_))
                    break
            if not np.allclose(permuted, reused[perm], rtol=1e-10, atol=1e-12, equal_nan=True):
                ck.fail("kalman-c/%s-fit-depends-on-voxel-order/%s" % (nm, feat),
                        "fitting the voxels in another order with one re-used %s object does not permute the results" % nm.upper(), dict(brep, perm=perm))
        # the installed wrapper on the same block (same C unless edited)
        try:
            from nipy.labs.glm import kalman as kmod
            B, VB, S2, dof_, A = kmod.ar1(Yb.copy(), Xf, niter=niter, axis=0)
            cur = rkf_block(order)
            if np.all(np.isfinite(cur)) and (not close(cur[:, :p].T, B, 1e-9) or not close(cur[:, p + p * p], S2.ravel(), 1e-9)
                                             or not close(cur[:, p + p * p + 1], A.ravel(), 1e-9)):
                ck.fail("kalman-c/rkf-block-differs-from-installed-module/niter%s" % ("1" if niter == 1 else ">=2"),
                        "fff_glm_RKF_fit over a block of voxels (current C) and the installed kalman.ar1 disagree", dict(X=X.tolist(), Y=Yb.tolist(), niter=niter))
        except ImportError:
            pass
        if i < 1:
            ck.sample({"kalman_c": rep, "b": b_fit.tolist(), "ssd": ssd, "s2": s2, "dof": dof, "s2_cor": s2c})
    ck.section("kalman_c", cases=N, rkf_cases_against_installed_module=stale)


def run(ck):
    ck.cov["rule"] = ("random integer designs (n 3..16 quick / 3..30 thorough, p 1..min(n-1,5), full column rank, cond < 200) x integer data "
                      "(1..8 voxels, white or cumulated); AR coefficients k/2^m (order 1..3), perfect-square weights, unimodular "
                      "reparametrisations, steps in {2,4,8,16,100}; a case = one (design, data, engine configuration); distinct by content; "
                      "non-trivial = non-zero AR coefficients / non-unit weights / more than one label / N-d data")
    ck.coq_build()
    ck.overlay(cstat=True)
    cx = Ctx(ck)
    whiten_section(ck, cx)
    fit_section(ck, cx)
    glm_ar1_section(ck, cx)
    labs_axis_section(ck)
    labs_contrast_section(ck, cx)
    kalman_c_section(ck, cx)
    pos_recipr_section(ck, cx)
    stat_scale_section(ck)
    gls_section(ck, cx)
    conditioning_section(ck, cx)
    cx.flush()
    ck.section("model", coq_terms=len(cx.terms))
    ck.trust.append("oracle contracts (hypotheses of pinv_solves_normal_eq / ols_fit_optimal): numpy.linalg.pinv returns P with "
                    "X P X = X and X P symmetric - checked numerically at 1e-9 on every generated design; numpy.sqrt exact on perfect "
                    "squares (checked); cholesky(pinv(sigma)).T for diagonal sigma is the diagonal of square roots (checked at 1e-10)")
    ck.trust.append("beta/s2/mse are compared with the exact rational fit at |diff| <= 1e-8 (1+|exact|); whitening, labels, dof and shapes exactly")
    ck.assume.append("labs kalman engine is the installed (stale) compiled module - no Cython to rebuild kalman.pyx; used for the engine-agreement oracle only")
    ck.assume.append("voxels whose OLS residual is exactly zero are skipped in the ar1 section (ar1 = 0/0)")
