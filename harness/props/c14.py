"""C14 - partitional and hierarchical clustering return valid, consistent clusterings.

Sections
  kmeans        nipy/algorithms/clustering/utils.py: _EStep, _MStep, voronoi, _kmeans run on
                object arrays of `Fraction` (the same source lines, exact arithmetic) and the
                public float `kmeans` wrapper on the subset of cases where every float
                operation is exact; compared exactly with the Gallina model (coq/C14/Model.v);
                property oracles evaluated on the implementation's outputs.
  hierarchical  hierarchical_clustering.py: ward, ward_quick, average_link_graph, WeightedForest
                partition/split/check_compatible_height/list_of_subtrees, *_segment wrappers;
                exact correspondence with coq/C14/ModelH.v and dendrogram oracles.
  fusion        hierarchical_clustering.fusion (graph update of average_link_graph) called directly; exact
                correspondence with coq/C14/ModelAL.v (multisets of live rows) and a Fraction oracle.
"""
import itertools
from fractions import Fraction as F

import numpy as np

from ..kit import cnat, cnatl, cq, cz, clist, cbool

HDR = ("From Coq Require Import List ZArith QArith.\n"
       "From NV.Generated Require Import ClusteringFrags.\n"
       "From NV.C14 Require Import Model ModelH.\n")


# ------------------------------------------------------------------ helpers
def fa(a):
    """integer array -> object array of Fractions"""
    a = np.asarray(a)
    out = np.empty(a.shape, dtype=object)
    for idx in np.ndindex(a.shape):
        out[idx] = F(int(a[idx]))
    return out


def cmat(rows):
    return clist([clist([cq(F(v)) for v in r]) for r in rows])


def is_inf(J):
    return isinstance(J, (float, np.floating)) and np.isinf(J)


def is_dyadic(x, maxbits=20):
    d = F(x).denominator
    return d & (d - 1) == 0 and d <= (1 << maxbits)


def input_variant(X, L, i):
    """the same data / labels in a different representation (dtype, memory layout, view, 1-d)"""
    i = i % 6
    n, p = X.shape
    if i == 1:
        return np.asfortranarray(X.copy()), L.astype(np.int32), "fortran-order+int32-labels"
    if i == 2 and np.all(X == np.rint(X)):
        return X.astype(np.int64), L.copy(), "int64-data"
    if i == 3:
        big = np.zeros((2 * n, p + 1))
        big[::2, :p] = X
        return big[::2, :p], L.astype(float), "strided-view+float-labels"
    if i == 4 and p == 1:
        return X[:, 0].copy(), L.copy(), "1-d-data"
    if i == 5:
        return (X.astype(np.float32), L.copy(), "float32-data") if np.all(X.astype(np.float32) == X) else (X.copy(), L.copy(), "c-order-float64")
    return X.copy(), L.copy(), "c-order-float64"


def wcss(X, z, C):
    return sum(sum((F(a) - F(b)) ** 2 for a, b in zip(X[i], C[z[i]])) for i in range(len(X)))


def expected_centres(X, z, k):
    """member means, global mean for an empty cluster (independent restatement of the property)"""
    n, p = len(X), len(X[0])
    g = [sum(F(X[i][j]) for i in range(n)) / n for j in range(p)]
    out = []
    for q in range(k):
        mem = [i for i in range(n) if z[i] == q]
        out.append(g if not mem else [sum(F(X[i][j]) for i in mem) / len(mem) for j in range(p)])
    return out


# ------------------------------------------------------------------ k-means
def kmeans_cases(ck):
    """(X int matrix, k, labels, delta) groups; every group is run for maxiter 1..6."""
    rng = ck.rng("kmeans")
    groups = []
    # exhaustive tiny: n<=4 items on a line with values 0..2 / 0..3, all k, all labellings (incl. empty clusters)
    for n in range(1, 5):
        vals = range(3) if n == 4 else range(4)
        for xs in itertools.combinations_with_replacement(vals, n):
            for k in range(1, n + 1):
                for lab in itertools.product(range(k), repeat=n):
                    if ck.thorough() or n <= 2 or (n == 3 and sum(lab) % 2 == 0) or (sum(xs) * 7 + sum(lab) * 3 + k) % 23 == 0:
                        groups.append((np.array(xs).reshape(n, 1), k, list(lab), F(1, 10000)))
    N = ck.n(140, 1800)
    for t in range(N):
        n = int(rng.integers(2, 9 if t % 5 else 13))
        p = int(rng.integers(1, 6))
        hi = int(rng.choice([2, 3, 5, 9]))
        X = rng.integers(0, hi, size=(n, p))
        if t % 4 == 0:                        # duplicates
            X[rng.integers(0, n)] = X[rng.integers(0, n)]
        k = int(rng.integers(1, n + 1))
        mode = t % 3
        if mode == 0:
            lab = rng.integers(0, k, size=n)
        elif mode == 1:                       # few clusters used: several empty ones
            lab = rng.integers(0, max(1, k // 2), size=n)
        else:
            lab = np.zeros(n, int)
            lab[rng.integers(0, n)] = k - 1
        delta = [F(0), F(1, 10000), F(1, 4), F(1, 8)][int(rng.integers(0, 4))]
        groups.append((X, k, [int(v) for v in lab], delta))
    # runs that stop on the displacement tolerance with a last move that is small but NOT zero: tolerance large
    # w.r.t. the moves (delta up to 4), or the variance inflated by a far-away group of items (default delta)
    for t in range(ck.n(90, 600)):
        n = int(rng.integers(3, 11))
        p = int(rng.integers(1, 4))
        X = rng.integers(0, 9, size=(n, p))
        k = int(rng.integers(2, min(n, 5) + 1))
        if t % 3 == 0:                        # far-away group
            m = int(rng.integers(1, 4))
            X = np.vstack([X, np.full((m, p), int(rng.choice([200, 1000])))])
            n += m
            k = min(k + 1, n)
            delta = [F(1, 10000), F(1, 1024)][int(rng.integers(0, 2))]
        else:
            delta = [F(1, 16), F(1, 4), F(1), F(4)][int(rng.integers(0, 4))]
        lab = rng.integers(0, k, size=n)
        groups.append((X, k, [int(v) for v in lab], delta))
    return groups


def kmeans_section(ck):
    from nipy.algorithms.clustering import utils as U
    # --- tie rule of the running _EStep (oracle value threaded into the model)
    zt, _ = U._EStep(fa([[0]]), fa([[1], [-1]]))
    strict = int(zt[0]) == 0
    st = cbool(strict)
    gen = (ck.build.generated or {}).get("ClusteringFrags.v", {}) if ck.build is not None else {}
    if "estep_strict" in gen and bool(gen["estep_strict"]) != strict:
        ck.fail("estep/tie-rule/source-vs-runtime", "the comparison translated from _EStep's source (%s) and the tie rule measured on the "
                "running code (%s) differ" % ("<" if gen["estep_strict"] else "<=", "<" if strict else "<="), {"translated": gen})
    ck.section("kmeans", tie_rule="first closest centre wins (`<`)" if strict else "last closest centre wins (`<=`)")
    terms, meta = [], []

    def add(term, m):
        terms.append(term)
        meta.append(m)

    groups = kmeans_cases(ck)
    nfloat = 0
    ninf = 0
    nstop = nstop_nz = 0
    maxiters = range(1, 7)
    for gi, (Xi, k, lab, delta) in enumerate(groups):
        n, p = Xi.shape
        Xf = fa(Xi)
        Xl = [[int(v) for v in r] for r in Xi]
        L = np.array(lab, dtype=np.int_)
        rep = {"X": Xl, "k": k, "labels": lab, "delta": str(delta)}
        # _MStep on the initial labelling
        c0 = U._MStep(Xf, L, k)
        c0l = [[F(v) for v in r] for r in c0]
        if c0l != expected_centres(Xl, lab, k):
            ck.fail("mstep/centre-not-member-mean/%s" % ("empty-cluster" if len(set(lab)) < k else "all-used"),
                    "_MStep centres %s are not the member means / global mean for X=%s z=%s k=%d" % (c0l, Xl, lab, k), rep)
        add("mstep_agrees %s %s %s %s %s" % (cnat(p), cmat(Xl), cnatl(lab), cnat(k), cmat(c0l)),
            ("mstep", rep, None))
        prevW = None
        gm0 = [sum(F(int(v)) for v in Xi[:, j]) / n for j in range(p)]
        thr_exact = delta * sum(sum((F(int(v)) - gm0[j]) ** 2 for v in Xi[:, j]) / n for j in range(p)) / p
        all_centres = list(c0l)
        runs = []
        for mi in maxiters:
            try:
                C, z, J = U._kmeans(Xf, k, L, mi, delta)
            except Exception as e:  # noqa
                ck.fail("kmeans/raises", "_kmeans raised %s: %s" % (type(e).__name__, e), dict(rep, maxiter=mi))
                runs = None
                break
            Cl = [[F(v) for v in r] for r in C]
            zl = [int(v) for v in z]
            runs.append((mi, Cl, zl, J))
            all_centres += Cl
            r2 = dict(rep, maxiter=mi, centres=[[str(v) for v in r] for r in Cl], labels=zl, J=str(J))
            ck.count(("km", Xl, k, tuple(lab), str(delta), mi), nontrivial=n > 1,
                     bucket="kmeans:%s" % ("empty-init-cluster" if len(set(lab)) < k else "all-clusters-used"))
            # ---- property oracles on the implementation's outputs
            if len(zl) != n or any(not (0 <= v < k) for v in zl):
                ck.fail("kmeans/labels-out-of-range", "labels %s not within 0..%d" % (zl, k - 1), r2)
                continue
            if len(Cl) != k or Cl != expected_centres(Xl, zl, k):
                ck.fail("kmeans/centres-not-member-means/%s" % ("empty-cluster" if len(set(zl)) < k else "all-used"),
                        "returned centres %s are not the means of the returned labels %s (global mean for empty clusters)" % (Cl, zl), r2)
            W = wcss(Xl, zl, Cl)
            if prevW is not None and W > prevW:
                ck.fail("kmeans/more-iterations-worse", "maxiter=%d gives inertia %s of the returned solution > %s with maxiter=%d"
                        % (mi, W, prevW, mi - 1), r2)
            prevW = W
            W0 = wcss(Xl, lab, c0l)
            if W > W0:
                ck.fail("kmeans/worse-than-initial", "returned inertia %s > initial labelling's %s" % (W, W0), r2)
            if is_inf(J):
                ninf += 1
                # structural condition of the (fixed) finding: the very first iteration already meets the stopping rule
                c1 = runs[0][1]
                moved = sum((a - b) ** 2 for ra, rb in zip(c0l, c1) for a, b in zip(ra, rb))
                if moved < thr_exact:
                    ck.fail("kmeans/returned-J/converged-in-first-iteration",
                            "_kmeans returns J=inf: X=%s k=%d Labels=%s maxiter=%d" % (Xl, k, lab, mi), r2)
                else:
                    ck.fail("kmeans/returned-J-inf/first-iteration-not-converged",
                            "_kmeans returns J=inf although its first iteration does not meet the stopping rule: X=%s k=%d Labels=%s maxiter=%d"
                            % (Xl, k, lab, mi), r2)
            elif F(J) != W:
                ck.fail("kmeans/returned-J/not-inertia-of-returned-solution",
                        "_kmeans returns J=%s but the returned centres/labels have inertia %s: X=%s k=%d Labels=%s maxiter=%d"
                        % (J, W, Xl, k, lab, mi), r2)
            if is_inf(J):
                add("false", ("kmeans", r2, None))       # the model never returns inf
                continue
            add("kmeans_agrees %s %s %s %s %s %s %s %s %s %s" % (st, cnat(p), cnat(k), cmat(Xl), cnatl(lab), cnat(mi),
                                                           cq(delta), cmat(Cl), cnatl(zl), cq(F(J))),
                ("kmeans", r2, None))
        if runs is None:
            continue
        cprev = c0l
        for mi, Cl, zl, J in runs:                      # first iteration that meets the stopping rule (on the code as it should be)
            moved = sum((a - b) ** 2 for ra, rb in zip(cprev, Cl) for a, b in zip(ra, rb))
            if moved < thr_exact:
                nstop += 1
                nstop_nz += moved > 0
                break
            cprev = Cl
        if gi < 3:
            ck.sample({"call": "_kmeans(X, k, Labels, maxiter=3, delta) on Fraction arrays", "X": Xl, "k": k, "Labels": lab,
                       "delta": str(delta), "centres": [[str(v) for v in r] for r in runs[2][1]], "labels": runs[2][2],
                       "J": str(runs[2][3])})
        # ---- the public float wrapper, where float arithmetic is exact
        gm = [sum(F(v) for v in Xi[:, j]) / n for j in range(p)]
        vd = sum(sum((F(int(v)) - gm[j]) ** 2 for v in Xi[:, j]) / n for j in range(p)) / p
        thr = delta * vd
        exact = all(is_dyadic(v) for r in all_centres for v in r) and all(is_dyadic(v) for v in gm) and is_dyadic(vd) and is_dyadic(delta)
        if exact:
            Xd = Xi.astype(float)
            for mi, Cl, zl, J in runs:
                for kk, mm, dd in ((k, mi, float(delta)),) + (((k + n, mi, float(delta)),) if k == n else ()) + \
                        (((0, mi, float(delta)),) if k == 1 else ()):
                    Xin, Lin, rtag = input_variant(Xd, L, gi + mi)
                    Xkeep, Lkeep = Xin.copy(), Lin.copy()
                    C2, z2, J2 = U.kmeans(Xin, kk, Lin, maxiter=mm, delta=dd)
                    if not (np.array_equal(Xin, Xkeep) and np.array_equal(Lin, Lkeep)):
                        ck.fail("kmeans-wrapper/mutates-input/%s" % rtag, "kmeans() changed its X or Labels argument",
                                dict(rep, maxiter=mm, representation=rtag))
                    nfloat += 1
                    ck.count(("kmf", Xl, kk, tuple(lab), str(delta), mm), nontrivial=n > 1, bucket="kmeans:float-wrapper")
                    C2l = [[F(float(v)) for v in r] for r in C2]
                    z2l = [int(v) for v in z2]
                    r3 = dict(rep, maxiter=mm, nbclusters=kk, centres=[[str(v) for v in r] for r in C2l], labels=z2l, J=str(J2))
                    if C2l != expected_centres(Xl, z2l, k) or any(not (0 <= v < k) for v in z2l):
                        ck.fail("kmeans-wrapper/centres-not-member-means", "kmeans(): centres %s labels %s" % (C2l, z2l), r3)
                    if is_inf(float(J2)) or F(float(J2)) != wcss(Xl, z2l, C2l):
                        ck.fail("kmeans-wrapper/returned-J-not-inertia", "kmeans(): J=%s, inertia of the returned solution %s"
                                % (J2, wcss(Xl, z2l, C2l)), r3)
                    add("false" if is_inf(float(J2)) else "kmeans_api_agrees %s %s %s %s %s %s %s %s %s %s" % (
                        st, cnat(p), cz(kk), cmat(Xl), cnatl(lab), cz(mm), cq(F(dd)), cmat(C2l), cnatl(z2l), cq(F(float(J2)))),
                        ("kmeans-wrapper", r3, None))
    # ---- _EStep / voronoi with arbitrary rational centres (not means), ties included
    rng = ck.rng("estep")
    for t in range(ck.n(150, 2000)):
        n = int(rng.integers(1, 8))
        p = int(rng.integers(1, 6))
        k = int(rng.integers(1, 6))
        X = rng.integers(-2, 3, size=(n, p))
        Cn = rng.integers(-4, 5, size=(k, p))
        den = int(rng.choice([1, 2, 3]))
        if t % 3 == 0 and k > 1:
            Cn[rng.integers(0, k)] = Cn[rng.integers(0, k)]       # duplicate centres: exact ties
        Cf = np.empty((k, p), dtype=object)
        for idx in np.ndindex(k, p):
            Cf[idx] = F(int(Cn[idx]), den)
        Xl = [[int(v) for v in r] for r in X]
        Cl = [[F(v) for v in r] for r in Cf]
        z, J = U._EStep(fa(X), Cf)
        zv = U.voronoi(fa(X), Cf)
        zl = [int(v) for v in z]
        rep = {"X": Xl, "centres": [[str(v) for v in r] for r in Cl], "labels": zl, "J": str(J)}
        ck.count(("es", Xl, tuple(map(tuple, Cl))), bucket="estep")
        if [int(v) for v in zv] != zl:
            ck.fail("voronoi/differs-from-estep", "voronoi %s, _EStep %s" % (list(zv), zl), rep)
        for i in range(n):
            dists = [sum((F(a) - b) ** 2 for a, b in zip(Xl[i], Cl[q])) for q in range(k)]
            if not (0 <= zl[i] < k) or dists[zl[i]] != min(dists):
                ck.fail("voronoi/not-closest-centre/%s" % ("tie" if dists.count(min(dists)) > 1 else "unique"),
                        "item %d labelled %d, distances %s" % (i, zl[i], dists), rep)
                break
        if all(0 <= v < k for v in zl) and F(J) != wcss(Xl, zl, Cl):
            ck.fail("estep/J-not-inertia", "J=%s but inertia is %s" % (J, wcss(Xl, zl, Cl)), rep)
        add("estep_agrees %s %s %s %s %s %s" % (st, cnat(p), cmat(Xl), cmat(Cl), cnatl(zl), cq(F(J))), ("estep", rep, None))
    # 1-d inputs go through voronoi's reshape
    zv = U.voronoi(np.array([0., 1., 5.]), np.array([4., 0.5]))
    if [int(v) for v in zv] != [1, 1, 0]:
        ck.fail("voronoi/1d-reshape", "voronoi on 1-d input gives %s" % list(zv), {"x": [0, 1, 5], "centres": [4, 0.5]})
    # ---- correspondence
    if ck.build is not None and ck.build.ok:
        res = ck.coq_bools(HDR, terms, shard=120, name="km")
        ck.cov["traces_validated_against_impl"] += len(res)
        for ok, (kind, rep, _) in zip(res, meta):
            if not ok:
                ck.fail("%s/model-vs-impl" % kind, "Gallina model and implementation disagree (%s): %s" % (kind, str(rep)[:300]), rep)
    ck.section("kmeans", groups=len(groups), maxiters=list(maxiters), model_cases=len(terms), float_wrapper_cases=nfloat,
               returned_J_inf=ninf, groups_stopping_on_tolerance=nstop, of_which_with_nonzero_last_move=int(nstop_nz))


# ------------------------------------------------------------------ float implementation under stress
OFFSETS = [0.0, 1e6, 1e8, 1.7e9, 1e10, 1e12]
EPS = 2.0 ** -52


def stress_matrix(rng, n, p, offset=None, mixed=None, per_column=False):
    """float matrix whose entries are off_j + s_j * small integer, every entry and every difference exactly
    representable; returns (float array, [(off_j, s_j)], structural tag).  per_column: every column draws its own
    offset, so that the columns' magnitudes can differ by many orders."""
    offset = rng.choice(OFFSETS) if offset is None else offset
    mixed = (rng.random() < 0.3) if mixed is None else mixed
    cols, scales = [], []
    for j in range(p):
        sc = float(rng.choice([2.0 ** -6, 1.0, 2.0 ** 8])) if mixed else 1.0
        if per_column:
            off = float(rng.choice([0.0, offset, offset, 1e6, 1e9, 1e12]))
        else:
            off = offset if (not mixed or rng.random() < 0.7) else 0.0
        if off * 1.0 + sc * 64 > 2.0 ** 52 or (off and sc < 1 and off > 1e10):
            sc = 1.0
        cols.append(off + sc * rng.integers(0, 20, size=n).astype(float))
        scales.append((off, sc))
    X = np.stack(cols, 1)
    offs = [o for o, _ in scales]
    tag = ("offset>=1e6" if max(offs) >= 1e6 else "small-offset") + ("+mixed-scales" if mixed else "") + \
        ("+column-offsets-differ" if max(offs) >= 1e6 * (min(offs) + 1) else "")
    return X, scales, tag


def storage_variant(X, i):
    """the same (exactly representable) values stored as another dtype / layout: (array, tag)"""
    i = i % 6
    if i in (1, 4):
        for dt, name in ((np.float16, "float16"), (np.float32, "float32")) if i == 1 else ((np.float32, "float32"),):
            with np.errstate(over="ignore"):
                Y = X.astype(dt)
            if np.array_equal(Y.astype(float), X):
                if i == 4:                                   # strided view of a larger array
                    big = np.zeros((2 * X.shape[0], X.shape[1] + 1), dtype=dt)
                    big[::2, 1:] = Y
                    return big[::2, 1:], name + "-strided"
                return Y, name
    if i == 2 and np.all(X == np.rint(X)) and np.abs(X).max() < 2.0 ** 62:
        return X.astype(np.int64), "int64"
    if i == 3:
        return np.asfortranarray(X.copy()), "float64-fortran"
    return X.copy(), "float64"


def exact_d2(x, c):
    return sum((F(float(a)) - F(float(b))) ** 2 for a, b in zip(x, c))


def float_stress_section(ck):
    """The float implementation (not the Fraction run) against exact rational distances, on data with large common
    offsets, per-feature scales and near-duplicate centres.  Independent of the Coq build and of the translators."""
    import warnings
    from nipy.algorithms.clustering import utils as U
    from nipy.algorithms.clustering import hierarchical_clustering as hc
    from nipy.algorithms.graph.graph import WeightedGraph
    rng = ck.rng("float-stress")
    REL = F(1, 10 ** 9)

    def estep_case(X, C, tag):
        n, k = len(X), len(C)
        rep = {"x": [[repr(float(v)) for v in r] for r in X], "centers": [[repr(float(v)) for v in r] for r in C]}
        ck.count(("fes", rep["x"], rep["centers"]), bucket="float-estep:%s" % tag)
        outs = []
        for fn in ("voronoi", "_EStep"):
            try:
                if fn == "voronoi":
                    z = U.voronoi(X.copy(), C.copy())
                    J = None
                else:
                    z, J = U._EStep(X.copy(), C.copy())
            except Exception as e:  # noqa
                ck.fail("%s/float/raises" % fn, "%s raised %s: %s" % (fn, type(e).__name__, e), rep)
                continue
            z = [int(v) for v in z]
            r2 = dict(rep, labels=z, function=fn)
            if len(z) != n or any(not (0 <= v < k) for v in z):
                ck.fail("voronoi/float/labels-out-of-range/%s" % tag, "%s labels %s for %d centres" % (fn, z, k), r2)
                continue
            tot = F(0)
            for i in range(n):
                d = [exact_d2(X[i], C[q]) for q in range(k)]
                tot += d[z[i]]
                if d[z[i]] > min(d) * (1 + REL):
                    ck.fail("voronoi/float/not-closest-centre/%s" % tag,
                            "%s: point %d = %s is labelled %d (squared distance %s) but centre %d is at squared distance %s"
                            % (fn, i, rep["x"][i], z[i], float(d[z[i]]), d.index(min(d)), float(min(d))), r2)
                    break
            else:
                if J is not None and abs(F(float(J)) - tot) > REL * (1 + tot):
                    ck.fail("estep/float/J-not-inertia/%s" % tag, "_EStep J=%r but the inertia of its labels is %s" % (float(J), float(tot)), r2)
            outs.append(z)
        if len(outs) == 2 and outs[0] != outs[1]:
            ck.fail("voronoi/differs-from-estep", "voronoi %s, _EStep %s" % (outs[0], outs[1]), rep)

    # the two situations of time-stamp like data, written out
    t0 = 1.7e9
    estep_case((t0 + np.array([0., 1., 2., 10., 11., 12.])).reshape(6, 1), (t0 + np.array([1., 11.])).reshape(2, 1), "offset>=1e6")
    xs = (1e8 + np.array([0., 1., 5., 6.])).reshape(4, 1)
    estep_case(xs, xs.copy(), "offset>=1e6+every-point-a-centre")
    for t in range(ck.n(160, 1500)):
        n = int(rng.integers(1, 10))
        p = int(rng.integers(1, 5))
        k = int(rng.integers(1, 6))
        X, scales, tag = stress_matrix(rng, n, p)
        mode = t % 4
        if mode == 0:                          # every point (or a subset) is a centre
            C = X[rng.permutation(n)[:max(1, min(k, n))]].copy()
            tag += "+points-as-centres"
        else:
            C = np.stack([off + sc * (rng.integers(0, 40, size=k) / 2.0) for off, sc in scales], 1)
            if mode == 1 and k > 1:            # near-duplicate centres: one grid step (or half a step) apart in one coordinate
                a, b = rng.permutation(k)[:2]
                C[b] = C[a]
                j = int(rng.integers(0, p))
                C[b, j] = C[a, j] + scales[j][1] * float(rng.choice([0.0, 0.5, 1.0]))
                tag += "+near-duplicate-centres"
        estep_case(X, C, tag)

    # ---- float kmeans: member means, inertia, monotonicity in maxiter, fixed point is a nearest-centre labelling
    for t in range(ck.n(90, 600)):
        n = int(rng.integers(2, 10))
        p = int(rng.integers(1, 4))
        k = int(rng.integers(1, min(n, 4) + 1))
        X, scales, tag = stress_matrix(rng, n, p, offset=float(rng.choice([0.0, 0.0, 1e3, 1e6, 1e8, 1.7e9])), per_column=(t % 5 == 4))
        dl = [0.0, 1e-4, 0.25, 1.0][t % 4]              # tolerance stops with a non-zero last move included
        if t % 3 == 0 and n >= 3:                        # a far-away group inflates the variance
            X[-1] = X[-1] + np.array([sc * 4096.0 for off, sc in scales])
            tag += "+far-group"
        tag += "+delta>0" if dl > 0 else ""
        tag += "/" + storage_variant(X, t)[1]            # dtype / layout in which the data are handed over
        lab = rng.integers(0, k, size=n)
        Xe = [[F(float(v)) for v in r] for r in X]
        maxabs = float(np.abs(X).max()) + 1.0
        spread = max(float(X[:, j].max() - X[:, j].min()) for j in range(p)) + 1.0
        slack = F(64 * n * p * spread * EPS * maxabs)
        rep = {"X": [[repr(float(v)) for v in r] for r in X], "k": k, "Labels": [int(v) for v in lab], "delta": dl}
        ck.count(("fkm", rep["X"], k, tuple(rep["Labels"])), bucket="float-kmeans:%s" % tag)
        prev = None
        res = {}
        for mi in (1, 2, 3, 50, 51):
            try:
                Xin, dtag = storage_variant(X, t)
                C, z, J = U.kmeans(Xin, k, lab.copy(), maxiter=mi, delta=dl)
            except Exception as e:  # noqa
                ck.fail("kmeans/float/raises", "kmeans raised %s: %s" % (type(e).__name__, e), dict(rep, maxiter=mi))
                break
            z = [int(v) for v in z]
            r2 = dict(rep, maxiter=mi, labels=z, centres=[[repr(float(v)) for v in r] for r in C], J=repr(float(J)))
            if len(z) != n or any(not (0 <= v < k) for v in z) or C.shape != (k, p):
                ck.fail("kmeans/float/labels-out-of-range/%s" % tag, "labels %s, centres of shape %s" % (z, C.shape), r2)
                break
            means = expected_centres(Xe, z, k)
            if any(abs(F(float(C[q, j])) - means[q][j]) > F(8 * EPS * maxabs) for q in range(k) for j in range(p)):
                ck.fail("kmeans/float/centres-not-member-means/%s" % tag, "centres %s, member means %s" % (r2["centres"], [[float(v) for v in r] for r in means]), r2)
                break
            Wc = sum(exact_d2(X[i], C[z[i]]) for i in range(n))
            if not np.isfinite(J) or abs(F(float(J)) - Wc) > REL * (1 + Wc):
                ck.fail("kmeans/float/returned-J-not-inertia/%s" % tag, "J=%r, inertia of the returned solution %s" % (float(J), float(Wc)), r2)
            Wm = wcss(Xe, z, means)                      # a function of the labels only
            if prev is not None and Wm > prev[1] * (1 + REL) + slack:
                ck.fail("kmeans/float/more-iterations-worse/%s" % tag, "maxiter=%d: inertia %s of the returned labels > %s with maxiter=%d"
                        % (mi, float(Wm), float(prev[1]), prev[0]), r2)
            prev = (mi, Wm)
            res[mi] = (z, C, r2)
        if dl == 0.0 and 50 in res and 51 in res and res[50][0] == res[51][0]:
            z, C, r2 = res[50]                           # a fixed point of the iteration: labels = nearest returned centre
            for i in range(n):
                d = [exact_d2(X[i], C[q]) for q in range(k)]
                if d[z[i]] > min(d) * (1 + REL) + F(16 * p * spread * EPS * maxabs):
                    ck.fail("kmeans/float/fixed-point-not-nearest-centre/%s" % tag,
                            "after 50 iterations point %d = %s has label %d (squared distance %s) but centre %d is at %s"
                            % (i, rep["X"][i], z[i], float(d[z[i]]), d.index(min(d)), float(min(d))), r2)
                    break

    # ---- ward / ward_quick heights and merge order with offsets in the features; average link with offset similarities
    shapes = [("path", 4, [(0, 1), (1, 2), (2, 3)]), ("path", 6, [(i, i + 1) for i in range(5)]),
              ("cycle", 5, [(i, (i + 1) % 5) for i in range(5)]),
              ("grid", 6, [(0, 1), (1, 2), (3, 4), (4, 5), (0, 3), (1, 4), (2, 5)]),
              ("two-paths", 6, [(0, 1), (1, 2), (3, 4), (4, 5)])]
    first = True
    for t in range(ck.n(60, 300)):
        name, n, E0 = shapes[t % len(shapes)]
        E = [(min(a, b), max(a, b)) for a, b in E0]
        p = int(rng.integers(2, 4)) if t % 2 == 1 else int(rng.integers(1, 3))
        offset = [1e6, 1e8, 1e9, 1e12, 0.0, 1e3][t % 6]
        if first:                                        # the written-out case: 1e9 + [0, 1, 5, 7] on a path
            feat = (1e9 + np.array([0., 1., 5., 7.])).reshape(4, 1)
            offset, first, tg_ = 1e9, False, ""
        else:
            feat, sc_, tg_ = stress_matrix(rng, n, p, offset=offset, mixed=False, per_column=(t % 2 == 1))
            offset = max(o for o, _ in sc_)
        suffix = "/large-offset" if offset >= 1e6 else "/float"
        if not first and "column-offsets-differ" in tg_:
            suffix += "+column-offsets-differ"
        fin, dtag = storage_variant(feat, t // 2)
        if dtag.startswith(("float16", "float32")):
            suffix = "/narrow-float-dtype"                # the structural feature that matters, whatever the offsets
        elif dtag != "float64":
            suffix += "/" + dtag
        featl = [[float(v) for v in r] for r in feat]
        Ed = E + [(b, a) for a, b in E]
        rep = {"graph": name, "n": n, "edges": [list(e) for e in Ed], "features": [[repr(v) for v in r] for r in featl], "features_dtype": dtag}
        ck.count(("fward", name, rep["features"]), bucket="float-ward:%s" % suffix[1:])
        for fn, cheapest in (("ward", True), ("ward_quick", False)):
            with warnings.catch_warnings():
                warnings.simplefilter("ignore")
                try:
                    Wg = [np.ones(len(Ed)), np.zeros(len(Ed)), np.array([float(a - b) for a, b in Ed])][t % 3]
                    tt = getattr(hc, fn)(WeightedGraph(n, np.array(Ed, dtype=np.int_), Wg), fin.copy())
                except Exception as e:  # noqa
                    ck.fail("%s/raises/%s%s" % (fn, type(e).__name__, suffix), "%s raised %s: %s" % (fn, type(e).__name__, e), rep)
                    continue
            pq, hq = [int(v) for v in tt.parents], [float(v) for v in tt.height]
            dendrogram_oracle(ck, fn, n, E, featl, pq, hq, False, cheapest, True, dict(rep, parents=pq, height=[repr(v) for v in hq]),
                              suffix=suffix, keep_going=True)
        wd = {e: int(rng.integers(1, 6)) for e in E}
        woff = float(rng.choice([0.0, 1e6, 1e9]))
        W = np.array([woff + wd[e] for e in E] * 2)
        with warnings.catch_warnings():
            warnings.simplefilter("ignore")
            try:
                ta = hc.average_link_graph(WeightedGraph(n, np.array(Ed, dtype=np.int_), W))
                pa, ha = [int(v) for v in ta.parents], [float(v) for v in ta.height]
                ra = dict(rep, parents=pa, height=[repr(v) for v in ha], similarities={"%d-%d" % e: repr(woff + v) for e, v in wd.items()})
                if dendrogram_oracle(ck, "average_link_graph", n, E, featl, pa, ha, False, False, False, ra) is not None:
                    average_link_oracle(ck, n, E, {e: F(woff) + v for e, v in wd.items()}, pa, ha, ra)
            except Exception as e:  # noqa
                ck.fail("average_link_graph/raises", "average_link_graph raised %s: %s" % (type(e).__name__, e), rep)

# ------------------------------------------------------------------ *_segment wrappers over their whole argument range
def cut_labels_at(parents, hs, n, th):
    """labels of the n items when the dendrogram is cut at height th: merges of height < th are kept, the items
    themselves always are (a threshold that is not above their height gives one cluster per item)"""
    top = []
    for i in range(n):
        v = i
        while parents[v] != v and hs[parents[v]] < th:
            v = parents[v]
        top.append(v)
    return canon(top)


def split_threshold(parents, hs, k):
    V = len(parents)
    k = min(int(k), V)
    c = sum(1 for v in range(V) if parents[v] == v)
    return None if k <= c else sorted(hs)[c - k]


def segment_expected(kind, parents, hs, n, stop, qmax):
    """independent restatement of the *_segment docstrings: the finer of the cut at `stop` (no such cut for stop < 0,
    stop == -1 meaning no stopping criterion for Ward) and of the cut into qmax groups (qmax == -1: as many as possible).
    Second result: the signature under which a ValueError('... no vertex') of the implementation is filed (the two
    situations in which partition() used to keep no node at all), or None."""
    inf = float("inf")
    if kind == "average_link_graph_segment":
        if qmax == -1:
            qmax = n
        qmax = int(min(qmax, n))
        th = -stop if stop >= 0 else None          # heights are negated similarities
    else:
        if kind == "ward_segment" and qmax == -1:
            qmax = n - 1
        if stop == -1:
            stop = inf
        qmax = int(min(qmax, n - 1))
        th = stop if stop >= 0 else None
    u1 = [0] * n
    u2 = [0] * n
    degenerate = None
    leafmax = max(hs[:n])
    if th is not None:
        if not leafmax < th:
            degenerate = "partition/raises/threshold-not-above-leaf-height"
        u1 = cut_labels_at(parents, hs, n, th)
    if qmax > 0:
        th2 = split_threshold(parents, hs, qmax)
        if th2 is not None and not leafmax < th2 and degenerate is None:
            degenerate = "split/raises/zero-cost-merge"
        u2 = cut_labels_at(parents, hs, n, inf if th2 is None else th2)
    return (u2 if max(u1) < max(u2) else u1), degenerate


def segment_section(ck):
    """ward_segment, ward_quick_segment, ward_field_segment and average_link_graph_segment for stop in {-1, negative, 0, 1,
    every merge height, just below / above it, beyond the last one, inf} x qmax in {-1, 0, 1, 2, .., n-1, n, n+3}, integer
    features and integer similarities; reference = the cut of the dendrogram the corresponding builder returns."""
    import warnings
    from nipy.algorithms.clustering import hierarchical_clustering as hc
    from nipy.algorithms.graph.graph import WeightedGraph
    try:
        from nipy.algorithms.graph.field import Field
    except Exception:  # noqa
        Field = None
    rng = ck.rng("segment")
    shapes = [("path", 5, [(i, i + 1) for i in range(4)]), ("cycle", 6, [(i, (i + 1) % 6) for i in range(6)]),
              ("grid", 6, [(0, 1), (1, 2), (3, 4), (4, 5), (0, 3), (1, 4), (2, 5)]),
              ("two-paths", 7, [(0, 1), (1, 2), (3, 4), (4, 5), (5, 6)]), ("star", 5, [(0, i) for i in range(1, 5)]),
              ("complete", 4, list(itertools.combinations(range(4), 2)))]
    ncalls = 0
    nraise = 0
    terms, meta = [], []
    for t in range(ck.n(12, 90)):
        name, n, E0 = shapes[t % len(shapes)]
        E = sorted((min(a, b), max(a, b)) for a, b in E0)
        Ed = E + [(b, a) for a, b in E]
        p = int(rng.integers(1, 3))
        feat = rng.integers(0, 6, size=(n, p)).astype(float)
        if t % 4 == 3:
            feat[1] = feat[0]                         # duplicated items: a zero-cost merge
        sim = {e: int(rng.integers(1, 5)) for e in E}  # integer similarities (co-occurrence counts)
        W = np.array([float(sim[(min(a, b), max(a, b))]) for a, b in Ed])
        edges = np.array(Ed, dtype=np.int_)

        def graph(weights):
            return WeightedGraph(n, edges.copy(), weights.copy())
        builders = [("ward_segment", lambda: hc.ward(graph(np.ones(len(Ed))), feat.copy()),
                     lambda st, q: hc.ward_segment(graph(np.ones(len(Ed))), feat.copy(), stop=st, qmax=q)),
                    ("ward_quick_segment", lambda: hc.ward_quick(graph(np.ones(len(Ed))), feat.copy()),
                     lambda st, q: hc.ward_quick_segment(graph(np.ones(len(Ed))), feat.copy(), stop=st, qmax=q)),
                    ("average_link_graph_segment", lambda: hc.average_link_graph(graph(W)),
                     lambda st, q: hc.average_link_graph_segment(graph(W), stop=st, qmax=q))]
        if Field is not None and t % 3 == 0:
            builders.append(("ward_field_segment", lambda: hc.ward_quick(graph(np.ones(len(Ed))), feat.copy()),
                             lambda st, q: hc.ward_field_segment(Field(n, edges.copy(), np.ones(len(Ed)), feat.copy()), stop=st, qmax=q)))
        for kind, build, call in builders:
            with warnings.catch_warnings():
                warnings.simplefilter("ignore")
                try:
                    tr = build()
                except Exception as e:  # noqa
                    ck.fail("%s/builder-raises" % kind, "%s: %s" % (type(e).__name__, e), {"graph": name, "features": feat.tolist()})
                    continue
            parents = [int(v) for v in tr.parents]
            hs = [float(v) for v in tr.height]
            inner = sorted(set(hs[n:]))
            sign = -1.0 if kind == "average_link_graph_segment" else 1.0
            stops = {-1, -0.5, 0, 1, 1.0, 2, float("inf")}
            for h in inner:                               # a merge height itself, just below, just above, half a unit away
                v = sign * h
                stops |= {v, float(np.nextafter(v, -np.inf)), float(np.nextafter(v, np.inf)), v - 0.5, v + 0.5}
            stops.add(sign * inner[-1] + 1.0 if sign > 0 else sign * inner[0] + 1.0)
            stops = sorted(x for x in stops if x >= 0 or x in (-1, -0.5))
            if not ck.thorough():                         # thin out the neighbours of the merge heights only
                keep = {-1, -0.5, 0, 1, 2, float("inf")} | {sign * h for h in inner}
                rest = [x for x in stops if x not in keep]
                stops = sorted(keep & set(stops) | set(rest[::3]))
            rep0 = {"function": kind, "graph": name, "n": n, "edges": [list(e) for e in Ed], "features": feat.tolist(),
                    "similarities": {"%d-%d" % e: v for e, v in sim.items()}, "dendrogram_parents": parents, "dendrogram_height": hs}
            for stop in stops:
                for qmax in (-1, 0, 1, 2, n - 1, n, n + 3):
                    if stop != float("inf") and int(stop) == stop and (t + qmax) % 2:
                        stop_arg = int(stop)              # the same number as a Python int
                    else:
                        stop_arg = stop
                    rep = dict(rep0, stop=repr(stop_arg), qmax=qmax)
                    ncalls += 1
                    ck.count(("seg", kind, name, feat.tolist(), tuple(sim.values()), repr(stop_arg), qmax),
                             bucket="segment:%s" % kind)
                    exp, degenerate = segment_expected(kind.replace("ward_field_segment", "ward_quick_segment"), parents, hs, n, stop, qmax)
                    with warnings.catch_warnings():
                        warnings.simplefilter("ignore")
                        try:
                            u, cost = call(stop_arg, qmax)
                            u = canon(u)
                        except Exception as e:  # noqa
                            nraise += 1
                            if degenerate is not None and isinstance(e, ValueError) and "no vertex" in str(e):
                                ck.fail(degenerate, "%s(stop=%r, qmax=%d) raised ValueError: %s (heights %s)" % (kind, stop_arg, qmax, e, hs), rep)
                            else:
                                ck.fail("%s/raises/%s" % (kind, type(e).__name__), "%s(stop=%r, qmax=%d) raised %s: %s"
                                        % (kind, stop_arg, qmax, type(e).__name__, e), rep)
                            u = None
                    if kind == "ward_segment" and all(float(v) == int(v) for v in [x for r in feat for x in r]) and n <= 7 \
                            and all(F(h).denominator <= 1 << 20 for h in hs):
                        terms.append("onats_eqb (ward_segment_u %s %s %s %s %s) %s" % (
                            cnat(n), cnatl(parents), "[%s]" % "; ".join(cq(F(h)) for h in hs),
                            "None" if stop in (-1, float("inf")) else "(Some %s)" % cq(F(stop)), cz(qmax),
                            "None" if u is None else "(Some %s)" % cnatl(u)))
                        meta.append(rep)
                    if u is None or exp is None:
                        continue
                    if u != exp:
                        feature = ("stop-equals-merge-height" if sign * stop in inner else
                                   "stop=-1" if stop == -1 else "stop-negative" if stop < 0 else
                                   "stop=inf" if stop == float("inf") else "stop-between-heights")
                        ck.fail("%s/labels-not-the-finer-cut/%s" % (kind, feature),
                                "%s(stop=%r, qmax=%d) = %s, the finer of the cut at stop and of the cut into qmax groups is %s "
                                "(heights %s)" % (kind, stop_arg, qmax, u, exp, hs), rep)
                    want = [sign * h for h in hs[n:]]
                    if [float(v) for v in cost] != want:
                        ck.fail("%s/cost-not-merge-costs" % kind, "cost %s, merge costs of the dendrogram %s" % (list(cost), want), rep)
    if ck.build is not None and ck.build.ok and terms:
        res = ck.coq_bools(HDR, terms, shard=150, name="seg")
        ck.cov["traces_validated_against_impl"] += len(res)
        for ok, rep in zip(res, meta):
            if not ok:
                ck.fail("ward_segment/model-vs-impl", "Gallina model and implementation disagree (ward_segment): %s" % str(rep)[:300], rep)
    ck.section("segment", calls=ncalls, raised=nraise, model_cases=len(terms))

HDR_AL = ("From Coq Require Import List ZArith QArith.\n"
          "From NV.Generated Require Import ClusteringFrags.\n"
          "From NV.C14 Require Import ModelAL.\n")


def fusion_section(ck):
    """hierarchical_clustering.fusion (the graph update of average_link_graph) called directly: graphs with at most one row
    per ordered pair, dyadic similarities (integers / 8, negative and zero included), optional rows i-j / j-i, optional
    tombstoned rows ([-1,-1], -inf), k fresh; populations with pop[k] a power of two (every float operation exact: compared
    with the Gallina model ModelAL.fusion as multisets of live rows) or arbitrary (oracle with a relative tolerance 1e-12).
    Independent oracle: exact recomputation with Fractions of the population-weighted average and of the summed double edges."""
    from nipy.algorithms.clustering import hierarchical_clustering as hc
    from nipy.algorithms.graph.graph import WeightedGraph
    rng = ck.rng("fusion")
    terms, meta = [], []
    ncase = nexact = ndouble = 0
    N = ck.n(260, 3000)
    for t in range(N):
        n = 3 + t % 5 if t < 40 else int(rng.integers(3, 9))
        k = n + int(rng.integers(0, 3))
        V = k + 2
        i, j = (int(v) for v in rng.choice(n, size=2, replace=False))
        mode = t % 4                       # 0 symmetric, 1 directed, 2 symmetric dense, 3 directed + i-j rows
        dens = (0.5, 0.5, 0.9, 0.6)[mode]
        rows = []
        for a in range(n):
            for b in range(a + 1, n):
                if {a, b} == {i, j} and mode in (0, 1) and t % 8 < 4:
                    continue
                if mode in (0, 2):
                    if rng.random() < dens:
                        w = F(int(rng.integers(-16, 41)), 8)
                        rows += [(a, b, w), (b, a, w)]
                else:
                    for (x, y) in ((a, b), (b, a)):
                        if rng.random() < dens:
                            rows.append((x, y, F(int(rng.integers(-16, 41)), 8)))
        if not rows:
            rows = [(i, (i + 1) % n if (i + 1) % n != j else (i + 2) % n, F(1))]
        perm = rng.permutation(len(rows))
        rows = [rows[int(q)] for q in perm]
        dead = set()
        if t % 3 == 0:                     # rows that earlier merges have tombstoned
            for _ in range(int(rng.integers(1, 4))):
                pos = int(rng.integers(0, len(rows) + 1))
                rows.insert(pos, None)
        exact_pop = t % 5 != 4
        pk = int(rng.choice([2, 4, 8, 16])) if exact_pop else int(rng.integers(2, 40))
        pi_ = int(rng.integers(1, pk))
        pop = np.ones(V, np.int_)
        pop[i], pop[j], pop[k] = pi_, pk - pi_, pk
        edges = np.array([(-1, -1) if r is None else r[:2] for r in rows], dtype=np.int_)
        weights = np.array([-np.inf if r is None else float(r[2]) for r in rows])
        live_in = [r for r in rows if r is not None]
        K = WeightedGraph(V, edges.copy(), weights.copy())
        pop_in = pop.copy()
        third = [c for c in range(n) if c not in (i, j)]
        double = any(((i, c) in {r[:2] for r in live_in} and (j, c) in {r[:2] for r in live_in}) or
                     ((c, i) in {r[:2] for r in live_in} and (c, j) in {r[:2] for r in live_in}) for c in third)
        ij_rows = any(r[:2] in ((i, j), (j, i)) for r in live_in)
        feat = ("double-edge" if double else "no-double-edge") + ("+i-j-rows" if ij_rows else "") + \
               ("+tombstones" if any(r is None for r in rows) else "")
        rep = {"n": n, "i": i, "j": j, "k": k, "pop_i": pi_, "pop_j": pk - pi_, "pop_k": pk,
               "rows": [None if r is None else [r[0], r[1], float(r[2])] for r in rows]}
        ncase += 1
        ndouble += bool(double)
        ck.count(("fusion", n, i, j, k, pi_, pk, tuple(rows)), nontrivial=bool(double or ij_rows),
                 bucket="fusion:%s%s" % ("exact-pop" if exact_pop else "float-pop", "+double-edge" if double else ""))
        try:
            hc.fusion(K, pop, i, j, k)
        except Exception as e:  # noqa
            ck.fail("fusion/raises/%s/%s" % (type(e).__name__, feat), "fusion raised %s: %s" % (type(e).__name__, e), rep)
            continue
        # ---- exact expectation (independent of Coq)
        fi = F(pi_, pk)
        fj = 1 - fi
        exp_k, exp_other = {}, []
        for (a, b, w) in live_in:
            if a == i:
                a, w = k, w * fi
            if b == i:
                b, w = k, w * fi
            if a == j:
                a, w = k, w * fj
            if b == j:
                b, w = k, w * fj
            if k in (a, b):
                exp_k[(a, b)] = exp_k.get((a, b), 0) + w
            else:
                exp_other.append((a, b, w))
        expected = sorted(exp_other + [(a, b, w) for (a, b), w in exp_k.items()])
        out_e = np.asarray(K.edges)
        out_w = np.asarray(K.weights)
        rep["edges_after"] = out_e.tolist()
        rep["weights_after"] = [float(v) for v in out_w]
        if len(out_e) != len(rows) or not np.array_equal(pop, pop_in):
            ck.fail("fusion/array-sizes-or-pop-changed/%s" % feat, "number of rows or pop modified", rep)
            continue
        bad_dead = [q for q in range(len(rows)) if (out_e[q, 0] == -1 or out_e[q, 1] == -1 or np.isinf(out_w[q]))
                    and not (out_e[q, 0] == -1 and out_e[q, 1] == -1 and out_w[q] == -np.inf)]
        if bad_dead:
            ck.fail("fusion/half-dead-row/%s" % feat, "rows %s are neither live nor ([-1,-1], -inf)" % bad_dead, rep)
        if any(not (out_e[q, 0] == -1 and out_w[q] == -np.inf) for q in range(len(rows)) if rows[q] is None):
            ck.fail("fusion/tombstone-revived/%s" % feat, "a row that was ([-1,-1], -inf) before is not any more", rep)
        live_out = [(int(out_e[q, 0]), int(out_e[q, 1]), out_w[q]) for q in range(len(rows)) if out_e[q, 0] != -1]
        if exact_pop:
            got = sorted((a, b, F(float(w))) for a, b, w in live_out)
            same = got == expected
        else:
            got = sorted((a, b, float(w)) for a, b, w in live_out)
            same = len(got) == len(expected) and all(
                g[:2] == e[:2] and abs(g[2] - float(e[2])) <= 1e-12 * max(1.0, abs(float(e[2]))) for g, e in zip(got, sorted(
                    (a, b, float(w)) for a, b, w in expected)))
        if not same:
            pairs_got = sorted(g[:2] for g in got)
            if pairs_got != sorted(e[:2] for e in expected):
                sig = "fusion/double-edge-not-merged-or-row-lost/%s" % feat
            elif [g for g in got if k not in g[:2]] != [e for e in expected if k not in e[:2]] and exact_pop:
                sig = "fusion/row-not-touching-i-j-changed/%s" % feat
            else:
                sig = "fusion/weight-not-population-weighted-average/%s" % feat
            ck.fail(sig, "fusion(i=%d, j=%d, k=%d, pop %d+%d): live rows %s, expected (fi*w(i,c) + fj*w(j,c), double rows summed) %s"
                    % (i, j, k, pi_, pk - pi_, [(a, b, float(w)) for a, b, w in got], [(a, b, float(w)) for a, b, w in expected]), rep)
        if exact_pop:
            nexact += 1
            ce = lambda L: "[%s]" % "; ".join("mke %s %s %s" % (cz(a), cz(b), cq(F(w))) for a, b, w in L)  # noqa
            terms.append("fusion_agrees %s %s %s %s %s %s %s" % (cz(pi_), cz(pk), cz(i), cz(j), cz(k), ce(live_in),
                                                                 ce([(a, b, F(float(w))) for a, b, w in live_out])))
            meta.append(rep)
        if ncase <= 2:
            ck.sample({"section": "fusion", **{q: rep[q] for q in ("i", "j", "k", "pop_i", "pop_k", "rows", "edges_after", "weights_after")}})
    if ck.build is not None and ck.build.ok and terms:
        res = ck.coq_bools(HDR_AL, terms, shard=150, name="fus")
        ck.cov["traces_validated_against_impl"] += len(res)
        for ok, rep in zip(res, meta):
            if not ok:
                ck.fail("fusion/model-vs-impl", "Gallina model ModelAL.fusion and hierarchical_clustering.fusion disagree "
                        "(multiset of live rows): %s" % str(rep)[:300], rep)
    ck.section("fusion", cases=ncase, model_cases=nexact, with_double_edges=ndouble)


def run(ck):
    ck.cov["rule"] = ("kmeans: integer data matrices (1..5 features, duplicates/ties), all k 1..n, initial labellings incl. empty "
                      "clusters, maxiter 1..6, delta in {0,1e-4,1/8,1/4}; exhaustive for n<=4 on a line (sampled in quick), random "
                      "beyond; distinct by (X,k,labels,delta,maxiter). hierarchical: every symmetric constraint graph on <=4 (quick) "
                      "/ <=5 (thorough) items x integer features with ties, paths, grids, complete, disconnected, random sparse up "
                      "to 40 items; distinct by (graph, features)")
    import time
    t0 = time.time()
    ck.coq_build()
    ck.overlay()
    t1 = time.time()
    kmeans_section(ck)
    float_stress_section(ck)
    t2 = time.time()
    hierarchical_section(ck)
    segment_section(ck)
    fusion_section(ck)
    t3 = time.time()
    ck.section("timing", build_s=round(t1 - t0, 1), kmeans_s=round(t2 - t1, 1), hierarchical_s=round(t3 - t2, 1))


# ------------------------------------------------------------------ hierarchical
def lcm_upto(m):
    from math import gcd
    L = 1
    for i in range(1, m + 1):
        L = L * i // gcd(L, i)
    return L


def components(n, edges):
    lab = list(range(n))

    def find(a):
        while lab[a] != a:
            lab[a] = lab[lab[a]]
            a = lab[a]
        return a
    for a, b in edges:
        ra, rb = find(a), find(b)
        if ra != rb:
            lab[max(ra, rb)] = min(ra, rb)
    return [find(i) for i in range(n)]


def canon(u):
    seen = {}
    out = []
    for v in u:
        v = int(v)
        if v not in seen:
            seen[v] = len(seen)
        out.append(seen[v])
    return out


def wss(feat, members):
    p = len(feat[0])
    m = len(members)
    tot = F(0)
    for j in range(p):
        s = sum(F(feat[i][j]) for i in members)
        q = sum(F(feat[i][j]) ** 2 for i in members)
        tot += q - s * s / m
    return tot


def graph_cases(ck):
    """(name, n, undirected edge list, integer feature matrix)"""
    rng = ck.rng("graphs")
    out = []
    nmax = 5 if ck.thorough() else 4
    for n in range(2, nmax + 1):
        pairs = list(itertools.combinations(range(n), 2))
        for mask in range(1 << len(pairs)):
            E = [pairs[b] for b in range(len(pairs)) if mask >> b & 1]
            nf = 2 if (n < nmax or ck.thorough()) else 1
            if n == 5 and mask % 3 and not ck.thorough():
                nf = 1
            for r in range(nf):
                p = 1 + (mask + r) % 2
                hi = 2 if r == 0 else 4          # values 0..1: many ties and zero-cost merges
                feat = rng.integers(0, hi, size=(n, p))
                out.append(("all-graphs-n%d" % n, n, E, feat))
    def add(name, n, E, p=None, hi=None):
        p = p or int(rng.integers(1, 4))
        hi = hi or int(rng.choice([2, 3, 6]))
        out.append((name, n, E, rng.integers(0, hi, size=(n, p))))
    reps = ck.n(3, 8)
    for r in range(reps):
        for n in (6, 9, 12, 16):
            add("path", n, [(i, i + 1) for i in range(n - 1)])
        for a, b in ((2, 3), (3, 3), (4, 4), (2, 7)):
            E = [(i * b + j, i * b + j + 1) for i in range(a) for j in range(b - 1)] + \
                [(i * b + j, (i + 1) * b + j) for i in range(a - 1) for j in range(b)]
            add("grid", a * b, E)
        for n in (5, 7, 9):
            add("complete", n, list(itertools.combinations(range(n), 2)))
        for n in (6, 10, 14):
            add("tied-costs", n, [(i, i + 1) for i in range(n - 1)] + [(0, n - 1)], p=1, hi=2)
            out[-1] = ("tied-costs", n, out[-1][2], np.arange(n).reshape(n, 1) % 3)
        # disconnected archipelago up to 40 items, components of <= 8 items
        for n in (12, 24, 40):
            E = []
            start = 0
            while start < n:
                sz = int(rng.integers(1, 9))
                sz = min(sz, n - start)
                nodes = list(range(start, start + sz))
                for a in range(1, sz):
                    E.append((nodes[int(rng.integers(0, a))], nodes[a]))
                for _ in range(int(rng.integers(0, sz + 1))):
                    a, b = rng.integers(0, sz, size=2)
                    if a != b:
                        E.append((nodes[min(a, b)], nodes[max(a, b)]))
                start += sz
            perm = rng.permutation(n)
            E = sorted(set((int(min(perm[a], perm[b])), int(max(perm[a], perm[b]))) for a, b in E))
            add("disconnected-sparse", n, E)
        for n in (8, 12, 16):
            E = [(int(rng.integers(0, a)), a) for a in range(1, n)]
            E += [(int(min(a, b)), int(max(a, b))) for a, b in rng.integers(0, n, size=(n // 2, 2)) if a != b]
            add("random-connected", n, sorted(set(E)))
        # random sparse, possibly connected, up to 40 items (exact only while the scaling fits in 53 bits)
        for n in (10, 20, 30, 40):
            m = int(rng.integers(n // 2, 2 * n))
            E = sorted(set((int(min(a, b)), int(max(a, b))) for a, b in rng.integers(0, n, size=(m, 2)) if a != b))
            add("random-sparse", n, E, hi=3)
    return out


def dendrogram_oracle(ck, tag, n, E, feat, parents, height, exact, cheapest, cost_is_wss, rep, monotone=True, suffix="",
                      keep_going=False):
    """Proper-dendrogram clauses evaluated on the implementation's (parents, height).  Returns the leaf
    sets per node, or None when the structure is broken."""
    comp = components(n, E)
    c = len(set(comp))
    V = 2 * n - c
    dens = "disconnected" if c > 1 else "connected"
    if len(parents) != V or len(height) != V:
        ck.fail("%s/node-count/%s" % (tag, dens), "%d nodes for n=%d items, %d components (expected 2n-c=%d)" % (len(parents), n, c, V), rep)
        return None
    children = [[] for _ in range(V)]
    for v in range(V):
        if not (0 <= parents[v] < V):
            ck.fail("%s/parent-out-of-range" % tag, "parents=%s" % parents, rep)
            return None
        if parents[v] != v:
            if parents[v] < n or parents[v] <= v:
                ck.fail("%s/items-not-leaves-or-order" % tag, "node %d has parent %d" % (v, parents[v]), rep)
                return None
            children[parents[v]].append(v)
    for v in range(n, V):
        if len(children[v]) != 2:
            ck.fail("%s/not-binary" % tag, "internal node %d has children %s (parents=%s)" % (v, children[v], parents), rep)
            return None
    leaves = [None] * V
    for v in range(V):
        leaves[v] = [v] if v < n else sorted(leaves[children[v][0]] + leaves[children[v][1]])
    roots = [v for v in range(V) if parents[v] == v]
    if sorted(map(tuple, (leaves[r] for r in roots))) != sorted(tuple(i for i in range(n) if comp[i] == r) for r in set(comp)):
        ck.fail("%s/trees-are-not-components/%s" % (tag, dens), "roots %s leaf sets %s" % (roots, [leaves[r] for r in roots]), rep)
        return None
    adj = set(E) | set((b, a) for a, b in E)
    def joined(A, B):
        return any((a, b) in adj for a in A for b in B)
    live = set(range(n))
    tol = F(0) if exact else None
    for k in range(n, V):
        a, b = children[k]
        if not joined(leaves[a], leaves[b]):
            ck.fail("%s/merge-of-non-adjacent-clusters" % tag, "node %d merges %s and %s, not joined by an edge" % (k, leaves[a], leaves[b]), rep)
            return leaves
        cost = wss(feat, leaves[k])
        hk = F(height[k])
        def close(x, y):
            return x == y if exact else abs(x - y) <= F(1, 10 ** 9) * (1 + abs(y))
        if cost_is_wss and not close(hk, cost):
            ck.fail("%s/height-is-not-merged-inertia%s" % (tag, suffix), "height[%d]=%s but the merged cluster %s has within-SS %s" % (k, float(hk), leaves[k], cost), rep)
            if not keep_going:
                return leaves
        if cheapest:
            lv = sorted(live)
            for x in range(len(lv)):
                for y in range(x + 1, len(lv)):
                    A, B = leaves[lv[x]], leaves[lv[y]]
                    if joined(A, B):
                        c2 = wss(feat, A + B)
                        if c2 < cost and not close(c2, cost):
                            ck.fail("%s/merge-not-cheapest%s" % (tag, suffix), "node %d merges %s+%s at cost %s but %s+%s costs %s" % (k, leaves[a], leaves[b], cost, A, B, c2), rep)
                            return leaves
        live -= {a, b}
        live.add(k)
    for v in range(V if monotone else 0):
        if F(height[parents[v]]) < F(height[v]):
            ck.fail("%s/height-decreases-child-to-parent%s" % (tag, suffix), "height[%d]=%s > height[parent %d]=%s" % (v, height[v], parents[v], height[parents[v]]), rep)
            break
    return leaves


def average_link_oracle(ck, n, E, w, parents, height, rep):
    """average_link_graph: every merge joins the pair of current clusters with the highest average
    similarity (mean of the edge weights over all pairs of items, missing edge = 0); the node's height
    is minus that similarity."""
    V = len(parents)
    ch = [[] for _ in range(V)]
    for v in range(V):
        if parents[v] != v:
            ch[parents[v]].append(v)
    leaves = [[v] if v < n else None for v in range(V)]
    for v in range(n, V):
        if len(ch[v]) != 2 or any(leaves[c] is None for c in ch[v]):
            return                       # structure already reported by dendrogram_oracle
        leaves[v] = leaves[ch[v][0]] + leaves[ch[v][1]]

    def sim(A, B):
        return F(sum(w.get((min(a, b), max(a, b)), 0) for a in A for b in B), len(A) * len(B))
    live = set(range(n))
    for k in range(n, V):
        a, b = ch[k]
        s = sim(leaves[a], leaves[b])
        lv = sorted(live)
        best = max(sim(leaves[x], leaves[y]) for i, x in enumerate(lv) for y in lv[i + 1:])
        if abs(float(s) + height[k]) > 1e-9 * (1 + abs(float(s))):
            ck.fail("average_link_graph/height-is-not-mean-similarity", "height[%d]=%r but the merged clusters %s, %s have mean "
                    "similarity %s" % (k, height[k], leaves[a], leaves[b], s), rep)
            return
        if float(best - s) > 1e-9 * (1 + abs(float(best))):
            ck.fail("average_link_graph/merge-not-heaviest", "node %d merges %s+%s (similarity %s) but a pair with similarity %s exists"
                    % (k, leaves[a], leaves[b], s, best), rep)
            return
        live -= {a, b}
        live.add(k)


def cut_oracles(ck, tag, t, n, E, parents, height, leaves, rep, terms_add, exact):
    """split(k) for every k and partition at every distinct height: count, consistency with the tree, connectivity."""
    comp = components(n, E)
    c = len(set(comp))
    V = len(parents)
    adjl = [[] for _ in range(n)]
    for a, b in E:
        adjl[a].append(b)
        adjl[b].append(a)

    def connected(S):
        S = set(S)
        st = [next(iter(S))]
        seen = set(st)
        while st:
            a = st.pop()
            for b in adjl[a]:
                if b in S and b not in seen:
                    seen.add(b)
                    st.append(b)
        return seen == S
    hs = [F(h) for h in height]
    H = "[%s]" % "; ".join(cq(h) for h in hs)
    P = cnatl(parents)

    def check_clusters(kind, u, r2):
        groups = {}
        for i, l in enumerate(u):
            groups.setdefault(l, []).append(i)
        nodesets = set(tuple(x) for x in leaves)
        for g in groups.values():
            if tuple(g) not in nodesets:
                ck.fail("%s/%s/cluster-is-not-a-subtree" % (tag, kind), "cluster %s is not the leaf set of a node" % g, r2)
                return False
            if not connected(g):
                ck.fail("%s/%s/cluster-not-connected" % (tag, kind), "cluster %s does not induce a connected sub-graph" % g, r2)
                return False
        return True
    sh = sorted(hs)
    first_split = {}
    for k in range(1, n + 1):
        r2 = dict(rep, k=k)
        expected = max(k, c)
        th = sh[V + c - k] if k > c else None
        tied = th is not None and (hs.count(th) > 1)
        try:
            u = canon(t.split(k))
        except Exception as e:  # noqa
            u = None
            if th is not None and th == 0:
                ck.fail("split/raises/zero-cost-merge", "split(%d) raised %s: %s; heights %s" % (k, type(e).__name__, e, [str(h) for h in hs]), r2)
            else:
                ck.fail("%s/split/raises" % tag, "split(%d) raised %s: %s" % (k, type(e).__name__, e), r2)
        if exact:
            terms_add("onats_eqb (split %s %s %s) %s" % (P, H, cnat(k), "None" if u is None else "(Some %s)" % cnatl(u)),
                      ("split", r2))
        first_split[k] = u
        if u is None:
            continue
        if len(u) != n:
            ck.fail("%s/split/label-count" % tag, "split(%d) returns %d labels for %d items" % (k, len(u), n), r2)
            continue
        ncl = len(set(u))
        if ncl != expected:
            if tied and ncl > expected:
                ck.fail("split/cluster-count/tied-heights", "split(%d) returns %d clusters; heights %s" % (k, ncl, [str(h) for h in hs]), r2)
            else:
                ck.fail("%s/split/cluster-count" % tag, "split(%d) returns %d clusters (expected %d; %d components), heights %s" % (k, ncl, expected, c, [str(h) for h in hs]), r2)
        check_clusters("split", u, r2)
    ths = sorted(set(hs))
    cand = [h + F(1, 2) for h in ths] + [h for h in ths if h > 0]
    for th in cand[:8] + cand[-4:]:
        r2 = dict(rep, threshold=str(th))
        try:
            u = canon(t.partition(float(th)))
        except Exception as e:  # noqa
            ck.fail("%s/partition/raises" % tag, "partition(%s) raised %s: %s" % (th, type(e).__name__, e), r2)
            continue
        if exact:
            terms_add("onats_eqb (partition %s %s %s) (Some %s)" % (P, H, cq(th), cnatl(u)), ("partition", r2))
        if len(u) != n:
            ck.fail("%s/partition/label-count" % tag, "partition(%s) returns %d labels" % (th, len(u)), r2)
            continue
        # specification: same label iff the lowest common ancestor exists and all nodes on both paths to it are below th
        top = []
        for i in range(n):
            v = i
            while parents[v] != v and hs[parents[v]] < th:
                v = parents[v]
            top.append(v)
        if canon(top) != u:
            ck.fail("%s/partition/not-the-cut-at-height" % tag, "partition(%s) = %s, cut of the tree = %s" % (th, u, canon(top)), r2)
        check_clusters("partition", u, r2)
    # the forest object is not consumed by the cuts: the same split again, after all the partitions
    for k in (1, min(2, n), n):
        if first_split.get(k) is not None:
            try:
                again = canon(t.split(k))
            except Exception as e:  # noqa
                again = "raised %s" % type(e).__name__
            if again != first_split[k]:
                ck.fail("%s/split/second-call-differs" % tag, "split(%d) = %s, later on the same object %s" % (k, first_split[k], again), dict(rep, k=k))


class _NpProxy(object):
    """Stands in for the name `np` inside hierarchical_clustering while `ward` runs: forwards everything to
    numpy and records what np.argsort returned (its order among equal keys is unspecified - the SIMD sorts of
    current NumPy are not stable - and decides which duplicate edge `_remap` keeps).  Observation only."""

    def __init__(self, real):
        object.__setattr__(self, "_real", real)
        object.__setattr__(self, "log", [])

    def __getattr__(self, name):
        return getattr(self._real, name)

    def argsort(self, a, *args, **kw):
        r = self._real.argsort(a, *args, **kw)
        self.log.append([int(v) for v in r])
        return r


def hierarchical_section(ck):
    import warnings
    from nipy.algorithms.clustering import hierarchical_clustering as hc
    from nipy.algorithms.graph.graph import WeightedGraph
    ck.trust.append("np.argsort tie order inside _remap is an oracle: the permutations the running code obtained are recorded "
                    "(name `np` of hierarchical_clustering proxied while ward runs) and passed to the model, which validates "
                    "each as a sorting permutation of the keys")
    terms, meta = [], []

    def add(term, m):
        terms.append(term)
        meta.append(m)
    cases = graph_cases(ck)
    rng_w = ck.rng("graph-weights")
    n_exact = 0
    n_raise = 0
    for ci, (name, n, E, feat0) in enumerate(cases):
        comp = components(n, E)
        csz = max(comp.count(r) for r in set(comp))
        L = lcm_upto(csz)
        p = feat0.shape[1]
        # since /repo 0ed383f ward centres the features first: make every column sum a multiple of n (add 1 to the
        # first few items), so that the mean and the centred values are exact integers too
        feat0 = feat0.copy()
        for j in range(p):
            feat0[:(-int(feat0[:, j].sum())) % n, j] += 1
        vmax = int(feat0.max()) if feat0.size else 0
        exact = p * (csz * L * max(vmax, 1)) ** 2 < 2 ** 52
        feat = feat0 * (L if exact else 1)
        featl = [[int(v) for v in r] for r in feat]
        # directed edge array given to nipy: one orientation, sometimes both, sometimes reversed
        # symmetric edge array (both orientations), in three different listings (order / duplicates)
        Ed = list(E) + [(b, a) for a, b in E]
        if ci % 3 == 1:
            Ed = [e for ab in E for e in (ab[::-1], ab)][::-1]
        elif ci % 3 == 2:
            Ed = Ed + [(b, a) for a, b in E[::2]]
        # the constraint graph is "a topological graph essentially": its weights must not matter.  Weight classes:
        # unit, zero, antisymmetric (w_ij = -w_ji), negative, euclidean distance between the items' features (zero for
        # duplicated items), random; edge array as int64 / int32
        wcls = ["unit", "zero", "antisymmetric", "negative", "euclidean", "random"][ci % 6]
        if wcls == "unit":
            Wd = [1.0] * len(Ed)
        elif wcls == "zero":
            Wd = [0.0] * len(Ed)
        elif wcls == "antisymmetric":
            Wd = [float(1 + (a + 2 * b) % 3) * (1 if a < b else -1) for a, b in Ed]
        elif wcls == "negative":
            Wd = [-float(1 + (a + b) % 4) for a, b in Ed]
        elif wcls == "euclidean":
            Wd = [float(np.sqrt(sum((featl[a][j] - featl[b][j]) ** 2 for j in range(p)))) for a, b in Ed]
        else:
            Wd = [float(v) for v in rng_w.integers(-2, 3, size=len(Ed))]

        def mk():
            if Ed:
                return WeightedGraph(n, np.array(Ed, dtype=np.int32 if ci % 4 == 3 else np.int_), np.array(Wd))
            return WeightedGraph(n)

        def mkfeat():
            """the feature matrix in different representations"""
            a = np.array(featl, dtype=float)
            v = ci % 5
            if v == 1:
                return np.asfortranarray(a)
            if v == 2:
                return np.array(featl, dtype=np.int64)
            if v == 3 and p == 1:
                return a[:, 0].copy()
            if v == 4:
                big = np.zeros((2 * n, p + 2))
                big[1::2, 1:p + 1] = a
                return big[1::2, 1:p + 1]
            return a
        rep = {"graph": name, "n": n, "edges": [list(e) for e in Ed], "features": featl, "graph_weights": wcls, "weights": Wd}
        bucket = "ward:%s" % name
        ck.count(("ward", n, tuple(E), tuple(map(tuple, featl))), nontrivial=len(E) > 0, bucket=bucket)
        with warnings.catch_warnings():
            warnings.simplefilter("ignore")
            proxy = _NpProxy(np)
            hc.np = proxy
            Gin, Fin = mk(), mkfeat()
            Gkeep = (np.array(Gin.edges).copy(), np.array(Gin.weights).copy(), Gin.E, Gin.V)
            Fkeep = Fin.copy()
            try:
                t = hc.ward(Gin, Fin)
            except Exception as e:  # noqa
                hc.np = np
                n_raise += 1
                if isinstance(e, TypeError) and "0-dimensional" in str(e):
                    ck.fail("ward/raises/int-of-1-element-array", "ward raised %s: %s (edges %s, features %s)" % (type(e).__name__, e, Ed, featl), rep)
                else:
                    ck.fail("ward/raises/%s/%s-weights" % (type(e).__name__, wcls), "ward raised %s: %s" % (type(e).__name__, e), rep)
                if exact:
                    add("ward_raises %s %s %s %s %s" % (cnat(p), cnat(n), clist(["(%s,%s)" % (cnat(a), cnat(b)) for a, b in Ed]), cmat(featl),
                                                       clist([cnatl(x) for x in proxy.log])), ("ward", rep))
                continue
        hc.np = np
        orc = clist([cnatl(x) for x in proxy.log])
        parents = [int(v) for v in t.parents]
        height = [float(v) for v in t.height]
        # the inputs are left as they were, and a second run on the SAME graph object gives the same dendrogram
        if not (np.array_equal(np.array(Gin.edges), Gkeep[0]) and np.array_equal(np.array(Gin.weights), Gkeep[1])
                and Gin.E == Gkeep[2] and Gin.V == Gkeep[3] and np.array_equal(Fin, Fkeep)):
            ck.fail("ward/mutates-input/%s-weights" % wcls, "ward changed the graph or the feature array it was given", rep)
        elif ci % 3 == 0:
            with warnings.catch_warnings():
                warnings.simplefilter("ignore")
                try:
                    t2 = hc.ward(Gin, Fin)
                    if [int(v) for v in t2.parents] != parents or [float(v) for v in t2.height] != height:
                        ck.fail("ward/second-run-on-same-graph-differs", "ward(G, X) twice on the same objects: %s %s then %s %s"
                                % (parents, height, list(t2.parents), list(t2.height)), rep)
                except Exception as e:  # noqa
                    ck.fail("ward/second-run-on-same-graph-raises", "%s: %s" % (type(e).__name__, e), rep)
        rep = dict(rep, parents=parents, height=height, argsort_results=proxy.log)
        if ci < 3 or name == "tied-costs" and n == 6:
            ck.sample({"call": "ward(G, features)", "n": n, "edges": [list(e) for e in Ed], "features": featl,
                       "parents": parents, "height": height})
        leaves = dendrogram_oracle(ck, "ward", n, E, featl, parents, height, exact, True, True, rep)
        if exact:
            n_exact += 1
            add("ward_agrees %s %s %s %s %s %s %s" % (cnat(p), cnat(n), clist(["(%s,%s)" % (cnat(a), cnat(b)) for a, b in Ed]),
                                                 cmat(featl), orc, cnatl(parents), "[%s]" % "; ".join(cq(F(h)) for h in height)),
                ("ward", rep))
        Gund = clist(["(%s,%s)" % (cnat(a), cnat(b)) for a, b in E])
        if exact and n <= ck.n(24, 40):
            add("ward_check %s %s %s %s %s %s" % (cnat(p), cnat(n), Gund, cmat(featl), cnatl(parents),
                                                "[%s]" % "; ".join(cq(F(h)) for h in height)), ("ward-certificate", rep))
        if exact and n <= 12:
            cen = [[featl[i][j] - sum(r[j] for r in featl) // n for j in range(p)] for i in range(n)]
            add("ward_agrees %s %s %s %s %s %s %s" % (cnat(p), cnat(n), clist(["(%s,%s)" % (cnat(a), cnat(b)) for a, b in Ed]),
                                                    cmat(cen), orc, cnatl(parents), "[%s]" % "; ".join(cq(F(h)) for h in height)),
                ("ward-on-centred-features", rep))
        if leaves is None:
            continue
        if not t.check_compatible_height():
            ck.fail("ward/check_compatible_height-false", "check_compatible_height() is False on ward's own output", rep)
        P = cnatl(parents)
        H = "[%s]" % "; ".join(cq(F(h)) for h in height)
        if exact:
            add("Bool.eqb (check_compatible_height %s %s) %s" % (P, H, cbool(bool(t.check_compatible_height()))), ("check_compatible_height", rep))
        # list_of_subtrees
        sub = [[int(v) for v in a] for a in t.list_of_subtrees()]
        if any(len(set(x)) != len(x) for x in sub) and len(set(components(n, E))) > 1:
            ck.fail("list_of_subtrees/leaf-listed-twice/disconnected", "list_of_subtrees() = %s for parents %s" % (sub, parents), rep)
        if [sorted(set(x)) for x in sub] != [leaves[v] for v in range(n, len(parents))]:
            ck.fail("ward/list_of_subtrees", "list_of_subtrees %s differs from the leaf sets %s" % (sub, leaves[n:]), rep)
        if exact and n <= 12:
            add("list_eqb nats_eqb (list_of_subtrees %s %s) %s" % (cnat(n), P, clist([cnatl(x) for x in sub])), ("list_of_subtrees", rep))
        if n <= 16 or ci % 4 == 0:
            cut_oracles(ck, "ward", t, n, E, parents, height, leaves, rep, add, exact and n <= 16)
        # ward_segment: choice between the two cuts
        if n <= 12:
            hs = sorted(set(F(h) for h in height))
            for stop, qmax in ((-1, 1), (-1, 2), (-1, -1), (float(hs[len(hs) // 2]) + 0.5, 1), (float(hs[-1]) + 1.0, n), (0.25, 2)):
                r2 = dict(rep, stop=stop, qmax=qmax)
                with warnings.catch_warnings():
                    warnings.simplefilter("ignore")
                    try:
                        u, cost = hc.ward_segment(mk(), np.array(featl, dtype=float), stop=stop, qmax=qmax)
                        u = canon(u)
                    except Exception as e:  # noqa
                        u = None
                        zero_merge = any(F(h) == 0 for h in height[n:])
                        if zero_merge:
                            ck.fail("split/raises/zero-cost-merge", "ward_segment(stop=%s, qmax=%s) raised %s: %s" % (stop, qmax, type(e).__name__, e), r2)
                        else:
                            ck.fail("ward_segment/raises", "ward_segment(stop=%s, qmax=%s) raised %s: %s" % (stop, qmax, type(e).__name__, e), r2)
                if u is not None and [float(v) for v in cost] != height[n:]:
                    ck.fail("ward_segment/cost-not-heights", "cost %s, heights of the internal nodes %s" % (list(cost), height[n:]), r2)
                if exact:
                    add("onats_eqb (ward_segment_u %s %s %s %s %s) %s" % (cnat(n), P, H, "None" if stop == -1 else "(Some %s)" % cq(F(stop)),
                                                                        cz(qmax), "None" if u is None else "(Some %s)" % cnatl(u)),
                        ("ward_segment", r2))
        # the other two builders: structural clauses only (ward_quick is documented as approximate,
        # average_link_graph uses similarities)
        if ci % 2 == 0 or n <= 4:
            with warnings.catch_warnings():
                warnings.simplefilter("ignore")
                try:
                    tq = hc.ward_quick(mk(), mkfeat())
                    pq, hq = [int(v) for v in tq.parents], [float(v) for v in tq.height]
                    ck.count(("wq", n, tuple(E), tuple(map(tuple, featl))), nontrivial=len(E) > 0, bucket="ward_quick")
                    dendrogram_oracle(ck, "ward_quick", n, E, featl, pq, hq, exact, False, True, dict(rep, parents=pq, height=hq))
                    if exact and n <= 24:
                        add("dendro_check %s %s %s %s %s %s" % (cnat(p), cnat(n), clist(["(%s,%s)" % (cnat(a), cnat(b)) for a, b in E]), cmat(featl),
                                                              cnatl(pq), "[%s]" % "; ".join(cq(F(h)) for h in hq)),
                            ("ward_quick-certificate", dict(rep, parents=pq, height=hq)))
                except Exception as e:  # noqa
                    if isinstance(e, TypeError) and "0-dimensional" in str(e):
                        ck.fail("ward_quick/raises/int-of-1-element-array", "ward_quick raised %s: %s" % (type(e).__name__, e), rep)
                    else:
                        ck.fail("ward_quick/raises/%s" % type(e).__name__, "ward_quick raised %s: %s" % (type(e).__name__, e), rep)
                if E:
                    try:
                        wd = {(a, b): 1 + ((a * 7 + b * 3) % 5) for a, b in E}
                        W = np.array([float(wd[e]) for e in E] * 2)
                        Ga = WeightedGraph(n, np.array(E + [(b, a) for a, b in E], dtype=np.int_), W)
                        ta = hc.average_link_graph(Ga)
                        pa, ha = [int(v) for v in ta.parents], [float(v) for v in ta.height]
                        ck.count(("al", n, tuple(E)), nontrivial=True, bucket="average_link_graph")
                        ra = dict(rep, parents=pa, height=ha, similarities={"%d-%d" % e: v for e, v in wd.items()})
                        if dendrogram_oracle(ck, "average_link_graph", n, E, featl, pa, ha, False, False, False, ra) is not None:
                            average_link_oracle(ck, n, E, wd, pa, ha, ra)
                    except Exception as e:  # noqa
                        ck.fail("average_link_graph/raises", "average_link_graph raised %s: %s" % (type(e).__name__, e), rep)
    if ck.build is not None and ck.build.ok:
        res = ck.coq_bools(HDR, terms, shard=60, name="hc")
        ck.cov["traces_validated_against_impl"] += len(res)
        for ok, (kind, rep) in zip(res, meta):
            if not ok:
                if kind.endswith("-certificate"):
                    ck.fail("%s-rejected" % kind, "the proved-sound checker (ward_check / dendro_check, evaluated in Coq) rejects this "
                            "dendrogram: %s" % str(rep)[:400], rep)
                else:
                    ck.fail("%s/model-vs-impl" % kind, "Gallina model and implementation disagree (%s): %s" % (kind, str(rep)[:400]), rep)
    ck.section("hierarchical", graph_cases=len(cases), exact_ward_cases=n_exact, model_cases=len(terms), ward_raised=n_raise)
