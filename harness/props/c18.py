"""C18 - Gaussian smoothing (nipy.algorithms.kernel_smooth.LinearFilter) is linear,
centred, normalised and scaled in world units; width conversions.

Sections
  geometry     exact correspondence: kernel shape, centre inside the cropped kernel, FFT
               buffer shape, _kcenter, output window and peak offset observed on the running code,
               compared with the Coq model (NV.C18.Model.geom_diag / geom3, vm_compute).
  values       smoothed images against direct (non-FFT) convolution with the code's kernel
               under the model's index formula, at 1e-10 (random images, impulses at every
               voxel of small grids).
  oracles      the property statement evaluated on the implementation: ideal world-unit
               Gaussian response when the support fits the grid, centring, linearity, shift
               equivariance, constants, mass, shape/coordmap, scale/location, conversions.
"""
import gc
import itertools
import math

import numpy as np

from ..kit import cz, czl, cq, cql, clist

HDR = ("From Coq Require Import List ZArith QArith.\n"
       "From NV.Lib Require Import Harness.\nFrom NV.C18 Require Import Model.\nOpen Scope Z_scope.\n")

SQRT8LN2 = 2.3548200450309493      # sqrt(8 ln 2), independent constant
TOL = 1e-10

SIG_SHIFT = "centre/even-grid-cropped-kernel-shift"
SIG_ONE = "kernel/fwhm-exactly-1-not-scaled"
SIG_RESEL = "resel-fwhm/non-unit-voxel-not-inverse"


# ------------------------------------------------------------------ helpers
def aff4(A3, t=(0, 0, 0)):
    A = np.eye(4)
    A[:3, :3] = A3
    A[:3, 3] = t
    return A


def mk(A4, shape, fwhm, **kw):
    from nipy.algorithms.kernel_smooth import LinearFilter
    from nipy.core.api import AffineTransform
    cm = AffineTransform.from_params('ijk', 'xyz', A4)
    return LinearFilter(cm, tuple(shape), fwhm=fwhm, **kw), cm


def smooth(f, cm, x):
    from nipy.core.api import Image
    return f.smooth(Image(np.array(x, dtype=float), cm))


def conv_full(x, K):
    """direct (non-FFT) full linear convolution, 3-D"""
    from scipy.signal import convolve
    return convolve(np.asarray(x, float), np.asarray(K, float), mode="full", method="direct")


def window(full, start, shape):
    sl = tuple(slice(int(s), int(s) + int(n)) for s, n in zip(start, shape))
    return full[sl]


def ideal_gauss(A3, fwhm, d):
    """the Gaussian of the requested FWHM in world units, cut at normsq/2 <= 15, at voxel
    offsets d (..., 3); written independently of the implementation"""
    X = np.asarray(d, float) @ np.asarray(A3, float).T
    sig = np.asarray(fwhm, float) / SQRT8LN2          # scalar or one value per world coordinate
    u = ((X / sig) ** 2).sum(-1) / 2.0
    return np.where(u <= 15, np.exp(-np.minimum(u, 15)), 0.0), u


def ideal_support_extent(A3, fwhm, R):
    """per-axis max |d_i| over the lattice support (searched in [-R, R]^3) and the full kernel"""
    g = np.arange(-R, R + 1)
    d = np.stack(np.meshgrid(g, g, g, indexing="ij"), -1)
    G, u = ideal_gauss(A3, fwhm, d)
    idx = np.argwhere(G > 0) - R
    ext = np.abs(idx).max(0)
    return ext, G, R


def cqmat(M):
    return clist([cql([float(v) for v in row]) for row in np.asarray(M)])


def is_diag(A3):
    A3 = np.asarray(A3)
    return np.all(A3 == np.diag(np.diag(A3)))


DIAGS = [(1, 1, 1), (2, 2, 2), (1, 2, 3), (-1, 1, 1), (0.5, -1.5, 2), (3, 0.25, 1), (1, -1, -2.5)]
OBLIQUE = [
    [[1, 1, 0], [0, 1, 0], [0, 0, 1]],
    [[1, 0, 0.5], [0, 2, 0], [0, 0.5, 1]],
    [[0, 2, 0], [1, 0, 0], [0, 0, -3]],            # axis permutation with zooms and a flip
    [[1, 3, 0], [0, 1, 0], [0, 0, 1]],             # strong shear
    [[2, 0, 0], [0, 1, -1], [0, 1, 1]],            # 45 degree rotation (scaled) in the yz plane
    [[1, 0.5, 0.25], [-0.5, 1, 0], [0, 0.25, 1.5]],
]


def fwhm_list(A3, shape, thorough):
    col = np.sqrt((np.asarray(A3, float) ** 2).sum(0))
    vs = float(col.min())
    fov = float((col * np.asarray(shape)).max())
    fs = [0.25 * vs, 0.5 * vs, 1.0 * vs, 2.0 * vs, 3.5 * vs, 0.75 * fov, 3.0 * fov]      # 0.25 voxel: the kernel is one voxel
    if thorough:
        fs += [1.25 * vs, 5.0 * vs, 1.5 * fov]
    out = []
    for f in fs:
        f = float(np.round(f * 64) / 64)          # dyadic
        if f > 0 and f not in out:
            out.append(f)
    return out


def borderline(A3, sigma, shape):
    """True when some grid offset has normsq/2 within 1e-9 of the cut (float vs exact could differ)"""
    if sigma == 1.0:
        return False        # dyadic coordinates, no division: every float operation is exact
    R = max(shape)
    g = np.arange(-R, R + 1)
    d = np.stack(np.meshgrid(g, g, g, indexing="ij"), -1)
    X = d @ np.asarray(A3, float).T
    u = ((X / sigma) ** 2).sum(-1) / 2
    return bool(np.any(np.abs(u - 15) < 1e-9))


# ------------------------------------------------------------------ one case
class Case:
    pass


def observe(ck, A3, t, shape, fwhm):
    """run the implementation; return observed geometry"""
    from nipy.algorithms.kernel_smooth import fwhm2sigma
    c = Case()
    c.A3, c.t, c.shape, c.fwhm = np.asarray(A3, float), t, tuple(int(v) for v in shape), float(fwhm)
    c.f, c.cm = mk(aff4(A3, t), shape, fwhm)
    K = np.asarray(c.f._kernel)
    c.K = K
    c.S = float(K.sum())
    c.k = tuple(int(v) for v in K.shape)
    cks = np.argwhere(K == K.max())
    c.centre_ok = (len(cks) == 1 and K.max() == 1.0)
    c.ck = tuple(int(v) for v in cks[0])
    c.L = tuple(int(v) for v in c.f.shape)
    c.sigma = float(fwhm2sigma(fwhm))
    p0 = tuple(n // 2 for n in c.shape)
    x = np.zeros(c.shape)
    x[p0] = 1
    im = smooth(c.f, c.cm, x)
    out = im.get_fdata()
    c.out_shape = tuple(int(v) for v in out.shape)
    pk = np.unravel_index(int(out.argmax()), out.shape)
    c.off = tuple(int(a) - int(b) for a, b in zip(pk, p0))
    c.peak_visible = abs(float(out.max()) * c.S - 1.0) < 1e-9
    c.w0 = tuple(a - b for a, b in zip(c.ck, c.off))
    c.w1 = tuple(a + b for a, b in zip(c.w0, c.out_shape))
    c.impl = [[c.k[i], c.ck[i], c.L[i], c.w0[i], c.w1[i], c.off[i]] for i in range(3)]
    kc = getattr(c.f, "_kcenter", None)
    c.kcenter = None if kc is None else tuple(int(v) for v in kc)
    c.coordmap_ok = (im.coordmap == c.cm)
    return c


def replay_of(c, **kw):
    r = {"affine": aff4(c.A3, c.t).tolist(), "shape": list(c.shape), "fwhm": c.fwhm,
         "call": "LinearFilter(AffineTransform.from_params('ijk','xyz',affine), shape, fwhm=fwhm).smooth(Image(x, cm))"}
    r.update(kw)
    return r


def shift_is_known(c):
    """structural condition of the recorded finding: an even-sized axis on which the cropped
    kernel contains the offset n/2 (the support reaches the extra layer of the even grid)"""
    return any(c.shape[i] % 2 == 0 and max(c.ck[i], c.k[i] - 1 - c.ck[i]) >= c.shape[i] // 2 for i in range(3))


def model_terms(c, thorough=True):
    """Coq boolean terms: model geometry == observed geometry"""
    sigq = cq(c.sigma)
    impl = clist([czl(r) for r in c.impl])
    terms = []
    if is_diag(c.A3):
        rows = ["geom_diag %s %s %s" % (cz(c.shape[i]), cq(float(c.A3[i, i])), sigq) for i in range(3)]
        terms.append(("zmat_eqb %s %s" % (clist(rows), impl), clist(rows)))
    vol = c.shape[0] * c.shape[1] * c.shape[2]
    if thorough and is_diag(c.A3) and vol > 216:
        return terms      # thorough: diagonal affines on large grids are covered by geom_diag (the 3-D term costs ~1 s each)
    if not thorough and ((is_diag(c.A3) and vol > 48) or (vol > 150 and hash((c.shape, c.fwhm)) % 5)):
        return terms      # quick tier: the 3-D support model (slow in vm_compute) on small grids and a fifth of the larger oblique cases
    g3 = "(geom3 %s [%s; %s; %s] %s)" % (cqmat(c.A3), sigq, sigq, sigq, czl(c.shape))
    terms.append(("zmat_eqb %s %s" % (g3, impl), g3))
    return terms


def check_values(ck, c, x, tag, scale=1.0, loc=0.0, f=None, full=None):
    """implementation vs direct convolution under the model's index formula"""
    f = f or c.f
    try:
        out = smooth(f, c.cm, x).get_fdata()
    except Exception as e:  # noqa
        sig = "scale/raises-or-wrong-window" if (scale != 1.0 or loc != 0.0) else "raises/smooth"
        ck.fail(sig, "smooth raised %s: %s (%s)" % (type(e).__name__, e, tag),
                replay_of(c, x=np.asarray(x).tolist(), scale=scale, location=loc))
        return None
    if full is None:
        full = conv_full(x, c.K) / c.S
    exp_model = scale * window(full, c.ck, c.shape) + loc      # model: the window starts at _kcenter = c_k
    if out.shape != exp_model.shape or not np.allclose(out, exp_model, rtol=0, atol=TOL * max(1.0, float(np.abs(exp_model).max()))):
        sig = "scale/raises-or-wrong-window" if (scale != 1.0 or loc != 0.0) else "values/fft-vs-direct-convolution"
        ck.fail(sig, "smooth differs from scale*directconv(x, kernel)[c_k : n+c_k]/l1sum + location (%s): shape %s fwhm %s max|diff| %s"
                % (tag, c.shape, c.fwhm, float(np.abs(out - exp_model).max()) if out.shape == exp_model.shape else "shape %s" % (out.shape,)),
                replay_of(c, x=np.asarray(x).tolist(), scale=scale, location=loc))
    return out, full


def check_centred(ck, c, x, out, full, tag):
    """property oracle: convolution with the same kernel but NO spatial offset (window starts at the kernel's centre)"""
    exp_c = window(full, c.ck, c.shape)
    if not np.allclose(out, exp_c, rtol=0, atol=TOL * max(1.0, float(np.abs(exp_c).max()))):
        if all(a == k // 2 for a, k in zip(c.ck, c.k)):
            sig = "centre/not-the-normalised-centred-convolution"     # no index offset: values or normalisation differ
        else:
            sig = SIG_SHIFT if shift_is_known(c) else "centre/shift-other"
        ck.fail(sig, "smoothed image is not the convolution with the kernel centred on each voxel (%s): shape %s fwhm %s kernel shape %s "
                "centre-in-kernel %s k//2 %s _kcenter %s; impulse peak offset %s"
                % (tag, c.shape, c.fwhm, c.k, c.ck, [k // 2 for k in c.k], c.kcenter, list(c.off)),
                replay_of(c, x=np.asarray(x).tolist()))
        return False
    return True


# option values: ordinary ones and the falsy-but-legal ones (0, 0.0, -0.0, False, NumPy zeros)
SCALES = [2.0, -0.5, 3.0, 1.0, 0.25, 0, 0.0, -0.0, False, np.float64(0.0), np.int64(0), True, 1]
LOCATIONS = [0.0, 1.5, -4.0, 0, False, np.float64(0.0), -0.0]


def scale_sig(sc, lo, kc):
    if float(sc) == 0.0:
        return "scale-location/zero-scale-not-applied"          # a falsy scale is a value, not "use the default"
    return "scale-location/not-applied/%s" % kc


def same_value(a, b):
    if a is None or b is None:
        return a is b
    try:
        return bool(np.all(np.asarray(a) == np.asarray(b))) and np.shape(a) == np.shape(b)
    except Exception:  # noqa
        return False


def stored_options(ck, obj, given, rep):
    """a constructor keeps every option it was given (value for value; falsy values are values)"""
    for name, val in given.items():
        got = getattr(obj, name, "<missing>")
        if isinstance(got, str) or not same_value(got, val):
            ck.fail("constructor/option-not-stored/%s" % name, "%s(..., %s=%r) has .%s = %r" % (type(obj).__name__, name, val, name, got),
                    dict(rep, option=name, given=repr(val), stored=repr(got)))


IMAGE_DTYPES = [np.int16, np.uint8, np.bool_, np.float32, np.int64, np.int8, np.float64]


def image_dtypes(ck, rng, c, shape, dtypes):
    """the image's storage type and memory layout do not matter: integer / bool / float32 / Fortran-ordered / strided
    images smooth to the float result of the same values held in float64, and the image array is not modified"""
    from nipy.core.api import Image
    kc = kernel_class(c)
    for dt in dtypes:
        dt = np.dtype(dt)
        if dt == np.bool_:
            vals = rng.integers(0, 2, shape)
        elif dt.kind == "u":
            vals = rng.integers(0, 9, shape)
        else:
            vals = rng.integers(-8, 9, shape)
        for layout in ("C", "F", "strided"):
            if layout == "C":
                arr = np.ascontiguousarray(vals.astype(dt))
            elif layout == "F":
                arr = np.asfortranarray(vals.astype(dt))
            else:
                big = np.zeros(tuple(2 * n for n in shape), dtype=dt)
                big[::2, ::2, ::2] = vals.astype(dt)
                arr = big[::2, ::2, ::2]
            saved = arr.copy()
            ck.count(("dtype", c.shape, c.fwhm, dt.name, layout), bucket="image-dtype/%s" % dt.name)
            rep = replay_of(c, x=vals.tolist(), dtype=dt.name, layout=layout, kernel_class=kc)
            try:
                got = np.asarray(c.f.smooth(Image(arr, c.cm)).get_fdata())
            except Exception as e:  # noqa
                ck.fail("image-dtype/raises/%s" % dt.name, "smooth of a %s image (%s layout) raised %s: %s" % (dt.name, layout, type(e).__name__, e), rep)
                continue
            want = window(conv_full(vals.astype(np.float64), c.K) / c.S, c.ck, c.shape)
            if got.shape != want.shape or not np.allclose(got.astype(np.float64), want, rtol=0, atol=1e-5 if dt == np.float32 else 1e-9):
                ck.fail("image-dtype/result-depends-on-storage-type/%s" % ("float32" if dt == np.float32 else dt.kind.replace("i", "integer").replace("u", "integer").replace("b", "bool").replace("f", "float64")),
                        "smooth of a %s image (%s layout) is not the smooth of the same values in float64: result dtype %s, max|diff| %s (%s)"
                        % (dt.name, layout, got.dtype, float(np.abs(got.astype(float) - want).max()) if got.shape == want.shape else "shape", kc), rep)
            if not np.array_equal(arr, saved) or arr.dtype != saved.dtype:
                ck.fail("mutates-input/image-data", "smooth changed the caller's %s image array" % dt.name, rep)


def kernel_call_purity(ck, rng, f, A3, fwhm_req, tag):
    """LinearFilter.__call__ (the kernel as a function of world offsets): evaluated TWICE on the same points object,
    for several container types / dtypes / axis conventions; value against the independent Gaussian, second
    evaluation equal to the first, points unchanged"""
    import copy
    base = rng.integers(-6, 7, (7, 3)) / 2.0
    base[0] = 0
    sig = np.asarray(fwhm_req, float) / SQRT8LN2
    u = ((base / sig) ** 2).sum(-1) / 2
    want = np.where(u <= 15, np.exp(-np.minimum(u, 15)), 0.0)
    makers = [("float64 (n,3)", lambda: base.copy(), -1), ("float64 (3,n) axis=0", lambda: np.ascontiguousarray(base.T), 0),
              ("float64 view", lambda: np.hstack([base, base])[:, :3], -1), ("float64 fortran", lambda: np.asfortranarray(base.copy()), -1),
              ("float32", lambda: base.astype(np.float32), -1), ("list", lambda: base.tolist(), -1),
              ("int64 (doubled offsets)", None, -1)]
    for kind, mkp, axis in makers:
        ck.count(("kcall", tag, kind), bucket="kernel-call/%s" % kind.split()[0])
        if mkp is None:
            pts = (2 * base).astype(np.int64)
            u2 = ((pts / sig) ** 2).sum(-1) / 2
            w = np.where(u2 <= 15, np.exp(-np.minimum(u2, 15)), 0.0)
        else:
            pts, w = mkp(), want
        saved = copy.deepcopy(pts)
        rep = {"filter": tag, "fwhm": np.asarray(fwhm_req).tolist(), "points_kind": kind, "points": np.asarray(saved).tolist(), "axis": axis,
               "call": "v1 = filt(points, axis); v2 = filt(points, axis) on the SAME points object"}
        try:
            v1 = np.array(f(pts, axis=axis), dtype=float)
            v2 = np.array(f(pts, axis=axis), dtype=float)
        except Exception as e:  # noqa
            ck.fail("kernel-call/integer-points-raise" if kind.startswith("int") else "kernel-call/raises",
                    "filt(points) with %s points raised %s: %s" % (kind, type(e).__name__, e), rep)
            continue
        tol = 1e-5 if kind == "float32" else 1e-12
        if v1.shape != w.shape or not np.allclose(v1, w, rtol=0, atol=tol):
            ck.fail("kernel-call/wrong-value", "filt(points) (%s, %s) = %s, expected the Gaussian of the requested width %s" % (kind, tag, v1.tolist(), w.tolist()), rep)
        if v2.shape != v1.shape or not np.allclose(v2, v1, rtol=0, atol=1e-15):
            ck.fail("kernel-call/second-evaluation-differs", "the second filt(points) on the same %s object gives %s, the first gave %s" % (kind, v2.tolist(), v1.tolist()), rep)
        if not np.array_equal(np.asarray(pts), np.asarray(saved)):
            ck.fail("kernel-call/mutates-points", "filt(points) changed the caller's %s points: %s -> %s" % (kind, np.asarray(saved).tolist(), np.asarray(pts).tolist()),
                    dict(rep, points_after=np.asarray(pts).tolist()))


# ------------------------------------------------------------------ the points array of the kernel function
HDRA = HDR + "From NV.C18 Require Import ModelAxis.\n"


def _layouts(rng, shp):
    """views holding a logical array of shape shp over a flat float64 buffer whose entry p is p + 1 (distinct, decodable)"""
    n = int(np.prod(shp))
    nd = len(shp)

    def buf(m):
        return np.arange(1, m + 1, dtype=np.float64)
    out = []
    b = buf(n)
    out.append(("C-contiguous", b, b.reshape(shp)))
    b = buf(n)
    out.append(("Fortran", b, b.reshape(shp[::-1]).T))
    b = buf(2 * n + 3)
    big = b[3:].reshape(shp[:-1] + (2 * shp[-1],))
    out.append(("strided-slice", b, big[..., ::2]))
    b = buf(n)
    out.append(("reversed-first-axis", b, b.reshape(shp)[::-1]))
    if nd >= 2:
        perm = [int(v) for v in rng.permutation(nd)]
        b = buf(n)
        out.append(("transposed-axes", b, b.reshape(tuple(shp[q] for q in perm)).transpose([int(v) for v in np.argsort(perm)])))
    return out


def _elem_view(b, X):
    it = b.itemsize
    off = (X.__array_interface__["data"][0] - b.__array_interface__["data"][0]) // it
    return [int(v) for v in X.shape], [int(v) // it for v in X.strides], int(off)


def kernel_call_layouts(ck):
    """filt(X, axis) / _normsq on arrays of points with 1..4 dimensions, the coordinate axis at EVERY position (given as a
    positive and as a negative number), point axes of equal and of distinct lengths, five memory layouts; scalar and
    per-axis fwhm.  (a) oracle: the value at every point is the independent Gaussian of that point's coordinates and the
    result has the shape of X without the coordinate axis; (b) exact correspondence with ModelAxis.gather: which buffer
    entries each output point reads (decoded from _normsq on integer-coded points, one coordinate at a time)."""
    from nipy.algorithms.kernel_smooth import fwhm2sigma
    rng = ck.rng("kernel-call-layouts")
    filters = [("scalar fwhm 3.0, voxels (1,2,3)", 3.0, np.diag([1.0, 2.0, 3.0])),
               ("per-axis fwhm (2,4,7)", np.array([2.0, 4.0, 7.0]), np.eye(3))]
    terms, metas = [], []
    for tag, fw, A3 in filters:
        f, _ = mk(aff4(A3), (5, 5, 5), fw)
        fv = np.asarray(fwhm2sigma(np.asarray(fw, float)), float)
        fv = np.ones(3) * fv if fv.shape == () else fv
        sig = np.asarray(fw, float) / SQRT8LN2
        for nd in (1, 2, 3, 4):
            lens = [("equal-lengths", (3,) * (nd - 1))]
            if nd >= 3:
                lens.append(("distinct-lengths", (2, 3, 4)[:nd - 1]))
            if nd == 2:
                lens.append(("distinct-lengths", (5,)))
            for a in range(nd):
                for axis in sorted({a, a - nd}):
                    for lname, pl in lens:
                        shp = tuple(pl[:a]) + (3,) + tuple(pl[a:])
                        cls = "point-list-ndim<=2" if nd <= 2 else "grid-shaped-ndim>=3"
                        pos = "coordinate-axis-first" if a == 0 else "coordinate-axis-not-first"
                        vals = rng.integers(-6, 7, shp) / 2.0
                        P = np.moveaxis(vals, a, -1)
                        u = ((P / sig) ** 2).sum(-1) / 2
                        want = np.where(u <= 15, np.exp(-np.minimum(u, 15)), 0.0)
                        for layout, b, X in _layouts(rng, shp):
                            ck.count(("kcall-layout", tag, nd, a, axis, lname, layout), bucket="kernel-call-layout/%s/%s" % (cls, layout))
                            shape, strides, off = _elem_view(b, X)
                            # (a) value oracle on float points held in the same layout
                            bf = np.zeros_like(b)
                            Xf = np.lib.stride_tricks.as_strided(bf[off:], shape=X.shape, strides=X.strides)
                            Xf[...] = vals
                            rep = {"filter": tag, "fwhm": np.asarray(fw).tolist(), "points_shape": list(shp), "axis": axis, "layout": layout,
                                   "element_strides": strides, "offset": off, "points": vals.tolist(),
                                   "call": "filt(points, axis) with points of the given shape held in the given memory layout"}
                            try:
                                got = np.asarray(f(Xf, axis=axis), dtype=float)
                            except Exception as e:  # noqa
                                ck.fail("kernel-call/raises/%s" % cls, "filt(points %s, axis=%d) raised %s: %s" % (shp, axis, type(e).__name__, e), rep)
                                continue
                            if got.shape != want.shape:
                                ck.fail("kernel-call/result-shape/%s/%s" % (cls, pos),
                                        "filt(points of shape %s, axis=%d) has shape %s, expected the points' shape without the coordinate axis %s"
                                        % (shp, axis, got.shape, want.shape), dict(rep, got_shape=list(got.shape)))
                            elif not np.allclose(got, want, rtol=0, atol=1e-12):
                                ck.fail("kernel-call/values-at-wrong-points/%s/%s" % (cls, pos),
                                        "filt(points of shape %s, axis=%d, %s): max deviation %.3g from the Gaussian of each point's own coordinates"
                                        % (shp, axis, layout, float(np.abs(got - want).max())), dict(rep, got=got.tolist(), expected=want.tolist()))
                            # (b) which entries are read: integer-coded points, one coordinate at a time
                            obs, oshape, bad = None, None, None
                            try:
                                cols = []
                                for c in range(3):
                                    bc = np.zeros_like(b)
                                    Xc = np.lib.stride_tricks.as_strided(bc[off:], shape=X.shape, strides=X.strides)
                                    sel = (slice(None),) * a + (c,)
                                    Xc[sel] = X[sel]
                                    D = np.asarray(f._normsq(Xc, axis))
                                    tab = {float(v): m for m, v in enumerate((np.arange(len(b) + 1, dtype=np.float64) / fv[c]) ** 2)}
                                    dec = [tab.get(float(v)) for v in D.reshape(-1)]
                                    if any(m is None or m == 0 for m in dec):
                                        bad = "coordinate %d: _normsq value is not (entry / sigma[%d])**2 of any single entry" % (c, c)
                                        break
                                    cols.append([m - 1 for m in dec])
                                    oshape = [int(v) for v in D.shape]
                                if bad is None:
                                    obs = [list(t) for t in zip(*cols)]
                            except Exception as e:  # noqa
                                bad = "_normsq raised %s: %s" % (type(e).__name__, e)
                            rep2 = dict(rep, points="buffer entry p holds p + 1", observed_entries=obs, observed_shape=oshape)
                            if bad is not None:
                                ck.fail("model-vs-impl/kernel-call-gather/undecodable/%s" % cls, bad, rep2)
                                continue
                            terms.append("andb (zlist_eqb (out_shape %s (norm_axis %s %s)) %s) (zmat_eqb (gather %s %s %s (norm_axis %s %s)) %s)"
                                         % (czl(shape), cz(nd), cz(axis), czl(oshape), czl(shape), czl(strides), cz(off), cz(nd), cz(axis),
                                            clist([czl(r) for r in obs])))
                            metas.append((cls, pos, shp, axis, layout, rep2))
    if ck.build.ok and terms:
        oks = ck.coq_bools(HDRA, terms)
        ck.cov["traces_validated_against_impl"] += len(terms)
        for ok, (cls, pos, shp, axis, layout, rep2) in zip(oks, metas):
            if not ok:
                ck.fail("model-vs-impl/kernel-call-gather/%s/%s" % (cls, pos),
                        "_normsq(points of shape %s, axis=%d, %s) reads other buffer entries / returns another shape than the rolled view of the model"
                        % (shp, axis, layout), rep2)
    ck.section("kernel_call_layouts", cases=len(metas), coq_terms=len(terms))


def kernel_class(c):
    if all(k == 1 for k in c.k):
        return "single-voxel-kernel"
    if any(c.k[i] == c.shape[i] and c.shape[i] > 1 for i in range(3)):
        return "kernel-cut-by-grid"
    return "kernel-inside-grid"


def options_on_case(ck, rng, c, x, A3, t, shape, fwhm, base):
    """scale / location (constructor and attributes changed afterwards), clean and is_fft on EVERY case of the
    geometry loop, i.e. on every kernel-size class (one voxel, inside the grid, cut by the grid)"""
    if base is None:
        return
    out0, full = base
    kc = kernel_class(c)
    sc = SCALES[int(rng.integers(0, len(SCALES)))]
    lo = LOCATIONS[int(rng.integers(0, len(LOCATIONS)))]
    if float(sc) == 1.0 and float(lo) == 0.0:
        lo = 1.5
    want = float(sc) * out0 + float(lo)
    rep = replay_of(c, x=x.tolist(), scale=repr(sc), location=repr(lo), kernel_class=kc)

    def judge(got, how):
        if isinstance(got, Exception):
            ck.fail("scale/raises-or-wrong-window", "%s raised %s: %s (%s)" % (how, type(got).__name__, got, kc), dict(rep, how=how))
        elif got.shape != want.shape:
            ck.fail("scale/raises-or-wrong-window", "%s: output shape %s, expected %s (%s)" % (how, got.shape, want.shape, kc), dict(rep, how=how))
        elif not np.allclose(got, want, rtol=0, atol=1e-9 * max(1.0, float(np.abs(want).max()))):
            ck.fail(scale_sig(sc, lo, kc), "%s: output != scale * smooth(x) + location, scale %r location %r, kernel shape %s: max|diff| %.3g"
                    % (how, sc, lo, c.k, float(np.abs(got - want).max())), dict(rep, how=how))

    ck.count(("opt", shape, fwhm, sc, lo), bucket="options/%s" % kc)
    image_dtypes(ck, rng, c, shape, [IMAGE_DTYPES[int(rng.integers(0, len(IMAGE_DTYPES)))]])
    try:
        f2, _ = mk(aff4(A3, t), shape, fwhm, scale=sc, location=lo)
        judge(smooth(f2, c.cm, x).get_fdata(), "LinearFilter(scale, location).smooth")
        # the same filter used again on another image, then with its public attributes changed back
        stored_options(ck, f2, {"scale": sc, "location": lo, "fwhm": fwhm, "cov": None}, rep)
        y = -2.0 * x
        got = smooth(f2, c.cm, y).get_fdata()
        wy = float(sc) * (-2.0 * out0) + float(lo)
        if got.shape != wy.shape or not np.allclose(got, wy, rtol=0, atol=1e-9 * max(1.0, float(np.abs(wy).max()))):
            ck.fail(scale_sig(sc, lo, kc), "second image through the same scaled filter is wrong (%s)" % kc, dict(rep, how="second image"))
    except Exception as e:  # noqa
        judge(e, "LinearFilter(scale, location).smooth")
    try:
        f3, _ = mk(aff4(A3, t), shape, fwhm)
        f3.scale, f3.location = sc, lo
        judge(smooth(f3, c.cm, x).get_fdata(), "scale/location attributes set after construction")
        f3.scale, f3.location = 1.0, 0.0
        back = smooth(f3, c.cm, x).get_fdata()
        if not np.allclose(back, out0, rtol=0, atol=1e-9 * max(1.0, float(np.abs(out0).max()))):
            ck.fail("scale-location/not-applied/%s" % kc, "attributes reset to scale 1, location 0: output differs from the plain smooth", dict(rep, how="reset"))
    except Exception as e:  # noqa
        judge(e, "scale/location attributes set after construction")
    # clean=True: NaN / inf are replaced as by np.nan_to_num before smoothing
    if x.size >= 2:
        xn = x.copy()
        flat = xn.reshape(-1)
        flat[0] = np.nan
        flat[-1] = np.nan
        try:
            got = c.f.smooth(_img(xn, c.cm), clean=True).get_fdata()
            ref = smooth(c.f, c.cm, np.nan_to_num(xn)).get_fdata()
            if got.shape != ref.shape or not np.allclose(got, ref, rtol=1e-9, atol=1e-9):
                ck.fail("options/clean/%s" % kc, "smooth(clean=True) != smooth(nan_to_num(x)) (%s)" % kc, dict(rep, how="clean"))
        except Exception as e:  # noqa
            ck.fail("options/clean/%s" % kc, "smooth(clean=True) raised %s: %s" % (type(e).__name__, e), dict(rep, how="clean"))
    # is_fft=True: data already transformed by the filter's own _presmooth
    try:
        pre = type("_Pre", (), {"ndim": 3, "shape": tuple(shape),
                                "get_fdata": lambda self_inner: c.f._presmooth(np.array(x, dtype=float))})()
        got = c.f.smooth(pre, is_fft=True).get_fdata()
        if got.shape != out0.shape or not np.allclose(got, out0, rtol=0, atol=1e-9 * max(1.0, float(np.abs(out0).max()))):
            ck.fail("options/is_fft/%s" % kc, "smooth(presmoothed data, is_fft=True) != smooth(x) (%s)" % kc, dict(rep, how="is_fft"))
    except Exception as e:  # noqa
        ck.fail("options/is_fft/%s" % kc, "smooth(is_fft=True) raised %s: %s" % (type(e).__name__, e), dict(rep, how="is_fft"))


def _img(x, cm):
    from nipy.core.api import Image
    return Image(np.array(x, dtype=float), cm)


# ------------------------------------------------------------------ sections
def gen_shapes(ck):
    rng = ck.rng("shapes")
    shapes = [(n, n, n) for n in range(1, 10)]
    shapes += [(1, 2, 3), (2, 3, 4), (4, 5, 6), (3, 8, 5), (8, 7, 6), (9, 4, 2), (5, 5, 8), (6, 1, 7), (2, 9, 9), (7, 3, 8)]
    for _ in range(ck.n(6, 40)):
        shapes.append(tuple(int(v) for v in rng.integers(1, 10, 3)))
    seen = []
    for s in shapes:
        if s not in seen:
            seen.append(s)
    return sorted(seen, key=lambda s: (s[0] * s[1] * s[2], s))


def geometry_and_values(ck):
    rng = ck.rng("data")
    shapes = gen_shapes(ck)
    affs = [np.diag(d) for d in DIAGS] + [np.array(o, float) for o in OBLIQUE]
    if not ck.thorough():
        affs = affs[:5] + [np.array(o, float) for o in OBLIQUE[:4]]
    terms, meta = [], []
    ncase = nskip = nideal = 0
    for shape in shapes:
        for ai, A3 in enumerate(affs):
            t = tuple(int(v) for v in rng.integers(-5, 6, 3))
            for fwhm in fwhm_list(A3, shape, ck.thorough()):
                try:
                    c = observe(ck, A3, t, shape, fwhm)
                except Exception as e:  # noqa
                    ck.fail("raises/setup-or-smooth", "LinearFilter/smooth raised %s: %s" % (type(e).__name__, e),
                            {"affine": aff4(A3, t).tolist(), "shape": list(shape), "fwhm": fwhm})
                    continue
                ncase += 1
                kind = "diag" if is_diag(A3) else "oblique"
                cropped = any(c.k[i] == shape[i] and shape[i] > 1 for i in range(3))
                ck.count(("geom", shape, ai, fwhm), nontrivial=True,
                         bucket="%s/%s/%s" % (kind, "cropped" if cropped else "uncropped",
                                              "even" if any(n % 2 == 0 for n in shape) else "odd"))
                if ncase in (3, 400, 900):
                    ck.sample({"shape": list(shape), "affine3x3": np.asarray(A3).tolist(), "fwhm": fwhm,
                               "impl [k, c_k, L, w0, w1, offset] per axis": c.impl})
                # --- direct oracles on the implementation
                if c.out_shape != tuple(shape) or not c.coordmap_ok:
                    ck.fail("shape-coordmap", "output shape %s / coordmap differ from the input's %s" % (c.out_shape, shape), replay_of(c))
                if c.kcenter != c.ck:
                    ck.fail("model-vs-impl/kcenter", "LinearFilter._kcenter = %s, model: the index %s of the centre voxel in the cropped kernel" % (c.kcenter, c.ck),
                            replay_of(c))
                if not c.centre_ok:
                    ck.fail("kernel/centre-not-unique-max-1", "cropped kernel has no unique entry equal to 1.0", replay_of(c))
                # kernel values are the world-unit Gaussian at offsets from the kernel's own centre
                j = np.stack(np.meshgrid(*[np.arange(k) for k in c.k], indexing="ij"), -1) - np.array(c.ck)
                G, _u = ideal_gauss(A3, fwhm, j)
                # structural feature of the fwhm == 1.0 defect: the kernel is the UNSCALED Gaussian (sigma 1)
                unscaled = fwhm == 1.0 and np.allclose(c.K, ideal_gauss(A3, SQRT8LN2, j)[0], rtol=0, atol=1e-12)
                if not np.allclose(c.K, G, rtol=0, atol=1e-12):
                    sig = SIG_ONE if unscaled else "kernel/not-world-gaussian"
                    ck.fail(sig, "kernel is not exp(-|A d|^2/(2 sigma^2)), sigma = fwhm/sqrt(8 ln 2): shape %s fwhm %s max|diff| %.3g"
                            % (shape, fwhm, float(np.abs(c.K - G).max())), replay_of(c))
                # --- values: random integer image, vs direct convolution (model index formula)
                x = rng.integers(-8, 9, shape).astype(float)
                r = check_values(ck, c, x, "random image")
                if ck.thorough() or ncase % 3 == 0 or all(k == 1 for k in c.k):     # quick: a third of the cases + every one-voxel kernel
                    options_on_case(ck, rng, c, x, A3, t, shape, fwhm, r)
                if r is not None:
                    out, full = r
                    check_centred(ck, c, x, out, full, "random image")
                    # ideal response when the whole support fits in the grid around the centre
                    ext, Gfull, R = ideal_support_extent(A3, fwhm, max(shape))
                    if all(ext[i] <= (shape[i] - 1) // 2 for i in range(3)):
                        nideal += 1
                        fi = conv_full(x, Gfull) / Gfull.sum()
                        exp_i = window(fi, [R, R, R], shape)
                        if not np.allclose(out, exp_i, rtol=0, atol=TOL * max(1.0, float(np.abs(exp_i).max()))):
                            sig = SIG_ONE if unscaled else "impulse/not-ideal-gaussian-uncropped"
                            ck.fail(sig, "smooth != convolution with the centred world-unit Gaussian of the requested fwhm although its support fits the grid: shape %s fwhm %s max|diff| %.3g"
                                    % (shape, fwhm, float(np.abs(out - exp_i).max())), replay_of(c, x=x.tolist()))
                # --- model terms
                if borderline(A3, c.sigma, shape):
                    nskip += 1
                    continue
                for tm, mexpr in model_terms(c, ck.thorough()):
                    terms.append(tm)
                    lite = Case()        # keep no filter / buffers alive: smooth() calls gc.collect() three times per call
                    lite.A3, lite.t, lite.shape, lite.fwhm, lite.impl = c.A3, c.t, c.shape, c.fwhm, c.impl
                    meta.append((lite, mexpr))
                if ncase % 100 == 0:
                    gc.freeze()          # move what has accumulated (terms, counters) out of the collector's way
    res = None
    if ck.build is not None:
        import time
        from ..kit import CoqEvalError
        t0 = time.time()
        try:
            # the correspondence needs NV.C18.Model only; when a proof file is broken (e.g. the
            # source-tie lemmas after an edit of kernel_smooth.py) Model.vo is still built (make -k)
            res = ck.coq_bools(HDR, terms, shard=ck.n(40, 80))
        except CoqEvalError as e:
            if ck.build.ok:
                raise
            ck.note("model not evaluable (build broken): %s" % str(e)[-200:])
        ck.section("geometry", coq_eval_s=round(time.time() - t0, 1))
    if res is not None:
        ck.cov["traces_validated_against_impl"] += len(res)
        for ok, (c, mexpr), tm in zip(res, meta, terms):
            if not ok:
                try:
                    mv = ck.coq_show(HDR, mexpr)
                except Exception:  # noqa
                    mv = "?"
                ck.fail("model-vs-impl/geometry",
                        "model and implementation disagree on [k, c_k, L, w0, w1, offset] per axis: shape %s fwhm %s impl %s model %s"
                        % (c.shape, c.fwhm, c.impl, mv), replay_of(c, impl=c.impl, model=mv, term=tm))
                break
    ck.section("geometry", cases=ncase, model_terms=len(terms), skipped_borderline=nskip,
               ideal_gaussian_cases=nideal, shapes=len(shapes), affines=len(affs))


def impulses(ck):
    """impulse at every voxel of small grids: values against the model formula, peak position
    p0 (at the impulse), centring oracle"""
    if ck.thorough():
        shapes = list(itertools.product(range(1, 6), repeat=3)) + list(itertools.product((6, 7, 8), repeat=3))
        affs = [np.diag([1, 1, 1]), np.diag([1, -2, 0.5]), np.array(OBLIQUE[0], float), np.array(OBLIQUE[3], float)]
        fw = [0.75, 2.0, 6.0, 40.0]
    else:
        shapes = list(itertools.product(range(1, 4), repeat=3)) + [(4, 5, 2), (8, 3, 2), (5, 4, 4), (2, 2, 7), (6, 6, 1)]
        affs = [np.diag([1, 1, 1]), np.diag([1, -2, 0.5]), np.array(OBLIQUE[0], float)]
        fw = [0.75, 2.0, 40.0]
    shapes = sorted(set(shapes), key=lambda s: (s[0] * s[1] * s[2], s))
    nimp = 0
    for shape in shapes:
        for ai, A3 in enumerate(affs):
            for fwhm in fw:
                c = observe(ck, A3, (0, 0, 0), shape, fwhm)
                off_model = [0, 0, 0]          # model (impulse_response_centred): the peak is at the impulse
                for p0 in itertools.product(*[range(n) for n in shape]):
                    x = np.zeros(shape)
                    x[p0] = 1
                    nimp += 1
                    ck.count(("imp", shape, ai, fwhm, p0), nontrivial=True, bucket="impulse/%s" % ("even" if any(n % 2 == 0 for n in shape) else "odd"))
                    # direct convolution of a unit impulse: the kernel written at p0
                    full = np.zeros([shape[i] + c.k[i] - 1 for i in range(3)])
                    full[tuple(slice(p0[i], p0[i] + c.k[i]) for i in range(3))] = c.K / c.S
                    r = check_values(ck, c, x, "impulse at %s" % (p0,), full=full)
                    if r is None:
                        break
                    out, full = r
                    q = tuple(p0[i] + off_model[i] for i in range(3))
                    if all(0 <= q[i] < shape[i] for i in range(3)):
                        pk = tuple(int(v) for v in np.unravel_index(int(out.argmax()), out.shape))
                        if pk != q:
                            ck.fail("model-vs-impl/impulse-peak", "impulse at %s peaks at %s, model says at the impulse %s" % (p0, pk, q),
                                    replay_of(c, impulse=list(p0)))
                    if not check_centred(ck, c, x, out, full, "impulse at %s" % (p0,)):
                        pass
                    # mass: the whole kernel lands inside the window -> total intensity 1
                    if all(p0[i] - c.ck[i] >= 0 and p0[i] - c.ck[i] + c.k[i] <= shape[i] for i in range(3)) and off_model == [0, 0, 0]:
                        if abs(float(out.sum()) - 1.0) > 1e-10:
                            ck.fail("mass/interior-impulse", "interior impulse at %s: total intensity %r != 1" % (p0, float(out.sum())),
                                    replay_of(c, impulse=list(p0)))
    ck.section("impulses", impulse_smooths=nimp, shapes=len(shapes), affines=len(affs), fwhm=fw)


def conversion_purity(ck):
    """(a) fwhm2sigma / sigma2fwhm on every kind of argument: value against an independent copy taken
    BEFORE the call, argument unchanged, result does not alias the argument, round trip against the copy"""
    import copy
    from nipy.algorithms.kernel_smooth import fwhm2sigma, sigma2fwhm
    base = np.array([2.0, 4.0, 8.0, 1.0, 6.0, 3.5])
    big = np.arange(1.0, 13.0).reshape(3, 4)
    makers = [
        ("python-float", lambda: 6.0), ("python-int", lambda: 6), ("list", lambda: [5.0, 7.0, 9.0]), ("tuple", lambda: (5.0, 7.0, 9.0)),
        ("int-list", lambda: [5, 7, 9]),
        ("float64-vector", lambda: np.array([5.0, 7.0, 9.0])), ("float64-0d", lambda: np.array(6.0)),
        ("float64-2d", lambda: big.copy()), ("float32-vector", lambda: np.array([5.0, 7.0, 9.0], dtype=np.float32)),
        ("int64-vector", lambda: np.array([5, 7, 9])), ("int32-vector", lambda: np.array([5, 7, 9], dtype=np.int32)),
        ("strided-view", lambda: base.copy()[::2]), ("column-view", lambda: big.copy()[:, 1]),
        ("fortran-2d", lambda: np.asfortranarray(big.copy())), ("float64-scalar", lambda: np.float64(6.0)),
        ("zero-int", lambda: 0), ("zero-float", lambda: 0.0), ("false", lambda: False), ("zeros-vector", lambda: np.zeros(3)),
        ("vector-with-zero", lambda: np.array([0.0, 2.0, 0.0])), ("empty-list", lambda: []), ("empty-tuple", lambda: ()),
        ("empty-array", lambda: np.array([], dtype=np.float64)),
    ]
    for fname, fn, inv, op in (("fwhm2sigma", fwhm2sigma, sigma2fwhm, lambda v: v / SQRT8LN2),
                               ("sigma2fwhm", sigma2fwhm, fwhm2sigma, lambda v: v * SQRT8LN2)):
        for kind, mk_arg in makers:
            ck.count(("conv-arg", fname, kind), bucket="oracle/conversion-arguments")
            arg = mk_arg()
            owner = arg.base if isinstance(arg, np.ndarray) and arg.base is not None else None
            owner_saved = None if owner is None else owner.copy()
            saved = copy.deepcopy(arg)
            want = op(np.array(saved, dtype=np.float64))
            rep = {"function": fname, "argument_kind": kind, "argument": np.asarray(saved).tolist()}
            try:
                res = fn(arg)
            except Exception as e:  # noqa
                ck.fail("conversion/raises", "%s(%s argument) raised %s: %s" % (fname, kind, type(e).__name__, e), rep)
                continue
            res_copy = np.array(res, dtype=np.float64, copy=True)
            if res_copy.shape != want.shape or not np.allclose(res_copy, want, rtol=1e-6 if "float32" in kind else 1e-14, atol=0):
                ck.fail("conversion/wrong-value", "%s(%s %s) = %s, expected %s" % (fname, kind, np.asarray(saved).tolist(), res_copy.tolist(), want.tolist()), rep)
            same = (np.array_equal(np.asarray(arg), np.asarray(saved)) and (not isinstance(arg, np.ndarray) or arg.dtype == saved.dtype)
                    and (owner is None or np.array_equal(owner, owner_saved)))
            if not same:
                ck.fail("conversion/mutates-argument", "%s overwrote its %s argument: %s -> %s" % (fname, kind, np.asarray(saved).tolist(), np.asarray(arg).tolist()),
                        dict(rep, argument_after=np.asarray(arg).tolist()))
            if isinstance(arg, np.ndarray) and isinstance(res, np.ndarray) and res.ndim and np.shares_memory(res, arg):
                ck.fail("conversion/result-aliases-argument", "%s(%s) returns memory shared with its argument" % (fname, kind), rep)
            # round trip, judged against the copy taken before the first call
            back = np.array(inv(res), dtype=np.float64)
            if not np.allclose(back, np.array(saved, dtype=np.float64), rtol=1e-6 if "float32" in kind else 1e-14, atol=0):
                ck.fail("conversion/sigma-fwhm-not-inverse", "%s then its inverse on a %s argument %s gives %s"
                        % (fname, kind, np.asarray(saved).tolist(), back.tolist()), rep)
            # a second call on the same object gives the same value (purity)
            res2 = np.array(fn(arg), dtype=np.float64)
            if res2.shape != want.shape or not np.allclose(res2, want, rtol=1e-6 if "float32" in kind else 1e-14, atol=0):
                ck.fail("conversion/not-pure-second-call", "second %s call on the same %s object gives %s, expected %s"
                        % (fname, kind, res2.tolist(), want.tolist()), rep)


def per_axis_width(ck):
    """(b) per-axis fwhm given as list / tuple / ndarray and USED AGAIN: two filters from the same object, the kernel
    function evaluated twice, smooth twice - all equal to a fresh filter from a fresh copy and to the requested widths"""
    import copy
    cfgs = [((5, 4, 3), (1.0, 1.0, 1.0), (2.0, 3.0, 1.5)),
            ((9, 11, 7), (2.0, 3.0, 2.5), (5.0, 7.0, 9.0)),
            ((12, 8, 10), (1.0, -0.5, 2.0), (3.0, 1.5, 4.0))]
    kinds = [("list", lambda v: list(v)), ("tuple", lambda v: tuple(v)), ("float64-array", lambda v: np.array(v, dtype=np.float64)),
             ("int-array", lambda v: np.array([int(round(x)) for x in v])), ("float32-array", lambda v: np.array(v, dtype=np.float32)),
             ("array-view", lambda v: np.array([v, v], dtype=np.float64)[1])]
    for shape, steps, widths in cfgs:
        A3 = np.diag(steps)
        A4 = aff4(A3, (-3, 4, 9))
        p0 = tuple(n // 2 for n in shape)
        x = np.zeros(shape)
        x[p0] = 1
        pts = np.zeros((4, 3))
        for kind, mkw in kinds:
            ck.count(("per-axis", shape, kind), bucket="oracle/per-axis-fwhm")
            obj = mkw(widths)
            saved = copy.deepcopy(obj)
            req = np.array(saved, dtype=np.float64)          # the widths actually requested (int kind rounds)
            for i in range(3):
                pts[i + 1] = 0
                pts[i + 1, i] = req[i] / 2                    # world distance fwhm_i / 2 along coordinate i
            rep = {"affine": A4.tolist(), "shape": list(shape), "fwhm_kind": kind, "fwhm": req.tolist(),
                   "call": "f1 = LinearFilter(cm, shape, fwhm=w); f2 = LinearFilter(cm, shape, fwhm=w) with the SAME object w; f1(points) twice; smooth twice"}
            # independent expectation: the centred world Gaussian with per-axis widths, same crop/normalisation rules
            ext, Gfull, R = ideal_support_extent(A3, req, max(shape))
            fits = all(ext[i] <= (shape[i] - 1) // 2 for i in range(3))
            want = window(conv_full(x, Gfull) / Gfull.sum(), [R, R, R], shape) if fits else None
            try:
                fresh, cm = mk(A4, shape, list(req))
                Kfresh = np.array(fresh._kernel)
                sfresh = smooth(fresh, cm, x).get_fdata()
                f1, _ = mk(A4, shape, obj)
                s1 = smooth(f1, cm, x).get_fdata()
                v1 = np.array(f1(pts.copy()))
                v2 = np.array(f1(pts.copy()))
                s1b = smooth(f1, cm, x).get_fdata()
                f2, _ = mk(A4, shape, obj)
                s2 = smooth(f2, cm, x).get_fdata()
                v3 = np.array(f2(pts.copy()))
            except Exception as e:  # noqa
                ck.fail("width/per-axis-fwhm-raises", "per-axis fwhm given as %s: %s: %s" % (kind, type(e).__name__, e), rep)
                continue
            tol32 = 1e-6 if kind == "float32-array" else 1e-9
            uses = [("first filter, smooth", s1, sfresh, False), ("first filter, smooth again", s1b, sfresh, True),
                    ("second filter from the same fwhm object, smooth", s2, sfresh, True)]
            for what, got, ref, reuse in uses:
                bad = got.shape != ref.shape or not np.allclose(got, ref, rtol=0, atol=tol32)
                if not bad and want is not None:
                    bad = not np.allclose(got, want, rtol=0, atol=tol32)
                if bad:
                    ck.fail("width/per-axis-fwhm-not-honoured-on-reuse" if reuse else "width/per-axis-fwhm-not-honoured",
                            "%s (fwhm %s as %s): peak %.4g, a fresh filter from a fresh copy gives %.4g; the fwhm object now reads %s"
                            % (what, req.tolist(), kind, float(got.max()), float(ref.max()), np.asarray(obj).tolist()),
                            dict(rep, step=what, fwhm_object_after=np.asarray(obj).tolist()))
            if f2._kernel.shape != Kfresh.shape or not np.allclose(f2._kernel, Kfresh, rtol=0, atol=tol32):
                ck.fail("width/per-axis-fwhm-not-honoured-on-reuse", "second filter built from the same fwhm object (%s, %s) has kernel shape %s, fresh filter %s"
                        % (kind, req.tolist(), f2._kernel.shape, Kfresh.shape), dict(rep, step="second filter kernel", fwhm_object_after=np.asarray(obj).tolist()))
            for what, vals, reuse in (("filter(points) after construction (the kernel's second evaluation)", v1, True), ("filter(points) evaluated again", v2, True),
                                      ("second filter(points)", v3, True)):
                if vals.shape != (4,) or not np.allclose(vals, [1.0, 0.5, 0.5, 0.5], rtol=0, atol=1e-6 if kind == "float32-array" else 1e-12):
                    ck.fail("width/per-axis-fwhm-not-honoured-on-reuse" if reuse else "width/per-axis-fwhm-not-honoured",
                            "%s at the centre and the three half-width points (fwhm %s as %s) gives %s, expected [1, .5, .5, .5]; the fwhm object now reads %s"
                            % (what, req.tolist(), kind, vals.tolist(), np.asarray(obj).tolist()),
                            dict(rep, step=what, points=pts.tolist(), fwhm_object_after=np.asarray(obj).tolist()))
            kernel_call_purity(ck, np.random.default_rng(0), fresh, A3, req, "per-axis fwhm %s as %s" % (req.tolist(), kind))
            unchanged = np.array_equal(np.asarray(obj), np.asarray(saved)) and (not isinstance(obj, np.ndarray) or obj.dtype == saved.dtype)
            if not unchanged:
                ck.fail("mutates-input/fwhm-argument", "the caller's fwhm %s %s reads %s after building and using the filters"
                        % (kind, np.asarray(saved).tolist(), np.asarray(obj).tolist()), dict(rep, fwhm_object_after=np.asarray(obj).tolist()))


def exact_det(M):
    """determinant over Fractions (cofactor expansion), independent of NumPy and of the Coq model"""
    from fractions import Fraction
    M = [[Fraction(*float(v).as_integer_ratio()) for v in row] for row in M]
    if len(M) == 1:
        return M[0][0]
    tot = Fraction(0)
    for j, a in enumerate(M[0]):
        if a != 0:
            minor = [row[:j] + row[j + 1:] for row in M[1:]]
            tot += (-1) ** j * a * exact_det(minor)
    return tot


def resels(ck):
    """fwhm.Resels on every kind of affine coordinate map: wedge against the exact determinant (Coq model
    qdet, vm_compute), conversions against their definition, mutual inverses, orientation independence, integrate"""
    from nipy.algorithms.fwhm import Resels
    from nipy.core.api import AffineTransform
    rng = ck.rng("resels")
    C4 = math.sqrt(4 * math.log(2))
    mats = []
    signs = list(itertools.product((1, -1), repeat=3))
    for steps in [(1, 1, 1), (2, 3, 4), (0.5, 2.5, 1), (3, 3, 3), (0.001, 0.002, 0.004), (1000, 2000, 500)]:
        for sg in signs:
            mats.append(("diag", np.diag([a * b for a, b in zip(steps, sg)])))
    for o in OBLIQUE:
        for sg in signs[:: (1 if ck.thorough() else 3)] + [(-1, 1, 1)]:
            mats.append(("oblique", np.array(o, float) * np.array(sg, float)[None, :]))
    for perm in itertools.permutations(range(3)):
        P = np.zeros((3, 3))
        for i, j in enumerate(perm):
            P[i, j] = [2.0, 3.0, 0.5][i]
        mats.append(("permutation", P))
    for _ in range(ck.n(30, 300)):
        M = rng.integers(-8, 9, (3, 3)) / 4.0
        if exact_det(M.tolist()) != 0:
            mats.append(("random-dyadic", M))
    fw = np.array([0.5, 2.0, 6.0, 25.0])
    terms, meta = [], []
    n = 0
    for kind, A3 in mats:
        t = rng.integers(-20, 21, 3).astype(float)
        A4 = aff4(A3, t)
        d = exact_det(A4.tolist())
        absd = abs(float(d))
        orient = "negative-determinant" if d < 0 else "positive-determinant"
        for D in (3, 2):
            n += 1
            ck.count(("resels", kind, A3.tobytes(), D), bucket="resels/%s/%s" % (kind, orient))
            rep = {"affine": A4.tolist(), "D": D, "det": float(d), "call": "Resels(AffineTransform.from_params('ijk','xyz',affine), D=D)"}
            try:
                R = Resels(AffineTransform.from_params('ijk', 'xyz', A4), D=D)
                w = float(R.wedge)
                r_of_f = np.asarray(R.fwhm2resel(fw.copy()), float)
                want_r = absd * (C4 / fw) ** D
                f_of_r = np.asarray(R.resel2fwhm(want_r.copy()), float)
                back_f = np.asarray(R.resel2fwhm(R.fwhm2resel(fw.copy())), float)
                back_r = np.asarray(R.fwhm2resel(R.resel2fwhm(want_r.copy())), float)
            except Exception as e:  # noqa
                ck.fail("resel/raises/%s" % orient, "Resels on a %s affine (%s) raised %s: %s" % (kind, orient, type(e).__name__, e), rep)
                continue
            # options are stored as given (falsy values included); zero widths / resels map to 0 (pos_recipr)
            for nm_, cl_ in ((False, False), (0, 0), (True, True)):
                try:
                    Ro = Resels(AffineTransform.from_params('ijk', 'xyz', A4), normalized=nm_, clobber=cl_, D=D)
                    stored_options(ck, Ro, {"D": D, "normalized": nm_, "clobber": cl_, "mask": None, "fwhm": None, "resels": None}, rep)
                except Exception as e:  # noqa
                    ck.fail("resel/raises/options", "Resels(normalized=%r, clobber=%r) raised %s: %s" % (nm_, cl_, type(e).__name__, e), rep)
            for zarg in (0, 0.0, np.array([0.0, 2.0, 0.0]), np.zeros(2)):
                try:
                    zr = np.asarray(R.fwhm2resel(zarg), float)
                    zf = np.asarray(R.resel2fwhm(zarg), float)
                    za = np.asarray(zarg, float)
                    wr = np.where(za > 0, absd * (C4 / np.where(za > 0, za, 1.0)) ** D, 0.0)
                    wf = np.where(za > 0, C4 * absd ** (1.0 / D) * np.where(za > 0, za, 1.0) ** (-1.0 / D), 0.0)
                    if not (np.allclose(zr, wr, rtol=1e-11, atol=0) and np.allclose(zf, wf, rtol=1e-11, atol=0)):
                        ck.fail("resel-fwhm/zero-argument", "fwhm2resel(%r) = %s, resel2fwhm(%r) = %s; expected %s, %s (zero maps to zero)"
                                % (zarg, zr.tolist(), zarg, zf.tolist(), wr.tolist(), wf.tolist()), rep)
                except Exception as e:  # noqa
                    ck.fail("resel-fwhm/zero-argument", "conversion of %r raised %s: %s" % (zarg, type(e).__name__, e), rep)
            if not (np.isfinite(w) and w > 0 and abs(w ** D - absd) <= 1e-11 * absd):
                ck.fail("resel-wedge/%s" % orient, "Resels.wedge = %r, expected |det|^(1/D) = %r (det %r, D %d, %s affine)"
                        % (w, absd ** (1.0 / D), float(d), D, kind), dict(rep, wedge=w))
            if not np.allclose(r_of_f, want_r, rtol=1e-11, atol=0):
                ck.fail("resel-fwhm/fwhm2resel-not-volume-over-width/%s" % orient,
                        "fwhm2resel(%s) = %s, expected voxel volume * (sqrt(4 ln 2)/fwhm)^D = %s (%s affine, det %r)"
                        % (fw.tolist(), r_of_f.tolist(), want_r.tolist(), kind, float(d)), rep)
            if not np.allclose(f_of_r, fw, rtol=1e-11, atol=0):
                ck.fail("resel-fwhm/resel2fwhm-wrong/%s" % orient, "resel2fwhm(%s) = %s, expected %s" % (want_r.tolist(), f_of_r.tolist(), fw.tolist()), rep)
            if not (np.allclose(back_f, fw, rtol=1e-11, atol=0) and np.allclose(back_r, want_r, rtol=1e-11, atol=0)):
                sig = SIG_RESEL
                if d < 0:       # does the same map with positive determinant (first voxel axis flipped) round-trip?
                    try:
                        Rp = Resels(AffineTransform.from_params('ijk', 'xyz', aff4(A3 * np.array([-1.0, 1, 1])[None, :], t)), D=D)
                        if np.allclose(np.asarray(Rp.resel2fwhm(Rp.fwhm2resel(fw.copy())), float), fw, rtol=1e-11, atol=0):
                            sig = "resel-fwhm/flipped-affine-not-inverse"
                    except Exception:  # noqa
                        pass
                ck.fail(sig, "resel2fwhm(fwhm2resel(f)) = %s for f = %s; fwhm2resel(resel2fwhm(r)) = %s for r = %s (%s affine, det %r, D %d)"
                        % (back_f.tolist(), fw.tolist(), back_r.tolist(), want_r.tolist(), kind, float(d), D), rep)
            # orientation independence: the same map with its first voxel axis flipped
            try:
                Rf = Resels(AffineTransform.from_params('ijk', 'xyz', aff4(A3 * np.array([-1.0, 1, 1])[None, :], t)), D=D)
                if not (np.isclose(float(Rf.wedge), w, rtol=1e-12, atol=0) and np.allclose(np.asarray(Rf.fwhm2resel(fw.copy()), float), r_of_f, rtol=1e-12, atol=0)):
                    ck.fail("resel/depends-on-orientation", "flipping the first voxel axis changes wedge %r -> %r / fwhm2resel %s -> %s"
                            % (w, float(Rf.wedge), r_of_f.tolist(), np.asarray(Rf.fwhm2resel(fw.copy())).tolist()), rep)
            except Exception as e:  # noqa
                ck.fail("resel/raises/flipped", "Resels on the flipped map raised %s: %s" % (type(e).__name__, e), rep)
            # integrate: constant and varying resel fields, with and without mask
            shp = (3, 4, 2)
            f0 = 6.0
            r0 = absd * (C4 / f0) ** D
            field = np.full(shp, r0)
            var = r0 * (1 + rng.integers(0, 4, shp) / 4.0)
            mask = (rng.random(shp) < 0.6).astype(float)
            mask.reshape(-1)[0] = 1
            for what, arr, mk_ in (("constant field", field, None), ("constant field, mask", field, mask), ("varying field, mask", var, mask), ("varying field", var, None)):
                try:
                    tot, fav, nv = Resels(AffineTransform.from_params('ijk', 'xyz', A4), resels=arr.copy(), D=D).integrate(mask=None if mk_ is None else mk_.copy())
                except Exception as e:  # noqa
                    ck.fail("resel-integrate/raises", "integrate (%s) raised %s: %s" % (what, type(e).__name__, e), rep)
                    continue
                m = np.ones(shp) if mk_ is None else mk_
                wt, wn = float((arr * m).sum()), float(m.sum())
                wf = C4 * absd ** (1.0 / D) * (wt / wn) ** (-1.0 / D)
                if not (np.isclose(float(tot), wt, rtol=1e-12) and float(nv) == wn and np.isclose(float(fav), wf, rtol=1e-11)):
                    ck.fail("resel-integrate/%s" % orient, "integrate (%s): (total, fwhm, nvoxel) = (%r, %r, %r), expected (%r, %r, %r)"
                            % (what, float(tot), float(fav), float(nv), wt, wf, wn), dict(rep, resels=arr.tolist(), mask=None if mk_ is None else mk_.tolist()))
            # model term (exact island: every entry a small dyadic rational)
            if np.isfinite(w) and float(np.abs(A4).max()) < 1e6:
                terms.append("wedge_ok %s %d%%positive %s (Qmake 1 100000000000)" % (cqmat(A4), D, cq(w)))
                meta.append((kind, A4, D, w, float(d)))
    res = None
    if ck.build is not None:
        from ..kit import CoqEvalError
        try:
            res = ck.coq_bools(HDR, terms, shard=200, name="resels")
        except CoqEvalError as e:
            if ck.build.ok:
                raise
            ck.note("resels: model not evaluable (build broken): %s" % str(e)[-200:])
    if res is not None:
        ck.cov["traces_validated_against_impl"] += len(res)
        for ok, (kind, A4, D, w, d) in zip(res, meta):
            if not ok:
                ck.fail("model-vs-impl/resel-wedge", "Resels.wedge = %r but the model's exact determinant is %r (|det|^(1/%d) = %r), %s affine"
                        % (w, d, D, abs(d) ** (1.0 / D), kind), {"affine": A4.tolist(), "D": D, "wedge": w, "det": d})
                break
    ck.section("resels", objects=n, affines=len(mats), model_terms=len(terms))


def oracles(ck):
    """linearity, shift equivariance, constants, scale/location, anisotropy on larger grids"""
    rng = ck.rng("oracles")
    from nipy.algorithms.kernel_smooth import LinearFilter, fwhm2sigma, sigma2fwhm
    cfgs = [((9, 9, 9), np.diag([1, 1, 1]), 1.5), ((8, 8, 8), np.diag([1, 1, 1]), 2.0), ((12, 10, 11), np.diag([1, 2, 3]), 2.5),
            ((7, 6, 5), np.array(OBLIQUE[1], float), 2.0), ((16, 15, 14), np.diag([-2, 1, 0.5]), 1.75), ((6, 6, 6), np.diag([1, 1, 1]), 30.0),
            ((11, 12, 13), np.array(OBLIQUE[0], float), 1.5), ((3, 4, 2), np.diag([2, 2, 2]), 3.0)]
    reps = ck.n(3, 12)
    for shape, A3, fwhm in cfgs:
        c = observe(ck, A3, (1, -2, 3), shape, fwhm)
        for rep in range(reps):
            ck.count(("lin", shape, fwhm, rep), bucket="oracle/linearity")
            x = rng.integers(-8, 9, shape).astype(float)
            y = rng.integers(-8, 9, shape).astype(float)
            a, b = float(rng.integers(-4, 5)), float(rng.integers(-4, 5)) / 4
            sx, sy = smooth(c.f, c.cm, x).get_fdata(), smooth(c.f, c.cm, y).get_fdata()
            sz = smooth(c.f, c.cm, a * x + b * y).get_fdata()
            if not np.allclose(sz, a * sx + b * sy, rtol=0, atol=1e-9):
                ck.fail("linear/superposition", "smooth(a x + b y) != a smooth(x) + b smooth(y): shape %s" % (shape,),
                        replay_of(c, x=x.tolist(), y=y.tolist(), a=a, b=b))
            # input not modified
            x0 = x.copy()
            smooth(c.f, c.cm, x)
            if not np.array_equal(x, x0):
                ck.fail("mutates-input", "smooth changed the caller's array", replay_of(c))
            # scale / location
            sc, lo = float(rng.choice([2.0, -0.5, 3.0, 1.0])), float(rng.choice([0.0, 1.5, -4.0]))
            ck.count(("scale", shape, fwhm, rep, sc, lo), bucket="oracle/scale-location")
            try:
                f2, _ = mk(aff4(A3, (1, -2, 3)), shape, fwhm, scale=sc, location=lo)
                s2 = smooth(f2, c.cm, x).get_fdata()
                if s2.shape != sx.shape or not np.allclose(s2, sc * sx + lo, rtol=0, atol=1e-9):
                    ck.fail("scale/raises-or-wrong-window", "LinearFilter(scale=%r, location=%r).smooth != scale*smooth + location (shape %s vs %s)"
                            % (sc, lo, s2.shape, sx.shape), replay_of(c, x=x.tolist(), scale=sc, location=lo))
            except Exception as e:  # noqa
                ck.fail("scale/raises-or-wrong-window", "LinearFilter(scale=%r, location=%r).smooth raised %s: %s" % (sc, lo, type(e).__name__, e),
                        replay_of(c, x=x.tolist(), scale=sc, location=lo))
        image_dtypes(ck, rng, c, shape, IMAGE_DTYPES)
        kernel_call_purity(ck, rng, c.f, A3, fwhm, "scalar fwhm %r, shape %s" % (fwhm, shape))
        # every falsy-but-legal value of scale / location (constructor and attribute), clean, is_fft on each configuration
        x = rng.integers(-8, 9, shape).astype(float)
        sx = smooth(c.f, c.cm, x).get_fdata()
        kc = kernel_class(c)
        for sc in [0, 0.0, -0.0, False, np.float64(0.0), np.int64(0), 1, True, 2.0]:
            for lo in [0, 0.0, False, np.float64(0.0), 1.5]:
                ck.count(("falsy", shape, fwhm, repr(sc), repr(lo)), bucket="options/falsy-values")
                want = float(sc) * sx + float(lo)
                rep_ = replay_of(c, x=x.tolist(), scale=repr(sc), location=repr(lo))
                for how in ("constructor", "attributes"):
                    try:
                        if how == "constructor":
                            f2, _ = mk(aff4(A3, (1, -2, 3)), shape, fwhm, scale=sc, location=lo)
                            stored_options(ck, f2, {"scale": sc, "location": lo, "fwhm": fwhm, "cov": None}, rep_)
                        else:
                            f2, _ = mk(aff4(A3, (1, -2, 3)), shape, fwhm)
                            f2.scale, f2.location = sc, lo
                        s2 = smooth(f2, c.cm, x).get_fdata()
                    except Exception as e:  # noqa
                        ck.fail("scale/raises-or-wrong-window", "scale=%r, location=%r (%s) raised %s: %s" % (sc, lo, how, type(e).__name__, e), dict(rep_, how=how))
                        continue
                    if s2.shape != want.shape or not np.allclose(s2, want, rtol=0, atol=1e-9):
                        ck.fail(scale_sig(sc, lo, kc) if s2.shape == want.shape else "scale/raises-or-wrong-window",
                                "scale=%r, location=%r given to the %s: output != scale * smooth(x) + location (max|diff| %s)"
                                % (sc, lo, how, float(np.abs(s2 - want).max()) if s2.shape == want.shape else "shape %s" % (s2.shape,)), dict(rep_, how=how))
        for cl in (False, 0, None):
            for ff in (False, 0):
                ck.count(("falsy-flags", shape, fwhm, repr(cl), repr(ff)), bucket="options/falsy-values")
                try:
                    got = c.f.smooth(_img(x, c.cm), clean=cl, is_fft=ff).get_fdata()
                    if not np.allclose(got, sx, rtol=0, atol=1e-9):
                        ck.fail("options/falsy-flag-changes-result", "smooth(clean=%r, is_fft=%r) differs from smooth()" % (cl, ff), replay_of(c, x=x.tolist(), clean=repr(cl), is_fft=repr(ff)))
                except Exception as e:  # noqa
                    ck.fail("options/falsy-flag-raises", "smooth(clean=%r, is_fft=%r) raised %s: %s" % (cl, ff, type(e).__name__, e), replay_of(c, x=x.tolist()))
        # an all-zero image gives location everywhere
        z = smooth(c.f, c.cm, np.zeros(shape)).get_fdata()
        if not np.allclose(z, 0.0, rtol=0, atol=1e-12):
            ck.fail("linear/zero-image", "smooth of the zero image is not zero", replay_of(c))
        # normalisation options: 'l1' (= l1sum for a positive kernel) and 'l2'
        for nm, den in (("l1", float(np.abs(c.K).sum())), ("l2", float(np.sqrt((c.K ** 2).sum())))):
            ck.count(("norm", shape, fwhm, nm), bucket="oracle/normalisation")
            f3, _ = mk(aff4(A3, (1, -2, 3)), shape, fwhm)
            f3.normalization = nm
            x = rng.integers(-8, 9, shape).astype(float)
            s3 = smooth(f3, c.cm, x).get_fdata()
            if not np.allclose(s3 * den, smooth(c.f, c.cm, x).get_fdata() * c.S, rtol=0, atol=1e-8):
                ck.fail("normalisation/%s" % nm, "normalization=%r: output is not the l1sum-normalised output times l1sum/%s-norm" % (nm, nm),
                        replay_of(c, x=x.tolist(), normalization=nm))
        # shift equivariance in the interior: data supported where the shifted kernel stays inside
        ext, Gfull, R = ideal_support_extent(A3, fwhm, max(shape))
        room = [shape[i] - 2 * int(ext[i]) - 2 for i in range(3)]
        if all(r >= 1 for r in room):
            for rep in range(reps):
                ck.count(("shift", shape, fwhm, rep), bucket="oracle/shift-equivariance")
                x = np.zeros(shape)
                lo = [int(ext[i]) + 1 for i in range(3)]
                blk = tuple(slice(lo[i], lo[i] + room[i]) for i in range(3))
                x[blk] = rng.integers(-8, 9, [room[i] for i in range(3)])
                d = [int(rng.integers(-1, 2)) for _ in range(3)]
                xs = np.roll(x, d, axis=(0, 1, 2))
                s0 = smooth(c.f, c.cm, x).get_fdata()
                s1 = smooth(c.f, c.cm, xs).get_fdata()
                if not np.allclose(np.roll(s0, d, axis=(0, 1, 2)), s1, rtol=0, atol=1e-9):
                    ck.fail("shift/interior-equivariance", "smooth(shift x) != shift smooth(x) for interior data: shape %s shift %s" % (shape, d),
                            replay_of(c, x=x.tolist(), shift=d))
                if abs(float(s0.sum()) - float(x.sum())) > 1e-8:
                    ck.fail("mass/interior", "total intensity %r -> %r for interior data" % (float(x.sum()), float(s0.sum())), replay_of(c, x=x.tolist()))
        # constants stay constant where the whole (ideal) kernel fits
        ck.count(("const", shape, fwhm), bucket="oracle/constant")
        a = 3.25
        s = smooth(c.f, c.cm, np.full(shape, a)).get_fdata()
        inner = tuple(slice(int(ext[i]) + 1, shape[i] - int(ext[i]) - 1) for i in range(3))
        if s[inner].size and not np.allclose(s[inner], a, rtol=0, atol=1e-10):
            ck.fail("constant/interior", "constant image %r is not preserved in the interior: shape %s fwhm %s, got %r"
                    % (a, shape, fwhm, float(s[inner].ravel()[0])), replay_of(c))
    # oblique affine + even axis: the crop can be asymmetric by more than one voxel (same root cause as the even-grid shift)
    for shape, A3, fwhm in [((21, 2, 1), np.array([[1, 5, 0], [0, 1, 0], [0, 0, 1]], float), 1.5),
                            ((21, 3, 1), np.array([[1, 5, 0], [0, 1, 0], [0, 0, 1]], float), 1.5)]:
        c = observe(ck, A3, (0, 0, 0), shape, fwhm)
        ck.count(("shear", shape), bucket="oracle/oblique-large-grid")
        x = np.zeros(shape)
        x[tuple(n // 2 for n in shape)] = 1
        r = check_values(ck, c, x, "centre impulse, shear affine")
        if r is not None:
            check_centred(ck, c, x, r[0], r[1], "centre impulse, shear affine")
        ck.sample({"shape": list(shape), "affine3x3": A3.tolist(), "fwhm": fwhm, "impl [k, c_k, L, w0, w1, offset] per axis": c.impl})
    # anisotropic voxels: FWHM measured in world units per axis
    for steps in [(1.0, 0.5, 0.25), (0.5, -1.0, 2.0), (0.25, 0.25, 0.125)]:
        fwhm = 4.0
        shape = tuple(int(2 * math.ceil(1.5 * fwhm / abs(s)) + 1) for s in steps)
        ck.count(("aniso", steps), bucket="oracle/anisotropy")
        f, cm = mk(aff4(np.diag(steps)), shape, fwhm)
        x = np.zeros(shape)
        p0 = tuple(n // 2 for n in shape)
        x[p0] = 1
        out = smooth(f, cm, x).get_fdata()
        for i in range(3):
            h = int(round(fwhm / 2 / abs(steps[i])))          # voxels to world distance fwhm/2
            q = list(p0)
            q[i] += h
            q2 = list(p0)
            q2[i] -= h
            r1, r2 = out[tuple(q)] / out[p0], out[tuple(q2)] / out[p0]
            if abs(r1 - 0.5) > 1e-9 or abs(r2 - 0.5) > 1e-9:
                ck.fail("kernel/fwhm-not-in-world-units", "axis %d (voxel size %s): response at world distance fwhm/2 is %.6f / %.6f of the peak, not 0.5"
                        % (i, steps[i], r1, r2), {"steps": list(steps), "shape": list(shape), "fwhm": fwhm})
    # the fwhm == 1.0 guard of _normsq, probed directly
    f, cm = mk(aff4(np.diag([0.25, 0.25, 0.25])), (21, 21, 21), 1.0)
    K = np.asarray(f._kernel)
    cc = np.unravel_index(int(K.argmax()), K.shape)
    ck.count(("fwhm1",), bucket="oracle/fwhm-exactly-1")
    v = K[cc[0] + 2, cc[1], cc[2]] if K.shape[0] > cc[0] + 2 else 0.0
    if abs(v - 0.5) > 1e-9:
        ck.fail(SIG_ONE if abs(v - math.exp(-0.125)) < 1e-9 else "kernel/fwhm-not-in-world-units", "fwhm=1.0: kernel value at world distance 0.5 is %.6f, not 0.5 (kernel has sigma 1)" % v,
                {"affine": aff4(np.diag([0.25] * 3)).tolist(), "shape": [21, 21, 21], "fwhm": 1.0})
    # conversions
    for v in [0.1, 1.0, 2.0, 6.0, 123.456]:
        ck.count(("conv", v), bucket="oracle/conversions")
        if abs(float(sigma2fwhm(fwhm2sigma(v))) - v) > 1e-12 * v or abs(float(fwhm2sigma(sigma2fwhm(v))) - v) > 1e-12 * v:
            ck.fail("conversion/sigma-fwhm-not-inverse", "sigma2fwhm(fwhm2sigma(%r)) = %r" % (v, float(sigma2fwhm(fwhm2sigma(v)))), {"x": v})
        if abs(float(fwhm2sigma(v)) * SQRT8LN2 - v) > 1e-12 * v:
            ck.fail("conversion/fwhm2sigma-factor", "fwhm2sigma(%r) = %r, expected x / sqrt(8 ln 2)" % (v, float(fwhm2sigma(v))), {"x": v})
    arr = np.array([6.0, 7.0, 8.0])
    if not np.allclose(sigma2fwhm(fwhm2sigma(arr)), arr, rtol=1e-14):
        ck.fail("conversion/sigma-fwhm-not-inverse", "array round trip differs", {"x": arr.tolist()})
    try:
        from nipy.algorithms.fwhm import Resels
        from nipy.core.api import AffineTransform
        for z in (1.0, 2.0, 0.5):
            R = Resels(AffineTransform.from_params('ijk', 'xyz', np.diag([z, z, z, 1.0])))
            for v in (5.0, 2.0):
                ck.count(("resel", z, v), bucket="oracle/resel-fwhm")
                back = float(np.asarray(R.resel2fwhm(R.fwhm2resel(np.array([v]))))[0])
                if abs(back - v) > 1e-9 * v:
                    ck.fail(SIG_RESEL if z != 1.0 else "resel-fwhm/unit-voxel-not-inverse",
                            "Resels(voxel size %r): resel2fwhm(fwhm2resel(%r)) = %r" % (z, v, back), {"voxel_size": z, "fwhm": v})
    except ImportError as e:  # noqa
        ck.note("nipy.algorithms.fwhm not importable: %s" % e)
    ck.section("oracles", configs=len(cfgs), reps=reps)


def run(ck):
    ck.cov["rule"] = ("geometry/values: shape (1..9)^3 (all cubes, fixed even/odd mixes, random) x affine (diagonal incl. anisotropic/flipped, "
                      "shear/permutation/rotation oblique; dyadic entries, random integer translation) x fwhm from 0.5 voxel to 3x the field of "
                      "view; distinct by (shape, affine, fwhm); impulses: every voxel of small grids; all non-trivial (a smooth is run for each)")
    ck.coq_build()
    ck.overlay()
    import nipy.algorithms.kernel_smooth  # noqa
    import nipy.algorithms.fwhm  # noqa
    import nipy.core.api  # noqa
    import scipy.signal  # noqa
    conv_full(np.ones((2, 2, 2)), np.ones((2, 2, 2)))
    gc.collect()
    gc.freeze()     # smooth() calls gc.collect() three times per call; freezing the heap makes those calls cheap (no effect on results)
    ck.trust.append("oracle contracts (Section hypotheses): E u = exp(-u) respects ==, exceeds the crop tolerance 1e-10 on [0,15] and is < E 0 for u > 0; "
                    "np.fft.rfftn/irfftn compute the circular convolution on the padded buffer (checked numerically at 1e-10 against direct convolution); "
                    "sigma = fwhm2sigma(fwhm) is read from the implementation as an exact rational and threaded into the model; "
                    "np.power(., 1/D) is a D-th root (resel conversions)")
    ck.assume.append("cov=None (no whitening); scalar fwhm; 3-D images (4-D raises NotImplementedError in the code)")
    import time
    tm = {"coq_build+overlay": round(time.time() - ck.t0, 1)}
    try:
        for fn in (conversion_purity, kernel_call_layouts, resels, per_axis_width, impulses, oracles, geometry_and_values):      # smallest inputs first
            t0 = time.time()
            fn(ck)
            tm[fn.__name__] = round(time.time() - t0, 1)
    finally:
        gc.unfreeze()
        ck.section("timing_s", **tm)
