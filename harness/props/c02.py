"""C02 - image manipulations keep every value at its world position.

(1) Coq build (NV.C02 on top of NV.C01 and Lib/NdIndex).
(2) Correspondence: random programs (length 1..5) of Image operations
    (__getitem__, reordered_axes/reference, renamed_axes/reference, rollimg,
    rollaxis, iter_axis, synchronized_order, as_xyz_image) are executed on
    nipy Images and on the Coq model (NV.C02.Model.run_trace, vm_compute); shape,
    data, affine, coordinate names, system names, dtype tag or the error kind
    of every step are compared exactly.  Python's slice.indices and nipy's
    input_axis_index are compared with their models on exhaustive small domains.
(3) Property oracle on the implementation only: every (named world point,
    value) of a result occurs in the original image (values are distinct, so a
    duplicated or invented value is visible), the shape matches the coordmap's
    input dimension, and the operand is bit-for-bit unchanged.
"""
import itertools
import warnings

import numpy as np
from fractions import Fraction

from ..kit import cz, czl, cnat, cnatl, cstr, cbool, clist

HDR = ("From Coq Require Import String.\nFrom Coq Require Import List ZArith.\n"
       "From NV.Lib Require Import RingMat NdIndex Harness.\nFrom NV.C01 Require Import Model Exec.\n"
       "From NV.C02 Require Import Model.\nOpen Scope string_scope.\n")

DT = {np.dtype(np.int64): 0, np.dtype(np.float64): 1, np.dtype(object): 2}
IN_POOL = ["i", "j", "k", "l", "slice", "freq"]
OUT_POOL = ["x", "y", "z", "t", "u", "v", "w"]
NAME2XYZ = {"x": "x", "y": "y", "z": "z"}


# ---------------------------------------------------------------- Coq literals
def cstrl(xs):
    return clist([cstr(str(x)) for x in xs])


def ccs(cs):
    return "{| cnames := %s; cname := %s; cdt := %d |}" % (cstrl(cs.coord_names), cstr(cs.name), DT[np.dtype(cs.coord_dtype)])


# Value magnitudes.  Affines are integer matrices whose rows / columns / offsets are multiplied by powers of two
# (micrometre voxels in a metre world, huge offsets, tiny obliquity terms, mixed units): every float operation of
# the implementation stays exact, and multiplying all world coordinates by 2**SCALE["k"] gives integers.  Every model
# operation commutes with this uniform scaling of the reference coordinates (the bottom row is not scaled), so the Z
# model is evaluated on the scaled image.  SCALE["k"] is set when an original image is generated and is valid for
# everything derived from it (entries of derived affines are integer combinations of the original's).
SCALE = {"k": 0}
MAG_COUNTS = {}   # magnitude label -> number of original images / maps generated with it
MAG_OF = {}      # id(original image) -> magnitude label (for buckets / replays)
MAG_EXPS_TINY = [-17, -20, -22]
MAG_EXPS_HUGE = [10, 18]


def _scaled_int(v):
    """exact value of float v times 2**SCALE['k'] as an int, or None"""
    f = Fraction(*float(v).as_integer_ratio()) * (1 << SCALE["k"])
    return int(f) if f.denominator == 1 else None


def set_scale(A):
    """smallest k >= 0 such that every entry of the top rows of A times 2**k is an integer"""
    k = 0
    for v in np.asarray(A, dtype=float)[:-1].ravel():
        d = Fraction(*float(v).as_integer_ratio()).denominator
        k = max(k, d.bit_length() - 1)
    assert k <= 60, k
    SCALE["k"] = k
    return k


def apply_magnitudes(rng, A, p=0.4):
    """A: integer homogeneous matrix -> (float matrix with mixed value magnitudes, label); sets SCALE"""
    A = np.array(A, dtype=np.float64)
    nout, nin = A.shape[0] - 1, A.shape[1] - 1
    kind = "unit"
    if nin >= 1 and rng.random() < p:
        tiny = lambda: 2.0 ** int(rng.choice(MAG_EXPS_TINY))
        huge = lambda: 2.0 ** int(rng.choice(MAG_EXPS_HUGE))
        kind = str(rng.choice(["tiny-steps", "tiny-steps", "tiny-all", "huge-steps", "tiny-offsets", "huge-offsets",
                               "mixed-rows", "mixed-cols", "tiny-shear", "tiny-shear"]))
        if kind == "tiny-steps":          # e.g. metres with micrometre voxels, ordinary offsets
            A[:-1, :-1] *= tiny()
        elif kind == "tiny-all":
            A[:-1, :] *= tiny()
        elif kind == "huge-steps":
            A[:-1, :-1] *= huge()
        elif kind == "tiny-offsets":
            A[:-1, -1] *= tiny()
        elif kind == "huge-offsets":
            A[:-1, -1] *= huge()
        elif kind == "mixed-rows":        # a different unit for every reference coordinate
            for r in range(nout):
                A[r, :] *= float(rng.choice([1.0, 1.0, tiny(), huge()]))
        elif kind == "mixed-cols":        # a different voxel size for every axis
            for j in range(nin):
                A[:-1, j] *= float(rng.choice([1.0, 1.0, tiny(), huge()]))
        else:                             # tiny obliquity / shear terms next to ordinary steps
            L = A[:-1, :-1]
            t = tiny()
            done = False
            for j in range(nin):
                col = np.abs(L[:, j])
                for r in range(nout):
                    if col[r] != 0 and col[r] < col.max() or (col[r] != 0 and r != int(np.argmax(col))):
                        L[r, j] *= t
                        done = True
            if not done:
                zr, zc = np.where(L == 0)
                if len(zr):
                    q = int(rng.integers(0, len(zr)))
                    L[zr[q], zc[q]] = float(rng.choice([-3, -1, 1, 2])) * t
    set_scale(A)
    SCALE["mag"] = kind
    MAG_COUNTS[kind] = MAG_COUNTS.get(kind, 0) + 1
    return A, kind


def tinyz():
    """nipy's absolute zero tolerance TINY (orth_axes) at the current scale: floor(TINY * 2**k), exactly"""
    import nipy.core.reference.coordinate_map as cmod
    return int(Fraction(*float(cmod.TINY).as_integer_ratio()) * (1 << SCALE["k"]))


def mag_suffix():
    """structural feature of the current original image's value magnitudes, for failure signatures"""
    m = SCALE.get("mag", "unit")
    return "" if m == "unit" else "/magnitudes:" + m


def cmat(M):
    M = np.asarray(M)
    rows = []
    for r, row in enumerate(M):
        if r == len(M) - 1:
            rows.append(czl([int(v) for v in row]))
        else:
            vals = [_scaled_int(v) for v in row]
            if any(v is None for v in vals):
                raise ValueError("affine entry is not an integer multiple of 2**-%d: %r" % (SCALE["k"], list(row)))
            rows.append(czl(vals))
    return clist(rows)


def caff(a):
    return "(Build_aff %s %s %s)" % (ccs(a.function_domain), ccs(a.function_range), cmat(a.affine))


def is_int_array(M):
    """every entry exactly representable at the current scale (top rows times 2**k integral, bottom row integral)"""
    M = np.asarray(M, dtype=float)
    if not np.all(np.isfinite(M)) or not np.all(M[-1] == np.round(M[-1])):
        return False
    return all(_scaled_int(v) is not None for v in M[:-1].ravel())


def cimg(img):
    d = np.asarray(img.get_fdata())
    return "{| ishape := %s; idata := %s; icmap := %s |}" % (cnatl(d.shape), czl([int(v) for v in d.ravel()]), caff(img.coordmap))


def rimg(img):
    """plain-JSON description of an image for replay files (plus the Coq literal)"""
    cm = img.coordmap
    return {"shape": list(np.asarray(img.get_fdata()).shape), "data": np.asarray(img.get_fdata()).ravel().tolist(),
            "axes": list(cm.function_domain.coord_names), "reference": list(cm.function_range.coord_names),
            "affine": np.asarray(cm.affine).tolist(), "coq": cimg(img)}


def copt(x, f):
    return "None" if x is None else "(Some %s)" % f(x)


def cslicer(s):
    if s is Ellipsis:
        return "SEllipsis"
    if s is None:
        return "SNone"
    if isinstance(s, slice):
        return "(SSlice {| sl_start := %s; sl_stop := %s; sl_step := %s |})" % (copt(s.start, cz), copt(s.stop, cz), copt(s.step, cz))
    return "(SInt %s)" % cz(s)


def caxid(a):
    return "(AInt %s)" % cz(a) if isinstance(a, int) else "(AName %s)" % cstr(a)


def cornts(o):
    return clist([copt(v, cnat) for v in o])


def corder(o):
    if o is None:
        return "ONone"
    if len(o) and isinstance(o[0], str):
        return "(ONames %s)" % cstrl(o)
    return "(OInts %s)" % cnatl(o)


def cnn(d):
    return clist(["(%s, %s)" % (cstr(k), cstr(v)) for k, v in d.items()])


# ---------------------------------------------------------------- errors
def errkind(e, kind):
    from nipy.core.reference.coordinate_map import AxisError
    from nipy.core.reference.coordinate_system import CoordinateSystemError
    from nipy.core.reference.spaces import SpaceError
    if isinstance(e, AxisError):
        return "IAxis"
    if isinstance(e, SpaceError):
        return "ISpace"
    if isinstance(e, CoordinateSystemError):
        return "ICoordSys"
    if isinstance(e, IndexError):
        return "IIndex" if kind in ("getitem", "iter_axis") else "IValue"
    if isinstance(e, ValueError):
        return "IValue"
    return None


# ---------------------------------------------------------------- generators
def rand_linear(rng, nout, nin):
    """integer linear part: permutation/flip/shear/zero column/general; more outputs than inputs allowed"""
    M = np.zeros((nout, nin), dtype=np.int64)
    style = rng.integers(0, 5)
    rows = rng.permutation(nout)[:nin] if nout >= nin else rng.permutation(nout)
    if style <= 2:
        for j, r in enumerate(rows):
            M[r, j] = int(rng.choice([-3, -2, -1, 1, 2, 3]))
        if style == 1 and nin > 1:      # shear
            a, b = rng.permutation(nin)[:2]
            M[:, a] += int(rng.choice([-2, -1, 1, 2])) * M[:, b]
        if style == 2:                  # zero column (zero TR)
            M[:, int(rng.integers(0, nin))] = 0
    elif style == 3:
        M = rng.integers(-3, 4, (nout, nin))
    else:
        for j, r in enumerate(rows):
            M[r, j] = 1
    return M


def rand_image(rng, ndim=None, maxext=4, xyz=False, int_ok=True):
    from nipy.core.api import Image, AffineTransform, CoordinateSystem as CS
    if ndim is None:
        ndim = int(rng.choice([1, 2, 2, 3, 3, 3, 4]))
    shape = tuple(int(v) for v in rng.integers(1, maxext + 1, ndim))
    N = int(np.prod(shape))
    data = (rng.permutation(N) + int(rng.integers(-5, 50))).astype(np.float64).reshape(shape)
    nout = ndim + (int(rng.integers(1, 3)) if rng.random() < 0.3 else 0)
    inn = [str(v) for v in rng.permutation(IN_POOL)][:ndim]
    if xyz and nout >= 3:
        outn = [str(v) for v in rng.permutation(["x", "y", "z"] + ["t", "u", "v"][:nout - 3])]
    else:
        outn = [str(v) for v in rng.permutation(OUT_POOL)][:nout]
        if rng.random() < 0.15:          # a name used for an input and an output axis
            outn[int(rng.integers(0, nout))] = inn[int(rng.integers(0, ndim))]
    A = np.zeros((nout + 1, ndim + 1), dtype=np.int64)
    A[:-1, :-1] = rand_linear(rng, nout, ndim)
    A[:-1, -1] = rng.integers(-4, 5, nout)
    A[-1, -1] = 1
    dt = np.int64 if (rng.random() < 0.1 and int_ok) else np.float64
    if dt is np.float64:
        A, mag = apply_magnitudes(rng, A)
    else:
        set_scale(A)
        SCALE["mag"] = mag = "unit"
    cm = AffineTransform(CS(inn, str(rng.choice(["", "voxels", "in"])), dt),
                         CS(outn, str(rng.choice(["", "world", "mni"])), dt), A.astype(dt))
    img = Image(data, cm)
    MAG_OF[id(img)] = mag
    return img


def slicer_choices(n, wide=True):
    """all raw per-axis slicers for extent n: ints -n..n-1, slices over start/stop in None|-n-2..n+2, step None|+-1..+-(n+1)"""
    out = list(range(-n, n))
    rng_ = [None] + list(range(-n - 2, n + 3))
    steps = [None] + [s for s in range(-(n + 1), n + 2) if s != 0]
    for a in rng_:
        for b in rng_:
            for c in steps:
                out.append(slice(a, b, c))
    return out


def rand_slicer(rng, n):
    r = rng.random()
    if r < 0.3:
        return int(rng.integers(-n, n))
    vals = [None] + list(range(-n - 2, n + 3))
    steps = [None, None, 1, -1] + [s for s in range(-(n + 1), n + 2) if s != 0]
    return slice(vals[int(rng.integers(0, len(vals)))], vals[int(rng.integers(0, len(vals)))],
                 steps[int(rng.integers(0, len(steps)))])


def rand_nonempty_slicer(rng, n):
    for _ in range(20):
        s = rand_slicer(rng, n)
        if isinstance(s, int) or len(range(n)[s]) > 0:
            return s
    return slice(None)


def rand_slice_tuple(rng, shape, bad):
    nd = len(shape)
    k = int(rng.integers(0, nd + 1))
    use_ell = rng.random() < 0.35
    if use_ell:
        pos = int(rng.integers(0, k + 1))
        axes_before = list(range(pos))
        axes_after = list(range(nd - (k - pos), nd))
        sl = [rand_nonempty_slicer(rng, shape[a]) for a in axes_before] + [Ellipsis] + \
             [rand_nonempty_slicer(rng, shape[a]) for a in axes_after]
    else:
        sl = [rand_nonempty_slicer(rng, shape[a]) for a in range(k)]
    if bad:      # exactly one defect
        c = int(rng.integers(0, 6))
        real = [i for i, s in enumerate(sl) if s is not Ellipsis]
        if c == 0 and real:
            i = real[int(rng.integers(0, len(real)))]
            ax = i if (Ellipsis not in sl or i < sl.index(Ellipsis)) else nd - (len(sl) - i)
            sl[i] = int(shape[ax] + rng.integers(0, 2)) if rng.random() < 0.5 else int(-shape[ax] - 1)
        elif c == 1 and real:
            i = real[int(rng.integers(0, len(real)))]
            sl[i] = slice(None, None, 0)
        elif c == 2:
            sl = sl + [Ellipsis] if Ellipsis in sl else sl + [Ellipsis, Ellipsis]
        elif c == 3:
            sl.insert(int(rng.integers(0, len(sl) + 1)), None)
        elif c == 4:
            sl = [s for s in sl if s is not Ellipsis]
            sl = sl + [0] * (nd + 1 - len(sl))
        elif real:     # empty slice
            i = real[int(rng.integers(0, len(real)))]
            sl[i] = slice(1, 1) if rng.random() < 0.5 else slice(0, 5, -1)
    if len(sl) == 1 and rng.random() < 0.5:
        return sl[0], sl            # bare (non-tuple) index
    return tuple(sl), sl


def rand_renaming(rng, names, bad=False):
    """renaming dict (keyword order = insertion order) and its structural feature: fresh names, or new names that are
    OLD names of other axes (swap, 3-cycle, chain), both keyword orders; bad: unknown key / collision"""
    n = len(names)
    perm = [names[int(i)] for i in rng.permutation(n)]
    fresh = [nm for nm in ["aa", "bb", "cc", "dd", "ee"] if nm not in names]
    modes = ["fresh", "fresh"]
    if n >= 2:
        modes += ["swap", "swap", "chain", "chain", "mixed"]
    if n >= 3:
        modes += ["cycle3", "cycle3"]
    mode = str(modes[int(rng.integers(0, len(modes)))])
    if mode == "fresh":
        k = int(rng.integers(1, n + 1))
        pairs = list(zip(perm[:k], fresh))
    elif mode == "swap":
        pairs = [(perm[0], perm[1]), (perm[1], perm[0])]
    elif mode == "cycle3":
        pairs = [(perm[0], perm[1]), (perm[1], perm[2]), (perm[2], perm[0])]
    elif mode == "chain":       # a takes over the name b, b gets a fresh name
        pairs = [(perm[0], perm[1]), (perm[1], fresh[0])]
        if n >= 3 and rng.random() < 0.5:
            pairs = [(perm[0], perm[1]), (perm[1], perm[2]), (perm[2], fresh[0])]
    else:                        # swap plus a fresh name
        pairs = [(perm[0], perm[1]), (perm[1], perm[0])] + ([(perm[2], fresh[0])] if n >= 3 else [])
    if bad:
        if rng.random() < 0.5:
            pairs.append(("nosuch", "zz"))
            mode += "+unknown-key"
        elif n >= 2:
            pairs = [(perm[0], perm[1])]      # collision: two axes would be called perm[1]
            mode = "collision"
    if rng.random() < 0.5:
        pairs = pairs[::-1]
        mode += ",reversed-keywords"
    return dict(pairs), mode


class Spy:
    """records the outputs of nibabel.io_orientation as called by nipy (oracle values for the model)"""

    def __init__(self):
        import nipy.core.reference.coordinate_map as cmod
        import nipy.core.image.image_spaces as ispc
        self.mods = [cmod, ispc]
        self.orig = [m.io_orientation for m in self.mods]
        self.calls = []

    def __enter__(self):
        def mk(f):
            def w(aff, *a, **k):
                r = f(aff, *a, **k)
                self.calls.append([None if np.isnan(v) else int(v) for v in np.array(r)[:, 0]])
                return r
            return w
        for m, f in zip(self.mods, self.orig):
            m.io_orientation = mk(f)
        return self

    def __exit__(self, *a):
        for m, f in zip(self.mods, self.orig):
            m.io_orientation = f


def axis_ids(rng, img, allow_bad=True):
    nd = img.ndim
    c = rng.random()
    if c < 0.4:
        return int(rng.integers(-nd - (1 if allow_bad else 0), nd + (1 if allow_bad else 0)))
    if c < 0.65:
        return str(img.axes.coord_names[int(rng.integers(0, nd))])
    if c < 0.95 or not allow_bad:
        names = img.reference.coord_names
        return str(names[int(rng.integers(0, len(names)))])
    return "nosuch"


def gen_op(rng, img, spy):
    """-> dict(kind, cop (callable: oracle list -> Coq op), call, rho) or None"""
    from nipy.core.api import Image, AffineTransform, CoordinateSystem as CS
    from nipy.core.image import image as imod
    from nipy.core.image.image_spaces import as_xyz_image
    nd = img.ndim
    nout = img.coordmap.ndims[1]
    kinds = ["getitem"] * 6 + ["reorder_axes"] * 3 + ["reorder_ref"] * 2 + ["rename_axes", "rename_ref"] + \
            ["rollimg"] * 3 + ["rollaxis", "iter_axis", "sync", "as_xyz"]
    kind = str(kinds[int(rng.integers(0, len(kinds)))])
    bad = rng.random() < 0.15
    if kind == "getitem":
        obj, sl = rand_slice_tuple(rng, img.shape, bad)
        feats = sorted({"int" if isinstance(s, int) else "ellipsis" if s is Ellipsis else "none" if s is None else
                        ("step<0" if (s.step or 1) < 0 else "step>1" if (s.step or 1) > 1 else "step=1") for s in sl})
        return dict(kind=kind, cop=lambda o: "OGetitem %s" % clist([cslicer(s) for s in sl]),
                    call=lambda: img[obj], feat="+".join(feats) or "empty-tuple", descr="img[%r]" % (obj,))
    if kind in ("reorder_axes", "reorder_ref"):
        ax = kind == "reorder_axes"
        n = nd if ax else nout
        names = list(img.axes.coord_names if ax else img.reference.coord_names)
        order = [int(v) for v in rng.permutation(n)]
        if bad:
            c = int(rng.integers(0, 3))
            if c == 0 and n > 1:
                order[0] = order[1]
            elif c == 1:
                order = order + [n]
            elif n > 1:
                order = order[:-1]
        mode = rng.random()
        if mode < 0.15:
            arg = None
        elif mode < 0.5:
            arg = [names[i] if i < len(names) else "qq" for i in order]
        else:
            arg = order
        f = (lambda: img.reordered_axes(arg)) if ax else (lambda: img.reordered_reference(arg))
        return dict(kind=kind, cop=lambda o: "%s %s" % ("OReorderAxes" if ax else "OReorderRef", corder(arg)), call=f,
                    feat="none" if arg is None else "names" if isinstance(arg[0], str) else "ints", descr="%s(%r)" % (kind, arg))
    if kind in ("rename_axes", "rename_ref"):
        ax = kind == "rename_axes"
        names = [str(n) for n in (img.axes.coord_names if ax else img.reference.coord_names)]
        d, feat = rand_renaming(rng, names, bad)
        f = (lambda: img.renamed_axes(**d)) if ax else (lambda: img.renamed_reference(**d))
        return dict(kind=kind, cop=lambda o: "%s %s" % ("ORenameAxes" if ax else "ORenameRef", cnn(d)), call=f,
                    rho=(None if ax else dict(d)), feat=feat, descr="%s(**%r)" % ("renamed_axes" if ax else "renamed_reference", d))
    if kind == "rollimg":
        a = axis_ids(rng, img)
        s = axis_ids(rng, img) if rng.random() < 0.7 else 0
        return dict(kind=kind, cop=lambda o: "ORollimg %s %s %s" % (caxid(a), caxid(s), cornts(o[-1] if o else [])),
                    call=lambda: imod.rollimg(img, a, s), feat="%s,%s" % (type(a).__name__, type(s).__name__),
                    descr="rollimg(img, %r, %r)" % (a, s))
    if kind == "rollaxis":
        a = axis_ids(rng, img)
        inv = bool(rng.random() < 0.3)
        return dict(kind=kind, cop=lambda o: "ORollaxis %s %s" % (caxid(a), cbool(inv)),
                    call=lambda: imod.rollaxis(img, a, inv), feat="%s,inv=%s" % (type(a).__name__, inv),
                    descr="rollaxis(img, %r, %r)" % (a, inv))
    if kind == "iter_axis":
        a = axis_ids(rng, img)
        return dict(kind=kind, iter=True, axis=a, call=lambda: list(imod.iter_axis(img, a)),
                    cop=lambda o, k=0: "OIterAxis %s %s %s" % (caxid(a), cornts(o[-1] if o else []), cnat(k)),
                    feat=type(a).__name__, descr="list(iter_axis(img, %r))" % (a,))
    if kind == "sync":
        tax = [str(v) for v in rng.permutation(list(img.axes.coord_names))]
        trf = [str(v) for v in rng.permutation(list(img.reference.coord_names))]
        if bad:
            tax[0] = "nosuch"
        fa, fr = bool(rng.random() < 0.8), bool(rng.random() < 0.8)
        A = np.zeros((len(trf) + 1, len(tax) + 1))
        A[-1, -1] = 1
        tgt = Image(np.zeros((1,) * len(tax)), AffineTransform(CS(tax), CS(trf), A))
        return dict(kind=kind, cop=lambda o: "OSync %s %s %s %s" % (cstrl(tax), cstrl(trf), cbool(fa), cbool(fr)),
                    call=lambda: imod.synchronized_order(img, tgt, fa, fr), feat="axes=%s,ref=%s" % (fa, fr),
                    descr="synchronized_order(img, target(axes=%r, reference=%r), %r, %r)" % (tax, trf, fa, fr))
    if kind == "as_xyz":
        from nipy.core.reference import spaces as rsp
        try:
            rsp.xyz_affine(img.coordmap, NAME2XYZ)
            affable = True
        except (rsp.AxesError, rsp.AffineError):
            affable = False
        try:
            order = [int(v) for v in rsp.xyz_order(img.coordmap.function_range, NAME2XYZ)]
        except rsp.AxesError:
            order = None
        st = {}

        def call():
            try:
                r = as_xyz_image(img, NAME2XYZ)
                st["affable2"] = True
                return r
            except rsp.SpaceError as e:
                st["affable2"] = not str(e).startswith("Could not reorder")
                raise
        return dict(kind=kind, call=call, feat="affable=%s" % affable,
                    cop=lambda o: "OAsXyz %s %s %s %s" % (cbool(affable), copt(order, cnatl), cornts(o[-1] if (o and not affable) else []),
                                                         cbool(st.get("affable2", True))),
                    descr="as_xyz_image(img, {'x':'x','y':'y','z':'z'})")
    return None


# ---------------------------------------------------------------- property oracle (implementation only)
def snapshot(img):
    cm = img.coordmap
    return (np.asarray(img.get_fdata()).tobytes(), np.asarray(img.get_fdata()).shape, np.asarray(cm.affine).tobytes(),
            tuple(cm.function_domain.coord_names), tuple(cm.function_range.coord_names),
            cm.function_domain.name, cm.function_range.name)


def world_table(img, rho=None):
    """value -> frozenset of (world name, coordinate) for every voxel"""
    d = np.asarray(img.get_fdata())
    cm = img.coordmap
    names = [str(n) for n in cm.function_range.coord_names]
    if rho:
        names = [rho.get(n, n) for n in names]
    idx = np.indices(d.shape).reshape(d.ndim, -1).T if d.ndim else np.zeros((1, 0))
    if np.dtype(cm.function_domain.coord_dtype).kind == "i":
        idx = idx.astype(np.int64)
    w = cm(idx) if d.ndim else None
    tab = []
    vals = d.ravel()
    for r in range(len(vals)):
        tab.append((float(vals[r]), frozenset(zip(names, [float(v) for v in w[r]]))))
    return tab


def check_tracks(res, orig, rho):
    """property statement: None or the failure name"""
    d = np.asarray(res.get_fdata())
    if d.ndim != res.coordmap.ndims[0] or len(res.coordmap.function_domain.coord_names) != d.ndim:
        return "shape-vs-coordmap-input-dimension"
    otab = dict(world_table(orig, rho))
    rtab = world_table(res)
    seen = set()
    for v, w in rtab:
        if v in seen:
            return "value-duplicated"
        seen.add(v)
        if v not in otab:
            return "value-invented"
        if otab[v] != w:
            return "world-position-changed" + mag_suffix()
    return None


def compose_rho(r1, r2):
    """names of original --r1--> --r2--> names of result"""
    if not r2:
        return r1
    out = {}
    keys = set(r1 or {}) | set(r2)
    for k in keys:
        m = (r1 or {}).get(k, k)
        out[k] = r2.get(m, m)
    return out


# ---------------------------------------------------------------- sections
def section_slice_indices(ck):
    """Python's slice semantics (list(range(n))[s]) against NdIndex.slice_select, exhaustive for small n"""
    terms, metas = [], []
    nmax = ck.n(3, 6)
    for n in range(0, nmax + 1):
        vals = [None] + list(range(-n - 2, n + 3))
        steps = [None] + list(range(-(n + 1), n + 2))
        for a in vals:
            for b in vals:
                for c in steps:
                    s = slice(a, b, c)
                    exp = None if c == 0 else list(range(n))[s]
                    if c != 0:
                        st, sp, ss = s.indices(n)
                        assert list(range(st, sp, ss)) == exp
                    terms.append("slice_select_agrees {| sl_start := %s; sl_stop := %s; sl_step := %s |} %s %s" % (
                        copt(a, cz), copt(b, cz), copt(c, cz), cnat(n), copt(exp, czl)))
                    metas.append((n, a, b, c, exp))
                    ck.count(("slice", n, a, b, c), nontrivial=bool(exp), bucket="slice.indices:n=%d" % n)
    if ck.build.ok:
        res = ck.coq_bools(HDR, terms, shard=1500, name="slices")
        ck.cov["traces_validated_against_impl"] += len(res)
        for ok, m in zip(res, metas):
            if not ok:
                ck.fail("model-vs-python/slice.indices", "NdIndex.slice_select disagrees with Python's list(range(n))[slice]",
                        {"n": m[0], "slice": [m[1], m[2], m[3]], "python": m[4]})
                break
    ck.section("slice.indices", cases=len(terms), nmax=nmax)


def section_input_axis_index(ck, rng):
    """input_axis_index for every integer / input name / output name, square and non-square maps"""
    from nipy.core.api import AffineTransform, CoordinateSystem as CS
    from nipy.core.reference.coordinate_map import input_axis_index, AxisError
    terms, metas = [], []
    shapes = [(nin, nout) for nin in range(1, 5) for nout in range(nin, nin + 3)]
    reps = ck.n(2, 8)
    for nin, nout in shapes:
        for rep in range(reps):
            inn = [str(v) for v in rng.permutation(IN_POOL)][:nin]
            outn = [str(v) for v in rng.permutation(OUT_POOL)][:nout]
            if rep % 2 == 1:
                outn[int(rng.integers(0, nout))] = inn[int(rng.integers(0, nin))]
            A = np.zeros((nout + 1, nin + 1))
            A[:-1, :-1] = rand_linear(rng, nout, nin)
            A[:-1, -1] = rng.integers(-3, 4, nout)
            A[-1, -1] = 1
            A, _mag = apply_magnitudes(rng, A)
            cm = AffineTransform(CS(inn), CS(outn), A)
            ids = list(range(-nin, nin + 1)) + inn + [o for o in outn if o not in inn] + ["nosuch"]
            for a in ids:
                with Spy() as spy:
                    try:
                        r = input_axis_index(cm, a)
                    except AxisError:
                        r = None
                ornts = spy.calls[-1] if spy.calls else []
                sq = "square" if nin == nout else "nonsquare"
                if isinstance(a, int):
                    want = a + nin if a < 0 else a
                    if r != want:
                        ck.fail("input_axis_index/%s-%s" % ("negative" if a < 0 else "nonnegative", sq),
                                "input_axis_index(cm, %d) on a %d-in/%d-out map returned %r, expected input axis %d"
                                % (a, nin, nout, r, want),
                                {"in_names": inn, "out_names": outn, "affine": A.tolist(), "axis": a, "returned": r, "expected": want})
                elif r is not None and not (0 <= r < nin):
                    ck.fail("input_axis_index/name-out-of-range", "input_axis_index(cm, %r) returned %r" % (a, r),
                            {"in_names": inn, "out_names": outn, "affine": A.tolist(), "axis": a})
                terms.append("input_axis_agrees %s %s %s %s" % (caff(cm), caxid(a), cornts(ornts), copt(r, cz)))
                metas.append({"in_names": inn, "out_names": outn, "affine": A.tolist(), "axis": a, "returned": r, "ornts": ornts})
                ck.count(("iai", nin, nout, rep, a), nontrivial=True, bucket="input_axis_index:%s" % sq)
    if ck.build.ok:
        res = ck.coq_bools(HDR, terms, shard=400, name="iai")
        ck.cov["traces_validated_against_impl"] += len(res)
        for ok, m in zip(res, metas):
            if not ok:
                ck.fail("model-vs-impl/input_axis_index", "model and implementation disagree on input_axis_index", m)
                break
    ck.section("input_axis_index", cases=len(terms))


def run_step(ck, img, g, spy):
    """execute one generated operation; returns (status, results, coq_ops, expected_strings)"""
    kind = g["kind"]
    before = snapshot(img)
    ncalls = len(spy.calls)
    with warnings.catch_warnings():
        warnings.simplefilter("ignore")
        try:
            r = g["call"]()
            e = None
        except Exception as ex:   # noqa
            r, e = None, ex
    if snapshot(img) != before:
        ck.fail("%s/operand-mutated" % kind, "%s changed its operand image" % g["descr"], {"op": g["descr"], "image": rimg(img)})
    oracle = spy.calls[ncalls:]
    return r, e, oracle


def section_programs(ck, rng):
    from nipy.core.api import Image
    nprog = ck.n(260, 2500)
    terms, metas = [], []
    sterms, smetas = [], []
    with Spy() as spy:
        for p in range(nprog):
            img0 = rand_image(rng, xyz=(rng.random() < 0.3))
            snap0 = snapshot(img0)
            cur = img0
            rho = {}
            ops, expected, descr = [], [], []
            for stepno in range(int(rng.integers(1, 6))):
                g = gen_op(rng, cur, spy)
                if g is None:
                    continue
                kind = g["kind"]
                r, e, oracle = run_step(ck, cur, g, spy)
                if e is not None:
                    k = errkind(e, kind)
                    if k is None:
                        ck.fail("%s/unexpected-exception" % kind, "%s raised %s: %s" % (g["descr"], type(e).__name__, e),
                                {"program": descr + [g["descr"]], "image0": rimg(img0)})
                        break
                    ops.append(g["cop"](oracle))
                    expected.append("IErr %s" % k)
                    descr.append(g["descr"])
                    ck.count((kind, g["descr"], "err"), nontrivial=False, bucket="refused:" + kind)
                    break
                if g.get("iter"):
                    items = r
                    if not items:
                        break
                    # every item of the iteration is compared with the model; the program continues with one of them
                    for k_, it in enumerate(items):
                        if isinstance(it, Image) and is_int_array(it.affine):
                            sterms.append("step_agrees %s (%s) (IOk %s)" % (cimg(cur), g["cop"](oracle, k_), cimg(it)))
                            smetas.append({"image": cimg(cur), "op": g["descr"], "item": k_})
                            msg = check_tracks(it, cur, None)
                            if msg:
                                ck.fail("iter_axis/%s" % msg, "property oracle failed for item %d of %s" % (k_, g["descr"]),
                                        {"operand": rimg(cur), "op": g["descr"], "item": k_, "result": rimg(it)})
                    # the items partition the rolled image: every value exactly once
                    if all(isinstance(it, Image) for it in items):
                        allv = sorted(np.concatenate([np.asarray(it.get_fdata()).ravel() for it in items]).tolist())
                        if allv != sorted(np.asarray(cur.get_fdata()).ravel().tolist()):
                            ck.fail("iter_axis/items-do-not-partition", "the items of %s do not contain every value exactly once" % g["descr"],
                                    {"program": descr + [g["descr"]], "image0": rimg(img0)})
                    kk = int(rng.integers(0, len(items)))
                    r = items[kk]
                    cop = g["cop"](oracle, kk)
                else:
                    cop = g["cop"](oracle)
                if not isinstance(r, Image):
                    # 0-d result: nipy returns the bare array value
                    sterms.append("scalar_agrees %s (%s) %s" % (cimg(cur), cop, cz(int(np.asarray(r)))))
                    smetas.append({"image": cimg(cur), "op": g["descr"], "scalar": float(np.asarray(r))})
                    if float(np.asarray(r)) not in set(np.asarray(img0.get_fdata()).ravel().tolist()):
                        ck.fail("%s/value-invented" % kind, "0-d result of %s is not a value of the original" % g["descr"],
                                {"program": descr + [g["descr"]], "image0": rimg(img0)})
                    ck.count((kind, g["descr"], cimg(cur)), nontrivial=True, bucket="ok:%s:0-d" % kind)
                    break
                if not is_int_array(r.affine):
                    break
                rho = compose_rho(rho, g.get("rho"))
                # blame the step: first against its own operand, then the whole program against the original
                msg = check_tracks(r, cur, g.get("rho"))
                if msg:
                    ck.fail("%s/%s" % (kind, msg), "after %s the (named world point, value) pairs of the result are not a sub-multiset of its operand's [%s]"
                            % (g["descr"], g["feat"]),
                            {"operand": rimg(cur), "op": g["descr"], "result": rimg(r), "feature": g["feat"],
                             "program_so_far": descr, "image0": rimg(img0)})
                    break
                msg = check_tracks(r, img0, rho)
                if msg:
                    ck.fail("program/%s" % msg, "every step of %r preserved (world point, value) pairs but the result does not track the original image"
                            % (descr + [g["descr"]],), {"program": descr + [g["descr"]], "image0": rimg(img0), "result": rimg(r)})
                    break
                ops.append(cop)
                expected.append("IOk %s" % cimg(r))
                descr.append(g["descr"])
                nontriv = snapshot(r)[:3] != snapshot(cur)[:3]
                ck.count((kind, g["descr"], cimg(cur)), nontrivial=nontriv, bucket="ok:%s:%s" % (kind, g["feat"]) if kind != "getitem" else "ok:getitem")
                cur = r
            if snapshot(img0) != snap0:
                ck.fail("program/original-mutated", "the original image changed during a program", {"program": descr, "image0": rimg(img0)})
            if ops:
                terms.append("trace_agrees %s %s %s" % (cimg(img0), clist(["(%s)" % o for o in ops]), clist(["(%s)" % x for x in expected])))
                metas.append({"image0": cimg(img0), "ops": ops, "program": descr, "expected": expected})
                if p < 3:
                    ck.sample({"program": descr, "shape0": list(img0.shape), "result": expected[-1][:160]})
    if ck.build.ok:
        res = ck.coq_bools(HDR, terms, shard=60, name="prog")
        ck.cov["traces_validated_against_impl"] += len(res)
        for ok, m in zip(res, metas):
            if not ok:
                mv = ck.coq_show(HDR, "run_trace %s %s" % (m["image0"], clist(["(%s)" % o for o in m["ops"]])))
                m = dict(m)
                m["model_trace"] = mv
                ck.fail("model-vs-impl/program", "model and implementation disagree on a program of image operations: %s" % (m["program"],), m)
                break
        res = ck.coq_bools(HDR, sterms, shard=150, name="items")
        ck.cov["traces_validated_against_impl"] += len(res)
        for ok, m in zip(res, smetas):
            if not ok:
                ck.fail("model-vs-impl/%s" % ("scalar-result" if "scalar" in m else "iter_axis-item"),
                        "model and implementation disagree on %s" % m["op"], m)
                break
    ck.section("programs", programs=len(terms), single_steps=len(sterms))


def axis_representatives(n, per_seq):
    """per distinct selected index sequence of range(n): up to per_seq raw slices producing it, plus every integer"""
    groups = {}
    for s in slicer_choices(n):
        if isinstance(s, int):
            continue
        key = tuple(range(n)[s])
        groups.setdefault(key, []).append(s)
    reps = list(range(-n, n))
    for key, lst in sorted(groups.items(), key=lambda kv: (len(kv[0]), kv[0])):
        # prefer syntactically different forms: first, last, middle
        pick = [lst[0], lst[-1], lst[len(lst) // 2]][:per_seq]
        seen = []
        for s in pick:
            if (s.start, s.stop, s.step) not in seen:
                seen.append((s.start, s.stop, s.step))
                reps.append(s)
    return reps


def section_exhaustive_slices(ck, rng):
    """every slice tuple (up to the raw syntax of each per-axis slice, which section slice.indices covers exhaustively)
    over small shapes, with Ellipsis at every position and every shorter tuple"""
    from nipy.core.api import Image
    if ck.thorough():
        shapes = [s for nd in (1, 2) for s in itertools.product(range(1, 4), repeat=nd)] + \
                 [(3, 3, 3), (2, 3, 3), (1, 2, 3), (3, 1, 2), (2, 2, 2), (3, 2, 1)]
        per_seq = 2
    else:
        shapes = [s for nd in (1, 2) for s in itertools.product(range(1, 3), repeat=nd)] + [(3,), (2, 3), (2, 1, 2)]
        per_seq = 1
    terms, metas = [], []
    for shape in shapes:
        img = rand_image(rng, ndim=len(shape))
        # replace data/shape: build a fresh image of exactly this shape with the same kind of coordmap
        for _ in range(50):
            if img.shape == tuple(shape):
                break
            img = rand_image(rng, ndim=len(shape), maxext=3)
        else:
            from nipy.core.api import Image as _I
            N = int(np.prod(shape))
            img = _I((rng.permutation(N) + 1.0).reshape(shape), img.coordmap)
        snap = snapshot(img)
        nd = len(shape)
        reps = [axis_representatives(n, per_seq if nd < 3 else 1) for n in shape]
        tuples = []
        for k in range(0, nd + 1):
            for combo in itertools.product(*reps[:k]):
                tuples.append(tuple(combo))
            for pos in range(0, k + 1):       # Ellipsis at every position, k explicit entries
                before = reps[:pos]
                after = reps[nd - (k - pos):] if k - pos > 0 else []
                if nd >= 3 and k == nd and pos not in (0, nd):
                    continue
                for combo in itertools.product(*(before + after)):
                    tuples.append(tuple(combo[:pos]) + (Ellipsis,) + tuple(combo[pos:]))
        if not ck.thorough() and len(tuples) > 700:
            idx = rng.permutation(len(tuples))[:700]
            tuples = [tuples[int(i)] for i in sorted(idx)]
        for sl in tuples:
            with warnings.catch_warnings():
                warnings.simplefilter("ignore")
                try:
                    r = img[sl]
                    e = None
                except Exception as ex:   # noqa
                    r, e = None, ex
            cop = "OGetitem %s" % clist([cslicer(s) for s in sl])
            if e is not None:
                k = errkind(e, "getitem")
                if k is None:
                    ck.fail("getitem/unexpected-exception", "img[%r] raised %s: %s" % (sl, type(e).__name__, e), {"image": rimg(img), "index": repr(sl)})
                    continue
                terms.append("step_agrees %s (%s) (IErr %s)" % (cimg(img), cop, k))
                ck.count(("ex", shape, repr(sl)), nontrivial=False, bucket="exhaustive:refused")
            elif isinstance(r, Image):
                msg = check_tracks(r, img, None)
                if msg:
                    ck.fail("getitem/%s" % msg, "img[%r] on shape %r: (named world point, value) pairs not preserved" % (sl, shape),
                            {"image": rimg(img), "index": repr(sl), "result": rimg(r)})
                # data are NumPy's own selection (oracle sampled): compare with the documented index sequences
                terms.append("step_agrees %s (%s) (IOk %s)" % (cimg(img), cop, cimg(r)))
                ck.count(("ex", shape, repr(sl)), nontrivial=True, bucket="exhaustive:ndim=%d" % nd)
            else:
                terms.append("scalar_agrees %s (%s) %s" % (cimg(img), cop, cz(int(np.asarray(r)))))
                ck.count(("ex", shape, repr(sl)), nontrivial=True, bucket="exhaustive:0-d")
            metas.append({"image": cimg(img), "index": repr(sl)})
        if snapshot(img) != snap:
            ck.fail("getitem/operand-mutated", "slicing changed the operand", {"image": rimg(img)})
    if ck.build.ok:
        res = ck.coq_bools(HDR, terms, shard=250, name="exh")
        ck.cov["traces_validated_against_impl"] += len(res)
        for ok, m in zip(res, metas):
            if not ok:
                ck.fail("model-vs-impl/getitem", "model and implementation disagree on img[%s]" % m["index"], m)
                break
    ck.section("exhaustive-slices", shapes=[list(s) for s in shapes], tuples=len(terms))


def section_all_orders(ck, rng):
    """every axis order (ints and names) for images of 1..4 dims; every rollimg(axis, start) pair"""
    from nipy.core.image import image as imod
    terms, metas = [], []
    maxnd = ck.n(3, 4)
    with Spy() as spy:
        for nd in range(1, maxnd + 1):
            for rep in range(ck.n(1, 3)):
                img = rand_image(rng, ndim=nd, maxext=3)
                for order in itertools.permutations(range(nd)):
                    for arg in (list(order), [str(img.axes.coord_names[i]) for i in order]):
                        try:
                            r = img.reordered_axes(arg)
                        except Exception as ex:   # noqa
                            ck.fail("reordered_axes/unexpected-exception", "reordered_axes(%r) on %d axes raised %s: %s" % (arg, nd, type(ex).__name__, ex),
                                    {"image": rimg(img), "order": arg})
                            continue
                        msg = check_tracks(r, img, None)
                        if msg or list(r.shape) != [img.shape[i] for i in order]:
                            ck.fail("reordered_axes/%s" % (msg or "shape-not-permuted"), "reordered_axes(%r) on shape %r" % (arg, img.shape),
                                    {"image": rimg(img), "order": arg, "result": rimg(r)})
                        terms.append("step_agrees %s (OReorderAxes %s) (IOk %s)" % (cimg(img), corder(arg), cimg(r)))
                        metas.append({"image": cimg(img), "op": "reordered_axes(%r)" % (arg,)})
                        ck.count(("order", nd, rep, tuple(arg)), nontrivial=list(order) != list(range(nd)), bucket="all-orders:ndim=%d" % nd)
                for a in range(-nd, nd):
                    for s in range(-nd, nd + 1):
                        n0 = len(spy.calls)
                        try:
                            r = imod.rollimg(img, a, s)
                        except Exception as ex:   # noqa
                            ck.fail("rollimg/unexpected-exception", "rollimg(img, %d, %d) on a %d-in/%d-out image raised %s: %s"
                                    % (a, s, nd, img.coordmap.ndims[1], type(ex).__name__, ex), {"image": rimg(img), "axis": a, "start": s})
                            continue
                        msg = check_tracks(r, img, None)
                        # documented meaning: the rolled axis ends up just before the axis that was at `start`
                        an = img.axes.coord_names[a]
                        names = [n for n in img.axes.coord_names if n != an]
                        sa = s + nd if s < 0 else s
                        aa = a + nd if a < 0 else a
                        pos = sa - 1 if aa < sa else sa
                        names.insert(pos, an)
                        if msg or list(r.axes.coord_names) != names:
                            ck.fail("rollimg/%s" % (msg or "axis-not-before-start"), "rollimg(img, %d, %d) on %d axes gives axes %r, expected %r"
                                    % (a, s, nd, list(r.axes.coord_names), names), {"image": rimg(img), "axis": a, "start": s, "result": rimg(r)})
                        terms.append("step_agrees %s (ORollimg %s %s []) (IOk %s)" % (cimg(img), caxid(a), caxid(s), cimg(r)))
                        metas.append({"image": cimg(img), "op": "rollimg(img, %d, %d)" % (a, s)})
                        ck.count(("roll", nd, rep, a, s), nontrivial=True, bucket="all-rolls:ndim=%d" % nd)
    if ck.build.ok:
        res = ck.coq_bools(HDR, terms, shard=200, name="orders")
        ck.cov["traces_validated_against_impl"] += len(res)
        for ok, m in zip(res, metas):
            if not ok:
                ck.fail("model-vs-impl/%s" % m["op"].split("(")[0], "model and implementation disagree on %s" % m["op"], m)
                break
    ck.section("all-orders", cases=len(terms), max_ndim=maxnd)


def section_as_xyz(ck, rng):
    """as_xyz_image on images whose reference has x, y, z (and t, u) in scrambled order and whose axes are permuted/flipped"""
    from nipy.core.api import Image, AffineTransform, CoordinateSystem as CS
    from nipy.core.image.image_spaces import as_xyz_image
    from nipy.core.reference import spaces as rsp
    terms, metas = [], []
    n = ck.n(40, 400)
    with Spy() as spy:
        for c in range(n):
            nd = int(rng.choice([3, 3, 4]))
            nout = nd + (1 if rng.random() < 0.15 else 0)
            shape = tuple(int(v) for v in rng.integers(1, 4, nd))
            N = int(np.prod(shape))
            data = (rng.permutation(N) + 1.0).reshape(shape)
            outn = [str(v) for v in rng.permutation(["x", "y", "z", "t", "u"][:nout])]
            inn = [str(v) for v in rng.permutation(IN_POOL)][:nd]
            A = np.zeros((nout + 1, nd + 1))
            rows = rng.permutation(nout)[:nd]
            for j, r_ in enumerate(rows):
                A[r_, j] = int(rng.choice([-3, -2, -1, 1, 2, 3]))
            style = rng.random()
            if style < 0.15:       # zero TR
                A[:-1, int(rng.integers(0, nd))] = 0
            elif style < 0.3:      # non-spatial axis leaks into a spatial coordinate
                A[int(rng.integers(0, nout)), int(rng.integers(0, nd))] += 1
            A[:-1, -1] = rng.integers(-4, 5, nout)
            A[-1, -1] = 1
            A, _mag = apply_magnitudes(rng, A)
            img = Image(data, AffineTransform(CS(inn, "voxels"), CS(outn, "world"), A))
            snap = snapshot(img)
            try:
                rsp.xyz_affine(img.coordmap, NAME2XYZ)
                affable = True
            except (rsp.AxesError, rsp.AffineError):
                affable = False
            try:
                order = [int(v) for v in rsp.xyz_order(img.coordmap.function_range, NAME2XYZ)]
            except rsp.AxesError:
                order = None
            n0 = len(spy.calls)
            try:
                r = as_xyz_image(img, NAME2XYZ)
                e, affable2 = None, True
            except rsp.SpaceError as ex:
                r, e = None, ex
                affable2 = not str(ex).startswith("Could not reorder")
            # io_orientation calls: xyz_affine(img) [spaces module, not spied], reordered image [spied], final xyz_affine [not spied]
            ornts = spy.calls[n0] if len(spy.calls) > n0 else []
            cop = "OAsXyz %s %s %s %s" % (cbool(affable), copt(order, cnatl), cornts(ornts), cbool(affable2))
            if snapshot(img) != snap:
                ck.fail("as_xyz/operand-mutated", "as_xyz_image changed its operand", {"image": rimg(img)})
            if e is None:
                msg = check_tracks(r, img, None)
                if msg is None:
                    try:
                        rsp.xyz_affine(r.coordmap, NAME2XYZ)
                    except rsp.SpaceError:
                        msg = "result-not-xyz-affable"
                if msg:
                    ck.fail("as_xyz/%s" % msg, "as_xyz_image result violates the property", {"image": rimg(img), "result": rimg(r)})
                terms.append("step_agrees %s (%s) (IOk %s)" % (cimg(img), cop, cimg(r)))
                ck.count(("asxyz", c), nontrivial=not affable, bucket="as_xyz:%s" % ("unchanged" if affable else "reordered"))
            else:
                terms.append("step_agrees %s (%s) (IErr ISpace)" % (cimg(img), cop))
                ck.count(("asxyz", c), nontrivial=False, bucket="as_xyz:refused")
            metas.append({"image": cimg(img), "op": cop})
    if ck.build.ok:
        res = ck.coq_bools(HDR, terms, shard=100, name="asxyz")
        ck.cov["traces_validated_against_impl"] += len(res)
        for ok, m in zip(res, metas):
            if not ok:
                ck.fail("model-vs-impl/as_xyz_image", "model and implementation disagree on as_xyz_image", m)
                break
    ck.section("as_xyz", cases=len(terms))


class AxSpy:
    """records (axis_id, (in_dim, out_dim)) of every io_axis_indices call made by nipy (oracle values for the model)"""

    def __init__(self):
        import nipy.core.reference.coordinate_map as cmod
        import nipy.core.image.image_list as ilmod
        self.mods = [cmod, ilmod]
        self.orig = [m.io_axis_indices for m in self.mods]
        self.calls = []

    def __enter__(self):
        def mk(f):
            def w(cm, axis_id, *a, **k):
                r = f(cm, axis_id, *a, **k)
                self.calls.append((axis_id, r))
                return r
            return w
        for m, f in zip(self.mods, self.orig):
            m.io_axis_indices = mk(f)
        return self

    def __exit__(self, *a):
        for m, f in zip(self.mods, self.orig):
            m.io_axis_indices = f


def coupled_image(rng, nd):
    """integer affine in which the listed axis may leak into kept world axes: sheared / oblique / zero TR / diagonal"""
    from nipy.core.api import Image, AffineTransform, CoordinateSystem as CS
    shape = tuple(int(v) for v in rng.integers(1, 4, nd))
    if rng.random() < 0.7:
        shape = tuple(max(2, v) for v in shape)
    N = int(np.prod(shape))
    data = (rng.permutation(N) + 1.0).reshape(shape)
    nout = nd + (1 if rng.random() < 0.15 else 0)
    inn = [str(v) for v in rng.permutation(IN_POOL)][:nd]
    outn = [str(v) for v in rng.permutation(OUT_POOL)][:nout]
    A = np.zeros((nout + 1, nd + 1), dtype=np.int64)
    rows = rng.permutation(nout)[:nd]
    for j, r_ in enumerate(rows):
        A[r_, j] = int(rng.choice([-4, -3, 3, 4]))
    style = str(rng.choice(["diagonal", "sheared", "sheared", "oblique", "oblique", "zero-TR", "zero-TR+shear"]))
    if style in ("sheared", "zero-TR+shear"):      # one axis leaks into another world coordinate
        j = int(rng.integers(0, nd))
        others = [r_ for r_ in range(nout) if r_ != rows[j]]
        if others:
            A[others[int(rng.integers(0, len(others)))], j] = int(rng.choice([-1, 1, 2]))
    if style == "oblique":                          # every axis leaks a little into every coordinate
        A[:-1, :-1] += rng.integers(-1, 2, (nout, nd))
    if style in ("zero-TR", "zero-TR+shear"):
        j = int(rng.integers(0, nd))
        A[rows[j], j] = 0
    A[:-1, -1] = rng.integers(-5, 6, nout)
    A[-1, -1] = 1
    A, mag = apply_magnitudes(rng, A)
    return Image(data, AffineTransform(CS(inn, "voxels"), CS(outn, "world"), A)), style + ("" if mag == "unit" else "+" + mag)


def section_image_list(ck, rng):
    """ImageList.from_image / __getitem__ / iter_axis listing: EVERY element against the model and the original"""
    from nipy.core.api import Image, ImageList
    from nipy.core.image import image as imod
    from nipy.core.reference.coordinate_map import AxisError
    terms, metas = [], []
    nimg = ck.n(45, 400)
    with AxSpy() as axspy:
        for c in range(nimg):
            nd = int(rng.choice([2, 3, 3, 4]))
            img, style = coupled_image(rng, nd)
            snap = snapshot(img)
            otab = dict(world_table(img))
            ids = list(range(-nd, nd)) + [str(n) for n in img.axes.coord_names] + [str(n) for n in img.reference.coord_names]
            pick = [ids[int(i)] for i in rng.permutation(len(ids))[:ck.n(3, 5)]]
            for axis in pick:
                # plain listing with iter_axis: the union of the items' tables is the original's table
                try:
                    with warnings.catch_warnings():
                        warnings.simplefilter("ignore")
                        items = list(imod.iter_axis(img, axis))
                except AxisError:
                    items = None
                except Exception as ex:   # noqa
                    ck.fail("iter_axis/unexpected-exception", "list(iter_axis(img, %r)) raised %s: %s" % (axis, type(ex).__name__, ex),
                            {"image": rimg(img), "axis": axis})
                    items = None
                if items is not None:
                    msg = union_check(items, otab, None)
                    if msg:
                        ck.fail("iter_axis/%s/%s" % msg[:2], "list(iter_axis(img, %r)) on a %s affine: %s" % (axis, style, msg[2]),
                                {"image": rimg(img), "axis": axis, "style": style, "element": msg[3]})
                for dropout in (False, True):
                    n0 = len(axspy.calls)
                    try:
                        with warnings.catch_warnings():
                            warnings.simplefilter("ignore")
                            ilist = ImageList.from_image(img, axis=axis, dropout=dropout)
                        e = None
                    except Exception as ex:   # noqa
                        ilist, e = None, ex
                    calls = axspy.calls[n0:]
                    if snapshot(img) != snap:
                        ck.fail("image_list/operand-mutated", "ImageList.from_image changed its operand", {"image": rimg(img), "axis": axis})
                    if not calls:
                        ck.fail("image_list/no-io_axis_indices-call", "from_image did not resolve the axis through io_axis_indices", {"axis": axis})
                        continue
                    in_ax, out_ax = calls[0][1]
                    dpairs = [cl[1] for cl in calls[1:]]
                    feat = "%s,dropout=%s" % (style, dropout)
                    if e is not None:
                        if isinstance(e, (AxisError, ValueError)):
                            # refusal: the model must refuse the element at which nipy stopped
                            k = max(len(dpairs) - 1, 0)
                            dp = dpairs[k] if dpairs else (None, None)
                            kind = "IAxis" if isinstance(e, AxisError) else "IValue"
                            terms.append("list_item_agrees %s %s %s %s %s (%s, %s) %s (IErr %s)" % (
                                cimg(img), copt(in_ax, cnat), copt(out_ax, cnat), cbool(dropout), cnat(k),
                                copt(dp[0], cnat), copt(dp[1], cnat), cz(tinyz()), kind))
                            metas.append({"image": rimg(img), "axis": axis, "dropout": dropout, "element": k, "impl": repr(e)})
                            ck.count(("ilist", c, axis, dropout), nontrivial=False, bucket="image_list:refused")
                        else:
                            ck.fail("image_list/unexpected-exception", "ImageList.from_image(img, %r, dropout=%s) raised %s: %s"
                                    % (axis, dropout, type(e).__name__, e), {"image": rimg(img), "axis": axis, "dropout": dropout})
                        continue
                    els = ilist.list
                    if len(els) != img.shape[in_ax]:
                        ck.fail("image_list/length", "len(ImageList.from_image(img, %r)) = %d, axis extent %d" % (axis, len(els), img.shape[in_ax]),
                                {"image": rimg(img), "axis": axis})
                    dropped = img.reference.coord_names[out_ax] if (dropout and out_ax is not None) else None
                    msg = union_check(els, otab, dropped)
                    if msg:
                        ck.fail("image_list/%s/%s" % msg[:2], "ImageList.from_image(img, %r, dropout=%s) on a %s affine: %s"
                                % (axis, dropout, style, msg[2]),
                                {"image": rimg(img), "axis": axis, "dropout": dropout, "style": style, "element": msg[3],
                                 "element_image": rimg(els[msg[3]]) if msg[3] is not None else None})
                    # ImageList.__getitem__: integers (also negative) return the element, slices a list of the same elements
                    L = len(els)
                    okget = all(ilist[j] is els[j] for j in range(-L, L))
                    for sl in (slice(None, None, -1), slice(1, None, 2), slice(-2, None)):
                        sub = ilist[sl]
                        okget = okget and isinstance(sub, ImageList) and len(sub.list) == len(els[sl]) and \
                            all(a is b for a, b in zip(sub.list, els[sl]))
                    if not okget:
                        ck.fail("image_list/getitem", "ImageList.__getitem__ does not return the listed elements", {"image": rimg(img), "axis": axis})
                    for k, el in enumerate(els):
                        if not (isinstance(el, Image) and is_int_array(el.affine)):
                            continue
                        dp = dpairs[k] if (dropped is not None and k < len(dpairs)) else (None, None)
                        terms.append("list_item_agrees %s %s %s %s %s (%s, %s) %s (IOk %s)" % (
                            cimg(img), copt(in_ax, cnat), copt(out_ax, cnat), cbool(dropout), cnat(k),
                            copt(dp[0], cnat), copt(dp[1], cnat), cz(tinyz()), cimg(el)))
                        metas.append({"image": rimg(img), "axis": axis, "dropout": dropout, "element": k, "style": style, "impl": rimg(el)})
                        ck.count(("ilist", c, axis, dropout, k), nontrivial=True, bucket="image_list:%s:element%s" % (feat, "0" if k == 0 else ">0"))
    if ck.build.ok:
        res = ck.coq_bools(HDR, terms, shard=150, name="ilist")
        ck.cov["traces_validated_against_impl"] += len(res)
        for ok, m in zip(res, metas):
            if not ok:
                ck.fail("model-vs-impl/image_list/element%s" % ("0" if m["element"] == 0 else ">0"),
                        "model and implementation disagree on element %d of ImageList.from_image(img, %r, dropout=%s)"
                        % (m["element"], m["axis"], m["dropout"]), m)
                break
    ck.section("image_list", images=nimg, elements=len(terms))


def union_check(elements, otab, dropped):
    """all elements together: every value of the original exactly once, each at its original named world point
    (minus the dropped coordinate).  -> None or (failure, feature, text, element index)"""
    seen = set()
    for k, el in enumerate(elements):
        feat = "element0" if k == 0 else "element>0"
        d = np.asarray(el.get_fdata())
        if d.ndim != el.coordmap.ndims[0]:
            return ("shape-vs-coordmap-input-dimension", feat, "element %d has %d data axes, coordmap %d inputs" % (k, d.ndim, el.coordmap.ndims[0]), k)
        for v, w in world_table(el):
            if v in seen:
                return ("value-duplicated", feat, "value %g occurs twice in the list" % v, k)
            seen.add(v)
            if v not in otab:
                return ("value-invented", feat, "value %g of element %d is not in the image" % (v, k), k)
            want = frozenset((n, x) for n, x in otab[v] if n != dropped)
            if w != want:
                return ("world-position-changed", feat + mag_suffix(), "value %g: the image has it at %s, element %d puts it at %s"
                        % (v, sorted(want), k, sorted(w)), k)
    if seen != set(otab):
        return ("values-lost", "all-elements", "%d of %d values are in no element" % (len(set(otab) - seen), len(otab)), None)
    return None


def section_renamings(ck, rng):
    """renamed_axes / renamed_reference with new names that are OLD names of other axes: every swap, 3-cycle and chain,
    both keyword orders, plus fresh names"""
    terms, metas = [], []
    for nd in range(1, ck.n(4, 5)):
        for rep in range(ck.n(1, 3)):
            img = rand_image(rng, ndim=nd, maxext=3, int_ok=(rep == 2))
            for ax in (True, False):
                names = [str(n) for n in (img.axes.coord_names if ax else img.reference.coord_names)]
                fresh = [nm for nm in ["aa", "bb", "cc"] if nm not in names]
                cands = [[(names[0], fresh[0])]]
                for a, b in itertools.permutations(names, 2):
                    cands.append([(a, b), (b, a)])
                    cands.append([(a, b), (b, fresh[0])])
                    cands.append([(a, b)])                         # collision: refused
                for a, b, c_ in itertools.permutations(names, 3):
                    cands.append([(a, b), (b, c_), (c_, a)])
                    cands.append([(a, b), (b, c_), (c_, fresh[0])])
                if len(cands) > 40:
                    cands = [cands[int(i)] for i in sorted(rng.permutation(len(cands))[:40])]
                for pairs in cands:
                    for order in (pairs, pairs[::-1]):
                        d = dict(order)
                        what = "%s(**%r)" % ("renamed_axes" if ax else "renamed_reference", d)
                        snap = snapshot(img)
                        try:
                            r = img.renamed_axes(**d) if ax else img.renamed_reference(**d)
                            e = None
                        except Exception as ex:   # noqa
                            r, e = None, ex
                        if snapshot(img) != snap:
                            ck.fail("%s/operand-mutated" % what.split("(")[0], "%s changed its operand" % what, {"image": rimg(img), "renaming": order})
                        cop = "%s %s" % ("ORenameAxes" if ax else "ORenameRef", cnn(d))
                        kind = "renamed_axes" if ax else "renamed_reference"
                        struct = "collision" if len(pairs) == 1 and pairs[0][1] in names else \
                            "fresh" if len(pairs) == 1 else "swap" if len(pairs) == 2 and pairs[1][1] == pairs[0][0] else \
                            "cycle3" if len(pairs) == 3 and pairs[2][1] == pairs[0][0] else "chain"
                        if e is not None:
                            k = errkind(e, kind)
                            if k is None:
                                ck.fail("%s/unexpected-exception/%s" % (kind, struct), "%s on names %r raised %s: %s" % (what, names, type(e).__name__, e),
                                        {"image": rimg(img), "renaming": order})
                                continue
                            terms.append("step_agrees %s (%s) (IErr %s)" % (cimg(img), cop, k))
                            ck.count(("ren", nd, rep, ax, tuple(order)), nontrivial=False, bucket="renamings:refused")
                        else:
                            want = [d.get(n, n) for n in names]
                            got = [str(n) for n in (r.axes.coord_names if ax else r.reference.coord_names)]
                            msg = check_tracks(r, img, None if ax else d)
                            if msg is None and got != want:
                                msg = "names-not-renamed-simultaneously"
                            if msg:
                                ck.fail("%s/%s/%s" % (kind, msg, struct), "%s on names %r gives names %r (expected %r): every value must sit at the same "
                                        "position under the NEW name of each coordinate" % (what, names, got, want),
                                        {"image": rimg(img), "renaming": order, "result": rimg(r), "expected_names": want})
                            terms.append("step_agrees %s (%s) (IOk %s)" % (cimg(img), cop, cimg(r)))
                            ck.count(("ren", nd, rep, ax, tuple(order)), nontrivial=True, bucket="renamings:%s:%s" % (kind, struct))
                        metas.append({"image": rimg(img), "op": what})
    if ck.build.ok:
        res = ck.coq_bools(HDR, terms, shard=200, name="ren")
        ck.cov["traces_validated_against_impl"] += len(res)
        for ok, m in zip(res, metas):
            if not ok:
                ck.fail("model-vs-impl/%s" % m["op"].split("(")[0], "model and implementation disagree on %s" % m["op"], m)
                break
    ck.section("renamings", cases=len(terms))


# ---------------------------------------------------------------- iterators: lazy vs materialised consumption
def _state(obj):
    """value of a yielded object (Image or array), by copy"""
    if hasattr(obj, "coordmap"):
        return ("image",) + snapshot(obj)
    a = np.asarray(obj)
    return ("array", a.shape, a.tobytes())


def _buffer(obj):
    return np.asarray(obj.get_fdata()) if hasattr(obj, "coordmap") else np.asarray(obj)


def consume_both(make_iter):
    """Consume an iterator/generator of the implementation twice: lazily (each object observed when it is yielded,
    a reference kept past the following steps) and materialised with list(...).  -> (failure or None, lazy states,
    materialised objects).  Failures: a yielded object changes after a later step / the materialised list differs
    from what lazy consumption saw / two yielded objects are the same object or overlap in memory."""
    kept, seen = [], []
    for obj in make_iter():
        seen.append(_state(obj))          # lazily: the value when yielded
        kept.append(obj)                  # reference kept beyond the next step
    for k, obj in enumerate(kept):
        if _state(obj) != seen[k]:
            return ("item-changed-after-a-later-step", k), seen, kept
    mat = list(make_iter())
    if len(mat) != len(seen):
        return ("materialised-length-differs", None), seen, mat
    for k, obj in enumerate(mat):
        if _state(obj) != seen[k]:
            return ("materialised-differs-from-lazy", k), seen, mat
    for objs in (kept, mat):
        for a in range(len(objs)):
            for b in range(a + 1, len(objs)):
                if objs[a] is objs[b]:
                    return ("same-object-yielded-twice", b), seen, mat
                ba, bb = _buffer(objs[a]), _buffer(objs[b])
                if ba.size and bb.size and np.shares_memory(ba, bb):
                    return ("items-overlap-in-memory", b), seen, mat
    return None, seen, mat


def section_iterators(ck, rng):
    """every iterator of the property - iter_axis(asarray=False / True), ImageList.from_image(...) iterated with
    for / next() and through .list, Image.__iter__ (refused) - consumed lazily and after materialising"""
    from nipy.core.api import Image, ImageList
    from nipy.core.image import image as imod
    from nipy.core.reference.coordinate_map import AxisError
    terms, metas = [], []
    nimg = ck.n(40, 300)
    with Spy() as spy:
        for c in range(nimg):
            img = rand_image(rng, maxext=3) if c % 2 else coupled_image(rng, int(rng.choice([2, 3, 4])))[0]
            nd = img.ndim
            snap = snapshot(img)
            allvals = sorted(np.asarray(img.get_fdata()).ravel().tolist())
            try:
                iter(img)
                ck.fail("Image.__iter__/not-refused", "iter(img) did not raise TypeError", {"image": rimg(img)})
            except TypeError:
                pass
            ids = list(range(-nd, nd)) + [str(n) for n in img.axes.coord_names] + [str(n) for n in img.reference.coord_names]
            for axis in [ids[int(i)] for i in rng.permutation(len(ids))[:3]]:
                ref_items = None
                for asarray in (False, True):
                    what = "iter_axis(img, %r, asarray=%s)" % (axis, asarray)
                    n0 = len(spy.calls)
                    try:
                        with warnings.catch_warnings():
                            warnings.simplefilter("ignore")
                            bad, seen, mat = consume_both(lambda: imod.iter_axis(img, axis, asarray=asarray))
                    except AxisError:
                        ck.count(("iter", c, axis, asarray), nontrivial=False, bucket="iterators:refused")
                        break
                    except Exception as ex:   # noqa
                        if nd == 1 and asarray and isinstance(ex, AttributeError):
                            # rimg[i] of a 1-d image is a bare 0-d value, which has no get_fdata()
                            ck.fail("iter_axis(asarray=True)/raises-AttributeError/1-d-image", "%s on a 1-d image raised %s: %s" % (what, type(ex).__name__, ex),
                                    {"image": rimg(img), "axis": axis})
                        else:
                            ck.fail("iter_axis/unexpected-exception", "%s raised %s: %s" % (what, type(ex).__name__, ex), {"image": rimg(img), "axis": axis})
                        break
                    ornts = spy.calls[n0] if len(spy.calls) > n0 else []
                    tag = "iter_axis(asarray=%s)" % asarray
                    if snapshot(img) != snap:
                        ck.fail("%s/operand-mutated" % tag, "%s changed the image" % what, {"image": rimg(img), "axis": axis})
                    if bad:
                        ck.fail("%s/aliasing/%s" % (tag, bad[0]), "%s on shape %r: %s (item %s): every yielded slice must keep its own values "
                                "whether consumed one at a time or kept in a list" % (what, img.shape, bad[0], bad[1]),
                                {"image": rimg(img), "axis": axis, "asarray": asarray, "item": bad[1]})
                        continue
                    if not asarray:
                        ref_items = mat
                        continue
                    # asarray=True: item k is the data of image item k; all values exactly once; model comparison
                    vals = sorted(np.concatenate([np.asarray(a).ravel() for a in mat]).tolist()) if mat else []
                    if vals != allvals:
                        ck.fail("%s/items-do-not-partition" % tag, "%s: the yielded arrays do not contain every value exactly once" % what,
                                {"image": rimg(img), "axis": axis})
                    for k, a in enumerate(mat):
                        a = np.asarray(a)
                        if ref_items is not None and k < len(ref_items) and not np.array_equal(a, _buffer(ref_items[k])):
                            ck.fail("%s/differs-from-image-item/%s" % (tag, "item0" if k == 0 else "item>0"),
                                    "%s: array %d differs from the data of image item %d" % (what, k, k), {"image": rimg(img), "axis": axis, "item": k})
                        terms.append("array_item_agrees %s %s %s %s %s %s" % (cimg(img), caxid(axis), cornts(ornts), cnat(k),
                                                                            cnatl(a.shape), czl([int(v) for v in a.ravel()])))
                        metas.append({"image": rimg(img), "axis": axis, "item": k, "impl_array": a.tolist()})
                        ck.count(("iter", c, axis, k), nontrivial=True, bucket="iterators:asarray-item%s" % ("0" if k == 0 else ">0"))
                # ImageList: iteration protocol (for / next) lazily and materialised, twice in a row, and .list
                for dropout in (False, True):
                    try:
                        with warnings.catch_warnings():
                            warnings.simplefilter("ignore")
                            ilist = ImageList.from_image(img, axis=axis, dropout=dropout)
                    except (AxisError, ValueError):
                        continue
                    except Exception as ex:   # noqa
                        if nd == 1 and dropout and isinstance(ex, AttributeError):
                            # the items of a 1-d image are bare 0-d values, which have no coordmap
                            ck.fail("image_list/raises-AttributeError/1-d-image/dropout", "ImageList.from_image(img, %r, dropout=True) on a 1-d image raised %s: %s"
                                    % (axis, type(ex).__name__, ex), {"image": rimg(img), "axis": axis})
                        else:
                            ck.fail("image_list/unexpected-exception", "ImageList.from_image(img, %r, dropout=%s) raised %s: %s"
                                    % (axis, dropout, type(ex).__name__, ex), {"image": rimg(img), "axis": axis})
                        continue
                    bad, seen, mat = consume_both(lambda: iter(ilist))
                    if not bad and [_state(e) for e in ilist.list] != seen:
                        bad = ("iteration-differs-from-list", None)
                    if not bad and not all(a is b for a, b in zip(mat, ilist.list)):
                        bad = ("iteration-does-not-yield-the-listed-elements", None)
                    if bad:
                        ck.fail("ImageList.__iter__/aliasing/%s" % bad[0], "iterating ImageList.from_image(img, %r, dropout=%s): %s (item %s)"
                                % (axis, dropout, bad[0], bad[1]), {"image": rimg(img), "axis": axis, "dropout": dropout, "item": bad[1]})
                    ck.count(("iterlist", c, axis, dropout), nontrivial=True, bucket="iterators:ImageList")
    if ck.build.ok:
        res = ck.coq_bools(HDR, terms, shard=200, name="iters")
        ck.cov["traces_validated_against_impl"] += len(res)
        for ok, m in zip(res, metas):
            if not ok:
                ck.fail("model-vs-impl/iter_axis(asarray=True)/%s" % ("item0" if m["item"] == 0 else "item>0"),
                        "model and implementation disagree on array %d of iter_axis(img, %r, asarray=True)" % (m["item"], m["axis"]), m)
                break
    ck.section("iterators", images=nimg, array_items=len(terms))


# ---------------------------------------------------------------- ImageList.get_list_data
def with_layout(img, layout):
    """the same image (equal values and coordmap) on a data array of another memory layout"""
    from nipy.core.api import Image
    d = np.asarray(img.get_fdata())
    if layout == "owns-C":
        a = np.array(d, order="C", copy=True)                    # owns its memory, C order
    elif layout == "owns-F":
        a = np.array(d, order="F", copy=True)                    # owns its memory, Fortran order
    elif layout == "strided-view":
        big = np.zeros(tuple(2 * n + 1 for n in d.shape))
        a = big[tuple(slice(1, None, 2) for _ in d.shape)]       # non-contiguous view of a larger array
        a[...] = d
    else:                                                        # "reshaped-view": view of a flat base array
        a = np.array(d.ravel(), copy=True).reshape(d.shape)
    return Image(a, img.coordmap)


def clim(shape, data):
    return "(%s, %s)" % (cnatl(shape), czl([int(v) for v in np.asarray(data).ravel()]))


def derived_lists(ImageList, Image, ilist, rng):
    """lists made from one ImageList through its own API (object reuse, re-ordering, replacement): (kind, list)"""
    n = len(ilist)
    out = [("plain", ilist), ("reversed", ilist[::-1]), ("copy", ilist[:])]
    if n >= 2:
        out.append(("rotated", ImageList([ilist[(k + 1) % n] for k in range(n)])))
        perm = [int(v) for v in rng.permutation(n)]
        out.append(("permuted", ImageList([ilist[k] for k in perm])))
        dup = ilist[:]
        dup[n - 1] = dup[0]
        out.append(("entry-replaced-by-another", dup))
        out.append(("strided-sublist", ilist[::2]))
        out.append(("tail-sublist", ilist[1:]))
        first = ilist[0]
        fresh = Image(np.asarray(first.get_fdata()) * 0 + 1000.0 + np.arange(first.get_fdata().size).reshape(first.shape), first.coordmap)
        mixed = ilist[:]
        mixed[int(rng.integers(0, n))] = fresh
        out.append(("entry-replaced-by-foreign-image", mixed))
        out.append(("list-repeated-twice", ImageList(list(ilist.list) + list(ilist.list))))
    return out


def section_list_data(ck, rng):
    """ImageList.get_list_data on lists made by iterating an image over an axis and then re-ordered / modified through the
    ImageList API, on data arrays of several memory layouts: every value at the list position of ITS image (list order),
    result = fresh memory (writing into it leaves every image unchanged), exactly vs the model (list_data_agrees)"""
    from nipy.core.api import Image, ImageList
    from nipy.core.image import image as imod
    from nipy.core.reference.coordinate_map import AxisError
    terms, metas = [], []
    nimg = ck.n(16, 120)
    layouts = ["owns-C", "owns-F", "strided-view", "reshaped-view"]
    ncalls = 0
    # the empty list
    try:
        ImageList().get_list_data(axis=0)
        ck.fail("get_list_data/empty-list-not-refused", "ImageList().get_list_data(axis=0) did not raise", {})
    except IndexError:
        terms.append("list_data_agrees [] 0%Z (IErr IIndex)")
        metas.append({"kind": "empty", "axis": 0})
    except Exception as ex:   # noqa
        ck.fail("get_list_data/unexpected-exception/empty", "ImageList().get_list_data(axis=0) raised %s: %s" % (type(ex).__name__, ex), {})
    for c in range(nimg):
        nd = int(rng.choice([2, 3, 3, 4]))
        base_img = coupled_image(rng, nd)[0] if c % 2 else rand_image(rng, ndim=nd, maxext=3, int_ok=False)
        layout = layouts[c % len(layouts)]
        img = with_layout(base_img, layout)
        snap = snapshot(img)
        names = [str(n) for n in img.axes.coord_names] + [str(n) for n in img.reference.coord_names]
        axes = list(range(nd)) + [-nd, names[0], names[int(rng.integers(0, len(names)))]]
        if ck.tier != "thorough":
            axes = [0, int(rng.integers(1, nd)), names[0] if c % 3 == 0 else -nd]
        for axis in axes:
            for maker in ("from_image", "from_image(dropout=False)", "ImageList(iter_axis)"):
                try:
                    with warnings.catch_warnings():
                        warnings.simplefilter("ignore")
                        if maker == "from_image":
                            ilist = ImageList.from_image(img, axis=axis)
                        elif maker == "from_image(dropout=False)":
                            ilist = ImageList.from_image(img, axis=axis, dropout=False)
                        else:
                            ilist = ImageList(imod.iter_axis(img, axis))
                except (AxisError, ValueError):
                    continue
                except Exception as ex:   # noqa
                    ck.fail("image_list/unexpected-exception", "%s over %r raised %s: %s" % (maker, axis, type(ex).__name__, ex),
                            {"image": rimg(img), "axis": axis})
                    continue
                first_axis = "first-axis" if (len(ilist) == img.shape[0] and len(ilist) and
                                              np.array_equal(ilist[0].get_fdata(), np.asarray(img.get_fdata())[0])) else "other-axis"
                for kind, dl in derived_lists(ImageList, Image, ilist, rng):
                    els = list(dl.list)
                    if not els:
                        continue
                    feat = "%s/%s" % (kind, first_axis)          # the memory layout is in the replay
                    esnaps = [snapshot(e) for e in els]
                    edata = [np.array(e.get_fdata(), copy=True) for e in els]
                    out_dim = els[0].ndim + 1
                    model_axes = set(int(v) for v in rng.integers(-out_dim, out_dim, 2)) | {int(rng.choice([out_dim, -out_dim - 1]))}
                    rep = {"image": rimg(img), "iterated_axis": axis, "made_by": maker, "list_kind": kind, "layout": layout,
                           "list_data": [np.asarray(d).tolist() for d in edata]}
                    for oax in range(-out_dim - 1, out_dim + 1):
                        ncalls += 1
                        try:
                            res = dl.get_list_data(axis=oax)
                            e = None
                        except Exception as ex:   # noqa
                            res, e = None, ex
                        inrange = -out_dim <= oax < out_dim
                        if e is not None:
                            if inrange or not isinstance(e, ValueError):
                                ck.fail("get_list_data/unexpected-exception/%s" % kind, "get_list_data(axis=%d) on a %s list raised %s: %s"
                                        % (oax, kind, type(e).__name__, e), dict(rep, axis=oax))
                            elif oax in model_axes:
                                terms.append("list_data_agrees %s %s (IErr IValue)" % (clist([clim(d.shape, d) for d in edata]), cz(oax)))
                                metas.append(dict(rep, axis=oax, kind=kind, impl=repr(e)))
                                ck.count(("ld", c, axis, maker, kind, oax), nontrivial=False, bucket="list_data:refused")
                            continue
                        if not inrange:
                            ck.fail("get_list_data/axis-out-of-range-not-refused", "get_list_data(axis=%d) with %d positions did not raise"
                                    % (oax, out_dim), dict(rep, axis=oax))
                            continue
                        pos = oax if oax >= 0 else oax + out_dim
                        res = np.asarray(res)
                        want_shape = edata[0].shape[:pos] + (len(els),) + edata[0].shape[pos:]
                        bad = None
                        if res.shape != want_shape:
                            bad = ("shape", None, "shape %r, expected %r" % (res.shape, want_shape))
                        else:
                            for k in range(len(els)):
                                if not np.array_equal(np.take(res, k, axis=pos), edata[k]):
                                    bad = ("value-at-wrong-list-position", k, "entry %d along axis %d does not hold the values of image %d of the list" % (k, pos, k))
                                    break
                        if bad:
                            ck.fail("get_list_data/%s/%s" % (bad[0], feat), "get_list_data(axis=%d) of a %s list (%s over %r, %s data): %s"
                                    % (oax, kind, maker, axis, layout, bad[2]), dict(rep, axis=oax, entry=bad[1], result=res.tolist()))
                        res_copy = res.copy()
                        # the result is new memory: it overlaps no image, and writing into it changes no image
                        shared = np.shares_memory(res, np.asarray(img.get_fdata())) or any(np.shares_memory(res, np.asarray(e_.get_fdata())) for e_ in els)
                        keep = np.array(img.get_fdata(), copy=True)
                        if res.flags.writeable:
                            res[...] = -77.0
                        changed = snapshot(img) != snap or [snapshot(e_) for e_ in els] != esnaps
                        if shared or changed:
                            ck.fail("get_list_data/result-aliases-image-data/%s" % feat,
                                    "get_list_data(axis=%d) of a %s list (%s over %r, %s data) returns memory shared with the images%s"
                                    % (oax, kind, maker, axis, layout, ": writing into the result changed them" if changed else ""),
                                    dict(rep, axis=oax, images_changed_by_writing_into_result=bool(changed)))
                            if changed:       # put the values back (every element is a view of the image's array, or fresh)
                                np.asarray(img.get_fdata())[...] = keep
                                for e_, d_ in zip(els, edata):
                                    np.asarray(e_.get_fdata())[...] = d_
                        if oax in model_axes:
                            terms.append("list_data_agrees %s %s (IOk %s)" % (clist([clim(d.shape, d) for d in edata]), cz(oax), clim(res_copy.shape, res_copy)))
                            metas.append(dict(rep, axis=oax, kind=kind, feat=feat, impl_shape=list(res_copy.shape), impl=res_copy.ravel().tolist()))
                            ck.count(("ld", c, axis, maker, kind, oax), nontrivial=(kind not in ("plain", "copy")), bucket="list_data:%s:%s" % (kind, first_axis))
                    # object reuse: the same list object after its entries were exchanged through __setitem__, and back
                    if kind == "copy" and len(els) >= 2:
                        for rnd in ("swapped", "swapped-back"):
                            dl[0], dl[len(els) - 1] = dl[len(els) - 1], dl[0]
                            cur = [np.array(e_.get_fdata(), copy=True) for e_ in dl.list]
                            r2 = np.asarray(dl.get_list_data(axis=0))
                            if r2.shape != (len(cur),) + cur[0].shape or not all(np.array_equal(r2[k], cur[k]) for k in range(len(cur))):
                                ck.fail("get_list_data/value-at-wrong-list-position/same-object-after-setitem:%s/%s" % (rnd, first_axis),
                                        "get_list_data(axis=0) after exchanging the first and last entry of the list (%s): entry k is not image k" % rnd,
                                        dict(rep, sequence=rnd, result=r2.tolist(), list_data_now=[d.tolist() for d in cur]))
        if snapshot(img) != snap:
            ck.fail("get_list_data/operand-mutated", "the image changed while lists over it were collected", {"image": rimg(img)})
    if ck.build.ok:
        hdr = HDR + "From NV.C02 Require Import ListData.\n"
        res = ck.coq_bools(hdr, terms, shard=250, name="listdata")
        ck.cov["traces_validated_against_impl"] += len(res)
        for ok, m in zip(res, metas):
            if not ok:
                ck.fail("model-vs-impl/get_list_data/%s" % m.get("feat", m["kind"]),
                        "model and implementation disagree on get_list_data(axis=%r) of a %s list" % (m["axis"], m["kind"]), m)
                break
    ck.section("list_data", images=nimg, get_list_data_calls=ncalls, model_terms=len(terms), layouts=layouts)


def guarded(ck, name, f, *args):
    """a crash inside one section is a structured failure of that section; the other sections still run"""
    import traceback
    try:
        f(ck, *args)
    except Exception as ex:   # noqa
        ck.fail("%s/section-exception" % name, "section %s raised %s: %s" % (name, type(ex).__name__, ex),
                {"kind": "harness-section-exception", "section": name, "trace": traceback.format_exc()[-3000:]}, found_input=False)


def run(ck):
    ck.cov["rule"] = ("images of 1..4 dims, extents 1..4, data = distinct integers, integer affines (permutation/flip/shear/zero column/"
                      "general, 0..2 more outputs than inputs, float64 and int64 systems, a name shared by an input and an output axis in 15%); "
                      "a case = one operation applied to one image (program step, exhaustive slice tuple, axis order, roll pair), one "
                      "slice.indices triple or one input_axis_index query; ~15% of program steps carry exactly one defect; non-trivial = result "
                      "differs from the operand in shape, data or affine; distinct by (operation, operand image)")
    ck.coq_build(extra_dirs=["C01"])
    ck.overlay()
    guarded(ck, "slice.indices", section_slice_indices)
    guarded(ck, "input_axis_index", section_input_axis_index, ck.rng("iai"))
    guarded(ck, "exhaustive-slices", section_exhaustive_slices, ck.rng("exhaustive"))
    guarded(ck, "all-orders", section_all_orders, ck.rng("orders"))
    guarded(ck, "renamings", section_renamings, ck.rng("renamings"))
    guarded(ck, "image_list", section_image_list, ck.rng("imagelist"))
    guarded(ck, "iterators", section_iterators, ck.rng("iterators"))
    guarded(ck, "list_data", section_list_data, ck.rng("listdata"))
    guarded(ck, "as_xyz", section_as_xyz, ck.rng("asxyz"))
    guarded(ck, "programs", section_programs, ck.rng("programs"))
    ck.section("value-magnitudes", originals_by_kind=dict(sorted(MAG_COUNTS.items())),
               note="rows / columns / offsets of the integer affines multiplied by 2**e, e in %r and %r; compared exactly after "
                    "scaling the reference coordinates by a power of two" % (MAG_EXPS_TINY, MAG_EXPS_HUGE))
    ck.trust.append("oracles: NumPy basic indexing and np.transpose (modelled by NdIndex.gather along explicit index maps; sampled on every case); "
                    "nibabel.io_orientation (its output column, recorded from the running call, is an argument of the model's rollimg/"
                    "iter_axis/as_xyz_image); spaces.xyz_affine / xyz_order outcomes are arguments of the model's as_xyz_image")
